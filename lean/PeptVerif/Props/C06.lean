import PeptVerif.Lemmas.SpansDigest
/-!
# C06 — digestion returns exactly the spans the rules define

Property theorems only. `IsEnz`, `IsSemi`, `IsSpan`, `NonSpecific` are the set specification of
`Spec/Spans.lean`; the left-hand sides are the models of `/repo/src/peptacular/spans.py`
(`Model/Spans.lean`). Every theorem is for ALL `n`, ALL site lists (unsorted, with duplicates), ALL
`mc`, `lo`, `hi` (or `none`) — no size bound anywhere.

Domain hypotheses that appear below, and why they are not removable (each is outside the domain the
property quantifies over: sites come from a regex over a string of length `n`, `min_len ≥ 1`):

* `hlo : 1 ≤ lo.getD 1` (non-specific and semi case). With `min_len = 0` the code returns empty spans
  `(s,s,0)` (and, semi-specific, even twice), which the specification does not regard as spans.
  See `lo_zero_gives_empty_spans`.
* `hn : 0 ≤ n`, `hb : ∀ s ∈ sites, 0 ≤ s ∧ s ≤ n` (non-specific and semi case). The shortcut test
  `len(set(sites)) == n+1` and the default `max_len = n` used for the parents of semi spans are only
  meaningful for sites inside `[0,n]`. See `site_outside_loses_semi_spans`.

The enzymatic case (`semi = false`) needs no hypothesis except that the shortcut is not taken.
-/
namespace Spans

/-! ## 1. the three simple builders -/

/-- `build_non_enzymatic_spans(span, lo, hi)`: all `(s,e,0)` with `start ≤ s < stop`, `e ≤ stop`, length
at least `lo` (default 1), at most `hi` (default: no bound) and strictly less than the parent's length. -/
theorem mem_buildNonEnzymatic (span : Span) (lo hi : Option Int) (x : Span) :
    x ∈ buildNonEnzymatic span lo hi ↔
      span.1 ≤ x.1 ∧ x.1 < span.2.1 ∧ x.2.1 ≤ span.2.1 ∧ x.2.2 = 0 ∧
        lo.getD 1 ≤ x.2.1 - x.1 ∧ x.2.1 - x.1 ≤ hi.getD (span.2.1 - span.1 - 1) ∧
        x.2.1 - x.1 < span.2.1 - span.1 := by
  obtain ⟨s, e, v⟩ := x
  rw [mem_buildNonEnzymatic']
  simp only
  constructor <;> (intro h; omega)

theorem nodup_buildNonEnzymatic (span : Span) (lo hi : Option Int) : (buildNonEnzymatic span lo hi).Nodup :=
  nodup_buildNonEnzymatic' span lo hi

example : (1, 3, 0) ∈ buildNonEnzymatic (0, 4, 7) none (some 2) := by decide

/-- `build_left_semi_spans(span, lo, hi)`: same start and value as the parent, end strictly before the
parent's end (and not before the start), length in `[lo, hi]` (defaults 1 and the parent's length). -/
theorem mem_buildLeftSemi (span : Span) (lo hi : Option Int) (x : Span) :
    x ∈ buildLeftSemi span lo hi ↔
      x.1 = span.1 ∧ x.2.2 = span.2.2 ∧ x.1 ≤ x.2.1 ∧ x.2.1 < span.2.1 ∧
        lo.getD 1 ≤ x.2.1 - x.1 ∧ x.2.1 - x.1 ≤ hi.getD (span.2.1 - span.1) := by
  obtain ⟨s, e, v⟩ := x
  rw [mem_buildLeftSemi']
  simp only
  constructor
  · rintro ⟨rfl, h⟩; exact ⟨rfl, by omega⟩
  · rintro ⟨rfl, h⟩; exact ⟨rfl, by omega⟩

theorem nodup_buildLeftSemi (span : Span) (lo hi : Option Int) : (buildLeftSemi span lo hi).Nodup :=
  nodup_buildLeftSemi' span lo hi

example : (2, 5, 1) ∈ buildLeftSemi (2, 9, 1) (some 2) (some 3) := by decide

/-- `build_right_semi_spans(span, lo, hi)`: same end and value as the parent, start strictly after the
parent's start (and not after the end), length in `[lo, hi]`. -/
theorem mem_buildRightSemi (span : Span) (lo hi : Option Int) (x : Span) :
    x ∈ buildRightSemi span lo hi ↔
      x.2.1 = span.2.1 ∧ x.2.2 = span.2.2 ∧ span.1 < x.1 ∧ x.1 ≤ x.2.1 ∧
        lo.getD 1 ≤ x.2.1 - x.1 ∧ x.2.1 - x.1 ≤ hi.getD (span.2.1 - span.1) := by
  obtain ⟨s, e, v⟩ := x
  rw [mem_buildRightSemi']
  simp only
  constructor
  · rintro ⟨rfl, h⟩; exact ⟨rfl, by omega⟩
  · rintro ⟨rfl, h⟩; exact ⟨rfl, by omega⟩

theorem nodup_buildRightSemi (span : Span) (lo hi : Option Int) : (buildRightSemi span lo hi).Nodup :=
  nodup_buildRightSemi' span lo hi

example : (6, 9, 1) ∈ buildRightSemi (2, 9, 1) (some 2) (some 3) := by decide

/-! ## 2. the enzymatic builder -/

/-- C06, enzymatic builder: exactly the spans between cleavage points of `S ∪ {0,n}` with at most
`mc` cleavage points strictly inside, within the inclusive length bounds; the value is that count.
For every `n`, every site list (unsorted, with duplicates), every `mc`, `lo`, `hi`. -/
theorem mem_buildEnzymatic (n : Int) (sites : List Int) (mc : Nat) (lo hi : Option Int) (x : Span) :
    x ∈ buildEnzymatic n sites mc lo hi ↔
      IsEnz n sites mc x ∧ lo.getD 1 ≤ x.2.1 - x.1 ∧ x.2.1 - x.1 ≤ hi.getD n := by
  obtain ⟨s, e, v⟩ := x
  unfold buildEnzymatic IsEnz plus
  rw [mem_enzGo _ _ _ _ (ssorted_sortDedup _)]
  simp only
  constructor
  · rintro ⟨a, b, c, d, e, f, g⟩; exact ⟨⟨a, b, c, d, e⟩, f, g⟩
  · rintro ⟨⟨a, b, c, d, e⟩, f, g⟩; exact ⟨a, b, c, d, e, f, g⟩

/-- non-vacuity: a concrete enzymatic span with one missed cleavage -/
example : IsEnz 14 [5, 10] 2 (0, 10, 1) := by decide

theorem nodup_buildEnzymatic (n : Int) (sites : List Int) (mc : Nat) (lo hi : Option Int) :
    (buildEnzymatic n sites mc lo hi).Nodup :=
  nodup_enzGo _ _ _ _ (ssorted_sortDedup _)

/-! ## 2b. the grouped semi-span builders -/

/-- the per-group loop of `_grouped_left_semi_span_builder`, on ANY group of strictly decreasing length
(not only enzymatic ones): `x` is emitted from the parent `p` iff it keeps `p`'s start and value, is strictly
shorter than `p`, has length in `[lo, hi]`, and is strictly longer than every shorter parent of the group —
i.e. every left semi span is produced exactly from its next longer parent. This is where
`new_min = max(min_len, next_len + 1)`, `new_max = min(max_len, len - 1)` and the `<=` break live. -/
theorem mem_groupLoop_left (lo : Int) (hi : Option Int) (G : List Span)
    (hG : G.Pairwise (fun a b => spanLen b < spanLen a)) (x : Span) :
    x ∈ groupLoop buildLeftSemi false lo hi G ↔
      ∃ p ∈ G, (x.1 = p.1 ∧ x.2.2 = p.2.2) ∧ lo ≤ spanLen x ∧ (∀ m, hi = some m → spanLen x ≤ m) ∧
        0 ≤ spanLen x ∧ spanLen x < spanLen p ∧ ∀ q ∈ G, spanLen q < spanLen p → spanLen q < spanLen x := by
  rw [mem_groupLoop buildSpec_left false lo hi G hG]
  have : optLe (spanLen x) hi ↔ ∀ m, hi = some m → spanLen x ≤ m := by cases hi <;> simp [optLe]
  simp only [this, ShL]

/-- the same for `_grouped_right_semi_span_builder` (break condition `<`) -/
theorem mem_groupLoop_right (lo : Int) (hi : Option Int) (G : List Span)
    (hG : G.Pairwise (fun a b => spanLen b < spanLen a)) (x : Span) :
    x ∈ groupLoop buildRightSemi true lo hi G ↔
      ∃ p ∈ G, (x.2.1 = p.2.1 ∧ x.2.2 = p.2.2) ∧ lo ≤ spanLen x ∧ (∀ m, hi = some m → spanLen x ≤ m) ∧
        0 ≤ spanLen x ∧ spanLen x < spanLen p ∧ ∀ q ∈ G, spanLen q < spanLen p → spanLen q < spanLen x := by
  rw [mem_groupLoop buildSpec_right true lo hi G hG]
  have : optLe (spanLen x) hi ↔ ∀ m, hi = some m → spanLen x ≤ m := by cases hi <;> simp [optLe]
  simp only [this, ShR]

example : [(0, 10, 1), (0, 5, 0)].Pairwise (fun a b : Span => spanLen b < spanLen a) ∧
    groupLoop buildLeftSemi false 2 (some 8) [(0, 10, 1), (0, 5, 0)] =
      [(0, 8, 1), (0, 7, 1), (0, 6, 1), (0, 4, 0), (0, 3, 0), (0, 2, 0)] := by decide

/-- `_grouped_left_semi_span_builder` applied to the enzymatic span list (built with the same `min_len`
and a `max_len` that drops no parent): exactly the spans whose start is a cleavage point, whose end is NOT
one, with a cleavage point at or after the end reachable with at most `mc` missed cleavages; the value is
the number of cleavage points strictly inside. No span is produced from two parents. -/
theorem mem_groupedLeft_enzymatic (n : Int) (sites : List Int) (mc : Nat) (lo hi : Int) (hiE : Option Int)
    (hlo : 1 ≤ lo) (hhi : ∀ a ∈ plus n sites, ∀ b ∈ plus n sites, b - a ≤ hiE.getD n) (x : Span) :
    x ∈ groupedLeft (buildEnzymatic n sites mc (some lo) hiE) (some lo) (some hi) ↔
      lo ≤ x.2.1 - x.1 ∧ x.2.1 - x.1 ≤ hi ∧ x.1 ∈ plus n sites ∧ x.2.1 ∉ plus n sites ∧
        x.2.2 = (inside (plus n sites) x.1 x.2.1 : Int) ∧
        ∃ e' ∈ plus n sites, x.2.1 ≤ e' ∧ inside (plus n sites) x.1 e' ≤ mc := by
  obtain ⟨s, e, v⟩ := x
  exact mem_groupedLeft_enz mc lo (hiE.getD n) hi (plus n sites) (ssorted_sortDedup _) hlo hhi s e v

theorem mem_groupedRight_enzymatic (n : Int) (sites : List Int) (mc : Nat) (lo hi : Int) (hiE : Option Int)
    (hlo : 1 ≤ lo) (hhi : ∀ a ∈ plus n sites, ∀ b ∈ plus n sites, b - a ≤ hiE.getD n) (x : Span) :
    x ∈ groupedRight (buildEnzymatic n sites mc (some lo) hiE) (some lo) (some hi) ↔
      lo ≤ x.2.1 - x.1 ∧ x.2.1 - x.1 ≤ hi ∧ x.2.1 ∈ plus n sites ∧ x.1 ∉ plus n sites ∧
        x.2.2 = (inside (plus n sites) x.1 x.2.1 : Int) ∧
        ∃ s' ∈ plus n sites, s' ≤ x.1 ∧ inside (plus n sites) s' x.2.1 ≤ mc := by
  obtain ⟨s, e, v⟩ := x
  exact mem_groupedRight_enz mc lo (hiE.getD n) hi (plus n sites) (ssorted_sortDedup _) hlo hhi s e v

theorem nodup_groupedLeft_enzymatic (n : Int) (sites : List Int) (mc : Nat) (lo hi hiE lo' : Option Int) :
    (groupedLeft (buildEnzymatic n sites mc lo hiE) lo' hi).Nodup :=
  nodup_groupedLeft_enz mc _ _ hi _ (ssorted_sortDedup _) lo'

theorem nodup_groupedRight_enzymatic (n : Int) (sites : List Int) (mc : Nat) (lo hi hiE lo' : Option Int) :
    (groupedRight (buildEnzymatic n sites mc lo hiE) lo' hi).Nodup :=
  nodup_groupedRight_enz mc _ _ hi _ (ssorted_sortDedup _) lo'

/-- non-vacuity: the doctest of `_grouped_left_semi_span_builder` and a hypothesis instance -/
example : groupedLeft (buildEnzymatic 5 [3] 1 (some 1) none) (some 1) (some 5) =
      [(0, 4, 1), (0, 2, 0), (0, 1, 0), (3, 4, 0)] ∧
    ∀ a ∈ plus 5 [3], ∀ b ∈ plus 5 [3], b - a ≤ (none : Option Int).getD 5 := by decide

/-! ## 3. `build_spans` -/

/-- the shortcut test of `build_spans` (`len(sorted(set(sites))) == max_index + 1`) recognises exactly
the non-specific rule, as long as every site lies in `[0,n]` -/
theorem shortcut_iff_nonSpecific (n : Int) (sites : List Int) (hn : 0 ≤ n) (hb : ∀ s ∈ sites, 0 ≤ s ∧ s ≤ n) :
    ((sortDedup sites).length : Int) = n + 1 ↔ NonSpecific n sites :=
  length_sortDedup_iff n sites (by omega) hb

example : NonSpecific 3 [2, 0, 3, 1, 2] ∧ ∀ s ∈ [2, 0, 3, 1, 2], (0:Int) ≤ s ∧ s ≤ 3 := by decide

/-- C06, non-specific rule: when every position `0..n` is a site, the result is every proper sub-span
within the bounds, with value 0 — whatever `mc` and `semi` are. -/
theorem mem_buildSpans_nonspecific (n : Int) (sites : List Int) (mc : Nat) (lo hi : Option Int) (semi : Bool)
    (hn : 0 ≤ n) (hb : ∀ s ∈ sites, 0 ≤ s ∧ s ≤ n) (hlo : 1 ≤ lo.getD 1) (hns : NonSpecific n sites)
    (x : Span) :
    x ∈ buildSpans n sites mc lo hi semi ↔ IsSpan n sites mc (lo.getD 1) (hi.getD n) semi x := by
  have hlen := (shortcut_iff_nonSpecific n sites hn hb).mpr hns
  obtain ⟨s, e, v⟩ := x
  unfold buildSpans IsSpan
  simp only [hlen, if_true, hns]
  rw [mem_buildNonEnzymatic']
  simp only [Option.getD_some]
  constructor <;> (intro h; omega)

example : IsSpan 3 [2, 0, 3, 1, 2] 0 1 3 true (1, 3, 0) := by decide

/-- C06, enzymatic digestion (`semi = False`), shortcut not taken: no hypothesis on `n`, sites or bounds. -/
theorem mem_buildSpans_enzymatic (n : Int) (sites : List Int) (mc : Nat) (lo hi : Option Int)
    (hlen : ((sortDedup sites).length : Int) ≠ n + 1) (x : Span) :
    x ∈ buildSpans n sites mc lo hi false ↔
      IsEnz n sites mc x ∧ lo.getD 1 ≤ x.2.1 - x.1 ∧ x.2.1 - x.1 ≤ hi.getD n := by
  unfold buildSpans
  simp only [hlen, if_false, Bool.false_eq_true]
  rw [mem_buildEnzymatic]
  simp only [Option.getD_some, IsEnz, plus_sortDedup]

example : ((sortDedup [5, 10, 5]).length : Int) ≠ 14 + 1 := by decide

/-- C06, semi-specific digestion, shortcut not taken: exactly the spans that share one end with an
enzymatic span containing them (the enzymatic spans included), with the number of cleavage points
strictly inside as value, filtered by the length bounds. -/
theorem mem_buildSpans_semi (n : Int) (sites : List Int) (mc : Nat) (lo hi : Option Int)
    (hn : 0 ≤ n) (hb : ∀ s ∈ sites, 0 ≤ s ∧ s ≤ n) (hlo : 1 ≤ lo.getD 1)
    (hlen : ((sortDedup sites).length : Int) ≠ n + 1) (x : Span) :
    x ∈ buildSpans n sites mc lo hi true ↔
      IsSemi n sites mc x ∧ lo.getD 1 ≤ x.2.1 - x.1 ∧ x.2.1 - x.1 ≤ hi.getD n := by
  have hL : SSorted (plus n sites) := ssorted_sortDedup _
  have hLb : ∀ y ∈ plus n sites, 0 ≤ y ∧ y ≤ n := by
    intro y hy
    rcases (mem_plus n sites y).mp hy with rfl | rfl | hy
    · omega
    · omega
    · exact hb y hy
  have hhi : ∀ a ∈ plus n sites, ∀ b ∈ plus n sites, b - a ≤ n := by
    intro a ha b hb'; have := hLb a ha; have := hLb b hb'; omega
  obtain ⟨s, e, v⟩ := x
  unfold buildSpans
  simp only [hlen, if_false, if_true]
  have hE : buildEnzymatic n (sortDedup sites) mc (some (lo.getD 1)) none =
      enzGo mc (lo.getD 1) n (plus n sites) := by
    unfold buildEnzymatic; rw [← plus_sortDedup n sites]; rfl
  rw [hE]
  unfold buildSemi
  simp only [List.mem_append, List.mem_filter]
  rw [mem_groupedLeft_enz mc _ n _ _ hL hlo hhi, mem_groupedRight_enz mc _ n _ _ hL hlo hhi,
    mem_enzGo _ _ _ _ hL]
  simp only [IsSemi, spanLen, Bool.and_eq_true, decide_eq_true_eq, ge_iff_le]
  constructor
  · rintro (⟨⟨hs, he, hse, hv, hmc, h1, h2⟩, h3, h4⟩ | ⟨h1, h2, hs, he, hv, e', he', hee', hmc⟩ |
      ⟨h1, h2, he, hs, hv, s', hs', hss', hmc⟩)
    · exact ⟨⟨hse, hv, Or.inl ⟨hs, e, he, by omega, hmc⟩⟩, h4, h3⟩
    · exact ⟨⟨by omega, hv, Or.inl ⟨hs, e', he', hee', hmc⟩⟩, h1, h2⟩
    · exact ⟨⟨by omega, hv, Or.inr ⟨he, s', hs', hss', hmc⟩⟩, h1, h2⟩
  · rintro ⟨⟨hse, hv, h⟩, h1, h2⟩
    by_cases hs : s ∈ plus n sites <;> by_cases he : e ∈ plus n sites
    · left
      have hmc : inside (plus n sites) s e ≤ mc := by
        rcases h with ⟨_, e', he', hee', hmc⟩ | ⟨_, s', hs', hss', hmc⟩
        · have := inside_mono (plus n sites) s s e e' (by omega) hee'; omega
        · have := inside_mono (plus n sites) s s' e e hss' (by omega); omega
      exact ⟨⟨hs, he, hse, hv, hmc, h1, hhi s hs e he⟩, h2, h1⟩
    · right; left
      rcases h with ⟨_, e', he', hee', hmc⟩ | ⟨he', _⟩
      · exact ⟨h1, h2, hs, he, hv, e', he', hee', hmc⟩
      · exact absurd he' he
    · right; right
      rcases h with ⟨hs', _⟩ | ⟨_, s', hs', hss', hmc⟩
      · exact absurd hs' hs
      · exact ⟨h1, h2, he, hs, hv, s', hs', hss', hmc⟩
    · rcases h with ⟨hs', _⟩ | ⟨he', _⟩
      · exact absurd hs' hs
      · exact absurd he' he

/-- non-vacuity (n = 14, S = [5,10], mc = 2, semi): a left semi span inside `(0,10)`, a right semi span,
and the hypotheses of `mem_buildSpans_semi` -/
example : IsSemi 14 [5, 10] 2 (0, 7, 1) ∧ IsSemi 14 [5, 10] 2 (3, 14, 2) ∧
    (∀ s ∈ [5, 10], (0:Int) ≤ s ∧ s ≤ 14) ∧ ((sortDedup [5, 10]).length : Int) ≠ 14 + 1 ∧
    (0, 7, 1) ∈ buildSpans 14 [5, 10] 2 none none true := by decide

/-- reading of the property text: the specification `IsSemi` says exactly "the span shares its start (or its
end) with an enzymatic span `p` that contains it", the value being the number of cleavage points strictly inside -/
theorem isSemi_iff_shares_end_with_enzymatic (n : Int) (S : List Int) (mc : Nat) (x : Span) :
    IsSemi n S mc x ↔
      x.1 < x.2.1 ∧ x.2.2 = (inside (plus n S) x.1 x.2.1 : Int) ∧
        ∃ p, IsEnz n S mc p ∧ ((p.1 = x.1 ∧ x.2.1 ≤ p.2.1) ∨ (p.2.1 = x.2.1 ∧ p.1 ≤ x.1)) := by
  obtain ⟨s, e, v⟩ := x
  simp only [IsSemi, IsEnz]
  constructor
  · rintro ⟨hse, hv, ⟨hs, e', he', hee', hmc⟩ | ⟨he, s', hs', hss', hmc⟩⟩
    · exact ⟨hse, hv, (s, e', (inside (plus n S) s e' : Int)), ⟨hs, he', by simp only; omega, rfl, hmc⟩, Or.inl ⟨rfl, hee'⟩⟩
    · exact ⟨hse, hv, (s', e, (inside (plus n S) s' e : Int)), ⟨hs', he, by simp only; omega, rfl, hmc⟩, Or.inr ⟨rfl, hss'⟩⟩
  · rintro ⟨hse, hv, ⟨ps, pe, pv⟩, ⟨hps, hpe, _, _, hmc⟩, ⟨h1, h2⟩ | ⟨h1, h2⟩⟩
    · simp only at h1 h2 hps hpe hmc; subst h1
      exact ⟨hse, hv, Or.inl ⟨hps, pe, hpe, h2, hmc⟩⟩
    · simp only at h1 h2 hps hpe hmc; subst h1
      exact ⟨hse, hv, Or.inr ⟨hpe, ps, hps, h2, hmc⟩⟩

/-- C06, obligation 1: `build_spans` returns exactly the specified set — non-specific, enzymatic and
semi-specific case together. -/
theorem mem_buildSpans (n : Int) (sites : List Int) (mc : Nat) (lo hi : Option Int) (semi : Bool)
    (hn : 0 ≤ n) (hb : ∀ s ∈ sites, 0 ≤ s ∧ s ≤ n) (hlo : 1 ≤ lo.getD 1) (x : Span) :
    x ∈ buildSpans n sites mc lo hi semi ↔ IsSpan n sites mc (lo.getD 1) (hi.getD n) semi x := by
  by_cases hns : NonSpecific n sites
  · exact mem_buildSpans_nonspecific n sites mc lo hi semi hn hb hlo hns x
  · have hlen : ((sortDedup sites).length : Int) ≠ n + 1 :=
      fun h => hns ((shortcut_iff_nonSpecific n sites hn hb).mp h)
    cases semi
    · rw [mem_buildSpans_enzymatic n sites mc lo hi hlen]
      simp only [IsSpan, hns, if_false, Bool.false_eq_true]
      constructor
      · intro h; exact ⟨h.2.1, h.2.2, h.1⟩
      · intro h; exact ⟨h.2.2, h.1, h.2.1⟩
    · rw [mem_buildSpans_semi n sites mc lo hi hn hb hlo hlen]
      simp only [IsSpan, hns, if_false, if_true]
      constructor
      · intro h; exact ⟨h.2.1, h.2.2, h.1⟩
      · intro h; exact ⟨h.2.2, h.1, h.2.1⟩

example : IsSpan 14 [5, 10] 2 1 14 true (5, 12, 1) := by decide

/-- C06: `build_spans` never returns a span twice -/
theorem nodup_buildSpans (n : Int) (sites : List Int) (mc : Nat) (lo hi : Option Int) (semi : Bool)
    (hlo : 1 ≤ lo.getD 1) : (buildSpans n sites mc lo hi semi).Nodup := by
  have hL : SSorted (plus n sites) := ssorted_sortDedup _
  unfold buildSpans
  simp only
  split
  · exact nodup_buildNonEnzymatic' _ _ _
  · cases semi
    · simp only [Bool.false_eq_true, if_false]
      exact nodup_buildEnzymatic _ _ _ _ _
    · simp only [if_true]
      have hE : buildEnzymatic n (sortDedup sites) mc (some (lo.getD 1)) none =
          enzGo mc (lo.getD 1) n (plus n sites) := by
        unfold buildEnzymatic; rw [← plus_sortDedup n sites]; rfl
      rw [hE]
      unfold buildSemi
      rw [List.nodup_append]
      refine ⟨List.Nodup.sublist List.filter_sublist (nodup_enzGo _ _ _ _ hL), ?_, ?_⟩
      · rw [List.nodup_append]
        refine ⟨nodup_groupedLeft_enz _ _ _ _ _ hL _, nodup_groupedRight_enz _ _ _ _ _ hL _, ?_⟩
        rintro ⟨s, e, v⟩ hx y hy rfl
        have h1 := groupedLeft_enz_sound mc _ n _ _ hL hlo s e v hx
        have h2 := groupedRight_enz_sound mc _ n _ _ hL hlo s e v hy
        exact h1.2.2.2.1 h2.2.2.1
      · rintro ⟨s, e, v⟩ hx y hy rfl
        have hx := (List.mem_filter.mp hx).1
        rw [mem_enzGo _ _ _ _ hL] at hx
        rcases List.mem_append.mp hy with hy | hy
        · have h1 := groupedLeft_enz_sound mc _ n _ _ hL hlo s e v hy
          exact h1.2.2.2.1 hx.2.1
        · have h2 := groupedRight_enz_sound mc _ n _ _ hL hlo s e v hy
          exact h2.2.2.2.1 hx.1

/-- C06, obligation 3: every reported value is the number of cleavage points strictly inside the span
(enzymatic and semi-specific digestion; under the non-specific rule the value is 0 by
`mem_buildSpans_nonspecific`). -/
theorem value_is_inside (n : Int) (sites : List Int) (mc : Nat) (lo hi : Option Int) (semi : Bool)
    (hn : 0 ≤ n) (hb : ∀ s ∈ sites, 0 ≤ s ∧ s ≤ n) (hlo : 1 ≤ lo.getD 1) (hns : ¬ NonSpecific n sites)
    (x : Span) (hx : x ∈ buildSpans n sites mc lo hi semi) :
    x.2.2 = (inside (plus n sites) x.1 x.2.1 : Int) := by
  rw [mem_buildSpans n sites mc lo hi semi hn hb hlo] at hx
  simp only [IsSpan, hns, if_false] at hx
  cases semi
  · simp only [Bool.false_eq_true, if_false] at hx; exact hx.2.2.2.2.2.1
  · simp only [if_true] at hx; exact hx.2.2.2.1

/-! ## 4. `digest` at the level of spans -/

/-- C06, obligation 4: the sorted span list of `digest` contains exactly the spans of `build_spans`,
plus the undigested sequence `(0,n,0)` when digestion is partial. -/
theorem mem_digestSpans (n : Int) (sites : List Int) (mc : Nat) (lo hi : Option Int) (semi complete : Bool)
    (hn : 0 ≤ n) (hb : ∀ s ∈ sites, 0 ≤ s ∧ s ≤ n) (hlo : 1 ≤ lo.getD 1) (x : Span) :
    x ∈ digestSpans n sites mc lo hi semi complete ↔
      (complete = false ∧ x = (0, n, 0)) ∨ IsSpan n sites mc (lo.getD 1) (hi.getD n) semi x := by
  unfold digestSpans
  rw [mem_sortDedupSpans, List.mem_append, mem_buildSpans n sites mc lo hi semi hn hb hlo]
  cases complete <;> simp

/-- the output of `digest(..., sort_output=True)` is strictly increasing (as tuples), hence duplicate-free -/
theorem sorted_digestSpans (n : Int) (sites : List Int) (mc : Nat) (lo hi : Option Int) (semi complete : Bool) :
    (digestSpans n sites mc lo hi semi complete).Pairwise SpanLT :=
  pairwise_sortDedupSpans _

theorem nodup_digestSpans (n : Int) (sites : List Int) (mc : Nat) (lo hi : Option Int) (semi complete : Bool) :
    (digestSpans n sites mc lo hi semi complete).Nodup :=
  nodup_of_pairwise_spanLT (pairwise_sortDedupSpans _)

example : digestSpans 5 [3] 0 none none false false = [(0, 3, 0), (0, 5, 0), (3, 5, 0)] := by decide

/-! ## 5. the domain hypotheses are necessary (behaviour of the current code outside the domain) -/

/-- `min_len = 0`: the code returns empty spans, one of them twice -/
theorem lo_zero_gives_empty_spans :
    (2, 2, 0) ∈ buildSpans 4 [2] 0 (some 0) none true ∧ ¬ (buildSpans 4 [2] 0 (some 0) none true).Nodup ∧
      ¬ IsSpan 4 [2] 0 0 4 true (2, 2, 0) := by decide

/-- a site outside `[0,n]`: the parent `(2,5)` is dropped by the default `max_len = n`, and its semi
spans with it -/
theorem site_outside_loses_semi_spans :
    IsSpan 2 [5] 0 1 2 true (2, 3, 0) ∧ (2, 3, 0) ∉ buildSpans 2 [5] 0 none none true := by decide

end Spans
