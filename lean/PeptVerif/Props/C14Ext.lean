import PeptVerif.Lemmas.IsotopePrune
import PeptVerif.Props.C14
/-!
# C14 (extension, round 5) — quantitative effect of the pruning and rounding steps

`Props/C14.lean` proves the clauses of C14 for the un-pruned, un-rounded run and leaves the effect of the thresholds
(`conv_min_abundance_threshold`, the hard-wired `10e-9` floor of `_calculate_elemental_distribution`, the final
`min_abundance_threshold`) and of `distribution_resolution` to correspondence.  This module bounds them, for every input
distribution with non-negative abundances, every threshold `θ ≥ 0`, every resolution and every number of rounds.  All
statements are about the model functions `convolve`, `elementalFrom`/`elemental`, `normalized` that the correspondence
stages `convolve`, `elemental`, `isotopic_distribution` compare with the code.
-/
namespace C14Ext
open Isotope

variable {κ : Type} [DecidableEq κ] [Add κ]

/-- two-peak pattern used in the non-vacuity examples -/
def exD : Dist Rat := [((0 : Rat), 9 / 10), (1, 1 / 10)]

/-- **normal form of one convolution step** (`_convolve_distributions` without `max_isotopes`): the result is — as an
association list, entry for entry — all products `(m₁+m₂, a₁·a₂)` in loop order, filtered by
`a₁·a₂ >= min_abundance_threshold`, then merged under the rounded key.  Any key type, threshold, rounding function. -/
theorem convolve_normal_form (rnd : κ → κ) (thr : Option Rat) (d1 d2 : Dist κ) :
    convolve rnd thr none d1 d2 = pushforward rnd (keptProducts thr d1 d2) :=
  convolve_eq_pushforward rnd thr d1 d2

example : keptProducts (some (1 / 20)) exD exD = [((0 : Rat), 81 / 100), (1, 9 / 100), (1, 9 / 100)] ∧
    convolve id (some (1 / 20)) none exD exD = [((0 : Rat), 81 / 100), (1, 18 / 100)] := by decide +kernel

/-- **loss of one pruned convolution step**: with non-negative abundances and threshold `θ ≥ 0`, the per-product test
`new_abundance >= θ` removes at most `n₁·n₂·θ` of the total abundance `Σd₁·Σd₂` (n₁, n₂ = numbers of peaks) and never adds
any — whatever the rounding of the merged key. -/
theorem conv_prune_loss_bound (rnd : κ → κ) (θ : Rat) (hθ : 0 ≤ θ) (d1 d2 : Dist κ) (h1 : NonNeg d1) (h2 : NonNeg d2) :
    total d1 * total d2 - ((d1.length * d2.length : Nat) : Rat) * θ ≤ total (convolve rnd (some θ) none d1 d2) ∧
      total (convolve rnd (some θ) none d1 d2) ≤ total d1 * total d2 := by
  obtain ⟨b1, b2⟩ := total_convolve_pruned_bounds rnd θ d1 d2 h1 h2
  refine ⟨?_, b2⟩
  have hk : (0 : Rat) ≤ ((keptProducts (some θ) d1 d2).length : Rat) := by exact_mod_cast Nat.zero_le _
  have := mul_nonneg hk hθ
  linarith

/-- sharp form: the loss is at most `(number of dropped products)·θ`. -/
theorem conv_prune_loss_bound_sharp (rnd : κ → κ) (θ : Rat) (d1 d2 : Dist κ) (h1 : NonNeg d1) (h2 : NonNeg d2) :
    total d1 * total d2 -
        (((d1.length * d2.length : Nat) : Rat) - ((keptProducts (some θ) d1 d2).length : Rat)) * θ
      ≤ total (convolve rnd (some θ) none d1 d2) :=
  (total_convolve_pruned_bounds rnd θ d1 d2 h1 h2).1

example : NonNeg exD ∧ total exD * total exD = 1 ∧ total (convolve id (some (1 / 20)) none exD exD) = 99 / 100 ∧
    ((exD.length * exD.length : Nat) : Rat) - ((keptProducts (some (1 / 20)) exD exD).length : Rat) = 1 := by
  refine ⟨?_, by decide +kernel, by decide +kernel, by decide +kernel⟩
  intro p hp
  simp only [exD, List.mem_cons, List.not_mem_nil, or_false] at hp
  rcases hp with rfl | rfl <;> norm_num

/-- **binning preserves the total exactly**: rounding the merged mass (`distribution_resolution`) never changes the total
abundance of a convolution step, with or without pruning. -/
theorem conv_round_preserves_total (rnd : κ → κ) (thr : Option Rat) (d1 d2 : Dist κ) :
    total (convolve rnd thr none d1 d2) = total (convolve id thr none d1 d2) :=
  total_convolve_round rnd thr d1 d2

/-- **binning moves the first moment by at most half a bin width per unit of abundance**: with
`distribution_resolution = r ≥ 0` the first moment `Σ mass·abundance` of a convolution step differs from the un-rounded one
by at most `½·10^-r · Σ abundance` (any threshold, non-negative abundances). -/
theorem conv_round_moment_shift (r : Nat) (thr : Option Rat) (d1 d2 : Dist Rat) (h1 : NonNeg d1) (h2 : NonNeg d2) :
    |moment (convolve (roundOpt (some (r : Int))) thr none d1 d2) - moment (convolve id thr none d1 d2)|
      ≤ 1 / 2 / (10 : Rat) ^ r * total (convolve id thr none d1 d2) :=
  moment_convolve_round (roundOpt (some (r : Int))) _ (fun x => roundTo_err r x) thr d1 d2 h1 h2

/-- … hence the abundance-weighted **mean** of the binned step is within half a bin width `½·10^-r` of the un-binned mean
(the two totals are equal by `conv_round_preserves_total`). -/
theorem conv_round_mean_shift (r : Nat) (thr : Option Rat) (d1 d2 : Dist Rat) (h1 : NonNeg d1) (h2 : NonNeg d2)
    (hT : 0 < total (convolve id thr none d1 d2)) :
    |moment (convolve (roundOpt (some (r : Int))) thr none d1 d2) / total (convolve (roundOpt (some (r : Int))) thr none d1 d2)
        - moment (convolve id thr none d1 d2) / total (convolve id thr none d1 d2)|
      ≤ 1 / 2 / (10 : Rat) ^ r := by
  rw [conv_round_preserves_total]
  have h := conv_round_moment_shift r thr d1 d2 h1 h2
  have e : moment (convolve (roundOpt (some (r : Int))) thr none d1 d2) / total (convolve id thr none d1 d2)
        - moment (convolve id thr none d1 d2) / total (convolve id thr none d1 d2)
      = (moment (convolve (roundOpt (some (r : Int))) thr none d1 d2) - moment (convolve id thr none d1 d2))
          / total (convolve id thr none d1 d2) := by ring
  rw [e]
  obtain ⟨hl, hu⟩ := abs_le.1 h
  rw [abs_le]
  constructor
  · rw [le_div_iff₀ hT]; linarith
  · rw [div_le_iff₀ hT]; linarith

/-- the bound is attained up to the tie rule: at resolution 0 the peak `1/2 + 1/4 = 3/4` moves to `1` -/
example : moment (convolve (roundOpt (some ((0 : Nat) : Int))) none none [((1 / 2 : Rat), 1)] [((1 / 4 : Rat), 1)]) = 1 ∧
    moment (convolve id none none [((1 / 2 : Rat), 1)] [((1 / 4 : Rat), 1)]) = 3 / 4 ∧
    total (convolve id none none [((1 / 2 : Rat), 1)] [((1 / 4 : Rat), 1)]) = 1 := by decide +kernel

/-- **Python `round(x, r)` is within half a unit of the last place** (on the exact value; `r ≥ 0`). -/
theorem round_error_half_ulp (r : Nat) (q : Rat) : |roundTo (r : Int) q - q| ≤ 1 / 2 / (10 : Rat) ^ r :=
  roundTo_err r q

example : roundTo ((2 : Nat) : Int) (1005 / 1000) - 1005 / 1000 = -(1 / 2 / (10 : Rat) ^ 2) := by decide +kernel

/-- **k pruned rounds** (`_calculate_elemental_distribution` with its floor `θ`, isotope abundances positive and summing
to 1): after `n` rounds the total is at most the starting total and has lost at most `W·m·θ`, where `m` is the number of
isotopes and `W = elementalWork …` the number of peaks that entered the `n` rounds (Σ of the lengths of the intermediate
patterns), i.e. at most `θ` per product ever formed. -/
theorem elemental_prune_loss_bound (θ : Rat) (hθ : 0 ≤ θ) (isos : Dist κ) (hi : AllPos isos) (h1 : total isos = 1)
    (n : Nat) (d : Dist κ) (hd : AllPos d) :
    total d - ((elementalWork (some θ) isos n d * isos.length : Nat) : Rat) * θ
        ≤ total (elementalFrom (some θ) isos n d) ∧
      total (elementalFrom (some θ) isos n d) ≤ total d :=
  total_elementalFrom_pruned θ hθ isos hi h1 n d hd

/-- the same for `_calculate_elemental_distribution` itself (start `{0: 1.0}`): `1 − W·m·θ ≤ Σ abundances ≤ 1`. -/
theorem elemental_total_with_floor (θ : Rat) (hθ : 0 ≤ θ) (isos : Dist Rat) (hi : AllPos isos) (h1 : total isos = 1)
    (n : Nat) :
    1 - ((elementalWork (some θ) isos n [((0 : Rat), 1)] * isos.length : Nat) : Rat) * θ
        ≤ total (elemental (some θ) isos n) ∧
      total (elemental (some θ) isos n) ≤ 1 := by
  have h := total_elementalFrom_pruned θ hθ isos hi h1 n [((0 : Rat), 1)] allPos_start
  have e : total [((0 : Rat), (1 : Rat))] = 1 := by simp [total]
  rw [e] at h
  exact h

example : total exD = 1 ∧ elementalWork (some (1 / 20)) exD 3 [((0 : Rat), 1)] = 5 ∧
    total (elemental (some (1 / 20)) exD 3) = 972 / 1000 := by decide +kernel

/-- **final reporting threshold** (`min_abundance_threshold = θ` after normalisation to the largest peak `mx`): the
normalised pattern loses at most `n·θ` of its total `Σ/mx` (n = number of peaks before the filter) and never gains. -/
theorem final_threshold_loss_bound (o : Opts) (t : Dist Rat) (mx : Rat) (hmx : 0 < mx) (ht : NonNeg t)
    (hθ : 0 ≤ o.minAbundanceThreshold.getD 0) :
    total t / mx - (t.length : Rat) * o.minAbundanceThreshold.getD 0 ≤ total (normalized o t mx) ∧
      total (normalized o t mx) ≤ total t / mx := by
  have hs : NonNeg (sortByKey t) := fun p hp => ht p ((sortByKey_perm t).mem_iff.1 hp)
  have hP : ∀ p ∈ sortByKey t, (fun p : Rat × Rat => decide (o.minAbundanceThreshold.getD 0 ≤ p.2 / mx)) p = false →
      p.2 ≤ o.minAbundanceThreshold.getD 0 * mx := by
    intro p _ hp
    simp only [decide_eq_false_iff_not, not_le, div_lt_iff₀ hmx] at hp
    exact le_of_lt hp
  have lo := total_filter_lower (sortByKey t) _ (o.minAbundanceThreshold.getD 0 * mx) (mul_nonneg hθ (le_of_lt hmx)) hs hP
  have hi := (total_filter_bounds (sortByKey t) _ (o.minAbundanceThreshold.getD 0 * mx) hs hP).2
  have eT : total (sortByKey t) = total t := integral_perm (sortByKey_perm t) _
  have eL : (sortByKey t).length = t.length := (sortByKey_perm t).length_eq
  have eN : total (normalized o t mx) =
      total ((sortByKey t).filter (fun p => decide (o.minAbundanceThreshold.getD 0 ≤ p.2 / mx))) / mx := by
    unfold normalized total
    exact integral_div _ mx _
  rw [eT, eL] at lo
  rw [eT] at hi
  rw [eN]
  constructor
  · rw [le_div_iff₀ hmx]
    have : (total t / mx - (t.length : Rat) * o.minAbundanceThreshold.getD 0) * mx
        = total t - (t.length : Rat) * (o.minAbundanceThreshold.getD 0 * mx) := by field_simp
    rw [this]; exact lo
  · exact (div_le_div_iff_of_pos_right hmx).mpr hi

/-- the reporting threshold **never removes the most abundant peak** when `θ ≤ 1`: the normalised pattern contains a peak of
relative abundance exactly 1. -/
theorem final_threshold_keeps_max (o : Opts) (t : Dist Rat) (mx : Rat) (hm : maxAb t = some mx) (hmx : mx ≠ 0)
    (hθ : o.minAbundanceThreshold.getD 0 ≤ 1) :
    ∃ q ∈ normalized o t mx, q.2 = 1 := by
  obtain ⟨⟨q, hq, hqm⟩, _⟩ := maxAb_spec t mx hm
  refine ⟨(q.1, q.2 / mx), ?_, ?_⟩
  · simp only [normalized, List.mem_map, List.mem_filter, decide_eq_true_eq]
    refine ⟨q, ⟨(sortByKey_perm _).mem_iff.2 hq, ?_⟩, rfl⟩
    rw [hqm, div_self hmx]; exact hθ
  · show q.2 / mx = 1
    rw [hqm, div_self hmx]

example : maxAb exD = some (9 / 10) ∧ NonNeg exD ∧
    (exD.filter (fun p => decide ((1 / 5 : Rat) ≤ p.2 / (9 / 10)))).map (fun p => (p.1, p.2 / (9 / 10))) = [((0 : Rat), 1)] := by
  refine ⟨by norm_num [maxAb, exD], ?_, by decide +kernel⟩
  intro p hp
  simp only [exD, List.mem_cons, List.not_mem_nil, or_false] at hp
  rcases hp with rfl | rfl <;> norm_num

/-- **weighted mean of the rounded element loop**: no pruning (floor off, `max_isotopes`, `conv_min_abundance_threshold` None) but
`distribution_resolution = r ≥ 0`: if every element's isotope abundances sum to 1, the un-normalised pattern after the element
loop has total exactly 1 and its abundance-weighted mean is within `(number of elements)·½·10^-r` of the average mass
`Σ count·Σ_iso mass·abundance` of the (rounded) composition — the rounding allowance the oracle uses, now proved. -/
theorem weighted_mean_raw_rounded (f : Formula) (o : Opts) (t : Dist Rat) (p d m : Rat) (r : Nat)
    (hraw : rawDistribution f o = .ok (t, p, d, m))
    (hfl : o.floor = none) (hmi : o.maxIsotopes = none) (hct : o.convMinAbundanceThreshold = none)
    (hres : o.resolution = some (r : Int)) :
    ∃ L, resolve o (cleanFormula f) = some L ∧
      ((∀ x ∈ L, total x.1 = 1) →
        total t = 1 ∧ |moment t - momentSum L| ≤ (L.length : Rat) * (1 / 2 / (10 : Rat) ^ r)) := by
  obtain ⟨L, hL, ht, _⟩ := rawDistribution_ok f o t p d m hraw
  refine ⟨L, hL, fun h1 => ?_⟩
  have hpos := listPos_of_resolve o _ L hL
  rw [ht, hfl, hmi, hct, hres]
  have hT := total_convolveList (roundOpt (some (r : Int))) L [((0 : Rat), 1)] hpos allPos_start
  have hM := moment_convolveList_round r L [((0 : Rat), 1)] hpos allPos_start h1
  have e1 : total [((0 : Rat), (1 : Rat))] = 1 := by simp [total]
  have e2 : moment [((0 : Rat), (1 : Rat))] = 0 := by simp [moment]
  rw [e1, e2, zero_add, one_mul, mul_one] at hM
  rw [e1, totalProd_one L h1, one_mul] at hT
  simp only [Option.getD_none]
  exact ⟨hT, hM⟩

example : C14.rawOk C14.exF1 { floor := none, resolution := some ((2 : Nat) : Int) } = true := by decide +kernel

end C14Ext
