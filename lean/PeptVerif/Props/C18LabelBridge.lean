import PeptVerif.Lemmas.ConcreteLabel
import PeptVerif.Props.C18Concrete
/-!
# C18: the label clause against `Mass.mass` of the concrete model (separate module)

Rests on the label-path bridge (`Lemmas/ConcreteLabel.lean`), hence on C04's `Lemmas/FragmentLabel.lean` and C03's
`Model/CompCalc.lean`; kept apart so that a rework of those files does not take the other C18 theorems down with it.
-/
namespace Pept
namespace C18LabelBridge
open Chem AbsMass Static CondenseMass Concrete C18Concrete

/-- **the label clause against the concrete model's `mass`**: when the labelled input is plain (nothing labile / unknown /
interval / adduct, no static rule; labels: one or a pair of the property's) the reference mass of `condense_mass_label_resolved`
IS `Mass.mass` of the concrete model (composition path of C03), through the label-path bridge -/
theorem condense_mass_label_plain (env : Pept.Env) (mono : Bool) (dl : Mod → Option ℚ) (cp : Mod → Chem.Comp)
    (a n : Annotation) (p : ℕ) (m0 : Mod) (L : List Mod) (lm : LabelMap) (δ : ℚ) (hclose : ResolverClose env mono δ)
    (hL : (m0 :: L) ∈ labelLists) (hpl : Fragment.PlainL a (m0 :: L)) (hseq : CompCalc.KnownResidues a.seq)
    (hmods : Fragment.ModsResolve env (Fragment.knownOf mono) dl cp) (hsm : ∀ m, dl m = none → SmallKeys (cp m))
    (hl : parseIsotopeMods (envOf env mono).knownLabel (m0 :: L) = .ok lm)
    (hr : InRange a) (hint : ∀ i : ℤ, (envOf env mono).mu (.int i) = i)
    (h : condenseToMassAnn (envOf env mono) a p = .ok n) :
    ∃ c s x, condenseStatic a = .ok c ∧ shiftsOf (envOf env mono) c p = .ok s ∧ n = render c s p ∧
      Mass.mass env a { charge := some 0, mono := mono } = .ok x ∧
      |outMass (envOf env mono) c s p - x| ≤ (writtenL c s : ℚ) * halfUlp p +
        (droppedL (envOf env mono) lm c : ℚ) * threshold + δ * multSum (outsideMods c) := by
  have hres : ∀ c, condenseStatic a = .ok c → ∀ m ∈ allMods c, isBad (envOf env mono) m = false :=
    fun c _ m _ => isBad_of_resolve env mono Mass.ionP 0 dl cp _ hmods m
  obtain ⟨c, s, x, hc, hs, hn', hx, hb⟩ :=
    condense_mass_label_resolved env mono a n p m0 L lm δ hclose hpl.isotope hl hr hint hres
      (absentRuleBad_static_none _ a hpl.static) h
  obtain ⟨X, hX1, hX2⟩ := mass_bridge_label_precursor env mono dl cp a (m0 :: L) 0 hL hpl hseq hmods hsm
  have : X = x := by
    have h1 : massOf (envOf env mono) a = massLabel (envOf env mono) a := by simp [massOf, hpl.isotope]
    rw [h1] at hx
    have : massLabel (envFor env Mass.ionP mono 0 0 0) a = .ok x := hx
    rw [hX2] at this; exact Except.ok.inj this
  subst this
  exact ⟨c, s, _, hc, hs, hn', hX1, hb⟩


end C18LabelBridge
end Pept
