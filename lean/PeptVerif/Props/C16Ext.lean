import PeptVerif.Props.C16
/-!
# C16 — extension (round 5): the ordered containment tests and coverage with modifications ignored

Property theorems only, about functions that are already in `Model/Search.lean` (and already compared with the
implementation by the correspondence stages of `harness/props/c16.py`): `isSubsequenceM`
(`ProFormaAnnotation.is_subsequence`), `isSubsequenceOrdered` (`is_subsequence(…, order=True)`) and `coverage` with
`ignore_mods=True`. Until this round these clauses had no theorem of their own (only `findIndices` had).
-/
namespace Pept
namespace Search

/-- the offsets at which the query `q` occurs in the target `t` *with its modifications*: the residues occur at `i`
and the slice of the target on that stretch `==` the query -/
def OccursAt (q t : Annotation) (i : Nat) : Prop :=
  i + q.seq.length ≤ t.seq.length ∧ (t.seq.drop i).take q.seq.length = q.seq ∧
    annEq (sliceAt t i q.seq.length) q = true

/-- `ProFormaAnnotation.is_subsequence(q, t)` is true exactly when the query occurs (residues and modifications) at
some offset of the target — any offset, overlapping or not, not only the first. All annotations. -/
theorem isSubsequenceM_iff (q t : Annotation) : isSubsequenceM q t = true ↔ ∃ i, OccursAt q t i := by
  simp only [isSubsequenceM, OccursAt]
  by_cases h : (occurrences q.seq t.seq).isEmpty = true
  · rw [if_pos h]
    have h' : occurrences q.seq t.seq = [] := List.isEmpty_iff.mp h
    constructor
    · intro hf; cases hf
    · rintro ⟨i, h1, h2, _⟩
      have hi : i ∈ occurrences q.seq t.seq := (occurrences_spec _ _ _).mpr ⟨h1, h2⟩
      rw [h'] at hi; cases hi
  · rw [if_neg h, List.any_eq_true]
    constructor
    · rintro ⟨i, hi, he⟩
      obtain ⟨h1, h2⟩ := (occurrences_spec _ _ _).mp hi
      exact ⟨i, h1, h2, he⟩
    · rintro ⟨i, h1, h2, he⟩
      exact ⟨i, (occurrences_spec _ _ _).mpr ⟨h1, h2⟩, he⟩

/-- the occurrence that matches is the *second*, overlapping one: `A[1]A` in `AA[1]A` (offset 1 only) -/
example : isSubsequenceM { seq := ['A', 'A'], internal := some [(0, [⟨.str ['1'], 1⟩])] }
    { seq := ['A', 'A', 'A'], internal := some [(1, [⟨.str ['1'], 1⟩])] } = true := by decide

/-- `is_subsequence(q, t, order=True)` (`len(find_subsequence_indices(t, q)) != 0`) for a non-empty query: true exactly
when the query occurs, residues and modifications, at some offset of the target. (For the empty query the function
answers `False`: `ordered_empty_query`.) -/
theorem isSubsequenceOrdered_iff (q t : Annotation) (hq : 0 < q.seq.length) :
    isSubsequenceOrdered q t = true ↔ ∃ i, OccursAt q t i := by
  have hmem : isSubsequenceOrdered q t = true ↔ ∃ i, i ∈ findSubsequenceIndices t q false := by
    unfold isSubsequenceOrdered
    cases findSubsequenceIndices t q false with
    | nil => simp
    | cons a l => simp
  have hqe : q.seq.isEmpty = false := by
    cases hs : q.seq with
    | nil => rw [hs] at hq; simp at hq
    | cons a l => rfl
  rw [hmem]
  unfold findSubsequenceIndices
  by_cases ht : t.seq.isEmpty = true
  · have ht' : t.seq = [] := List.isEmpty_iff.mp ht
    simp only [ht, if_true]
    constructor
    · rintro ⟨i, hi⟩; cases hi
    · rintro ⟨i, h1, _, _⟩
      have hl : t.seq.length = 0 := by rw [ht']; rfl
      omega
  · simp only [ht, hqe, if_false, Bool.false_eq_true]
    constructor
    · rintro ⟨i, hi⟩
      exact ⟨i, (findIndices_spec_slice q t hq i).mp hi⟩
    · rintro ⟨i, hi⟩
      exact ⟨i, (findIndices_spec_slice q t hq i).mpr hi⟩

/-- the empty query is never contained (the `has_sequence()` guard of `find_subsequence_indices`) -/
theorem ordered_empty_query (q t : Annotation) (hq : q.seq = []) : isSubsequenceOrdered q t = false := by
  unfold isSubsequenceOrdered findSubsequenceIndices
  by_cases ht : t.seq.isEmpty = true
  · simp [ht]
  · simp [ht, hq]

/-- the free function and the method agree: for a non-empty query `is_subsequence(q, t, order=True)` is
`ProFormaAnnotation.is_subsequence(q, t)` — the re-slicing done by `find_indices` loses nothing -/
theorem ordered_eq_method (q t : Annotation) (hq : 0 < q.seq.length) :
    isSubsequenceOrdered q t = isSubsequenceM q t := by
  rw [Bool.eq_iff_iff, isSubsequenceOrdered_iff q t hq, isSubsequenceM_iff]

example : isSubsequenceOrdered { seq := ['A', 'A'], internal := some [(0, [⟨.str ['1'], 1⟩])] }
    { seq := ['A', 'A', 'A'], internal := some [(1, [⟨.str ['1'], 1⟩])] } = true := by decide
example : isSubsequenceOrdered { seq := ['A', 'A'], internal := some [(0, [⟨.str ['1'], 1⟩])] }
    { seq := ['A', 'A', 'A'], internal := some [(2, [⟨.str ['1'], 1⟩])] } = false := by decide

/-- `coverage(…, accumulate=False, ignore_mods=True)`: position `j` is marked (1) iff some listed non-empty
subsequence has a plain *substring* occurrence of its residues that contains `j`; otherwise it is 0. Target and
subsequences may carry any modifications. -/
theorem coverage_ignore_mods_iff (t : Annotation) (subs : List Annotation) (j : Nat) (hj : j < t.seq.length) :
    ((coverage t subs false true)[j]? = some 1 ↔
      ∃ q ∈ subs, q.seq ≠ [] ∧ ∃ i, i ≤ j ∧ j < i + q.seq.length ∧
        i + q.seq.length ≤ t.seq.length ∧ (t.seq.drop i).take q.seq.length = q.seq) ∧
    ((coverage t subs false true)[j]? = some 1 ∨ (coverage t subs false true)[j]? = some 0) := by
  have hne : t.seq ≠ [] := by intro h; rw [h] at hj; simp at hj
  have key : (∃ q ∈ subs, ∃ i ∈ findSubsequenceIndices t q true, i ≤ j ∧ j < i + q.seq.length) ↔
      ∃ q ∈ subs, q.seq ≠ [] ∧ ∃ i, i ≤ j ∧ j < i + q.seq.length ∧
        i + q.seq.length ≤ t.seq.length ∧ (t.seq.drop i).take q.seq.length = q.seq := by
    constructor
    · rintro ⟨q, hqs, i, hi, h1, h2⟩
      rw [ignore_mods_substring] at hi
      by_cases hq : q.seq = []
      · simp [hq] at hi
      · rw [if_neg (by simp [hne, hq])] at hi
        obtain ⟨h3, h4⟩ := (occurrences_spec _ _ _).mp hi
        exact ⟨q, hqs, hq, i, h1, h2, h3, h4⟩
    · rintro ⟨q, hqs, hq, i, h1, h2, h3, h4⟩
      refine ⟨q, hqs, i, ?_, h1, h2⟩
      rw [ignore_mods_substring, if_neg (by simp [hne, hq])]
      exact (occurrences_spec _ _ _).mpr ⟨h3, h4⟩
  rw [coverage_iff t subs true j hj, ← key]
  by_cases h : ∃ q ∈ subs, ∃ i ∈ findSubsequenceIndices t q true, i ≤ j ∧ j < i + q.seq.length
  · rw [if_pos h]; exact ⟨⟨fun _ => h, fun _ => rfl⟩, Or.inl rfl⟩
  · rw [if_neg h]; exact ⟨⟨fun hh => by simp at hh, fun hh => absurd hh h⟩, Or.inr rfl⟩

/-- modified target, modified subsequence, overlapping substring occurrences at 0 and 1 -/
example : coverage { seq := ['A', 'A', 'A', 'K'], internal := some [(0, [⟨.str ['1'], 1⟩])] }
    [{ seq := ['A', 'A'], internal := some [(1, [⟨.str ['2'], 1⟩])] }] false true = [1, 1, 1, 0] := by decide

end Search
end Pept
