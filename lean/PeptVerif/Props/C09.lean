import PeptVerif.Model.Serialize
/-!
# C09 — the parser is total (property theorems)
-/
namespace Pept

/-- before the fix commit: a bracket group that ends the input made `_parse_char` read past the end -/
theorem parse_total_false_before_fix_index :
    parse false "[a]".toList = .error .index := by decide +kernel

theorem parse_total_false_before_fix_index2 :
    parse false "[a]?[b]".toList = .error .index := by decide +kernel

/-- before the fix commit: `'@' in mod.val` on a number -/
theorem parse_total_false_before_fix_type :
    parse false "<13>PEP".toList = .error .type := by decide +kernel

end Pept
