import PeptVerif.Lemmas.ParserTotal
/-!
# C09 — the parser is total (property theorems)

Termination. `scan`, `digitsUS`, `intSpan`, `addGlobals`, the serializer: structural recursion.
`parseMods`, `parseStart`, `parseMiddle`, `parseEnd`, `parseChains`: well-founded recursion on the length of the
remaining input, accepted by Lean's termination checker with the decrease proofs written inside the definitions
(Model/Parser.lean) — that is the "never hangs" statement for the inner loops. For the outer chain loop the decrease is
the theorem `parseChains_never_hangs` below.

The deferred-validation clause (mass / comp of unresolvable modification values): `mod_mass` / `mod_comp` are not
modelled here; Props/C09Ext.lean proves the dispatch part for the fast path of `mass` (which fields reach the resolver, an
unresolvable reached field always raises) with the resolver as a parameter; the rest of that clause rests on the oracle of
harness/props/c09.py.
-/
namespace Pept

/-- Every iteration of the chain loop (`_ProFormaParser.parse`) consumes at least one character, for every input
and for the code before and after the fix: the model's progress test never fails, i.e. the Python
`while not self._end_of_sequence()` cannot spin. -/
theorem parseChains_never_hangs (fixed : Bool) (conn : Option Bool) (s : List Char) :
    parseChains fixed conn s ≠ .error .hang := by
  fun_induction parseChains fixed conn s
  all_goals try (intro h; cases h; done)
  · rename_i e hs; intro h; cases h; exact parseStart_noHang _ _ _ hs
  · rename_i e hm; intro h; cases h; exact (parseMiddle_vf _ _ _).noHang hm
  · rename_i e he; intro h; cases h; exact (parseEnd_vf _ _ _).noHang he
  · rename_i e hc ih; intro h; cases h; exact ih hc
  · -- the progress test cannot fail
    rename_i c cs a1 r1 hs a2 r2 hm a3 cn' r3 he hlt
    exfalso; apply hlt
    obtain ⟨hl1, hstop⟩ := parseStart_progress _ _ _ _ _ hs
    have hl3 := parseEnd_length _ _ _ _ _ _ he
    rcases hstop with h0 | ⟨c', t, hr, hc'⟩
    · subst h0
      have := parseMiddle_length _ _ _ _ _ hm
      simp only [List.length_nil, List.length_cons] at *; omega
    · subst hr
      have := parseMiddle_progress _ _ _ _ _ hc' hm
      simp only [List.length_cons] at *; omega

/-- every error of the chain loop of the repaired parser is of the ValueError family -/
theorem parseChains_vf (conn : Option Bool) (s : List Char) : VF (parseChains true conn s) := by
  intro e h
  have hh := parseChains_never_hangs true conn s
  revert h hh
  fun_induction parseChains true conn s
  all_goals intro h hh
  all_goals try (cases h; done)
  · rename_i e' hs; cases h; exact parseStart_vf _ _ _ hs
  · rename_i e' hm; cases h; exact parseMiddle_vf _ _ _ _ hm
  · rename_i e' he; cases h; exact parseEnd_vf _ _ _ _ he
  · rename_i e' hc ih; cases h
    exact ih hc (parseChains_never_hangs _ _ _)
  · exact absurd rfl hh

/-- **The parser is total.** For EVERY input string the (repaired) parser returns an annotation / multi-annotation
or raises `ProFormaFormatError` / `ValueError`; never IndexError, TypeError, KeyError, AttributeError, and it never
loops (`hang`). -/
theorem parse_total (s : List Char) :
    (∃ p, parse true s = .ok p) ∨ parse true s = .error .format ∨ parse true s = .error .value := by
  unfold parse
  split
  · exact Or.inl ⟨_, rfl⟩
  · split
    · rename_i e he
      have := parseChains_vf _ _ _ he
      cases e <;> simp [Err.valueFamily] at this ⊢
    · split <;> exact Or.inl ⟨_, rfl⟩

example : parse true "[a]?[+1.5]^2-PEP".toList = .ok (.single
    { seq := "PEP".toList, unknown := some [⟨.str ['a'], 1⟩], nterm := some [⟨.flt "1.5".toList, 2⟩] }) := by
  decide +kernel
example : parse true "[a]".toList = .error .format := by decide +kernel
example : parse true "PEP/".toList = .error .value := by decide +kernel

/-- The full statement is FALSE for the code before the fix commit (4c2ce90); witnesses replayed on that commit:
a bracket group that ends the input made `_parse_char` read `self.sequence[self.position]` past the end. -/
theorem parse_total_false_before_fix_index :
    parse false "[a]".toList = .error .index := by decide +kernel

theorem parse_total_false_before_fix_index2 :
    parse false "[a]?[b]".toList = .error .index := by decide +kernel

/-- before the fix commit: `'@' in mod.val` evaluated on a number -/
theorem parse_total_false_before_fix_type :
    parse false "<13>PEP".toList = .error .type := by decide +kernel

/-- the multi-chain joiner never indexes past `connections`, given one flag per junction (whatever the crosslink
joiner constant is) -/
theorem serializeMulti_ok (xj : List Char) (plus : Plus) (as : List Annotation) (conns : List (Option Bool))
    (h : as.length ≤ conns.length + 1) : ∃ t, serializeMultiWith xj plus as conns = .ok t := by
  induction as generalizing conns with
  | nil => exact ⟨_, rfl⟩
  | cons a rest ih =>
    cases rest with
    | nil => exact ⟨_, rfl⟩
    | cons b rest' =>
      cases conns with
      | nil => simp at h
      | cons cn conns' =>
        obtain ⟨t, ht⟩ := ih conns' (by simp at h ⊢; omega)
        exact ⟨serialize plus a ++ ((if cn = some true then xj else ['+']) ++ t), by simp [serializeMultiWith, ht]⟩

/-- **Whatever the parser accepts can be serialized** (either `include_plus`): `serialize` is a total function of the
model for single annotations, and for multi-chain results the connection list the parser builds is long enough. -/
theorem serialize_total (fixed : Bool) (plus : Plus) (s : List Char) (p : Parsed) (h : parse fixed s = .ok p) :
    ∃ t, serializeParsed plus p = .ok t := by
  unfold parse at h
  split at h
  · cases h; exact ⟨_, rfl⟩
  · split at h
    · cases h
    · rename_i l hl
      split at h
      · cases h; exact ⟨_, rfl⟩
      · cases h
        exact serializeMulti_ok _ _ _ _ (by simp; omega)

example : serializeParsed (constPlus true) (.multi [{ seq := "PEP".toList }, { seq := "TIDE".toList, charge := some 2 }] [some false])
    = .ok "PEP+TIDE/2".toList := by decide +kernel

end Pept
