import PeptVerif.Lemmas.Effects
import PeptVerif.Lemmas.EffectsNested
import PeptVerif.Model.EffectsApi
import PeptVerif.Lemmas.EffectsApi
import PeptVerif.Generated.Effects
/-!
# C08 — queries never change their arguments or depend on call history

Objects of the theorems: the effect model `Effects` (Model/Effects.lean) and the programs `Gen.*` regenerated from the
current /repo source on every run.

* `postfix_bounds_every_trace`, `mayWrite_sound`, `mayWriteGlobal_sound` hold for **any** program, summary table,
  trace (any order / repetition / prefix of the statements) and initial versions: they are the unbounded part.
* `history_independent`, `later_query_same_result`: histories of any length.
* `generated_*`, `summaries_closed`, `getters_pure`, `api_covered`: decided by the kernel over the regenerated modules
  (one generated file and one kernel check per Python source module, assembled in `Gen.all_ok`); a change in /repo that
  introduces a write into a query, or lets a result share state with an argument, breaks them (the driver names the function).

What this does **not** state: that a returned object is not identical to (part of) an argument — checked dynamically only.
Trusted: the translator's classification of Python statements (harness/translate_effects.py, header), and the step from
closed summaries to nested execution (calls are executed by their summaries; `summaries_closed` checks the table against
the bodies).
-/

namespace C08
open Effects

/-- Any name table closed under the statements of `p` bounds every execution: whatever the order, repetition or early exit,
the names stay below it and only objects in its write set ever change version. -/
theorem postfix_bounds_every_trace (S : List Summary) (p : List Stmt) (A : Pts)
    (hpost : ∀ s, s ∈ p → Le (step S s A) A) (tr : List Nat) (ver : Obj → Nat) :
    Le (execTrace S p tr (entry ver)).pts A ∧
      ∀ o, o ∉ writeSet S p A → (execTrace S p tr (entry ver)).ver o = ver o :=
  trace_bounded S p A hpost tr (entry ver) (nil_le A)

/-- both executable closedness checks establish the hypothesis of `postfix_bounds_every_trace` -/
theorem closedness_checks_sound (S : List Summary) (p : List Stmt) (A : Pts) :
    (isPost S p A = true → ∀ s, s ∈ p → Le (step S s A) A) ∧
    (passClosed S p A = true → ∀ s, s ∈ p → Le (step S s A) A) ∧
    (closedB S p A = true → ∀ s, s ∈ p → Le (step S s A) A) :=
  ⟨isPost_sound, passClosed_sound, closedB_sound⟩

example : isPost [] [.param 0 0, .elem 1 0, .shallow 2 [0], .write 2] (analyse [] [.param 0 0, .elem 1 0, .shallow 2 [0], .write 2] 2) = true := by
  decide

theorem dedup_eq_nil {α : Type} [DecidableEq α] : ∀ {l : List α}, dedup l = [] → l = []
  | [], _ => rfl
  | a :: l, h => by
    unfold dedup at h
    by_cases ha : a ∈ dedup l
    · simp only [ha, if_true] at h
      rw [h] at ha
      cases ha
    · simp only [ha, if_false] at h
      cases h

/-- **Soundness of the analysis (parameters).** For any table `A` closed under the program: if no parameter object is in the
write set bounded by `A`, then no execution of the program — any trace, any initial versions — changes the version of any
parameter object or of anything below it. -/
theorem mayWriteIn_sound (S : List Summary) (p : List Stmt) (A : Pts)
    (hclosed : ∀ s, s ∈ p → Le (step S s A) A) (h : mayWriteIn S p A = []) :
    ∀ (tr : List Nat) (ver : Obj → Nat) (i : Nat),
      (execTrace S p tr (entry ver)).ver (.root i) = ver (.root i) ∧
      (execTrace S p tr (entry ver)).ver (.inner i) = ver (.inner i) := by
  intro tr ver i
  have hb := (postfix_bounds_every_trace S p A hclosed tr ver).2
  have hnil := dedup_eq_nil h
  rw [List.filterMap_eq_nil_iff] at hnil
  constructor
  · apply hb
    intro hmem
    have := hnil _ hmem
    simp [paramOf] at this
  · apply hb
    intro hmem
    have := hnil _ hmem
    simp [paramOf] at this

/-- … and the same for the records the caller handed in (objects `recd i`, `recTop i`) -/
theorem mayWriteIn_sound_records (S : List Summary) (p : List Stmt) (A : Pts)
    (hclosed : ∀ s, s ∈ p → Le (step S s A) A) (h : mayWriteIn S p A = []) :
    ∀ (tr : List Nat) (ver : Obj → Nat) (i : Nat),
      (execTrace S p tr (entry ver)).ver (.recd i) = ver (.recd i) ∧
      (execTrace S p tr (entry ver)).ver (.recTop i) = ver (.recTop i) := by
  intro tr ver i
  have hb := (postfix_bounds_every_trace S p A hclosed tr ver).2
  have hnil := dedup_eq_nil h
  rw [List.filterMap_eq_nil_iff] at hnil
  constructor
  · apply hb
    intro hmem
    have := hnil _ hmem
    simp [paramOf] at this
  · apply hb
    intro hmem
    have := hnil _ hmem
    simp [paramOf] at this

/-- the same with the table computed by the analysis itself (`fuel` passes, then checked closed) -/
theorem mayWrite_sound (S : List Summary) (p : List Stmt) (fuel : Nat)
    (hok : analysisOK S p fuel = true) (h : mayWrite S p fuel = []) :
    ∀ (tr : List Nat) (ver : Obj → Nat) (i : Nat),
      (execTrace S p tr (entry ver)).ver (.root i) = ver (.root i) ∧
      (execTrace S p tr (entry ver)).ver (.inner i) = ver (.inner i) :=
  mayWriteIn_sound S p (analyse S p fuel) (passClosed_sound hok) h

example : analysisOK [] [.param 0 0, .shallow 1 [0], .write 1] 2 = true ∧ mayWrite [] [.param 0 0, .shallow 1 [0], .write 1] 2 = [] := by
  decide

/-- the analysis does flag the patterns of the repaired defects: `x = param; x.pop()` and writing an element of a shallow copy -/
theorem mayWrite_flags_alias_and_element_writes :
    mayWrite [] [.param 0 0, .alias 1 [0], .write 1] 2 = [0] ∧
    mayWrite [] [.param 0 0, .shallow 1 [0], .elem 2 1, .write 2] 2 = [0] := by
  decide

/-- **Soundness of the analysis (process-wide objects).** -/
theorem mayWriteGlobalIn_sound (S : List Summary) (p : List Stmt) (A : Pts)
    (hclosed : ∀ s, s ∈ p → Le (step S s A) A) (h : mayWriteGlobalIn S p A = []) :
    ∀ (tr : List Nat) (ver : Obj → Nat) (g : Nat),
      (execTrace S p tr (entry ver)).ver (.glob g) = ver (.glob g) := by
  intro tr ver g
  have hb := (postfix_bounds_every_trace S p A hclosed tr ver).2
  have hnil := dedup_eq_nil h
  rw [List.filterMap_eq_nil_iff] at hnil
  apply hb
  intro hmem
  have := hnil _ hmem
  simp [globOf] at this

example : mayWriteGlobal [] [.global 0 3, .elem 1 0] 2 = [] ∧ mayWriteGlobal [] [.gwrite 0] 1 = [0] := by decide

/-! ## results share no mutable state with the arguments -/

theorem cellObjs_mono {c d : Cell} (h : CellLe c d) : cellObjs c ⊆ cellObjs d :=
  append_mono h.1 (append_mono h.2.1 h.2.2)

/-- **Soundness of the sharing analysis.** For any table closed under the program: if `mayShareIn A ret = []`, then in every
execution (any trace, any initial versions) nothing the result name may denote, hold or reach is a parameter object or a
container / annotation below a parameter. -/
theorem mayShareIn_sound (S : List Summary) (p : List Stmt) (A : Pts) (ret : Nat)
    (hclosed : ∀ s, s ∈ p → Le (step S s A) A) (h : mayShareIn A ret = []) :
    ∀ (tr : List Nat) (ver : Obj → Nat) (o : Obj),
      o ∈ cellObjs ((execTrace S p tr (entry ver)).pts.get ret) → shareParamOf o = none := by
  intro tr ver o ho
  have hle := (postfix_bounds_every_trace S p A hclosed tr ver).1
  have hnil := dedup_eq_nil h
  rw [List.filterMap_eq_nil_iff] at hnil
  exact hnil o (cellObjs_mono (hle ret) ho)

/-- the same for process-wide objects: the result is not, and does not contain, a module-level table or database -/
theorem mayShareGlobalIn_sound (S : List Summary) (p : List Stmt) (A : Pts) (ret : Nat)
    (hclosed : ∀ s, s ∈ p → Le (step S s A) A) (h : mayShareGlobalIn A ret = []) :
    ∀ (tr : List Nat) (ver : Obj → Nat) (o : Obj),
      o ∈ cellObjs ((execTrace S p tr (entry ver)).pts.get ret) → globOf o = none := by
  intro tr ver o ho
  have hle := (postfix_bounds_every_trace S p A hclosed tr ver).1
  have hnil := dedup_eq_nil h
  rw [List.filterMap_eq_nil_iff] at hnil
  exact hnil o (cellObjs_mono (hle ret) ho)

/-- together: the returned object and everything below it is allocated by the call itself, or is a record the caller handed
in (Mod, Interval, Fragment …: the reading decision) -/
theorem result_fresh (S : List Summary) (p : List Stmt) (A : Pts) (ret : Nat)
    (hclosed : ∀ s, s ∈ p → Le (step S s A) A) (h1 : mayShareIn A ret = []) (h2 : mayShareGlobalIn A ret = [])
    (tr : List Nat) (ver : Obj → Nat) (o : Obj)
    (ho : o ∈ cellObjs ((execTrace S p tr (entry ver)).pts.get ret)) :
    (∃ s, o = .loc s) ∨ (∃ i, o = .recd i) ∨ (∃ i, o = .recTop i) := by
  have a := mayShareIn_sound S p A ret hclosed h1 tr ver o ho
  have b := mayShareGlobalIn_sound S p A ret hclosed h2 tr ver o ho
  cases o with
  | root i => simp [shareParamOf] at a
  | inner i => simp [shareParamOf] at a
  | recd i => exact Or.inr (Or.inl ⟨i, rfl⟩)
  | recTop i => exact Or.inr (Or.inr ⟨i, rfl⟩)
  | glob g => simp [globOf] at b
  | loc s => exact Or.inl ⟨s, rfl⟩

/-- the sharing analysis sees the patterns it is meant to see: returning the argument, returning a shallow copy whose
elements are the caller's containers, storing a caller's list into a new object (the `slice` mutation), returning a module
table; and it accepts a deep copy and a new list of the caller's records -/
theorem mayShare_flags_and_accepts :
    mayShareIn (analyse [] [.param 0 0, .alias 1 [0]] 2) 1 = [0] ∧
    mayShareIn (analyse [] [.param 0 0, .shallow 1 [0]] 2) 1 = [0] ∧
    mayShareIn (analyse [] [.param 0 0, .fresh 1, .elem 2 0, .store 1 2] 3) 1 = [0] ∧
    mayShareGlobalIn (analyse [] [.global 0 5, .alias 1 [0]] 2) 1 = [5] ∧
    mayShareIn (analyse [] [.param 0 0, .fresh 1] 2) 1 = [] ∧
    mayShareIn (analyse [] [.param 0 0, .asRec 2 0 1, .shallow 1 [2]] 3) 1 = [] := by
  decide

/-- a call that the analysis finds free of parameter and global writes -/
def PureCall (S : List Summary) (c : Call) : Prop :=
  ∃ A, closedB S c.prog A = true ∧ mayWriteIn S c.prog A = [] ∧ mayWriteGlobalIn S c.prog A = []

/-- frame lemma for one call: every caller-visible object keeps its version -/
theorem pure_call_frame (S : List Summary) (c : Call) (hc : PureCall S c) (ver : Obj → Nat) :
    ∀ o, isCaller o = true → runCall S c ver o = ver o := by
  obtain ⟨A, hok, hw, hg⟩ := hc
  intro o ho
  unfold runCall
  cases o with
  | root i => exact (mayWriteIn_sound S c.prog A (closedB_sound hok) hw c.trace ver i).1
  | inner i => exact (mayWriteIn_sound S c.prog A (closedB_sound hok) hw c.trace ver i).2
  | recd i => exact (mayWriteIn_sound_records S c.prog A (closedB_sound hok) hw c.trace ver i).1
  | recTop i => exact (mayWriteIn_sound_records S c.prog A (closedB_sound hok) hw c.trace ver i).2
  | glob g => exact mayWriteGlobalIn_sound S c.prog A (closedB_sound hok) hg c.trace ver g
  | loc s => simp [isCaller] at ho

/-- **History independence**: after any history (any length, any traces) of pure calls every caller-visible object has the
version it had before. -/
theorem history_independent (S : List Summary) (h : List Call) (hq : ∀ c, c ∈ h → PureCall S c) :
    ∀ (ver : Obj → Nat) (o : Obj), isCaller o = true → runHistory S h ver o = ver o := by
  induction h with
  | nil => intro ver o _; rfl
  | cons c h ih =>
    intro ver o ho
    simp only [runHistory]
    rw [ih (fun c' hc' => hq c' (List.mem_cons_of_mem _ hc')) (runCall S c ver) o ho]
    exact pure_call_frame S c (hq c List.mem_cons_self) ver o ho

/-- hence any deterministic result that depends only on the caller-visible objects is the same after the history as on the
fresh store -/
theorem later_query_same_result {β : Type} (S : List Summary) (h : List Call) (hq : ∀ c, c ∈ h → PureCall S c)
    (result : (Obj → Nat) → β)
    (hres : ∀ v v' : Obj → Nat, (∀ o, isCaller o = true → v o = v' o) → result v = result v')
    (ver : Obj → Nat) :
    result (runHistory S h ver) = result ver :=
  hres _ _ (fun o ho => history_independent S h hq ver o ho)

example : PureCall [] ⟨[.param 0 0, .shallow 1 [0], .write 1], [2, 1, 0, 2, 2]⟩ :=
  ⟨analyse [] [.param 0 0, .shallow 1 [0], .write 1] 2, by decide, by decide, by decide⟩

/-! ## from closed summaries to nested calls -/

theorem closedAll_of_range {S : List Summary} {fns : List FnInfo}
    (h : (List.range fns.length).all (fun f => closedAt S fns f) = true) :
    ∀ f i, fns[f]? = some i → closedAt S fns f = true := by
  intro f i hf
  rw [List.all_eq_true] at h
  apply h f
  rw [List.mem_range]
  by_cases hlt : f < fns.length
  · exact hlt
  · rw [List.getElem?_eq_none (Nat.le_of_not_lt hlt)] at hf
    cases hf

/-- **Nested calls.** In `execTrace` a call is executed by the callee's summary. `execN` really runs the callee's body (any
nested trace, fresh frame) and applies what that run did. If the summary table is closed under every body (`closedAt`, the
content of `summaries_closed`), nested execution of any body, from any state below its table, stays below the table and
writes only objects of the write set computed with summaries — so every statement proved about `writeSet` / `mayWriteIn`
holds for real nested calls. -/
theorem nested_calls_bounded (S : List Summary) (fns : List FnInfo)
    (hclosed : (List.range fns.length).all (fun f => closedAt S fns f) = true)
    (tr : NTrace) (p : List Stmt) (A : Pts) (hA : closedB S p A = true) (σ : NState) (hσ : Le σ.pts A) :
    Le (execN fns p tr σ).pts A ∧ ∀ o, o ∈ (execN fns p tr σ).log → o ∈ σ.log ∨ o ∈ writeSet S p A :=
  nested_bounded S fns (closedAll_of_range hclosed) tr p A hA σ hσ

/-- a program whose table shows no parameter and no global in the write set writes, under nested execution from a fresh
frame, nothing the caller can see -/
theorem nested_pure_call_writes_nothing (S : List Summary) (fns : List FnInfo)
    (hclosed : (List.range fns.length).all (fun f => closedAt S fns f) = true)
    (p : List Stmt) (A : Pts) (hA : closedB S p A = true)
    (hw : mayWriteIn S p A = []) (hg : mayWriteGlobalIn S p A = []) (tr : NTrace) :
    ∀ o, o ∈ (execN fns p tr ⟨[], []⟩).log → isCaller o = false := by
  intro o ho
  have hmem : o ∈ writeSet S p A := by
    rcases (nested_calls_bounded S fns hclosed tr p A hA ⟨[], []⟩ (nil_le A)).2 o ho with h | h
    · cases h
    · exact h
  have h1 := dedup_eq_nil hw
  have h2 := dedup_eq_nil hg
  rw [List.filterMap_eq_nil_iff] at h1 h2
  have p1 := h1 o hmem
  have p2 := h2 o hmem
  cases o with
  | root i => simp [paramOf] at p1
  | inner i => simp [paramOf] at p1
  | recd i => simp [paramOf] at p1
  | recTop i => simp [paramOf] at p1
  | glob g => simp [globOf] at p2
  | loc s => rfl

/-- non-vacuity: a callee that pops from its parameter, called on a shallow copy of the caller's parameter and on the
parameter itself; the nested run of the second caller does write the caller's object -/
example :
    let callee : FnInfo := { prog := [.param 0 0, .write 0], nparams := 1, ret := 1, fuel := 1,
                             table := [{ top := [.root 0], kids := [.inner 0], deep := [.inner 0] }] }
    let S : List Summary := [{ writes := [(0, false)] }]
    closedAt S [callee] 0 = true ∧
    (execN [callee] [.param 0 0, .shallow 1 [0], .call 2 0 [some 1]] (.step 0 .done (.step 1 .done (.step 2 (.step 0 .done (.step 1 .done .done)) .done))) ⟨[], []⟩).log = [.loc 1] ∧
    (execN [callee] [.param 0 0, .call 2 0 [some 0]] (.step 0 .done (.step 1 (.step 0 .done (.step 1 .done .done)) .done)) ⟨[], []⟩).log = [.root 0] := by
  decide

/-! ## obligations over the regenerated modules

The translator writes one Lean file per Python source module (`Generated/Effects/M_<module>.lean`) holding the programs and
tables of that module's functions and one theorem `Gen.M_<module>.ok`, decided by the kernel: for each of these functions the
table is closed under the program, the summary the program induces is within the global summary table, and the write / sharing
sets read off the table are the verdict claimed in the global verdict table (`Generated/Effects/Core.lean`).  `Gen.all_ok`
assembles them.  A change of one function body therefore re-checks one module; the obligations below are decided over the
small verdict table and tied to the programs by `generated_verdicts_correct`. -/

/-- the verdict claimed (and checked) for function `f` -/
abbrev V (f : Nat) : Verdict := verdictOf Gen.verdicts f

/-- member of the explicit list `Effects.declaredSharing` (Model/EffectsApi.lean) -/
def isDeclaredSharing (e : Gen.ApiEntry) : Bool := declaredSharingCodes.contains e.code

/-- member of the explicit list `Effects.declaredOutside` (Model/EffectsApi.lean) -/
def isOutside (e : Gen.ApiEntry) : Bool := declaredOutsideCodes.contains e.code

/-- the code-point lists used below are the explicit name lists of Model/EffectsApi.lean -/
theorem declared_lists_spelled :
    declaredOutsideCodes = declaredOutside.map (fun s => s.toList.map Char.toNat) ∧
    declaredSharingCodes = declaredSharing.map (fun s => s.toList.map Char.toNat) ∧
    declaredDbEditorCodes = declaredDbEditors.map (fun s => s.toList.map Char.toNat) :=
  ⟨declaredOutsideCodes_spelled, declaredSharingCodes_spelled, declaredDbEditorCodes_spelled⟩

/-- member of the explicit list `Effects.declaredDbEditors` -/
def isDbEditor (e : Gen.ApiEntry) : Bool := declaredDbEditorCodes.contains e.code

/-- the entry refers to a translated function -/
def fidOK (e : Gen.ApiEntry) : Bool := e.fid < Gen.fnsIdx.length

/-- every translated function passed the kernel check of its source module's generated file -/
theorem generated_functions_checked :
    Gen.fnsIdx.all (fun p => entryOK Gen.summaries Gen.verdicts p.1 p.2) = true := Gen.all_ok

/-- function ids are positions in `Gen.fns` -/
theorem generated_ids_are_positions : Gen.fnsIdx.map (·.1) = List.range Gen.fnsIdx.length := by
  decide +kernel

theorem generated_entry (f : Nat) (i : FnInfo) (h : Gen.fns[f]? = some i) :
    entryOK Gen.summaries Gen.verdicts f i = true := by
  have hm := mem_of_idx Gen.fnsIdx generated_ids_are_positions f i h
  have hall := generated_functions_checked
  rw [List.all_eq_true] at hall
  exact hall (f, i) hm

/-- the table of every generated function is closed under its program -/
theorem generated_tables_closed (f : Nat) (i : FnInfo) (hf : Gen.fns[f]? = some i) :
    closedB Gen.summaries i.prog i.table = true := by
  have h := generated_entry f i hf
  unfold entryOK at h
  simp only [Bool.and_eq_true] at h
  exact h.1.1.1.1.1

/-- the summary table the calls are executed by is closed under every body -/
theorem summaries_closed : (List.range Gen.fns.length).all (fun f => closedAt Gen.summaries Gen.fns f) = true := by
  rw [List.all_eq_true]
  intro f hf
  rw [List.mem_range] at hf
  have hi : Gen.fns[f]? = some Gen.fns[f] := List.getElem?_eq_getElem hf
  have h := generated_entry f _ hi
  unfold entryOK at h
  simp only [Bool.and_eq_true] at h
  unfold closedAt
  rw [hi]
  simp only [Bool.and_eq_true]
  exact ⟨h.1.1.1.1.1, h.1.1.1.1.2⟩

/-- the verdict table says what the analysis reads off the (closed) tables -/
theorem generated_verdicts_correct (f : Nat) (i : FnInfo) (hf : Gen.fns[f]? = some i) :
    sameSet (mayWriteIn Gen.summaries i.prog i.table) (V f).writes = true ∧
    sameSet (mayWriteGlobalIn Gen.summaries i.prog i.table) (V f).globals = true ∧
    sameSet (mayShareIn i.table i.ret) (V f).share = true ∧
    sameSet (mayShareGlobalIn i.table i.ret) (V f).shareGlobals = true := by
  have h := generated_entry f i hf
  unfold entryOK at h
  simp only [Bool.and_eq_true] at h
  exact ⟨h.1.1.1.2, h.1.1.2, h.1.2, h.2⟩

/-- every API member that is not a declared editor writes no parameter and no process-wide object -/
theorem generated_queries_pure :
    Gen.api.all (fun e => e.editor || e.random || isOutside e ||
      (fidOK e && ((V e.fid).writes == []) && ((V e.fid).globals == []))) = true := by
  decide +kernel

/-- declared editors (add_*, pop_*, clear_*, setters, inplace=True, constructors) write nothing but their own object
(parameter 0) and no process-wide object -/
theorem generated_editors_write_only_target :
    Gen.api.all (fun e => !e.editor || e.random || isOutside e ||
      (fidOK e && (V e.fid).writes.all (fun j => j == 0) && ((V e.fid).globals == []))) = true := by
  decide +kernel

/-- `shuffle` is random by contract: it may consume the module generator (object 0) and nothing else; its non-inplace
form writes no parameter -/
theorem generated_random_only_rng :
    Gen.api.all (fun e => !e.random ||
      (fidOK e && (V e.fid).writes.all (fun j => e.editor && j == 0) && (V e.fid).globals.all (fun g => g == 0))) = true := by
  decide +kernel

/-- **Results are fresh.** Every API member that is not an editor, not declared outside and not in the explicit
`declaredSharing` list returns an object that is not, and does not contain, a parameter object, a container or annotation
below a parameter, or a process-wide object (records handed in by the caller excepted, see `shareParamOf`). -/
theorem generated_results_fresh :
    Gen.api.all (fun e => e.editor || isOutside e || isDeclaredSharing e ||
      (fidOK e && ((V e.fid).share == []) && ((V e.fid).shareGlobals == []))) = true := by
  decide +kernel

/-- the members of `declaredSharing` are there for a reason: the analysis does flag each of them -/
theorem declared_sharing_is_flagged :
    Gen.api.all (fun e => !isDeclaredSharing e || (fidOK e && !((V e.fid).share == []))) = true := by
  decide +kernel

/-- **The modification databases are untouched.** No public function or annotation method - editors, members declared
outside and random ones included, only the three explicit database editors (`declaredDbEditors`) excepted - may write one of
the module-level EntryDb objects or hand one back; and the only process-wide object any of them may write at all is the
module random generator (object 0: `shuffle` and the randomizers). -/
theorem generated_db_untouched :
    Gen.api.all (fun e => isDbEditor e || (fidOK e &&
      (V e.fid).globals.all (fun g => !Gen.dbGlobals.contains g && g == 0) &&
      (V e.fid).shareGlobals.all (fun g => !Gen.dbGlobals.contains g))) = true := by
  decide +kernel

/-- non-vacuity of `generated_db_untouched`: the analysis does see database writes - the explicit database editors
(`reload_all_databases`, `reset_all_databases`) are flagged as writing EntryDb objects -/
theorem db_editors_are_flagged :
    (!Gen.dbEditors.isEmpty && !Gen.dbGlobals.isEmpty &&
      Gen.dbEditors.all (fun f => f < Gen.fnsIdx.length && (V f).globals.any (fun g => Gen.dbGlobals.contains g))) = true := by
  decide +kernel

/-- property getters and implicitly invoked special methods are read as plain field access / not seen as calls by the
translator; they are analysed too and write nothing -/
theorem getters_pure :
    Gen.getters.all (fun f => f < Gen.fnsIdx.length && ((V f).writes == []) && ((V f).globals == [])) = true := by
  decide +kernel

/-- every public callable that accepts an annotation / dict / list is analysed or explicitly declared outside -/
theorem api_covered :
    Gen.apiSurface.all (fun s => Gen.analysed.contains s.1 || declaredOutsideCodes.contains s.1) = true := by
  decide +kernel

/-- **End to end for the regenerated module**: an API member that is not a declared editor, not random by contract and not
declared outside leaves every caller-visible object (parameters, everything below them, records handed in, process-wide
objects) at its version, for every trace of its translated body. -/
theorem generated_query_frame (e : Gen.ApiEntry) (he : e ∈ Gen.api)
    (h1 : e.editor = false) (h2 : e.random = false) (h3 : isOutside e = false)
    (i : FnInfo) (hi : Gen.fns[e.fid]? = some i) (tr : List Nat) (ver : Obj → Nat) (o : Obj) (ho : isCaller o = true) :
    (execTrace Gen.summaries i.prog tr (entry ver)).ver o = ver o := by
  have h := generated_queries_pure
  rw [List.all_eq_true] at h
  have hq := h e he
  simp only [h1, h2, h3, Bool.false_or, Bool.and_eq_true, beq_iff_eq] at hq
  obtain ⟨hw, hg, _, _⟩ := generated_verdicts_correct e.fid i hi
  rw [hq.1.2] at hw
  rw [hq.2] at hg
  have hpc : PureCall Gen.summaries ⟨i.prog, tr⟩ :=
    ⟨i.table, generated_tables_closed e.fid i hi, sameSet_nil hw, sameSet_nil hg⟩
  exact pure_call_frame Gen.summaries ⟨i.prog, tr⟩ hpc ver o ho

/-- **End to end, results**: for a member that is not an editor, not declared outside and not in `declaredSharing`, in every
trace, whatever the result may denote, hold or reach is allocated by the call or is a record handed in by the caller. -/
theorem generated_result_frame (e : Gen.ApiEntry) (he : e ∈ Gen.api)
    (h1 : e.editor = false) (h2 : isOutside e = false) (h3 : isDeclaredSharing e = false)
    (i : FnInfo) (hi : Gen.fns[e.fid]? = some i) (tr : List Nat) (ver : Obj → Nat) (o : Obj)
    (ho : o ∈ cellObjs ((execTrace Gen.summaries i.prog tr (entry ver)).pts.get i.ret)) :
    (∃ s, o = .loc s) ∨ (∃ j, o = .recd j) ∨ (∃ j, o = .recTop j) := by
  have h := generated_results_fresh
  rw [List.all_eq_true] at h
  have hq := h e he
  simp only [h1, h2, h3, Bool.false_or, Bool.and_eq_true, beq_iff_eq] at hq
  obtain ⟨_, _, hs, hsg⟩ := generated_verdicts_correct e.fid i hi
  rw [hq.1.2] at hs
  rw [hq.2] at hsg
  exact result_fresh Gen.summaries i.prog i.table i.ret (closedB_sound (generated_tables_closed e.fid i hi))
    (sameSet_nil hs) (sameSet_nil hsg) tr ver o ho

/-- nested execution of the regenerated bodies is bounded by their tables (instance of `nested_calls_bounded`) -/
theorem generated_nested_calls_bounded (tr : NTrace) (p : List Stmt) (A : Pts) (hA : closedB Gen.summaries p A = true)
    (σ : NState) (hσ : Le σ.pts A) :
    Le (execN Gen.fns p tr σ).pts A ∧ ∀ o, o ∈ (execN Gen.fns p tr σ).log → o ∈ σ.log ∨ o ∈ writeSet Gen.summaries p A :=
  nested_calls_bounded Gen.summaries Gen.fns summaries_closed tr p A hA σ hσ

/-- a checked table without parameter / global writes makes every trace of the body a `PureCall`, so the history theorems
apply to the regenerated pure API members -/
theorem generated_query_is_pure_call (i : FnInfo)
    (hok : closedB Gen.summaries i.prog i.table = true) (hw : mayWriteIn Gen.summaries i.prog i.table = [])
    (hg : mayWriteGlobalIn Gen.summaries i.prog i.table = []) (tr : List Nat) :
    PureCall Gen.summaries ⟨i.prog, tr⟩ :=
  ⟨i.table, hok, hw, hg⟩

end C08
