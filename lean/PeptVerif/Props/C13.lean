import PeptVerif.Model.ModBuilder
import PeptVerif.Spec.ModBuilder
/-! # C13 — property theorems (being written) -/
