import PeptVerif.Lemmas.ModBuilder
import PeptVerif.Lemmas.ModBuilderRegex
/-!
# C13 — static and variable modification builders produce exactly the intended forms

Property theorems only. The left-hand sides are the models of `apply_static_mods` / `apply_variable_mods`
(`Model/ModBuilder.lean`, the code after repair c2a4986); `StaticSpec`, `staticTable`, `staticOffers`, `specVariable`,
`specForms` are the specification (`Spec/ModBuilder.lean`). Rules enter as site lists; the only thing assumed about a
site list is what the regex matcher guarantees: no position twice (`SitesOK`).
-/
namespace Pept
namespace ModBuilder

/-- no rule lists a position twice (`finditer` yields every start position at most once) -/
def SitesOK {α : Type} (rules : List (Rule α)) : Prop := ∀ r ∈ rules, r.1.Nodup

/-- the same for a terminal argument; `es` are the sites of the regex `''` used for a bare value -/
def TermSitesOK {α : Type} (es : List Int) (t : TermIn α) : Prop :=
  es.Nodup ∧ ∀ rules, t = .dict rules → SitesOK rules

/-- the rule dict `apply_static_mods` works with after `fix_list_of_mods` -/
def staticInternalRules (internal : Option (List (Rule ModsIn))) : List (Rule (List Mod)) :=
  (internal.getD []).map fun r => (r.1, fixListOfMods r.2)

/-- the rule dict `apply_variable_mods` works with after `fix_list_of_list_of_mods` / `remove_empty…` -/
def varInternalRules (internal : Option (List (Rule VarIn))) : List (Rule (List Group)) :=
  varRules (internal.getD [])

/-! ## static rules -/

/-- C13 (static): the mods at every index `i` (any integer) are the table entry for
(matched by which rules?, pre-modified?, mode); the same table governs the two termini (position 0 resp. `n-1` has to be
among the sites of the terminal rule); every other field, the residues included, is unchanged.
For every annotation, every rule set, all three modes. -/
theorem static_spec (a : Annotation) (internal : Option (List (Rule ModsIn))) (nterm cterm : TermIn ModsIn)
    (mode : Mode) (es : List Int) :
    StaticSpec a (applyStatic a internal nterm cterm mode es)
      (staticInternalRules internal) (staticTermRules es nterm) (staticTermRules es cterm) mode := by
  have : applyStatic a internal nterm cterm mode es
      = applyStaticCore a (staticInternalRules internal) (staticTermRules es nterm) (staticTermRules es cterm) mode := by
    cases internal <;> rfl
  rw [this]
  exact applyStaticCore_spec ..

/-- C13 (static): a residue that no (non-empty) rule matches is untouched, in every mode. -/
theorem static_unmatched_untouched (a : Annotation) (internal : Option (List (Rule ModsIn)))
    (nterm cterm : TermIn ModsIn) (mode : Mode) (es : List Int) (i : Int)
    (h : staticOffers (staticInternalRules internal) i = []) :
    modsAt (applyStatic a internal nterm cterm mode es) i = modsAt a i := by
  rw [(static_spec a internal nterm cterm mode es).residues i, h]
  simp [staticTable]

/-- C13 (static): a matched residue that was unmodified carries exactly the offered mods, in every mode. -/
theorem static_matched_unmodified (a : Annotation) (internal : Option (List (Rule ModsIn)))
    (nterm cterm : TermIn ModsIn) (mode : Mode) (es : List Int) (i : Int)
    (h : staticOffers (staticInternalRules internal) i ≠ []) (hu : modsAt a i = none) :
    modsAt (applyStatic a internal nterm cterm mode es) i
      = some (staticOffers (staticInternalRules internal) i).flatten := by
  rw [(static_spec a internal nterm cterm mode es).residues i, hu]
  simp [staticTable, h]

/-- C13 (static): applying the same rules a second time in mode skip changes nothing more. -/
theorem static_skip_idempotent (a : Annotation) (internal : Option (List (Rule ModsIn))) (nterm cterm : TermIn ModsIn)
    (es : List Int) :
    applyStatic (applyStatic a internal nterm cterm .skip es) internal nterm cterm .skip es
      = applyStatic a internal nterm cterm .skip es := by
  have : ∀ x, applyStatic x internal nterm cterm .skip es
      = applyStaticCore x (staticInternalRules internal) (staticTermRules es nterm) (staticTermRules es cterm) .skip := by
    intro x; cases internal <;> rfl
  rw [this, this]
  exact applyStaticCore_skip_idem ..

/-- non-vacuity: `apply_static_mods('PEP[1]', {'P': ['phospho'], 'PE': [3]}, nterm_mods='acetyl', mode='append')` -/
example :
    let a : Annotation := { seq := "PEP".toList, internal := some [(2, [⟨.int 1, 1⟩])] }
    let r := applyStatic a (some [([0, 2], .many [⟨.str "phospho".toList, 1⟩]), ([0], .many [⟨.int 3, 1⟩])])
      (.direct (.one ⟨.str "acetyl".toList, 1⟩)) .none .append [-1, 0, 1, 2]
    modsAt r 0 = some [⟨.str "phospho".toList, 1⟩, ⟨.int 3, 1⟩] ∧
    modsAt r 2 = some [⟨.int 1, 1⟩, ⟨.str "phospho".toList, 1⟩] ∧ modsAt r 1 = none ∧
    r.nterm = some [⟨.str "acetyl".toList, 1⟩] := by decide

/-! ## variable rules -/

theorem applyVariable_eq (a : Annotation) (internal : Option (List (Rule VarIn))) (maxMods : Int)
    (nterm cterm : TermIn VarIn) (mode : Mode) (es : List Int) :
    applyVariable a internal maxMods nterm cterm mode es
      = applyVariableCore a (varInternalRules internal) (varTermRules es nterm) (varTermRules es cterm) maxMods mode := by
  cases internal <;> rfl

/-- C13 (variable, mode skip), exactness: the returned list is a permutation of the explicit enumeration
`specForms` = terminal variants × { `T ⊆` unmodified matched residues, `|T| ≤ max_mods`, one offered group per site of `T` }
– every form of the specification as often as the specification lists it, and nothing else.
For every annotation (any pre-existing mods), any rule sets, every `max_mods ≥ 0`. -/
theorem variable_skip_exact (a : Annotation) (internal : Option (List (Rule VarIn))) (maxMods : Int)
    (nterm cterm : TermIn VarIn) (es : List Int) (h0 : 0 ≤ maxMods)
    (hi : SitesOK (internal.getD [])) (hn : TermSitesOK es nterm) (hc : TermSitesOK es cterm) :
    (applyVariable a internal maxMods nterm cterm .skip es).Perm
      (specVariable a internal maxMods nterm cterm .skip es) := by
  rw [applyVariable_eq]
  have : specVariable a internal maxMods nterm cterm .skip es
      = specForms a (varInternalRules internal) (varTermRules es nterm) (varTermRules es cterm) maxMods := by
    cases internal <;> rfl
  rw [this]
  refine applyVariableCore_skip_perm a _ _ _ maxMods h0 ?_ ?_ ?_
  · exact fun r hr => (goodRules_varRules _ hi r hr).1
  · exact goodRules_varTermRules es hn.1 nterm hn.2
  · exact goodRules_varTermRules es hc.1 cterm hc.2

/-- What the enumeration `specForms` contains, as a set comprehension (a statement about the specification alone, so that
it can be read without trusting the enumeration code): `x` is listed iff there are a terminal variant `(n, c)`, a sub-list
`S` of the eligible sites of that variant — positions `0 ≤ i < len`, unmodified, with a non-empty list `offered i` — with
`|S| ≤ max_mods`, and a choice `T` of one offered group per site of `S`, such that `x` is the variant with exactly the
entries `T` added to its dict. -/
theorem mem_specForms_iff (a : Annotation) (internal nt ct : List (Rule (List Group))) (maxMods : Int) (x : Annotation) :
    x ∈ specForms a internal nt ct maxMods ↔
      ∃ n ∈ nVariants a nt, ∃ c ∈ cVariants a ct, ∃ S T,
        S.Sublist (eligible (withTerm a n c) internal) ∧ (S.length : Int) ≤ maxMods ∧
        List.Forall₂ (fun t s => t.1 = s.1 ∧ t.2 ∈ s.2) T S ∧ x = withChoice (withTerm a n c) T := by
  unfold specForms
  simp only [List.mem_flatMap, mem_internalForms]

/-- … and which sites are eligible. -/
theorem mem_eligible_iff (a : Annotation) (rules : List (Rule (List Group))) (i : Int) (gs : List Group) :
    (i, gs) ∈ eligible a rules ↔
      0 ≤ i ∧ i < (a.seq.length : Int) ∧ modsAt a i = none ∧ gs = offered rules i ∧ gs ≠ [] :=
  mem_eligible a rules i gs

/-- C13 (variable, mode skip), "exactly once": when the groups offered at each residue are pairwise different, and so
are the groups offered to the N-terminus and those offered to the C-terminus, no form is returned twice. -/
theorem variable_skip_nodup (a : Annotation) (internal : Option (List (Rule VarIn))) (maxMods : Int)
    (nterm cterm : TermIn VarIn) (es : List Int)
    (hi : SitesOK (internal.getD [])) (hn : TermSitesOK es nterm) (hc : TermSitesOK es cterm)
    (hd : ∀ j : Int, (offered (varInternalRules internal) j).Nodup)
    (hdn : (termOffered (varTermRules es nterm) 0).Nodup)
    (hdc : (termOffered (varTermRules es cterm) ((a.seq.length : Int) - 1)).Nodup) :
    (applyVariable a internal maxMods nterm cterm .skip es).Nodup := by
  rw [applyVariable_eq]
  refine applyVariableCore_nodup a _ _ _ maxMods .skip (fun r hr => (goodRules_varRules _ hi r hr).1)
    (fun j _ => siteOK_skip _ _ (hd j)) ?_
  exact variantBases_skip_keys_nodup a _ _ (goodRules_varTermRules es hn.1 nterm hn.2)
    (goodRules_varTermRules es hc.1 cterm hc.2) hdn hdc

/-- C13 (variable): the input form is among the results — every mode, every `max_mods` (negative ones too). -/
theorem variable_input_included (a : Annotation) (internal : Option (List (Rule VarIn))) (maxMods : Int)
    (nterm cterm : TermIn VarIn) (mode : Mode) (es : List Int) :
    a ∈ applyVariable a internal maxMods nterm cterm mode es := by
  rw [applyVariable_eq, applyVariableCore_eq]
  exact List.mem_flatMap.mpr ⟨a, a_mem_variantBases .., varRec_mem_self ..⟩

/-- C13 (variable, every mode – the clauses demanded for append / overwrite): each returned form keeps the residues and
every field other than terminal / residue mods; a residue's mods are either those of the input or, at an index `0 ≤ j < n`
matched by a rule, the value `newVal` built from one offered group (in mode skip only where the residue was unmodified);
a terminus is either as in the input or as `apply_static_mods` sets it for one offered terminal group. -/
theorem variable_changes_confined (a : Annotation) (internal : Option (List (Rule VarIn))) (maxMods : Int)
    (nterm cterm : TermIn VarIn) (mode : Mode) (es : List Int) (hi : SitesOK (internal.getD []))
    (x : Annotation) (hx : x ∈ applyVariable a internal maxMods nterm cterm mode es) :
    FrameT x a ∧
    (∀ j : Int, modsAt x j = modsAt a j ∨
      (0 ≤ j ∧ j < (a.seq.length : Int) ∧ ∃ g ∈ offered (varInternalRules internal) j,
        ¬(mode = .skip ∧ (modsAt a j).isSome = true) ∧ modsAt x j = some (newVal mode (modsAt a j) g))) ∧
    (x.nterm = a.nterm ∨ ∃ p ∈ termPairs (varTermRules es nterm),
      x.nterm = staticTable mode a.nterm (staticOffers [p] 0)) ∧
    (x.cterm = a.cterm ∨ ∃ p ∈ termPairs (varTermRules es cterm),
      x.cterm = staticTable mode a.cterm (staticOffers [p] ((a.seq.length : Int) - 1))) := by
  rw [applyVariable_eq, applyVariableCore_eq] at hx
  obtain ⟨b, hb, hx⟩ := List.mem_flatMap.mp hx
  obtain ⟨vn, vc, rfl, h1, h2⟩ := mem_variantBases hb
  obtain ⟨hf, hj⟩ := variableBuilder_sound _ _ maxMods mode (fun r hr => (goodRules_varRules _ hi r hr).1) x hx
  refine ⟨hf.toT.trans rfl, hj, ?_, ?_⟩
  · rw [hf.nterm]; exact h1
  · rw [hf.cterm]; exact h2

/-- C13 (variable, every mode), "no form twice": if at every matched residue the states it can take (the one it has, and
`newVal` for each offered group) are pairwise different (`SiteOK`), and the groups offered to the N-terminus are pairwise
different, and so are those offered to the C-terminus, then no form is returned twice.
(A terminal group that would leave the terminus as it is – as a multiset of mods – is dropped by the code itself.) -/
theorem variable_no_form_twice (a : Annotation) (internal : Option (List (Rule VarIn))) (maxMods : Int)
    (nterm cterm : TermIn VarIn) (mode : Mode) (es : List Int)
    (hi : SitesOK (internal.getD [])) (hn : TermSitesOK es nterm) (hc : TermSitesOK es cterm)
    (hok : ∀ j : Int, offered (varInternalRules internal) j ≠ [] →
      SiteOK mode (modsAt a j) (offered (varInternalRules internal) j))
    (hdn : (termOffered (varTermRules es nterm) 0).Nodup)
    (hdc : (termOffered (varTermRules es cterm) ((a.seq.length : Int) - 1)).Nodup) :
    (applyVariable a internal maxMods nterm cterm mode es).Nodup := by
  rw [applyVariable_eq]
  refine applyVariableCore_nodup a _ _ _ maxMods mode (fun r hr => (goodRules_varRules _ hi r hr).1) hok ?_
  exact variantBases_keys_nodup mode a _ _
    (termVals_nodup mode a.nterm _ 0 (goodRules_varTermRules es hn.1 nterm hn.2) hdn)
    (termVals_nodup mode a.cterm _ _ (goodRules_varTermRules es hc.1 cterm hc.2) hdc)

/-- `SiteOK` in mode append: the offered groups are pairwise different (they are never empty after
`remove_empty_list_of_list_of_mods`). -/
theorem siteOK_append_of_nodup (a : Annotation) (internal : Option (List (Rule VarIn))) (hi : SitesOK (internal.getD []))
    (j : Int) (hd : (offered (varInternalRules internal) j).Nodup) :
    SiteOK .append (modsAt a j) (offered (varInternalRules internal) j) := by
  refine siteOK_append _ _ hd ?_
  intro hmem
  unfold offered at hmem
  obtain ⟨r, hr, hg⟩ := List.mem_flatMap.mp hmem
  split at hg
  · exact (goodRules_varRules _ hi r hr).2 _ hg rfl
  · cases hg

/-- `SiteOK` in mode overwrite: the offered groups are pairwise different and none equals the mods already there. -/
theorem siteOK_overwrite_of_nodup (a : Annotation) (internal : Option (List (Rule VarIn)))
    (j : Int) (hd : (offered (varInternalRules internal) j).Nodup)
    (hne : ∀ o, modsAt a j = some o → o ∉ offered (varInternalRules internal) j) :
    SiteOK .overwrite (modsAt a j) (offered (varInternalRules internal) j) :=
  siteOK_overwrite _ _ hd hne

/-- C13 (variable, mode append), no form twice — with the hypotheses spelled out: pairwise different offered groups at
every residue and at each terminus. -/
theorem variable_append_no_form_twice (a : Annotation) (internal : Option (List (Rule VarIn))) (maxMods : Int)
    (nterm cterm : TermIn VarIn) (es : List Int)
    (hi : SitesOK (internal.getD [])) (hn : TermSitesOK es nterm) (hc : TermSitesOK es cterm)
    (hd : ∀ j : Int, (offered (varInternalRules internal) j).Nodup)
    (hdn : (termOffered (varTermRules es nterm) 0).Nodup)
    (hdc : (termOffered (varTermRules es cterm) ((a.seq.length : Int) - 1)).Nodup) :
    (applyVariable a internal maxMods nterm cterm .append es).Nodup :=
  variable_no_form_twice a internal maxMods nterm cterm .append es hi hn hc
    (fun j _ => siteOK_append_of_nodup a internal hi j (hd j)) hdn hdc

/-- C13 (variable, mode overwrite), no form twice: as for append, and no offered group equals the mods already on a
residue it is offered to. -/
theorem variable_overwrite_no_form_twice (a : Annotation) (internal : Option (List (Rule VarIn))) (maxMods : Int)
    (nterm cterm : TermIn VarIn) (es : List Int)
    (hi : SitesOK (internal.getD [])) (hn : TermSitesOK es nterm) (hc : TermSitesOK es cterm)
    (hd : ∀ j : Int, (offered (varInternalRules internal) j).Nodup)
    (hne : ∀ (j : Int) o, modsAt a j = some o → o ∉ offered (varInternalRules internal) j)
    (hdn : (termOffered (varTermRules es nterm) 0).Nodup)
    (hdc : (termOffered (varTermRules es cterm) ((a.seq.length : Int) - 1)).Nodup) :
    (applyVariable a internal maxMods nterm cterm .overwrite es).Nodup :=
  variable_no_form_twice a internal maxMods nterm cterm .overwrite es hi hn hc
    (fun j _ => siteOK_overwrite_of_nodup a internal j (hd j) (hne j)) hdn hdc

/-- non-vacuity for the two modes: `apply_variable_mods('P[1]EP', {'P': [['a'], ['b']]}, 1, nterm_mods='A', mode=…)` -/
example :
    let a : Annotation := { seq := "PEP".toList, internal := some [(0, [⟨.int 1, 1⟩])] }
    let internal : Option (List (Rule VarIn)) :=
      some [([0, 2], .nested [.many [⟨.str "a".toList, 1⟩], .many [⟨.str "b".toList, 1⟩]])]
    (applyVariable a internal 1 (.direct (.one ⟨.str "A".toList, 1⟩)) .none .append [-1, 0, 1, 2]).length = 18 ∧
    (applyVariable a internal 1 (.direct (.one ⟨.str "A".toList, 1⟩)) .none .overwrite [-1, 0, 1, 2]).Nodup ∧
    (∀ j ∈ [0, 1, 2], (offered (varInternalRules internal) j).Nodup) := by decide

/-! ## rules given as regex patterns (the RegexLite subset)

`modSites p s` is the model of `get_regex_match_indices(s, p, offset=-1)` for patterns built from literals / classes
(`K`, `[ST]`, sequences `P[ST]`), `(?<=[..])`, `(?=[..])`, `(?=[^..])`, `(?![..])` and for the empty pattern `''`
(`Model/ModBuilderRegex.lean`, tied to the implementation by correspondence). With the matcher inside the model the
hypotheses about site lists are theorems, and the statements above hold end to end for rules given as such patterns.
A regex outside the subset still enters as the site list computed by the implementation (`Target.sites`), and only for
those the hypothesis "no position twice" remains. -/

open RegexLite in
/-- the match ranges (`get_regex_match_range`): one per start position at most, in increasing order of the start, each of
the length of the pattern (its number of consuming items) and inside the text -/
theorem pattern_ranges_ok (p : Pattern) (s : List Char) :
    (matchRanges p s).Pairwise (fun r r' => r.1 < r'.1) ∧
    ∀ r ∈ matchRanges p s, r.2 = r.1 + consumeCount p ∧ r.2 ≤ s.length := by
  refine ⟨rangesGo_sorted p 0 [] s, fun r hr => ?_⟩
  have := rangesGo_spec p 0 [] s r hr
  omega

open RegexLite in
/-- the two site-list hypotheses, for every pattern of the subset and every text: no position twice (the list is even
strictly increasing), and every position is a residue index `< n` (`-1` can only come from an empty match at the very
start, as for `''`; a consuming pattern yields indices `0 … n-1` only) -/
theorem pattern_sites_ok (p : Pattern) (s : List Char) :
    (modSites p s).Nodup ∧ (modSites p s).Pairwise (· < ·) ∧
    ∀ x ∈ modSites p s, -1 ≤ x ∧ x < (s.length : Int) ∧ (consumeCount p ≠ 0 → 0 ≤ x) :=
  ⟨modSites_nodup p s, modSites_sorted p s, modSites_bounds p s⟩

/-- what remains to be assumed: targets that are site lists (regexes outside the subset) list no position twice -/
def TargetsOK {α : Type} (rules : List (Target × α)) : Prop := ∀ r ∈ rules, ∀ l, r.1 = .sites l → l.Nodup

def TermTargetsOK {α : Type} : TermT α → Prop
  | .dict rules => TargetsOK rules
  | _ => True

theorem sitesOK_resolve {α : Type} (s : List Char) (internal : Option (List (Target × α)))
    (h : TargetsOK (internal.getD [])) : SitesOK ((internal.map (resolveRules s)).getD []) := by
  cases internal with
  | none => intro r hr; cases hr
  | some rules => exact resolveRules_sitesOK s rules h

theorem termSitesOK_resolve {α : Type} (s : List Char) (t : TermT α) (h : TermTargetsOK t) :
    TermSitesOK (modSites [] s) (resolveTerm s t) := by
  refine ⟨modSites_nodup [] s, fun rules hr => ?_⟩
  cases t with
  | none => cases hr
  | direct v => cases hr
  | dict rs =>
    simp only [resolveTerm, TermIn.dict.injEq] at hr
    subst hr
    exact resolveRules_sitesOK s rs h

/-- C13 (static), end to end for pattern rules: the table holds with the rule dicts obtained by matching the patterns. -/
theorem static_spec_patterns (a : Annotation) (internal : Option (List (Target × ModsIn))) (nterm cterm : TermT ModsIn)
    (mode : Mode) :
    StaticSpec a (applyStaticPat a internal nterm cterm mode)
      (staticInternalRules (internal.map (resolveRules a.seq)))
      (staticTermRules (modSites [] a.seq) (resolveTerm a.seq nterm))
      (staticTermRules (modSites [] a.seq) (resolveTerm a.seq cterm)) mode :=
  static_spec ..

open RegexLite in
/-- C13 (static), one rule whose pattern addresses one residue with look-around conditions — `S(?=P)`, `(?<=K)P`,
`(?<=[KR])[ST](?!P)`: `pre`, `post` are the look-around items before / after the consuming class. Exactly the residues
`k` with `oneHolds` (class contains the residue, every look-around item holds for its neighbours) are modified, according to
the mode: an unmodified one receives `m`, a modified one keeps its mods (skip), gets `m` appended (append) or is replaced by
`m` (overwrite) — that is `newVal`; every other index, both termini and all other fields are untouched. -/
theorem static_residue_rule (a : Annotation) (pre post : Pattern) (cls : List Char) (m : List Mod) (mode : Mode)
    (hpre : ∀ it ∈ pre, it.zeroWidth = true) (hpost : ∀ it ∈ post, it.zeroWidth = true) (hm : m ≠ []) :
    let r := applyStaticPat a (some [(.pat (pre ++ .consume cls :: post), .many m)]) .none .none mode
    (∀ (k : Nat) (h : k < a.seq.length),
        oneHolds pre cls post (if k = 0 then none else a.seq[k - 1]?) a.seq[k] a.seq[k + 1]? = true →
        modsAt r (k : Int) = some (newVal mode (modsAt a (k : Int)) m)) ∧
    (∀ i : Int, ¬ (∃ k : Nat, ∃ h : k < a.seq.length, i = (k : Int) ∧
        oneHolds pre cls post (if k = 0 then none else a.seq[k - 1]?) a.seq[k] a.seq[k + 1]? = true) →
        modsAt r i = modsAt a i) ∧
    r.nterm = a.nterm ∧ r.cterm = a.cterm ∧ FrameT r a := by
  intro r
  have sp := static_spec_patterns a (some [(.pat (pre ++ .consume cls :: post), .many m)]) .none .none mode
  have hoff : ∀ i : Int, staticOffers (staticInternalRules
      ((some [(Target.pat (pre ++ .consume cls :: post), ModsIn.many m)]).map (resolveRules a.seq))) i
      = if i ∈ modSites (pre ++ .consume cls :: post) a.seq then [m] else [] := by
    intro i
    exact staticOffers_single (modSites (pre ++ .consume cls :: post) a.seq, m) hm (modSites_nodup _ _) i
  refine ⟨?_, ?_, ?_, ?_, sp.rest⟩
  · intro k hk hh
    have hmem : (k : Int) ∈ modSites (pre ++ .consume cls :: post) a.seq :=
      (mem_modSites_one pre post cls hpre hpost a.seq k).mpr ⟨k, hk, rfl, hh⟩
    show modsAt (applyStaticPat a _ .none .none mode) (k : Int) = _
    rw [sp.residues, hoff, if_pos hmem, staticTable_single]
  · intro i hno
    have hmem : i ∉ modSites (pre ++ .consume cls :: post) a.seq :=
      fun h => hno ((mem_modSites_one pre post cls hpre hpost a.seq i).mp h)
    show modsAt (applyStaticPat a _ .none .none mode) i = _
    rw [sp.residues, hoff, if_neg hmem]
    simp [staticTable]
  · show (applyStaticPat a _ .none .none mode).nterm = _
    rw [sp.nterm]; simp [resolveTerm, staticTermRules, staticOffers, staticTable]
  · show (applyStaticPat a _ .none .none mode).cterm = _
    rw [sp.cterm]; simp [resolveTerm, staticTermRules, staticOffers, staticTable]

/-- C13 (static), a plain residue or class rule `{'K': m}`, `{'[ST]': m}`: `apply_static_mods` modifies exactly the
residues of the class (according to the mode) and nothing else. -/
theorem static_class_rule (a : Annotation) (cls : List Char) (m : List Mod) (mode : Mode) (hm : m ≠ []) :
    let r := applyStaticPat a (some [(.pat [.consume cls], .many m)]) .none .none mode
    (∀ (k : Nat) (h : k < a.seq.length), cls.contains a.seq[k] = true →
        modsAt r (k : Int) = some (newVal mode (modsAt a (k : Int)) m)) ∧
    (∀ i : Int, ¬ (∃ k : Nat, ∃ h : k < a.seq.length, i = (k : Int) ∧ cls.contains a.seq[k] = true) →
        modsAt r i = modsAt a i) ∧
    r.nterm = a.nterm ∧ r.cterm = a.cterm ∧ FrameT r a := by
  have h := static_residue_rule a [] [] cls m mode (by simp) (by simp) hm
  simpa [oneHolds, RegexLite.holdsAt_nil] using h

/-- non-vacuity: `apply_static_mods('KPSPT', {'[ST](?=P)': 'x'})` and `{'P': 'x'}` inside the model -/
example :
    let a : Annotation := { seq := "KPSPT".toList }
    let x : List Mod := [⟨.str "x".toList, 1⟩]
    modSites [.consume ['S', 'T'], .ahead ['P']] a.seq = [2] ∧ modSites [.consume ['P']] a.seq = [1, 3] ∧
    modSites [] a.seq = [-1, 0, 1, 2, 3, 4] ∧ matchRanges [.consume ['P'], .consume ['S', 'T']] a.seq = [(1, 3), (3, 5)] ∧
    modsAt (applyStaticPat a (some [(.pat [.consume ['S', 'T'], .ahead ['P']], .many x)]) .none .none .skip) 2 = some x := by
  decide

/-- C13 (variable, mode skip), end to end for pattern rules: exactness without any hypothesis on pattern targets. -/
theorem variable_skip_exact_patterns (a : Annotation) (internal : Option (List (Target × VarIn))) (maxMods : Int)
    (nterm cterm : TermT VarIn) (h0 : 0 ≤ maxMods)
    (hi : TargetsOK (internal.getD [])) (hn : TermTargetsOK nterm) (hc : TermTargetsOK cterm) :
    (applyVariablePat a internal maxMods nterm cterm .skip).Perm
      (specVariable a (internal.map (resolveRules a.seq)) maxMods (resolveTerm a.seq nterm) (resolveTerm a.seq cterm)
        .skip (modSites [] a.seq)) :=
  variable_skip_exact a _ maxMods _ _ _ h0 (sitesOK_resolve a.seq internal hi)
    (termSitesOK_resolve a.seq nterm hn) (termSitesOK_resolve a.seq cterm hc)

/-- C13 (variable, every mode), no form twice, end to end for pattern rules. -/
theorem variable_no_form_twice_patterns (a : Annotation) (internal : Option (List (Target × VarIn))) (maxMods : Int)
    (nterm cterm : TermT VarIn) (mode : Mode)
    (hi : TargetsOK (internal.getD [])) (hn : TermTargetsOK nterm) (hc : TermTargetsOK cterm)
    (hok : ∀ j : Int, offered (varInternalRules (internal.map (resolveRules a.seq))) j ≠ [] →
      SiteOK mode (modsAt a j) (offered (varInternalRules (internal.map (resolveRules a.seq))) j))
    (hdn : (termOffered (varTermRules (modSites [] a.seq) (resolveTerm a.seq nterm)) 0).Nodup)
    (hdc : (termOffered (varTermRules (modSites [] a.seq) (resolveTerm a.seq cterm)) ((a.seq.length : Int) - 1)).Nodup) :
    (applyVariablePat a internal maxMods nterm cterm mode).Nodup :=
  variable_no_form_twice a _ maxMods _ _ mode _ (sitesOK_resolve a.seq internal hi)
    (termSitesOK_resolve a.seq nterm hn) (termSitesOK_resolve a.seq cterm hc) hok hdn hdc

/-- C13 (variable, every mode), changes confined, end to end for pattern rules. -/
theorem variable_changes_confined_patterns (a : Annotation) (internal : Option (List (Target × VarIn))) (maxMods : Int)
    (nterm cterm : TermT VarIn) (mode : Mode) (hi : TargetsOK (internal.getD []))
    (x : Annotation) (hx : x ∈ applyVariablePat a internal maxMods nterm cterm mode) :
    FrameT x a ∧
    (∀ j : Int, modsAt x j = modsAt a j ∨
      (0 ≤ j ∧ j < (a.seq.length : Int) ∧ ∃ g ∈ offered (varInternalRules (internal.map (resolveRules a.seq))) j,
        ¬(mode = .skip ∧ (modsAt a j).isSome = true) ∧ modsAt x j = some (newVal mode (modsAt a j) g))) :=
  let h := variable_changes_confined a _ maxMods _ _ mode _ (sitesOK_resolve a.seq internal hi) x hx
  ⟨h.1, h.2.1⟩

open RegexLite in
/-- the groups offered at residue `j` by one variable rule with a one-residue pattern: the rule's groups exactly at the
residues satisfying `oneHolds` (this is what `eligible` / `specForms` range over for such a rule) -/
theorem offered_residue_rule (s : List Char) (pre post : Pattern) (cls : List Char) (gs : List Group)
    (hpre : ∀ it ∈ pre, it.zeroWidth = true) (hpost : ∀ it ∈ post, it.zeroWidth = true) (j : Int) :
    (offered [(modSites (pre ++ .consume cls :: post) s, gs)] j ≠ [] →
      ∃ k : Nat, ∃ h : k < s.length, j = (k : Int) ∧
        oneHolds pre cls post (if k = 0 then none else s[k - 1]?) s[k] s[k + 1]? = true) ∧
    (∀ (k : Nat) (h : k < s.length), j = (k : Int) →
        oneHolds pre cls post (if k = 0 then none else s[k - 1]?) s[k] s[k + 1]? = true →
        offered [(modSites (pre ++ .consume cls :: post) s, gs)] j = gs) := by
  simp only [offered, List.flatMap_cons, List.flatMap_nil, List.append_nil]
  refine ⟨fun h => ?_, fun k hk hj hh => ?_⟩
  · split at h
    · rename_i hmem; exact (mem_modSites_one pre post cls hpre hpost s j).mp hmem
    · exact absurd rfl h
  · have hmem : j ∈ modSites (pre ++ .consume cls :: post) s :=
      (mem_modSites_one pre post cls hpre hpost s j).mpr ⟨k, hk, hj, hh⟩
    simp [hmem]

/-! ### the code before repair c2a4986 -/

/-- `apply_variable_mods('P', {'P': 'x'}, 1, nterm_mods='A', cterm_mods='B')` on the unrepaired code: the form
`[A]-P[x]-[B]` was returned twice (the C-terminal loop ran over the already expanded N-terminal forms), so
`variable_skip_nodup` was false for that code. The witness is replayed on the implementation (corpus/C13). -/
theorem variable_skip_nodup_false_before_repair :
    ¬ (applyVariableOld { seq := "P".toList } (some [([0], .one ⟨.str "x".toList, 1⟩)]) 1
        (.direct (.one ⟨.str "A".toList, 1⟩)) (.direct (.one ⟨.str "B".toList, 1⟩)) .skip [-1, 0]).Nodup := by
  decide

/-- … and with two residues it returned a form with two modified residues for `max_mods = 1`
(`[A]-P[x]P[x]-[B]`), which is not in `specForms`. -/
theorem variable_skip_exact_false_before_repair :
    ∃ x ∈ applyVariableOld { seq := "PP".toList } (some [([0, 1], .one ⟨.str "x".toList, 1⟩)]) 1
        (.direct (.one ⟨.str "A".toList, 1⟩)) (.direct (.one ⟨.str "B".toList, 1⟩)) .skip [-1, 0, 1],
      x ∉ specVariable { seq := "PP".toList } (some [([0, 1], .one ⟨.str "x".toList, 1⟩)]) 1
        (.direct (.one ⟨.str "A".toList, 1⟩)) (.direct (.one ⟨.str "B".toList, 1⟩)) .skip [-1, 0, 1] := by
  decide

/-- non-vacuity of the hypotheses of `variable_skip_exact` / `variable_skip_nodup`, and the repaired code on the same
input: 12 forms, no duplicates. -/
example :
    let internal : Option (List (Rule VarIn)) := some [([0, 1], .one ⟨.str "x".toList, 1⟩)]
    SitesOK (internal.getD []) ∧ TermSitesOK [-1, 0, 1] (.direct (.one ⟨.str "A".toList, 1⟩) : TermIn VarIn) ∧
    (applyVariable { seq := "PP".toList } internal 1
        (.direct (.one ⟨.str "A".toList, 1⟩)) (.direct (.one ⟨.str "B".toList, 1⟩)) .skip [-1, 0, 1]).length = 12 ∧
    (applyVariable { seq := "PP".toList } internal 1
        (.direct (.one ⟨.str "A".toList, 1⟩)) (.direct (.one ⟨.str "B".toList, 1⟩)) .skip [-1, 0, 1]).Nodup := by
  refine ⟨?_, ⟨by decide, ?_⟩, by decide, by decide⟩
  · intro r hr; simp at hr; subst hr; decide
  · intro rules h; cases h

end ModBuilder
end Pept
