import PeptVerif.Lemmas.ModBuilder
/-!
# C13 — static and variable modification builders produce exactly the intended forms

Property theorems only. The left-hand sides are the models of `apply_static_mods` / `apply_variable_mods`
(`Model/ModBuilder.lean`, the code after repair c2a4986); `StaticSpec`, `staticTable`, `staticOffers`, `specVariable`,
`specForms` are the specification (`Spec/ModBuilder.lean`). Rules enter as site lists; the only thing assumed about a
site list is what the regex matcher guarantees: no position twice (`SitesOK`).
-/
namespace Pept
namespace ModBuilder

/-- no rule lists a position twice (`finditer` yields every start position at most once) -/
def SitesOK {α : Type} (rules : List (Rule α)) : Prop := ∀ r ∈ rules, r.1.Nodup

/-- the same for a terminal argument; `es` are the sites of the regex `''` used for a bare value -/
def TermSitesOK {α : Type} (es : List Int) (t : TermIn α) : Prop :=
  es.Nodup ∧ ∀ rules, t = .dict rules → SitesOK rules

/-- the rule dict `apply_static_mods` works with after `fix_list_of_mods` -/
def staticInternalRules (internal : Option (List (Rule ModsIn))) : List (Rule (List Mod)) :=
  (internal.getD []).map fun r => (r.1, fixListOfMods r.2)

/-- the rule dict `apply_variable_mods` works with after `fix_list_of_list_of_mods` / `remove_empty…` -/
def varInternalRules (internal : Option (List (Rule VarIn))) : List (Rule (List Group)) :=
  varRules (internal.getD [])

/-! ## static rules -/

/-- C13 (static): the mods at every index `i` (any integer) are the table entry for
(matched by which rules?, pre-modified?, mode); the same table governs the two termini (position 0 resp. `n-1` has to be
among the sites of the terminal rule); every other field, the residues included, is unchanged.
For every annotation, every rule set, all three modes. -/
theorem static_spec (a : Annotation) (internal : Option (List (Rule ModsIn))) (nterm cterm : TermIn ModsIn)
    (mode : Mode) (es : List Int) :
    StaticSpec a (applyStatic a internal nterm cterm mode es)
      (staticInternalRules internal) (staticTermRules es nterm) (staticTermRules es cterm) mode := by
  have : applyStatic a internal nterm cterm mode es
      = applyStaticCore a (staticInternalRules internal) (staticTermRules es nterm) (staticTermRules es cterm) mode := by
    cases internal <;> rfl
  rw [this]
  exact applyStaticCore_spec ..

/-- C13 (static): a residue that no (non-empty) rule matches is untouched, in every mode. -/
theorem static_unmatched_untouched (a : Annotation) (internal : Option (List (Rule ModsIn)))
    (nterm cterm : TermIn ModsIn) (mode : Mode) (es : List Int) (i : Int)
    (h : staticOffers (staticInternalRules internal) i = []) :
    modsAt (applyStatic a internal nterm cterm mode es) i = modsAt a i := by
  rw [(static_spec a internal nterm cterm mode es).residues i, h]
  simp [staticTable]

/-- C13 (static): a matched residue that was unmodified carries exactly the offered mods, in every mode. -/
theorem static_matched_unmodified (a : Annotation) (internal : Option (List (Rule ModsIn)))
    (nterm cterm : TermIn ModsIn) (mode : Mode) (es : List Int) (i : Int)
    (h : staticOffers (staticInternalRules internal) i ≠ []) (hu : modsAt a i = none) :
    modsAt (applyStatic a internal nterm cterm mode es) i
      = some (staticOffers (staticInternalRules internal) i).flatten := by
  rw [(static_spec a internal nterm cterm mode es).residues i, hu]
  simp [staticTable, h]

/-- C13 (static): applying the same rules a second time in mode skip changes nothing more. -/
theorem static_skip_idempotent (a : Annotation) (internal : Option (List (Rule ModsIn))) (nterm cterm : TermIn ModsIn)
    (es : List Int) :
    applyStatic (applyStatic a internal nterm cterm .skip es) internal nterm cterm .skip es
      = applyStatic a internal nterm cterm .skip es := by
  have : ∀ x, applyStatic x internal nterm cterm .skip es
      = applyStaticCore x (staticInternalRules internal) (staticTermRules es nterm) (staticTermRules es cterm) .skip := by
    intro x; cases internal <;> rfl
  rw [this, this]
  exact applyStaticCore_skip_idem ..

/-- non-vacuity: `apply_static_mods('PEP[1]', {'P': ['phospho'], 'PE': [3]}, nterm_mods='acetyl', mode='append')` -/
example :
    let a : Annotation := { seq := "PEP".toList, internal := some [(2, [⟨.int 1, 1⟩])] }
    let r := applyStatic a (some [([0, 2], .many [⟨.str "phospho".toList, 1⟩]), ([0], .many [⟨.int 3, 1⟩])])
      (.direct (.one ⟨.str "acetyl".toList, 1⟩)) .none .append [-1, 0, 1, 2]
    modsAt r 0 = some [⟨.str "phospho".toList, 1⟩, ⟨.int 3, 1⟩] ∧
    modsAt r 2 = some [⟨.int 1, 1⟩, ⟨.str "phospho".toList, 1⟩] ∧ modsAt r 1 = none ∧
    r.nterm = some [⟨.str "acetyl".toList, 1⟩] := by decide

/-! ## variable rules -/

theorem applyVariable_eq (a : Annotation) (internal : Option (List (Rule VarIn))) (maxMods : Int)
    (nterm cterm : TermIn VarIn) (mode : Mode) (es : List Int) :
    applyVariable a internal maxMods nterm cterm mode es
      = applyVariableCore a (varInternalRules internal) (varTermRules es nterm) (varTermRules es cterm) maxMods mode := by
  cases internal <;> rfl

/-- C13 (variable, mode skip), exactness: the returned list is a permutation of the explicit enumeration
`specForms` = terminal variants × { `T ⊆` unmodified matched residues, `|T| ≤ max_mods`, one offered group per site of `T` }
– every form of the specification as often as the specification lists it, and nothing else.
For every annotation (any pre-existing mods), any rule sets, every `max_mods ≥ 0`. -/
theorem variable_skip_exact (a : Annotation) (internal : Option (List (Rule VarIn))) (maxMods : Int)
    (nterm cterm : TermIn VarIn) (es : List Int) (h0 : 0 ≤ maxMods)
    (hi : SitesOK (internal.getD [])) (hn : TermSitesOK es nterm) (hc : TermSitesOK es cterm) :
    (applyVariable a internal maxMods nterm cterm .skip es).Perm
      (specVariable a internal maxMods nterm cterm .skip es) := by
  rw [applyVariable_eq]
  have : specVariable a internal maxMods nterm cterm .skip es
      = specForms a (varInternalRules internal) (varTermRules es nterm) (varTermRules es cterm) maxMods := by
    cases internal <;> rfl
  rw [this]
  refine applyVariableCore_skip_perm a _ _ _ maxMods h0 ?_ ?_ ?_
  · exact fun r hr => (goodRules_varRules _ hi r hr).1
  · exact goodRules_varTermRules es hn.1 nterm hn.2
  · exact goodRules_varTermRules es hc.1 cterm hc.2

/-- What the enumeration `specForms` contains, as a set comprehension (a statement about the specification alone, so that
it can be read without trusting the enumeration code): `x` is listed iff there are a terminal variant `(n, c)`, a sub-list
`S` of the eligible sites of that variant — positions `0 ≤ i < len`, unmodified, with a non-empty list `offered i` — with
`|S| ≤ max_mods`, and a choice `T` of one offered group per site of `S`, such that `x` is the variant with exactly the
entries `T` added to its dict. -/
theorem mem_specForms_iff (a : Annotation) (internal nt ct : List (Rule (List Group))) (maxMods : Int) (x : Annotation) :
    x ∈ specForms a internal nt ct maxMods ↔
      ∃ n ∈ nVariants a nt, ∃ c ∈ cVariants a ct, ∃ S T,
        S.Sublist (eligible (withTerm a n c) internal) ∧ (S.length : Int) ≤ maxMods ∧
        List.Forall₂ (fun t s => t.1 = s.1 ∧ t.2 ∈ s.2) T S ∧ x = withChoice (withTerm a n c) T := by
  unfold specForms
  simp only [List.mem_flatMap, mem_internalForms]

/-- … and which sites are eligible. -/
theorem mem_eligible_iff (a : Annotation) (rules : List (Rule (List Group))) (i : Int) (gs : List Group) :
    (i, gs) ∈ eligible a rules ↔
      0 ≤ i ∧ i < (a.seq.length : Int) ∧ modsAt a i = none ∧ gs = offered rules i ∧ gs ≠ [] :=
  mem_eligible a rules i gs

/-- C13 (variable, mode skip), "exactly once": when the groups offered at each residue are pairwise different, and so
are the groups offered to the N-terminus and those offered to the C-terminus, no form is returned twice. -/
theorem variable_skip_nodup (a : Annotation) (internal : Option (List (Rule VarIn))) (maxMods : Int)
    (nterm cterm : TermIn VarIn) (es : List Int)
    (hi : SitesOK (internal.getD [])) (hn : TermSitesOK es nterm) (hc : TermSitesOK es cterm)
    (hd : ∀ j : Int, (offered (varInternalRules internal) j).Nodup)
    (hdn : (termOffered (varTermRules es nterm) 0).Nodup)
    (hdc : (termOffered (varTermRules es cterm) ((a.seq.length : Int) - 1)).Nodup) :
    (applyVariable a internal maxMods nterm cterm .skip es).Nodup := by
  rw [applyVariable_eq]
  refine applyVariableCore_nodup a _ _ _ maxMods .skip (fun r hr => (goodRules_varRules _ hi r hr).1)
    (fun j _ => siteOK_skip _ _ (hd j)) ?_
  exact variantBases_skip_keys_nodup a _ _ (goodRules_varTermRules es hn.1 nterm hn.2)
    (goodRules_varTermRules es hc.1 cterm hc.2) hdn hdc

/-- C13 (variable): the input form is among the results — every mode, every `max_mods` (negative ones too). -/
theorem variable_input_included (a : Annotation) (internal : Option (List (Rule VarIn))) (maxMods : Int)
    (nterm cterm : TermIn VarIn) (mode : Mode) (es : List Int) :
    a ∈ applyVariable a internal maxMods nterm cterm mode es := by
  rw [applyVariable_eq, applyVariableCore_eq]
  exact List.mem_flatMap.mpr ⟨a, a_mem_variantBases .., varRec_mem_self ..⟩

/-- C13 (variable, every mode – the clauses demanded for append / overwrite): each returned form keeps the residues and
every field other than terminal / residue mods; a residue's mods are either those of the input or, at an index `0 ≤ j < n`
matched by a rule, the value `newVal` built from one offered group (in mode skip only where the residue was unmodified);
a terminus is either as in the input or as `apply_static_mods` sets it for one offered terminal group. -/
theorem variable_changes_confined (a : Annotation) (internal : Option (List (Rule VarIn))) (maxMods : Int)
    (nterm cterm : TermIn VarIn) (mode : Mode) (es : List Int) (hi : SitesOK (internal.getD []))
    (x : Annotation) (hx : x ∈ applyVariable a internal maxMods nterm cterm mode es) :
    FrameT x a ∧
    (∀ j : Int, modsAt x j = modsAt a j ∨
      (0 ≤ j ∧ j < (a.seq.length : Int) ∧ ∃ g ∈ offered (varInternalRules internal) j,
        ¬(mode = .skip ∧ (modsAt a j).isSome = true) ∧ modsAt x j = some (newVal mode (modsAt a j) g))) ∧
    (x.nterm = a.nterm ∨ ∃ p ∈ termPairs (varTermRules es nterm),
      x.nterm = staticTable mode a.nterm (staticOffers [p] 0)) ∧
    (x.cterm = a.cterm ∨ ∃ p ∈ termPairs (varTermRules es cterm),
      x.cterm = staticTable mode a.cterm (staticOffers [p] ((a.seq.length : Int) - 1))) := by
  rw [applyVariable_eq, applyVariableCore_eq] at hx
  obtain ⟨b, hb, hx⟩ := List.mem_flatMap.mp hx
  obtain ⟨vn, vc, rfl, h1, h2⟩ := mem_variantBases hb
  obtain ⟨hf, hj⟩ := variableBuilder_sound _ _ maxMods mode (fun r hr => (goodRules_varRules _ hi r hr).1) x hx
  refine ⟨hf.toT.trans rfl, hj, ?_, ?_⟩
  · rw [hf.nterm]; exact h1
  · rw [hf.cterm]; exact h2

/-- C13 (variable, every mode), "no form twice": if at every matched residue the states it can take (the one it has, and
`newVal` for each offered group) are pairwise different (`SiteOK`), and the groups offered to the N-terminus are pairwise
different, and so are those offered to the C-terminus, then no form is returned twice.
(A terminal group that would leave the terminus as it is – as a multiset of mods – is dropped by the code itself.) -/
theorem variable_no_form_twice (a : Annotation) (internal : Option (List (Rule VarIn))) (maxMods : Int)
    (nterm cterm : TermIn VarIn) (mode : Mode) (es : List Int)
    (hi : SitesOK (internal.getD [])) (hn : TermSitesOK es nterm) (hc : TermSitesOK es cterm)
    (hok : ∀ j : Int, offered (varInternalRules internal) j ≠ [] →
      SiteOK mode (modsAt a j) (offered (varInternalRules internal) j))
    (hdn : (termOffered (varTermRules es nterm) 0).Nodup)
    (hdc : (termOffered (varTermRules es cterm) ((a.seq.length : Int) - 1)).Nodup) :
    (applyVariable a internal maxMods nterm cterm mode es).Nodup := by
  rw [applyVariable_eq]
  refine applyVariableCore_nodup a _ _ _ maxMods mode (fun r hr => (goodRules_varRules _ hi r hr).1) hok ?_
  exact variantBases_keys_nodup mode a _ _
    (termVals_nodup mode a.nterm _ 0 (goodRules_varTermRules es hn.1 nterm hn.2) hdn)
    (termVals_nodup mode a.cterm _ _ (goodRules_varTermRules es hc.1 cterm hc.2) hdc)

/-- `SiteOK` in mode append: the offered groups are pairwise different (they are never empty after
`remove_empty_list_of_list_of_mods`). -/
theorem siteOK_append_of_nodup (a : Annotation) (internal : Option (List (Rule VarIn))) (hi : SitesOK (internal.getD []))
    (j : Int) (hd : (offered (varInternalRules internal) j).Nodup) :
    SiteOK .append (modsAt a j) (offered (varInternalRules internal) j) := by
  refine siteOK_append _ _ hd ?_
  intro hmem
  unfold offered at hmem
  obtain ⟨r, hr, hg⟩ := List.mem_flatMap.mp hmem
  split at hg
  · exact (goodRules_varRules _ hi r hr).2 _ hg rfl
  · cases hg

/-- `SiteOK` in mode overwrite: the offered groups are pairwise different and none equals the mods already there. -/
theorem siteOK_overwrite_of_nodup (a : Annotation) (internal : Option (List (Rule VarIn)))
    (j : Int) (hd : (offered (varInternalRules internal) j).Nodup)
    (hne : ∀ o, modsAt a j = some o → o ∉ offered (varInternalRules internal) j) :
    SiteOK .overwrite (modsAt a j) (offered (varInternalRules internal) j) :=
  siteOK_overwrite _ _ hd hne

/-- C13 (variable, mode append), no form twice — with the hypotheses spelled out: pairwise different offered groups at
every residue and at each terminus. -/
theorem variable_append_no_form_twice (a : Annotation) (internal : Option (List (Rule VarIn))) (maxMods : Int)
    (nterm cterm : TermIn VarIn) (es : List Int)
    (hi : SitesOK (internal.getD [])) (hn : TermSitesOK es nterm) (hc : TermSitesOK es cterm)
    (hd : ∀ j : Int, (offered (varInternalRules internal) j).Nodup)
    (hdn : (termOffered (varTermRules es nterm) 0).Nodup)
    (hdc : (termOffered (varTermRules es cterm) ((a.seq.length : Int) - 1)).Nodup) :
    (applyVariable a internal maxMods nterm cterm .append es).Nodup :=
  variable_no_form_twice a internal maxMods nterm cterm .append es hi hn hc
    (fun j _ => siteOK_append_of_nodup a internal hi j (hd j)) hdn hdc

/-- C13 (variable, mode overwrite), no form twice: as for append, and no offered group equals the mods already on a
residue it is offered to. -/
theorem variable_overwrite_no_form_twice (a : Annotation) (internal : Option (List (Rule VarIn))) (maxMods : Int)
    (nterm cterm : TermIn VarIn) (es : List Int)
    (hi : SitesOK (internal.getD [])) (hn : TermSitesOK es nterm) (hc : TermSitesOK es cterm)
    (hd : ∀ j : Int, (offered (varInternalRules internal) j).Nodup)
    (hne : ∀ (j : Int) o, modsAt a j = some o → o ∉ offered (varInternalRules internal) j)
    (hdn : (termOffered (varTermRules es nterm) 0).Nodup)
    (hdc : (termOffered (varTermRules es cterm) ((a.seq.length : Int) - 1)).Nodup) :
    (applyVariable a internal maxMods nterm cterm .overwrite es).Nodup :=
  variable_no_form_twice a internal maxMods nterm cterm .overwrite es hi hn hc
    (fun j _ => siteOK_overwrite_of_nodup a internal j (hd j) (hne j)) hdn hdc

/-- non-vacuity for the two modes: `apply_variable_mods('P[1]EP', {'P': [['a'], ['b']]}, 1, nterm_mods='A', mode=…)` -/
example :
    let a : Annotation := { seq := "PEP".toList, internal := some [(0, [⟨.int 1, 1⟩])] }
    let internal : Option (List (Rule VarIn)) :=
      some [([0, 2], .nested [.many [⟨.str "a".toList, 1⟩], .many [⟨.str "b".toList, 1⟩]])]
    (applyVariable a internal 1 (.direct (.one ⟨.str "A".toList, 1⟩)) .none .append [-1, 0, 1, 2]).length = 18 ∧
    (applyVariable a internal 1 (.direct (.one ⟨.str "A".toList, 1⟩)) .none .overwrite [-1, 0, 1, 2]).Nodup ∧
    (∀ j ∈ [0, 1, 2], (offered (varInternalRules internal) j).Nodup) := by decide

/-! ### the code before repair c2a4986 -/

/-- `apply_variable_mods('P', {'P': 'x'}, 1, nterm_mods='A', cterm_mods='B')` on the unrepaired code: the form
`[A]-P[x]-[B]` was returned twice (the C-terminal loop ran over the already expanded N-terminal forms), so
`variable_skip_nodup` was false for that code. The witness is replayed on the implementation (corpus/C13). -/
theorem variable_skip_nodup_false_before_repair :
    ¬ (applyVariableOld { seq := "P".toList } (some [([0], .one ⟨.str "x".toList, 1⟩)]) 1
        (.direct (.one ⟨.str "A".toList, 1⟩)) (.direct (.one ⟨.str "B".toList, 1⟩)) .skip [-1, 0]).Nodup := by
  decide

/-- … and with two residues it returned a form with two modified residues for `max_mods = 1`
(`[A]-P[x]P[x]-[B]`), which is not in `specForms`. -/
theorem variable_skip_exact_false_before_repair :
    ∃ x ∈ applyVariableOld { seq := "PP".toList } (some [([0, 1], .one ⟨.str "x".toList, 1⟩)]) 1
        (.direct (.one ⟨.str "A".toList, 1⟩)) (.direct (.one ⟨.str "B".toList, 1⟩)) .skip [-1, 0, 1],
      x ∉ specVariable { seq := "PP".toList } (some [([0, 1], .one ⟨.str "x".toList, 1⟩)]) 1
        (.direct (.one ⟨.str "A".toList, 1⟩)) (.direct (.one ⟨.str "B".toList, 1⟩)) .skip [-1, 0, 1] := by
  decide

/-- non-vacuity of the hypotheses of `variable_skip_exact` / `variable_skip_nodup`, and the repaired code on the same
input: 12 forms, no duplicates. -/
example :
    let internal : Option (List (Rule VarIn)) := some [([0, 1], .one ⟨.str "x".toList, 1⟩)]
    SitesOK (internal.getD []) ∧ TermSitesOK [-1, 0, 1] (.direct (.one ⟨.str "A".toList, 1⟩) : TermIn VarIn) ∧
    (applyVariable { seq := "PP".toList } internal 1
        (.direct (.one ⟨.str "A".toList, 1⟩)) (.direct (.one ⟨.str "B".toList, 1⟩)) .skip [-1, 0, 1]).length = 12 ∧
    (applyVariable { seq := "PP".toList } internal 1
        (.direct (.one ⟨.str "A".toList, 1⟩)) (.direct (.one ⟨.str "B".toList, 1⟩)) .skip [-1, 0, 1]).Nodup := by
  refine ⟨?_, ⟨by decide, ?_⟩, by decide, by decide⟩
  · intro r hr; simp at hr; subst hr; decide
  · intro rules h; cases h

end ModBuilder
end Pept
