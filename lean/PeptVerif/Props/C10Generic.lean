import PeptVerif.Lemmas.ModDbGeneric
/-!
C10 (generic forms): "a prefixed signed number is a mass shift, Formula/Glycan/Obs strings give the mass of what they
spell, '|'-separated alternatives take the first resolvable one, localisation tags do not change the mass, and a
multiplier multiplies it."

All theorems are table-independent (`T : Tables` universally quantified); hypotheses about `T` appear only where the
Python consults the PSI-MOD / Unimod vocabulary *before* it reaches the branch in question.
-/
namespace C10Generic
open ModDb Formula ModDbGeneric

/-- a tiny table for the non-vacuity examples -/
def T0 : Tables :=
  { unimod := [], psimod := [], xlmod := [], resid := [], gno := [], mono := [],
    mass := { elems := [], electron := ⟨0, 0⟩, proton := ⟨1, 0⟩, neutron := ⟨1, 0⟩ } }

/-! ## 3. `|`-separated alternatives: the first resolvable one -/

/-- `mod_mass("a|rest")`: an error of the first alternative propagates, a mass of the first alternative is the answer,
and only when the first alternative has no mass (`None`) the remaining alternatives are consulted. -/
theorem alternatives_first_resolvable (T : Tables) (a rest : Str) (mono : Bool) (h : 124 ∉ a) :
    modMass T (a ++ 124 :: rest) mono =
      match parseModMass T a mono with
      | .error e => .error e
      | .ok (some m) => .ok m
      | .ok none => modMass T rest mono := by
  simp only [modMass, splitBar_cons a rest h, firstMass]
  cases parseModMass T a mono with
  | error e => rfl
  | ok o => cases o <;> rfl

/-- a string without `|` is its only alternative; no mass at all = `InvalidModificationMassError` -/
theorem modMass_single (T : Tables) (a : Str) (mono : Bool) (h : 124 ∉ a) :
    modMass T a mono =
      match parseModMass T a mono with
      | .error e => .error e
      | .ok (some m) => .ok m
      | .ok none => .error .invalidModMass := by
  simp only [modMass, splitBar_single a h, firstMass]
  cases parseModMass T a mono with
  | error e => rfl
  | ok o => cases o <;> rfl

theorem alternatives_first_resolvable_comp (T : Tables) (a rest : Str) (h : 124 ∉ a) :
    modComp T (a ++ 124 :: rest) =
      match parseModComp T a with
      | .error e => .error e
      | .ok (some c) => .ok c
      | .ok none => modComp T rest := by
  simp only [modComp, splitBar_cons a rest h, firstComp]
  cases parseModComp T a with
  | error e => rfl
  | ok o => cases o <;> rfl

theorem modComp_single (T : Tables) (a : Str) (h : 124 ∉ a) :
    modComp T a =
      match parseModComp T a with
      | .error e => .error e
      | .ok (some c) => .ok c
      | .ok none => .error .invalidComp := by
  simp only [modComp, splitBar_single a h, firstComp]
  cases parseModComp T a with
  | error e => rfl
  | ok o => cases o <;> rfl

-- "info:x|+1.5" : the first alternative has no mass, the second is the number 1.5
example : modMass T0 (str% "info:x|+1.5") true = .ok (some (3 / 2)) := by decide +kernel
example : (124 : Nat) ∉ (str% "info:x") := by decide

/-! ## 1. a bare localisation tag `#g1` carries no mass and the empty composition -/

theorem tag_only_zero (T : Tables) (t : Str) (mono : Bool) :
    parseModMass T (35 :: t) mono = .ok (some (some 0)) := by
  simp [parseModMass, startsWith, List.isPrefixOf]

theorem tag_only_empty_comp (T : Tables) (t : Str) : parseModComp T (35 :: t) = .ok (some []) := by
  have hc : convertType (35 :: t) = .str := convertType_hash (by simp)
  rw [parseModComp_eq, hc]
  simp [startsWith, List.isPrefixOf]

example : modMass T0 (str% "#g1") true = .ok (some 0) := by decide +kernel
example : modComp T0 (str% "#g1") = .ok [] := by decide +kernel

/-! ## 2. a localisation tag after a modification does not change its mass / composition -/

/-- `parse("b#tag") = parse("b")` for every non-empty `b` without `#` -/
theorem tag_neutral (T : Tables) (b t : Str) (mono : Bool) (h : 35 ∉ b) (hne : b ≠ []) :
    parseModMass T (b ++ 35 :: t) mono = parseModMass T b mono := by
  rw [parseModMass_eq, parseModMass_noTag T mono h]
  simp [startsWith_hash_tag t h hne, beforeHash_tag b t h]

/-- the same for `mod_mass` on one alternative … -/
theorem tag_neutral_modMass (T : Tables) (b t : Str) (mono : Bool) (h : 35 ∉ b) (hne : b ≠ [])
    (hb : 124 ∉ b) (ht : 124 ∉ t) :
    modMass T (b ++ 35 :: t) mono = modMass T b mono := by
  have h1 : 124 ∉ b ++ 35 :: t := by simp [hb, ht]
  rw [modMass_single T _ mono h1, modMass_single T _ mono hb, tag_neutral T b t mono h hne]

/-- … and in front of further alternatives -/
theorem tag_neutral_modMass_alt (T : Tables) (b t rest : Str) (mono : Bool) (h : 35 ∉ b) (hne : b ≠ [])
    (hb : 124 ∉ b) (ht : 124 ∉ t) :
    modMass T ((b ++ 35 :: t) ++ 124 :: rest) mono = modMass T (b ++ 124 :: rest) mono := by
  have h1 : 124 ∉ b ++ 35 :: t := by simp [hb, ht]
  rw [alternatives_first_resolvable T _ rest mono h1, alternatives_first_resolvable T _ rest mono hb,
    tag_neutral T b t mono h hne]

example : modMass T0 (str% "+1.5#g1") true = modMass T0 (str% "+1.5") true := by decide +kernel

/-- Compositions: `_parse_mod_comp` calls `convert_type` on the text *with* its tag (which is never a number) and cuts the
tag afterwards. So the tag is neutral exactly when the tag-free text is not a number either. -/
theorem tag_neutral_comp (T : Tables) (b t : Str) (h : 35 ∉ b) (hne : b ≠ []) (hs : convertType b = .str) :
    parseModComp T (b ++ 35 :: t) = parseModComp T b := by
  have hc : convertType (b ++ 35 :: t) = .str := convertType_hash (by simp)
  rw [parseModComp_eq, hc, parseModComp_str T h hs]
  simp [startsWith_hash_tag t h hne, beforeHash_tag b t h]

/-- what the tagged text of a *numeric* `b` does: it is treated as a name / id (branch chain), while the bare number
has no composition. ODDITY of the code: `mod_comp('42#g1')` looks up Unimod id 42, `mod_comp('42')` is "a mass shift,
no composition". -/
theorem tag_numeric_comp (T : Tables) (b t : Str) (h : 35 ∉ b) (hne : b ≠ []) :
    parseModComp T (b ++ 35 :: t) = compStrBody T b := by
  have hc : convertType (b ++ 35 :: t) = .str := convertType_hash (by simp)
  rw [parseModComp_eq, hc]
  simp [startsWith_hash_tag t h hne, beforeHash_tag b t h]

theorem tag_neutral_modComp (T : Tables) (b t : Str) (h : 35 ∉ b) (hne : b ≠ []) (hs : convertType b = .str)
    (hb : 124 ∉ b) (ht : 124 ∉ t) :
    modComp T (b ++ 35 :: t) = modComp T b := by
  have h1 : 124 ∉ b ++ 35 :: t := by simp [hb, ht]
  rw [modComp_single T _ h1, modComp_single T _ hb, tag_neutral_comp T b t h hne hs]

/-- a table with one Unimod entry: id 42, composition H2 -/
def T1 : Tables := { T0 with unimod := [⟨str% "42", str% "Foo", [], none, none, some (str% "H2")⟩] }

example : convertType (str% "Foo") = .str := by decide
example : modComp T1 (str% "Foo#g1") = modComp T1 (str% "Foo") := by decide +kernel
-- the oddity, on the model: with the tag the number is an id, without it has no composition
example : modComp T1 (str% "42#g1") = .ok [(str% "H", Num.ofInt 2)] := by decide +kernel
example : modComp T1 (str% "42") = .error .invalidComp := by decide +kernel

/-! ## 4. a multiplier multiplies -/

/-- `mod_mass(Mod(s, k))` is `mod_mass(s)` with the finite mass multiplied by `k`; errors and non-finite results pass -/
theorem multiplier_scales (T : Tables) (s : Str) (k : Int) (mono : Bool) :
    modMassMult T s k mono = (modMass T s mono).map (fun m => m.map (· * (k : Rat))) := rfl

theorem multiplier_finite (T : Tables) (s : Str) (k : Int) (mono : Bool) (m : Rat)
    (h : modMass T s mono = .ok (some m)) : modMassMult T s k mono = .ok (some (m * (k : Rat))) := by
  simp [modMassMult, h, Except.map]

theorem multiplier_error (T : Tables) (s : Str) (k : Int) (mono : Bool) (e : Err)
    (h : modMass T s mono = .error e) : modMassMult T s k mono = .error e := by
  simp [modMassMult, h, Except.map]

/-- multiplier 1 changes nothing (for every outcome) -/
theorem multiplier_one (T : Tables) (s : Str) (mono : Bool) : modMassMult T s 1 mono = modMass T s mono := by
  rw [multiplier_scales]
  cases modMass T s mono with
  | error e => rfl
  | ok o => cases o <;> simp [Except.map]

theorem multiplier_zero (T : Tables) (s : Str) (mono : Bool) (m : Rat) (h : modMass T s mono = .ok (some m)) :
    modMassMult T s 0 mono = .ok (some 0) := by
  simp [modMassMult, h, Except.map]

/-- multipliers add up: `k = a + b` gives the sum of the two masses -/
theorem multiplier_add (T : Tables) (s : Str) (a b : Int) (mono : Bool) (x y : Rat)
    (ha : modMassMult T s a mono = .ok (some x)) (hb : modMassMult T s b mono = .ok (some y)) :
    modMassMult T s (a + b) mono = .ok (some (x + y)) := by
  rw [multiplier_scales] at ha hb ⊢
  cases hm : modMass T s mono with
  | error e => rw [hm] at ha; cases ha
  | ok o =>
    cases o with
    | none => rw [hm] at ha; cases ha
    | some m =>
      rw [hm] at ha hb
      simp only [Except.map, Option.map, Except.ok.injEq, Option.some.injEq] at ha hb ⊢
      rw [← ha, ← hb, rat_mul_add]

/-- nesting: multiplier `a * b` = multiplying the `a`-fold mass by `b` -/
theorem multiplier_mul (T : Tables) (s : Str) (a b : Int) (mono : Bool) :
    modMassMult T s (a * b) mono = (modMassMult T s a mono).map (fun m => m.map (· * (b : Rat))) := by
  rw [multiplier_scales, multiplier_scales]
  cases modMass T s mono with
  | error e => rfl
  | ok o => cases o <;> simp [Except.map, Rat.mul_assoc]

example : modMassMult T0 (str% "+1.5") 3 true = .ok (some (9 / 2)) := by decide +kernel

/-- `mod_comp(Mod(s, k))` multiplies every count by `k` (`Num.mul`: the float flag of a count is kept) -/
theorem multiplier_scales_comp (T : Tables) (s : Str) (k : Int) :
    modCompMult T s k = (modComp T s).map (scaleComp k) := rfl

theorem multiplier_comp_keys_vals (T : Tables) (s : Str) (k : Int) (c : Comp) (h : modComp T s = .ok c) :
    ∃ c', modCompMult T s k = .ok c' ∧ c'.map (·.1) = c.map (·.1) ∧
      c'.map (·.2.val) = c.map (fun kv => kv.2.val * (k : Rat)) := by
  refine ⟨scaleComp k c, ?_, scaleComp_keys k c, scaleComp_vals k c⟩
  simp [multiplier_scales_comp, h, Except.map]

theorem multiplier_one_comp (T : Tables) (s : Str) : modCompMult T s 1 = modComp T s := by
  rw [multiplier_scales_comp]
  cases modComp T s with
  | error e => rfl
  | ok c => simp [Except.map, scaleComp_one]

/-- consistency of the two multipliers: the chemical mass of the `k`-fold composition is `k` times the mass of the
composition (`chem_mass` is linear in the counts) -/
theorem multiplier_comp_mass (T : Tables) (s : Str) (k : Int) (mono : Bool) (c : Comp) (h : modComp T s = .ok c) :
    ∃ c', modCompMult T s k = .ok c' ∧
      chemMassComp T.mass mono c' = (chemMassComp T.mass mono c).map (· * (k : Rat)) := by
  refine ⟨scaleComp k c, ?_, chemMassComp_scale T.mass mono k c⟩
  simp [multiplier_scales_comp, h, Except.map]

example : modCompMult T1 (str% "Foo") 3 = .ok [(str% "H", Num.ofInt 6)] := by decide +kernel

/-! ## 5. Glycan / INFO / Obs / Formula strings -/

/-- `Glycan:…` (any letter case) is resolved by the glycan reader, whatever the vocabularies contain: it is the first
branch after the number test, and a text with a colon is never a number. -/
theorem glycan_mass (T : Tables) (s : Str) (mono : Bool) (hp : startsWith (lower s) (str% "glycan:") = true)
    (h35 : 35 ∉ s) : parseModMass T s mono = glycanMassProforma T s mono :=
  mass_glycan T s mono hp h35

/-- … and what is looked up / parsed is the text it spells: everything after the first colon (further colons dropped) -/
theorem glycan_mass_spelled (T : Tables) (p' t : Str) (mono : Bool) (hp : lower p' = str% "glycan:") (h35 : 35 ∉ t) :
    parseModMass T (p' ++ t) mono =
      (match monoLookup T.mono (t.filter (· != 58)) with
       | some e =>
         match (if mono then e.mono else e.avg) with
         | some m => .ok (some (some m.toRat))
         | none => .ok none
       | none =>
         match glycanMassStr T.mono mono (t.filter (· != 58)) with
         | .ok m => .ok (some (some m))
         | .error e => .error e) := by
  obtain ⟨h1, _, _, h4, _, hl⟩ := prefixFacts hp (by decide) h35
  have hs : startsWith (lower (p' ++ t)) (str% "glycan:") = true := by
    rw [hl]; simp [startsWith, List.isPrefixOf]
  rw [mass_glycan T _ mono hs h1]
  simp only [glycanMassProforma, hs, h4, if_true]
  rfl

example : startsWith (lower (str% "GLYCAN:Hex2")) (str% "glycan:") = true := by decide

/-- `INFO:…` never has a mass (so `mod_mass` goes on to the next alternative) -/
theorem info_skipped (T : Tables) (m : Str) (mono : Bool) (hp : startsWith (lower m) (str% "info:") = true)
    (h35 : 35 ∉ m) : parseModMass T m mono = .ok none := by
  obtain ⟨p', t, rfl, hl⟩ := split_of_startsWith_lower hp
  exact mass_info_prefix T p' t mono hl (fun h => h35 (List.mem_append_right _ h))

theorem info_skipped_comp (T : Tables) (m : Str) (hp : startsWith (lower m) (str% "info:") = true)
    (h35 : 35 ∉ m) : parseModComp T m = .ok none := by
  obtain ⟨p', t, rfl, hl⟩ := split_of_startsWith_lower hp
  have h35t : 35 ∉ t := fun h => h35 (List.mem_append_right _ h)
  obtain ⟨h1, h2, _, _, _, hlw⟩ := prefixFacts hl (by decide) h35t
  rw [parseModComp_str T h1 h2]
  simp [compStrBody, hasPrefix, pGno, pXlmod, pResid, hlw, startsWith, List.isPrefixOf]

example : modMass T0 (str% "Info:anything|Obs:+12.5") true = .ok (some (25 / 2)) := by decide +kernel

/-- `Obs:x` is the number `x` (Python `float`), provided the whole text is not a PSI-MOD / Unimod id or name (the two
`is_*_str` tests come first in `_parse_mod_mass`; that no vocabulary key starts with a reserved prefix is a table fact) -/
theorem obs_mass (T : Tables) (p' t : Str) (mono : Bool) (hp : lower p' = str% "obs:") (h35 : 35 ∉ t)
    (hP : isDbStr pPsi T.psimod (p' ++ t) = false) (hU : isDbStr pUnimod T.unimod (p' ++ t) = false) :
    parseModMass T (p' ++ t) mono =
      (match parseFloat (t.filter (· != 58)) with
       | .val r => .ok (some (some r))
       | .special => .ok (some none)
       | .bad => .error .invalidDeltaMass) :=
  mass_obs_prefix T p' t mono hp h35 hP hU

/-- an observed mass has no composition — here no table hypothesis is needed (`obs:` is tested before the vocabularies) -/
theorem obs_no_comp (T : Tables) (p' t : Str) (hp : lower p' = str% "obs:") (h35 : 35 ∉ t) :
    parseModComp T (p' ++ t) = .ok none := by
  obtain ⟨h1, h2, _, _, _, hlw⟩ := prefixFacts hp (by decide) h35
  rw [parseModComp_str T h1 h2]
  simp [compStrBody, hasPrefix, pGno, pXlmod, pResid, hlw, startsWith, List.isPrefixOf]

example : parseModMass T0 (str% "OBS:-3.25") true = .ok (some (some (-13 / 4))) := by decide +kernel

/-- `Formula:f` has the chemical mass of `f` (same table proviso as `obs_mass`) -/
theorem formula_mass (T : Tables) (p' t : Str) (mono : Bool) (hp : lower p' = str% "formula:") (h35 : 35 ∉ t)
    (hP : isDbStr pPsi T.psimod (p' ++ t) = false) (hU : isDbStr pUnimod T.unimod (p' ++ t) = false) :
    parseModMass T (p' ++ t) mono =
      (match chemMassStr T.mass mono (t.filter (· != 58)) [] with
       | .ok m => .ok (some (some m))
       | .error e => .error e) :=
  mass_formula_prefix T p' t mono hp h35 hP hU

/-- `formula_mass` in the model's own vocabulary -/
theorem formula_mass_proforma (T : Tables) (p' t : Str) (mono : Bool) (hp : lower p' = str% "formula:")
    (h35 : 35 ∉ t) (hP : isDbStr pPsi T.psimod (p' ++ t) = false)
    (hU : isDbStr pUnimod T.unimod (p' ++ t) = false) :
    parseModMass T (p' ++ t) mono = (chemMassProforma T (p' ++ t) mono).map some := by
  obtain ⟨_, _, _, h4, _, hl⟩ := prefixFacts hp (by decide) h35
  have hs : startsWith (lower (p' ++ t)) (str% "formula:") = true := by
    rw [hl]; simp [startsWith, List.isPrefixOf]
  rw [formula_mass T p' t mono hp h35 hP hU]
  simp only [chemMassProforma, hs, h4, if_true]
  cases chemMassStr T.mass mono (t.filter (· != 58)) [] <;> rfl

/-! ## 6. a prefixed signed number is a mass shift -/

/-- XLMOD:+x / X:-x -/
theorem prefixed_number_is_shift_xlmod (T : Tables) (p' : Str) (c : Nat) (ds : Str) (mono : Bool)
    (hp : lower p' ∈ pXlmod) (hc : c = 43 ∨ c = 45) (h35 : 35 ∉ c :: ds) :
    parseModMass T (p' ++ c :: ds) mono =
      (match parseFloat (c :: ds) with
       | .val r => .ok (some (some r))
       | .special => .ok (some none)
       | .bad => .error .invalidDeltaMass) := by
  rw [mass_xlmod_prefix T p' _ mono hp h35, getMass_signed T _ c ds mono hc]
  cases parseFloat (c :: ds) <;> rfl

/-- MOD:+x / M:+x / PSI-MOD:+x (no table hypothesis: a text with the prefix *is* a PSI-MOD string) -/
theorem prefixed_number_is_shift_psi (T : Tables) (p' : Str) (c : Nat) (ds : Str) (mono : Bool)
    (hp : lower p' ∈ pPsi) (hc : c = 43 ∨ c = 45) (h35 : 35 ∉ c :: ds) :
    parseModMass T (p' ++ c :: ds) mono =
      (match parseFloat (c :: ds) with
       | .val r => .ok (some (some r))
       | .special => .ok (some none)
       | .bad => .error .invalidDeltaMass) := by
  rw [mass_psi_prefix T p' _ mono hp h35, getMass_signed T _ c ds mono hc]
  cases parseFloat (c :: ds) <;> rfl

/-- UNIMOD:+x / U:+x, provided the whole text is not a bare PSI-MOD id / name (tested first by the code) -/
theorem prefixed_number_is_shift_unimod (T : Tables) (p' : Str) (c : Nat) (ds : Str) (mono : Bool)
    (hp : lower p' ∈ pUnimod) (hc : c = 43 ∨ c = 45) (h35 : 35 ∉ c :: ds)
    (hP : isDbStr pPsi T.psimod (p' ++ c :: ds) = false) :
    parseModMass T (p' ++ c :: ds) mono =
      (match parseFloat (c :: ds) with
       | .val r => .ok (some (some r))
       | .special => .ok (some none)
       | .bad => .error .invalidDeltaMass) := by
  rw [mass_unimod_prefix T p' _ mono hp h35 hP, getMass_signed T _ c ds mono hc]
  cases parseFloat (c :: ds) <;> rfl

/-- RESID:+x / R:+x -/
theorem prefixed_number_is_shift_resid (T : Tables) (p' : Str) (c : Nat) (ds : Str) (mono : Bool)
    (hp : lower p' ∈ pResid) (hc : c = 43 ∨ c = 45) (h35 : 35 ∉ c :: ds) :
    parseModMass T (p' ++ c :: ds) mono =
      (match parseFloat (c :: ds) with
       | .val r => .ok (some (some r))
       | .special => .ok (some none)
       | .bad => .error .invalidDeltaMass) := by
  rw [mass_resid_prefix T p' _ mono hp h35, getMass_signed T _ c ds mono hc]
  cases parseFloat (c :: ds) <;> rfl

/-- GNO:+x / G:+x -/
theorem prefixed_number_is_shift_gno (T : Tables) (p' : Str) (c : Nat) (ds : Str) (mono : Bool)
    (hp : lower p' ∈ pGno) (hc : c = 43 ∨ c = 45) (h35 : 35 ∉ c :: ds) :
    parseModMass T (p' ++ c :: ds) mono =
      (match parseFloat (c :: ds) with
       | .val r => .ok (some (some r))
       | .special => .ok (some none)
       | .bad => .error .invalidDeltaMass) := by
  rw [mass_gno_prefix T p' _ mono hp h35, getMass_signed T _ c ds mono hc]
  cases parseFloat (c :: ds) <;> rfl

example : lower (str% "XLMOD:") ∈ pXlmod := by decide
example : parseModMass T0 (str% "XLMOD:+7.25") true = .ok (some (some (29 / 4))) := by decide +kernel
example : parseModMass T0 (str% "u:-2") false = .ok (some (some (-2))) := by decide +kernel
example : parseModMass T0 (str% "PSI-MOD:+x") true = .error .invalidDeltaMass := by decide +kernel

/-- more generally: a family prefix sends the text after its colon to that family's resolver (`_get_mass`) -/
theorem prefixed_resolves_in_family (T : Tables) (p' t : Str) (mono : Bool) (h35 : 35 ∉ t) :
    (lower p' ∈ pGno → parseModMass T (p' ++ t) mono = (getMass T T.gno t mono).map some) ∧
    (lower p' ∈ pXlmod → parseModMass T (p' ++ t) mono = (getMass T T.xlmod t mono).map some) ∧
    (lower p' ∈ pResid → parseModMass T (p' ++ t) mono = (getMass T T.resid t mono).map some) ∧
    (lower p' ∈ pPsi → parseModMass T (p' ++ t) mono = (getMass T T.psimod t mono).map some) ∧
    (lower p' ∈ pUnimod → isDbStr pPsi T.psimod (p' ++ t) = false →
      parseModMass T (p' ++ t) mono = (getMass T T.unimod t mono).map some) :=
  ⟨fun h => mass_gno_prefix T p' t mono h h35, fun h => mass_xlmod_prefix T p' t mono h h35,
   fun h => mass_resid_prefix T p' t mono h h35, fun h => mass_psi_prefix T p' t mono h h35,
   fun h hP => mass_unimod_prefix T p' t mono h h35 hP⟩

/-! ## 6b. the bare number, and agreement of the bare and the prefixed form -/

/-- every text Python's `float()` accepts is a mass shift of that value (`int()` and `float()` agree on the value) -/
theorem number_is_shift (T : Tables) (s : Str) (mono : Bool) (h35 : 35 ∉ s) (hb : parseFloat s ≠ .bad) :
    parseModMass T s mono =
      (match parseFloat s with
       | .val r => .ok (some (some r))
       | .special => .ok (some none)
       | .bad => .error .invalidDeltaMass) := by
  rw [parseModMass_noTag T mono h35, massBody_number]
  cases hf : parseFloat s with
  | bad => exact absurd hf hb
  | val r => rfl
  | special => rfl

/-- `int(s)` succeeding implies `float(s)` gives the same value (so `convert_type` and `_get_mass` read a signed
number alike) -/
theorem int_float_agree (s : Str) (i : Int) (h : parseInt s = some i) : parseFloat s = .val (i : Rat) :=
  parseFloat_of_parseInt h

/-- consistency: `U:+x`, `M:+x`, `X:+x`, `R:+x`, `G:+x` have the mass of the bare `+x`, for every `+x` that is a number -/
theorem prefixed_shift_equals_bare (T : Tables) (p' : Str) (c : Nat) (ds : Str) (mono : Bool)
    (hc : c = 43 ∨ c = 45) (h35 : 35 ∉ c :: ds) (hb : parseFloat (c :: ds) ≠ .bad) :
    (lower p' ∈ pGno → parseModMass T (p' ++ c :: ds) mono = parseModMass T (c :: ds) mono) ∧
    (lower p' ∈ pXlmod → parseModMass T (p' ++ c :: ds) mono = parseModMass T (c :: ds) mono) ∧
    (lower p' ∈ pResid → parseModMass T (p' ++ c :: ds) mono = parseModMass T (c :: ds) mono) ∧
    (lower p' ∈ pPsi → parseModMass T (p' ++ c :: ds) mono = parseModMass T (c :: ds) mono) ∧
    (lower p' ∈ pUnimod → isDbStr pPsi T.psimod (p' ++ c :: ds) = false →
      parseModMass T (p' ++ c :: ds) mono = parseModMass T (c :: ds) mono) := by
  rw [number_is_shift T (c :: ds) mono h35 hb]
  exact ⟨fun h => prefixed_number_is_shift_gno T p' c ds mono h hc h35,
    fun h => prefixed_number_is_shift_xlmod T p' c ds mono h hc h35,
    fun h => prefixed_number_is_shift_resid T p' c ds mono h hc h35,
    fun h => prefixed_number_is_shift_psi T p' c ds mono h hc h35,
    fun h hP => prefixed_number_is_shift_unimod T p' c ds mono h hc h35 hP⟩

example : parseFloat (str% "+1_0.5e1") ≠ .bad := by decide +kernel
example : parseModMass T0 (str% "R:+1_0.5e1") true = parseModMass T0 (str% "+1_0.5e1") true := by decide +kernel

/-- a prefixed signed number has no composition: `DeltaMassCompositionError` (`InvalidDeltaMassError` if unreadable) -/
theorem prefixed_number_no_comp (T : Tables) (p' : Str) (c : Nat) (ds : Str)
    (hc : c = 43 ∨ c = 45) (h35 : 35 ∉ c :: ds)
    (hp : lower p' ∈ pGno ∨ lower p' ∈ pXlmod ∨ lower p' ∈ pResid ∨ lower p' ∈ pPsi ∨
      (lower p' ∈ pUnimod ∧ isDbStr pPsi T.psimod (p' ++ c :: ds) = false)) :
    parseModComp T (p' ++ c :: ds) =
      (match parseFloat (c :: ds) with
       | .bad => .error .invalidDeltaMass
       | _ => .error .deltaMassComp) := by
  obtain ⟨h1, h2, h3, h4, h5⟩ := comp_family_prefix T p' (c :: ds) h35
  have hd := fun db => dbComp_signed db c ds hc
  rcases hp with h | h | h | h | ⟨h, hP⟩
  · rw [h1 h, hd]; cases parseFloat (c :: ds) <;> rfl
  · rw [h2 h, hd]; cases parseFloat (c :: ds) <;> rfl
  · rw [h3 h, hd]; cases parseFloat (c :: ds) <;> rfl
  · rw [h4 h, hd]; cases parseFloat (c :: ds) <;> rfl
  · rw [h5 h hP, hd]; cases parseFloat (c :: ds) <;> rfl

example : modComp T0 (str% "U:+1") = .error .deltaMassComp := by decide +kernel

/-! ## 5b. compositions of Formula / Glycan strings; mass and composition agree -/

theorem glycan_comp (T : Tables) (s : Str) (hp : startsWith (lower s) (str% "glycan:") = true) (h35 : 35 ∉ s) :
    parseModComp T s = (glycanCompProforma T s).map some :=
  comp_glycan T s hp h35

/-- `Formula:f` has the composition of `f` **up to its second colon** (`split(':')[1]`), whereas the mass
(`formula_mass`) reads `f` with all further colons removed (`''.join(split(':')[1:])`).
ODDITY of the code: `mod_mass('Formula:C2:H3')` is the mass of C2H3, `mod_comp('Formula:C2:H3')` is `{'C': 2}`. -/
theorem formula_comp (T : Tables) (p' t : Str) (hp : lower p' = str% "formula:") (h35 : 35 ∉ t)
    (hP : isDbStr pPsi T.psimod (p' ++ t) = false) (hU : isDbStr pUnimod T.unimod (p' ++ t) = false) :
    parseModComp T (p' ++ t) = (parseChem (spanP (· != 58) t).1 []).map some :=
  comp_formula_prefix T p' t hp h35 hP hU

/-- for a formula without a further colon the two agree: the mass is the chemical mass of the composition -/
theorem formula_mass_of_comp (T : Tables) (p' t : Str) (mono : Bool) (c : Comp)
    (hp : lower p' = str% "formula:") (h35 : 35 ∉ t) (h58 : 58 ∉ t)
    (hP : isDbStr pPsi T.psimod (p' ++ t) = false) (hU : isDbStr pUnimod T.unimod (p' ++ t) = false)
    (hc : parseModComp T (p' ++ t) = .ok (some c)) :
    parseModMass T (p' ++ t) mono = (chemMassComp T.mass mono c).map (fun m => some (some m)) := by
  obtain ⟨e1, e2⟩ := spanP_noColon h58
  rw [formula_comp T p' t hp h35 hP hU, e1] at hc
  rw [formula_mass T p' t mono hp h35 hP hU, e2, chemMassStr]
  cases hpc : parseChem t [] with
  | error e => rw [hpc] at hc; cases hc
  | ok c' =>
    rw [hpc] at hc
    simp only [Except.map, Except.ok.injEq, Option.some.injEq] at hc
    subst hc
    cases hm : chemMassComp T.mass mono c' <;> simp [hm, Except.map]

/-- a table with the element C -/
def T2 : Tables := { T0 with mass := { T0.mass with elems := [⟨str% "C", ⟨12, 0⟩, some ⟨12011, 3⟩, some 0⟩,
  ⟨str% "H", ⟨1007825, 6⟩, some ⟨1008, 3⟩, some 1⟩] } }

example : parseModMass T2 (str% "Formula:C2H3") true = .ok (some (some (27023475 / 1000000))) := by decide +kernel
example : parseModComp T2 (str% "Formula:C2H3") = .ok (some [(str% "C", Num.ofInt 2), (str% "H", Num.ofInt 3)]) := by
  decide +kernel
-- the oddity on the model: second colon
example : parseModMass T2 (str% "Formula:C2:H3") true = .ok (some (some (27023475 / 1000000))) := by decide +kernel
example : parseModComp T2 (str% "Formula:C2:H3") = .ok (some [(str% "C", Num.ofInt 2)]) := by decide +kernel

end C10Generic
