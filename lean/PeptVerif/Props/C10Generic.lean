import PeptVerif.Lemmas.ModDbGeneric
/-!
C10 (generic forms): "a prefixed signed number is a mass shift, Formula/Glycan/Obs strings give the mass of what they
spell, '|'-separated alternatives take the first resolvable one, localisation tags do not change the mass, and a
multiplier multiplies it."

All theorems are table-independent (`T : Tables` universally quantified); hypotheses about `T` appear only where the
Python consults the PSI-MOD / Unimod vocabulary *before* it reaches the branch in question.
-/
namespace C10Generic
open ModDb Formula ModDbGeneric

/-- a tiny table for the non-vacuity examples -/
def T0 : Tables :=
  { unimod := [], psimod := [], xlmod := [], resid := [], gno := [], mono := [],
    mass := { elems := [], electron := ⟨0, 0⟩, proton := ⟨1, 0⟩, neutron := ⟨1, 0⟩ } }

/-! ## 3. `|`-separated alternatives: the first resolvable one -/

/-- `mod_mass("a|rest")`: an error of the first alternative propagates, a mass of the first alternative is the answer,
and only when the first alternative has no mass (`None`) the remaining alternatives are consulted. -/
theorem alternatives_first_resolvable (T : Tables) (a rest : Str) (mono : Bool) (h : 124 ∉ a) :
    modMass T (a ++ 124 :: rest) mono =
      match parseModMass T a mono with
      | .error e => .error e
      | .ok (some m) => .ok m
      | .ok none => modMass T rest mono := by
  simp only [modMass, splitBar_cons a rest h, firstMass]
  cases parseModMass T a mono with
  | error e => rfl
  | ok o => cases o <;> rfl

/-- a string without `|` is its only alternative; no mass at all = `InvalidModificationMassError` -/
theorem modMass_single (T : Tables) (a : Str) (mono : Bool) (h : 124 ∉ a) :
    modMass T a mono =
      match parseModMass T a mono with
      | .error e => .error e
      | .ok (some m) => .ok m
      | .ok none => .error .invalidModMass := by
  simp only [modMass, splitBar_single a h, firstMass]
  cases parseModMass T a mono with
  | error e => rfl
  | ok o => cases o <;> rfl

theorem alternatives_first_resolvable_comp (T : Tables) (a rest : Str) (h : 124 ∉ a) :
    modComp T (a ++ 124 :: rest) =
      match parseModComp T a with
      | .error e => .error e
      | .ok (some c) => .ok c
      | .ok none => modComp T rest := by
  simp only [modComp, splitBar_cons a rest h, firstComp]
  cases parseModComp T a with
  | error e => rfl
  | ok o => cases o <;> rfl

theorem modComp_single (T : Tables) (a : Str) (h : 124 ∉ a) :
    modComp T a =
      match parseModComp T a with
      | .error e => .error e
      | .ok (some c) => .ok c
      | .ok none => .error .invalidComp := by
  simp only [modComp, splitBar_single a h, firstComp]
  cases parseModComp T a with
  | error e => rfl
  | ok o => cases o <;> rfl

-- "info:x|+1.5" : the first alternative has no mass, the second is the number 1.5
example : modMass T0 (str% "info:x|+1.5") true = .ok (some (3 / 2)) := by decide +kernel
example : (124 : Nat) ∉ (str% "info:x") := by decide

end C10Generic
