import PeptVerif.Lemmas.ModDbGeneric
/-!
C10 (generic forms): "a prefixed signed number is a mass shift, Formula/Glycan/Obs strings give the mass of what they
spell, '|'-separated alternatives take the first resolvable one, localisation tags do not change the mass, and a
multiplier multiplies it."

All theorems are table-independent (`T : Tables` universally quantified); hypotheses about `T` appear only where the
Python consults the PSI-MOD / Unimod vocabulary *before* it reaches the branch in question.
-/
namespace C10Generic
open ModDb Formula ModDbGeneric

/-- a tiny table for the non-vacuity examples -/
def T0 : Tables :=
  { unimod := [], psimod := [], xlmod := [], resid := [], gno := [], mono := [],
    mass := { elems := [], electron := ⟨0, 0⟩, proton := ⟨1, 0⟩, neutron := ⟨1, 0⟩ } }

/-! ## 3. `|`-separated alternatives: the first resolvable one -/

/-- `mod_mass("a|rest")`: an error of the first alternative propagates, a mass of the first alternative is the answer,
and only when the first alternative has no mass (`None`) the remaining alternatives are consulted. -/
theorem alternatives_first_resolvable (T : Tables) (a rest : Str) (mono : Bool) (h : 124 ∉ a) :
    modMass T (a ++ 124 :: rest) mono =
      match parseModMass T a mono with
      | .error e => .error e
      | .ok (some m) => .ok m
      | .ok none => modMass T rest mono := by
  simp only [modMass, splitBar_cons a rest h, firstMass]
  cases parseModMass T a mono with
  | error e => rfl
  | ok o => cases o <;> rfl

/-- a string without `|` is its only alternative; no mass at all = `InvalidModificationMassError` -/
theorem modMass_single (T : Tables) (a : Str) (mono : Bool) (h : 124 ∉ a) :
    modMass T a mono =
      match parseModMass T a mono with
      | .error e => .error e
      | .ok (some m) => .ok m
      | .ok none => .error .invalidModMass := by
  simp only [modMass, splitBar_single a h, firstMass]
  cases parseModMass T a mono with
  | error e => rfl
  | ok o => cases o <;> rfl

theorem alternatives_first_resolvable_comp (T : Tables) (a rest : Str) (h : 124 ∉ a) :
    modComp T (a ++ 124 :: rest) =
      match parseModComp T a with
      | .error e => .error e
      | .ok (some c) => .ok c
      | .ok none => modComp T rest := by
  simp only [modComp, splitBar_cons a rest h, firstComp]
  cases parseModComp T a with
  | error e => rfl
  | ok o => cases o <;> rfl

theorem modComp_single (T : Tables) (a : Str) (h : 124 ∉ a) :
    modComp T a =
      match parseModComp T a with
      | .error e => .error e
      | .ok (some c) => .ok c
      | .ok none => .error .invalidComp := by
  simp only [modComp, splitBar_single a h, firstComp]
  cases parseModComp T a with
  | error e => rfl
  | ok o => cases o <;> rfl

-- "info:x|+1.5" : the first alternative has no mass, the second is the number 1.5
example : modMass T0 (str% "info:x|+1.5") true = .ok (some (3 / 2)) := by decide +kernel
example : (124 : Nat) ∉ (str% "info:x") := by decide

/-! ## 1. a bare localisation tag `#g1` carries no mass and the empty composition -/

theorem tag_only_zero (T : Tables) (t : Str) (mono : Bool) :
    parseModMass T (35 :: t) mono = .ok (some (some 0)) := by
  simp [parseModMass, startsWith, List.isPrefixOf]

theorem tag_only_empty_comp (T : Tables) (t : Str) : parseModComp T (35 :: t) = .ok (some []) := by
  have hc : convertType (35 :: t) = .str := convertType_hash (by simp)
  rw [parseModComp_eq, hc]
  simp [startsWith, List.isPrefixOf]

example : modMass T0 (str% "#g1") true = .ok (some 0) := by decide +kernel
example : modComp T0 (str% "#g1") = .ok [] := by decide +kernel

/-! ## 2. a localisation tag after a modification does not change its mass / composition -/

/-- `parse("b#tag") = parse("b")` for every non-empty `b` without `#` -/
theorem tag_neutral (T : Tables) (b t : Str) (mono : Bool) (h : 35 ∉ b) (hne : b ≠ []) :
    parseModMass T (b ++ 35 :: t) mono = parseModMass T b mono := by
  rw [parseModMass_eq, parseModMass_noTag T mono h]
  simp [startsWith_hash_tag t h hne, beforeHash_tag b t h]

/-- the same for `mod_mass` on one alternative … -/
theorem tag_neutral_modMass (T : Tables) (b t : Str) (mono : Bool) (h : 35 ∉ b) (hne : b ≠ [])
    (hb : 124 ∉ b) (ht : 124 ∉ t) :
    modMass T (b ++ 35 :: t) mono = modMass T b mono := by
  have h1 : 124 ∉ b ++ 35 :: t := by simp [hb, ht]
  rw [modMass_single T _ mono h1, modMass_single T _ mono hb, tag_neutral T b t mono h hne]

/-- … and in front of further alternatives -/
theorem tag_neutral_modMass_alt (T : Tables) (b t rest : Str) (mono : Bool) (h : 35 ∉ b) (hne : b ≠ [])
    (hb : 124 ∉ b) (ht : 124 ∉ t) :
    modMass T ((b ++ 35 :: t) ++ 124 :: rest) mono = modMass T (b ++ 124 :: rest) mono := by
  have h1 : 124 ∉ b ++ 35 :: t := by simp [hb, ht]
  rw [alternatives_first_resolvable T _ rest mono h1, alternatives_first_resolvable T _ rest mono hb,
    tag_neutral T b t mono h hne]

example : modMass T0 (str% "+1.5#g1") true = modMass T0 (str% "+1.5") true := by decide +kernel

/-- Compositions: `_parse_mod_comp` calls `convert_type` on the text *with* its tag (which is never a number) and cuts the
tag afterwards. So the tag is neutral exactly when the tag-free text is not a number either. -/
theorem tag_neutral_comp (T : Tables) (b t : Str) (h : 35 ∉ b) (hne : b ≠ []) (hs : convertType b = .str) :
    parseModComp T (b ++ 35 :: t) = parseModComp T b := by
  have hc : convertType (b ++ 35 :: t) = .str := convertType_hash (by simp)
  rw [parseModComp_eq, hc, parseModComp_str T h hs]
  simp [startsWith_hash_tag t h hne, beforeHash_tag b t h]

/-- what the tagged text of a *numeric* `b` does: it is treated as a name / id (branch chain), while the bare number
has no composition. ODDITY of the code: `mod_comp('42#g1')` looks up Unimod id 42, `mod_comp('42')` is "a mass shift,
no composition". -/
theorem tag_numeric_comp (T : Tables) (b t : Str) (h : 35 ∉ b) (hne : b ≠ []) :
    parseModComp T (b ++ 35 :: t) = compStrBody T b := by
  have hc : convertType (b ++ 35 :: t) = .str := convertType_hash (by simp)
  rw [parseModComp_eq, hc]
  simp [startsWith_hash_tag t h hne, beforeHash_tag b t h]

theorem tag_neutral_modComp (T : Tables) (b t : Str) (h : 35 ∉ b) (hne : b ≠ []) (hs : convertType b = .str)
    (hb : 124 ∉ b) (ht : 124 ∉ t) :
    modComp T (b ++ 35 :: t) = modComp T b := by
  have h1 : 124 ∉ b ++ 35 :: t := by simp [hb, ht]
  rw [modComp_single T _ h1, modComp_single T _ hb, tag_neutral_comp T b t h hne hs]

/-- a table with one Unimod entry: id 42, composition H2 -/
def T1 : Tables := { T0 with unimod := [⟨str% "42", str% "Foo", [], none, none, some (str% "H2")⟩] }

example : convertType (str% "Foo") = .str := by decide
example : modComp T1 (str% "Foo#g1") = modComp T1 (str% "Foo") := by decide +kernel
-- the oddity, on the model: with the tag the number is an id, without it has no composition
example : modComp T1 (str% "42#g1") = .ok [(str% "H", Num.ofInt 2)] := by decide +kernel
example : modComp T1 (str% "42") = .error .invalidComp := by decide +kernel

/-! ## 4. a multiplier multiplies -/

/-- `mod_mass(Mod(s, k))` is `mod_mass(s)` with the finite mass multiplied by `k`; errors and non-finite results pass -/
theorem multiplier_scales (T : Tables) (s : Str) (k : Int) (mono : Bool) :
    modMassMult T s k mono = (modMass T s mono).map (fun m => m.map (· * (k : Rat))) := rfl

theorem multiplier_finite (T : Tables) (s : Str) (k : Int) (mono : Bool) (m : Rat)
    (h : modMass T s mono = .ok (some m)) : modMassMult T s k mono = .ok (some (m * (k : Rat))) := by
  simp [modMassMult, h, Except.map]

theorem multiplier_error (T : Tables) (s : Str) (k : Int) (mono : Bool) (e : Err)
    (h : modMass T s mono = .error e) : modMassMult T s k mono = .error e := by
  simp [modMassMult, h, Except.map]

/-- multiplier 1 changes nothing (for every outcome) -/
theorem multiplier_one (T : Tables) (s : Str) (mono : Bool) : modMassMult T s 1 mono = modMass T s mono := by
  rw [multiplier_scales]
  cases modMass T s mono with
  | error e => rfl
  | ok o => cases o <;> simp [Except.map]

theorem multiplier_zero (T : Tables) (s : Str) (mono : Bool) (m : Rat) (h : modMass T s mono = .ok (some m)) :
    modMassMult T s 0 mono = .ok (some 0) := by
  simp [modMassMult, h, Except.map]

/-- multipliers add up: `k = a + b` gives the sum of the two masses -/
theorem multiplier_add (T : Tables) (s : Str) (a b : Int) (mono : Bool) (x y : Rat)
    (ha : modMassMult T s a mono = .ok (some x)) (hb : modMassMult T s b mono = .ok (some y)) :
    modMassMult T s (a + b) mono = .ok (some (x + y)) := by
  rw [multiplier_scales] at ha hb ⊢
  cases hm : modMass T s mono with
  | error e => rw [hm] at ha; cases ha
  | ok o =>
    cases o with
    | none => rw [hm] at ha; cases ha
    | some m =>
      rw [hm] at ha hb
      simp only [Except.map, Option.map, Except.ok.injEq, Option.some.injEq] at ha hb ⊢
      rw [← ha, ← hb, rat_mul_add]

/-- nesting: multiplier `a * b` = multiplying the `a`-fold mass by `b` -/
theorem multiplier_mul (T : Tables) (s : Str) (a b : Int) (mono : Bool) :
    modMassMult T s (a * b) mono = (modMassMult T s a mono).map (fun m => m.map (· * (b : Rat))) := by
  rw [multiplier_scales, multiplier_scales]
  cases modMass T s mono with
  | error e => rfl
  | ok o => cases o <;> simp [Except.map, Rat.mul_assoc]

example : modMassMult T0 (str% "+1.5") 3 true = .ok (some (9 / 2)) := by decide +kernel

/-- `mod_comp(Mod(s, k))` multiplies every count by `k` (`Num.mul`: the float flag of a count is kept) -/
theorem multiplier_scales_comp (T : Tables) (s : Str) (k : Int) :
    modCompMult T s k = (modComp T s).map (scaleComp k) := rfl

theorem multiplier_comp_keys_vals (T : Tables) (s : Str) (k : Int) (c : Comp) (h : modComp T s = .ok c) :
    ∃ c', modCompMult T s k = .ok c' ∧ c'.map (·.1) = c.map (·.1) ∧
      c'.map (·.2.val) = c.map (fun kv => kv.2.val * (k : Rat)) := by
  refine ⟨scaleComp k c, ?_, scaleComp_keys k c, scaleComp_vals k c⟩
  simp [multiplier_scales_comp, h, Except.map]

theorem multiplier_one_comp (T : Tables) (s : Str) : modCompMult T s 1 = modComp T s := by
  rw [multiplier_scales_comp]
  cases modComp T s with
  | error e => rfl
  | ok c => simp [Except.map, scaleComp_one]

/-- consistency of the two multipliers: the chemical mass of the `k`-fold composition is `k` times the mass of the
composition (`chem_mass` is linear in the counts) -/
theorem multiplier_comp_mass (T : Tables) (s : Str) (k : Int) (mono : Bool) (c : Comp) (h : modComp T s = .ok c) :
    ∃ c', modCompMult T s k = .ok c' ∧
      chemMassComp T.mass mono c' = (chemMassComp T.mass mono c).map (· * (k : Rat)) := by
  refine ⟨scaleComp k c, ?_, chemMassComp_scale T.mass mono k c⟩
  simp [multiplier_scales_comp, h, Except.map]

example : modCompMult T1 (str% "Foo") 3 = .ok [(str% "H", Num.ofInt 6)] := by decide +kernel

end C10Generic
