import PeptVerif.Model.CondenseMass
/-! C18 property theorems (in progress) -/
