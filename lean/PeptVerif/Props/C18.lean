import PeptVerif.Lemmas.CondenseLabel
import PeptVerif.Lemmas.DecText
/-!
# C18 — condensing modifications to mass shifts preserves the peptide

Property theorems only. Model: `Model/CondenseMass.lean` — `condense_to_mass_mods` as the function is written after the two
repairs in /repo (9295698, dc0999f); `condenseToMassAnn` is the annotation just before it is serialised, `shiftsOf` the
numbers written, `render` the annotation carrying them. Every mass is a parameter (`Env`), so the theorems hold for ANY
residue and modification weights.

`condense_mass` covers annotations without an isotope label (every `mass` call takes the fast path) for ANY weights.
`condense_mass_label` covers a label in force: the per-piece difference then runs through the composition calculator, and
the statement holds in every environment in which the two calculators agree on the parameters (`Coherent`: residue mass =
mass of the residue composition, modification mass = mass of its composition or its plain shift, charge / ion-type term =
mass of its composition — C03's subject; on the implementation these agree to ~1e-6 per named modification, which is the
slack the oracle measures and allows).
-/
namespace Pept
namespace C18
open Static AbsMass CondenseMass

/-- the function = condense the static rules, compute the numbers, render them -/
theorem condenseToMassAnn_eq (E : Env) (a n : Annotation) (p : ℕ) (h : condenseToMassAnn E a p = .ok n) :
    ∃ c s, condenseStatic a = .ok c ∧ shiftsOf E c p = .ok s ∧ n = render c s p := by
  unfold condenseToMassAnn at h
  cases hc : condenseStatic a with
  | error e => simp [hc] at h
  | ok c =>
    simp only [hc] at h
    cases hs : shiftsOf E c p with
    | error e => simp [hs] at h
    | ok s => simp only [hs, Except.ok.injEq] at h; exact ⟨c, s, rfl, hs, h.symm⟩

/-! ### a concrete input used by the `example`s below (hypotheses are satisfiable, outputs are non-trivial) -/

/-- every residue weighs 100, an integer modification its value, every named modification 42.0106, water 18 -/
def exEnv : Env :=
  { res := fun _ => 100, mu := fun v => match v with | .int i => i | .str _ => 420106 / 10000 | _ => 0, adj := 18,
    aaComp := fun _ => [], modRes := fun _ => .bad, ionAdj := [], chargeComp := [], em := fun _ => 0 }

/-- `<[Methyl]@E,C-Term>[10]-PEP[1][Acetyl]/2` -/
def exA : Annotation :=
  { seq := "PEP".toList, static := some [⟨.str "[Methyl]@E,C-Term".toList, 1⟩], nterm := some [⟨.int 10, 1⟩], internal := some [(2, [⟨.int 1, 1⟩, ⟨.str "Acetyl".toList, 1⟩])], charge := some 2 }

/-- `[10]-PE[42.011]P[43.011]-[42.011]/2` at precision 3 -/
def exOut : Annotation :=
  { seq := "PEP".toList, nterm := some [⟨.int 10, 1⟩], cterm := some [⟨.flt "42.011".toList, 1⟩], internal := some [(1, [⟨.flt "42.011".toList, 1⟩]), (2, [⟨.flt "43.011".toList, 1⟩])], charge := some 2 }

example : condenseToMassAnn exEnv exA 3 = .ok exOut := by decide +kernel
example : serialize exOut true = "[+10]-PE[+42.011]P[+43.011]-[+42.011]/2".toList := by decide +kernel
example : InRange exA ∧ exA.isotope = none ∧ (∀ i : ℤ, exEnv.mu (.int i) = i) ∧ exEnv.ionP = true :=
  ⟨by unfold InRange; decide, rfl, fun _ => rfl, rfl⟩

/-- **same residues** -/
theorem condense_residues (E : Env) (a n : Annotation) (p : ℕ) (h : condenseToMassAnn E a p = .ok n) :
    n.seq = a.seq := by
  obtain ⟨c, s, hc, _, hn⟩ := condenseToMassAnn_eq E a n p h
  subst hn
  exact condenseStatic_seq a c hc

/-- a numeric modification: an int or a float value, multiplier 1 -/
def NumericMod (m : Mod) : Prop := m.mult = 1 ∧ ((∃ i, m.val = .int i) ∨ (∃ r, m.val = .flt r))

theorem numeric_toMods (p : ℕ) (x : Num) : ∀ m ∈ x.toMods p, NumericMod m := by
  intro m hm
  simp only [Num.toMods, List.mem_singleton] at hm
  subst hm
  cases x with
  | int i => exact ⟨rfl, Or.inl ⟨i, rfl⟩⟩
  | dec k => exact ⟨rfl, Or.inr ⟨_, rfl⟩⟩

/-- **numeric modifications only**: no global rule, no label, and every modification anywhere in the output is a number
with multiplier 1 -/
theorem condense_numeric_only (E : Env) (a n : Annotation) (p : ℕ) (h : condenseToMassAnn E a p = .ok n) :
    n.static = none ∧ n.isotope = none ∧ ∀ m ∈ allMods n, NumericMod m := by
  obtain ⟨c, s, _, _, hn⟩ := condenseToMassAnn_eq E a n p h
  subst hn
  refine ⟨rfl, rfl, ?_⟩
  intro m hm
  have hopt : ∀ o : Option Num, ∀ m ∈ (o.map (Num.toMods p)).getD [], NumericMod m := by
    intro o m hm
    cases o with
    | none => simp at hm
    | some x => exact numeric_toMods p x m (by simpa using hm)
  simp only [allMods, render, List.mem_append] at hm
  rcases hm with ((((hm | hm) | hm) | hm) | hm) | hm
  · exact hopt _ m hm
  · exact hopt _ m hm
  · exact hopt _ m hm
  · exact hopt _ m hm
  · cases hi : s.intervals with
    | none => simp [hi] at hm
    | some l =>
      simp only [hi, Option.map_some, Option.getD_some, List.mem_flatMap, List.mem_map] at hm
      obtain ⟨iv, ⟨q, _, hq⟩, hm⟩ := hm
      subst hq
      exact hopt q.2 m hm
  · cases hi : s.internal with
    | nil => simp [hi] at hm
    | cons x l =>
      simp only [hi, Option.getD_some, List.mem_flatMap, List.mem_map] at hm
      obtain ⟨e, ⟨q, _, hq⟩, hm⟩ := hm
      subst hq
      exact numeric_toMods p _ m hm

/-- **an unmodified peptide is returned unchanged** (a charge state and adducts are not modifications and are kept) -/
theorem condense_unmodified_id (E : Env) (sq : List Char) (ch : Option Int) (ad : Option (List Mod)) (p : ℕ) :
    condenseToMassAnn E { seq := sq, charge := ch, adducts := ad } p = .ok { seq := sq, charge := ch, adducts := ad } := by
  have hs := shiftsOf_nolabel E { seq := sq, charge := ch, adducts := ad } p rfl rfl
  have hz : ∀ (l : List ℕ) (i : ℕ), shiftsFrom p (l.map fun j : ℕ => sumAt E none (j : ℕ)) i = [] := by
    intro l
    induction l with
    | nil => intro i; rfl
    | cons x l ih =>
      intro i
      have : ¬ absQ (sumAt E none (x : ℕ)) > threshold := by
        simp only [sumAt, absQ_eq_abs, abs_zero]; exact not_lt.mpr (le_of_lt threshold_pos)
      simp only [List.map_cons, shiftsFrom, if_neg this, ih]
  simp only [condenseToMassAnn, condenseStatic, hs, render, diffsOf, hz, Option.map_none]

/-- position lemma for the loop: a shift is written at index `i` only for a significant difference there -/
theorem shiftsFrom_mem (p : ℕ) (ds : List ℚ) (start : ℕ) :
    ∀ q ∈ shiftsFrom p ds start, ∃ j, j < ds.length ∧ q.1 = start + j ∧
      ∃ d, ds[j]? = some d ∧ absQ d > threshold ∧ q.2 = roundNum d p := by
  induction ds generalizing start with
  | nil => intro q hq; simp [shiftsFrom] at hq
  | cons d r ih =>
    intro q hq
    simp only [shiftsFrom] at hq
    have hrest : q ∈ shiftsFrom p r (start + 1) → ∃ j, j < (d :: r).length ∧ q.1 = start + j ∧
        ∃ d', (d :: r)[j]? = some d' ∧ absQ d' > threshold ∧ q.2 = roundNum d' p := by
      intro h
      obtain ⟨j, hj, hq1, d', hd', hg, hq2⟩ := ih (start + 1) q h
      exact ⟨j + 1, by simp only [List.length_cons]; omega, by omega, d', by simpa using hd', hg, hq2⟩
    split at hq
    · rename_i hg
      rcases List.mem_cons.mp hq with h | h
      · subst h; exact ⟨0, by simp, by simp, d, by simp, hg, rfl⟩
      · exact hrest h
    · exact hrest hq

/-- **shifts sit where the peptide was modified** (no isotope label in force; `c` is the annotation with its static rules
written out, see C12 `condense_spec`): a residue shift is written only on a residue that carries modifications, it is the
rounded total of the modifications listed there, and that total is nonzero; a terminal / labile / unknown-position shift
is written exactly when the peptide has such modifications; the intervals keep their place. -/
theorem condense_positions (E : Env) (a c : Annotation) (p : ℕ) (s : Shifts) (hiso : a.isotope = none)
    (hc : condenseStatic a = .ok c) (hs : shiftsOf E c p = .ok s) :
    (∀ q ∈ s.internal, q.1 < a.seq.length ∧ (∃ l, (((q.1 : ℕ) : Int), l) ∈ c.internal.getD []) ∧
        sumAt E c.internal (q.1 : ℕ) ≠ 0 ∧ q.2 = roundNum (sumAt E c.internal (q.1 : ℕ)) p) ∧
      s.nterm.isSome = c.nterm.isSome ∧ s.cterm.isSome = c.cterm.isSome ∧ s.labile.isSome = c.labile.isSome ∧
      s.unknown.isSome = c.unknown.isSome ∧ s.intervals.map (fun l => l.map (·.1)) = c.intervals := by
  have hciso : c.isotope = none := by
    have := condenseStatic_isotope a c none hc
    have ha : ({ a with isotope := none } : Annotation) = a := by cases a; simp_all
    rw [ha, hc] at this
    have := Except.ok.inj this
    rw [this]
  have hst := condenseStatic_static a c hc
  rw [shiftsOf_nolabel E c p hciso hst] at hs
  simp only [Except.ok.injEq] at hs
  subst hs
  refine ⟨?_, by cases c.nterm <;> rfl, by cases c.cterm <;> rfl, by cases c.labile <;> rfl, by cases c.unknown <;> rfl, ?_⟩
  · intro q hq
    obtain ⟨j, hj, hq1, d, hd, hg, hq2⟩ := shiftsFrom_mem p (diffsOf E c) 0 q hq
    have hj' : j < c.seq.length := by simpa [diffsOf] using hj
    have hqj : q.1 = j := by omega
    have hdv : d = sumAt E c.internal (j : ℕ) := by
      simp only [diffsOf, List.getElem?_map, List.getElem?_range hj', Option.map_some, Option.some.injEq] at hd
      exact hd.symm
    have hne : sumAt E c.internal (j : ℕ) ≠ 0 := by
      intro h0
      rw [hdv, h0, absQ_eq_abs, abs_zero] at hg
      exact absurd hg (not_lt.mpr (le_of_lt threshold_pos))
    refine ⟨by rw [hqj, ← condenseStatic_seq a c hc]; exact hj', ?_, by rw [hqj]; exact hne, by rw [hqj, hq2, hdv]⟩
    rw [hqj]
    cases hi : c.internal with
    | none => simp [sumAt, hi] at hne
    | some dct =>
      simp only [sumAt, hi] at hne
      cases hf : dct.filter (fun q => decide (q.1 = (j : Int))) with
      | nil => rw [hf] at hne; simp [sumInternal] at hne
      | cons x xs =>
        have hx : x ∈ dct.filter (fun q => decide (q.1 = (j : Int))) := by rw [hf]; simp
        rw [List.mem_filter] at hx
        refine ⟨x.2, ?_⟩
        have hk : x.1 = (j : Int) := by simpa using hx.2
        simp only [Option.getD_some]
        rw [← hk]; exact hx.1
  · cases hi : c.intervals with
    | none => rfl
    | some l =>
      simp only [Option.map_some, List.map_map]
      congr 1
      have : ∀ l : List Interval,
          List.map ((fun x => x.1) ∘ fun iv : Interval => (iv, Option.map (fun l => roundedSum E l p) iv.mods)) l = l := by
        intro l
        induction l with
        | nil => rfl
        | cons x l ih => simp only [List.map_cons, Function.comp, ih]
      exact this l

/-- **mass preserved within the rounding precision.** For an annotation without isotope label whose residue-modification
keys are positions of the sequence, ion type `p`, and any environment that weighs an integer modification by its value
(what `mod_mass` does; residue and all other modification weights arbitrary): the mass of the output — residues, the
numbers written, the same charge / ion-type term (`outMass`) — differs from the mass of the input by at most ½·10⁻ᵖ per number
written, plus 10⁻⁶ per residue whose total modification mass is nonzero but below the function's own 10⁻⁶ cut-off (such a
residue gets no shift). -/
theorem condense_mass (E : Env) (a n : Annotation) (p : ℕ) (hiso : a.isotope = none) (hr : InRange a)
    (hn : ∀ i : ℤ, E.mu (.int i) = i) (hp : E.ionP = true) (h : condenseToMassAnn E a p = .ok n) :
    ∃ c s x, condenseStatic a = .ok c ∧ shiftsOf E c p = .ok s ∧ n = render c s p ∧ massOf E a = .ok x ∧
      |outMass E c s p - x| ≤ (written c s : ℚ) * halfUlp p + (droppedNonzero (diffsOf E c) : ℚ) * threshold := by
  obtain ⟨c, s, hc, hs, hn'⟩ := condenseToMassAnn_eq E a n p h
  have hciso : c.isotope = none := by
    have := condenseStatic_isotope a c none hc
    have ha : ({ a with isotope := none } : Annotation) = a := by cases a; simp_all
    rw [ha, hc] at this
    have := Except.ok.inj this
    rw [this]
  have hst := condenseStatic_static a c hc
  have hx : massOf E a = .ok (plainMass E c + E.adj) := by
    have h1 : massOf E a = massFast E a := by simp [massOf, hiso]
    have h2 := massFast_condense E a
    rw [hc] at h2
    have h3 : massFast E c = .ok (plainMass E c + E.adj) := by simp [massFast, hst]
    rw [h1, ← h2]; exact h3
  exact ⟨c, s, _, hc, hs, hn', hx, outMass_err E c p s hciso hst (inRange_condense a c hc hr) hn hp hs⟩

/-- `outMass` is what `mass` returns for the output annotation in any environment that reads a written number as its value
(`NumericMu`: ints as themselves, the text `decText k p` as `k / 10^p`) -/
theorem condense_mass_output (E : Env) (c : Annotation) (s : Shifts) (p : ℕ) (hn : NumericMu E p) (hp : E.ionP = true) :
    massOf E (render c s p) = .ok (outMass E c s p) := by
  have : (render c s p).isotope = none := rfl
  simp only [massOf, this]
  exact massFast_render E c s p hn hp

/-- **the text written for a rounded shift denotes that number**: `decText k p` (sign, integer digits, `.`, fraction digits
with trailing zeros dropped — what `repr(round(x, p))` prints in the positional range) read back as a decimal is `k / 10^p` -/
theorem written_text_value (k : ℤ) (p : ℕ) : valOfText (decText k p) = (k : ℚ) / ((pow10 p : ℕ) : ℚ) :=
  valOfText_decText k p

/-- hence the hypothesis of `condense_mass_output` is satisfiable: every environment that reads an int as itself and a float
text as the decimal it spells is a `NumericMu` environment, at every precision -/
theorem numericMu_satisfiable (E : Env) (p : ℕ) (hi : ∀ i : ℤ, E.mu (.int i) = i)
    (hf : ∀ t, E.mu (.flt t) = valOfText t) : NumericMu E p :=
  numericMu_of_valOfText E p hi hf

/-- the bound of the property text, `k · ½ · 10⁻ᵖ` with `k` the number of shifts written, under the exact extra hypothesis:
no residue carries a nonzero total below the 10⁻⁶ cut-off -/
theorem condense_mass_k (E : Env) (a n : Annotation) (p : ℕ) (hiso : a.isotope = none) (hr : InRange a)
    (hn : ∀ i : ℤ, E.mu (.int i) = i) (hp : E.ionP = true) (h : condenseToMassAnn E a p = .ok n)
    (hcut : ∀ c, condenseStatic a = .ok c → droppedNonzero (diffsOf E c) = 0) :
    ∃ c s x, condenseStatic a = .ok c ∧ shiftsOf E c p = .ok s ∧ n = render c s p ∧ massOf E a = .ok x ∧
      |outMass E c s p - x| ≤ (written c s : ℚ) * halfUlp p := by
  obtain ⟨c, s, x, hc, hs, hn', hx, hb⟩ := condense_mass E a n p hiso hr hn hp h
  refine ⟨c, s, x, hc, hs, hn', hx, ?_⟩
  rw [hcut c hc] at hb
  simpa using hb

/-- **mass preserved with an isotope label in force** (labels expanded per residue, the terminal H / OH shift written once on
the termini), every modification resolving: in a table-coherent environment the mass of the output differs from the mass of the labelled input by at most
½·10⁻ᵖ per number written, plus 10⁻⁶ per nonzero quantity below the cut-off (residue totals, the two terminal label shifts),
plus the `slack`: the total discrepancy between the tabulated masses (`mod_mass`) and the composition masses of the
modifications written outside residue positions — the labelled input is weighed through compositions, the sums written for
termini / labile / unknown-position / interval modifications through `mod_mass`. -/
theorem condense_mass_label (E : Env) (hc : Coherent E) (a n : Annotation) (p : ℕ) (m0 : Mod) (L : List Mod) (lm : LabelMap)
    (hiso : a.isotope = some (m0 :: L)) (hl : parseIsotopeMods E.knownLabel (m0 :: L) = .ok lm) (hr : InRange a)
    (hn : ∀ i : ℤ, E.mu (.int i) = i) (hres : ∀ c, condenseStatic a = .ok c → ∀ m ∈ allMods c, isBad E m = false)
    (hrule : absentRuleBad E a = false)
    (h : condenseToMassAnn E a p = .ok n) :
    ∃ c s x, condenseStatic a = .ok c ∧ shiftsOf E c p = .ok s ∧ n = render c s p ∧ massOf E a = .ok x ∧
      |outMass E c s p - x| ≤ (writtenL c s : ℚ) * halfUlp p + (droppedL E lm c : ℚ) * threshold + slack E c := by
  obtain ⟨c, s, hcd, hs, hn'⟩ := condenseToMassAnn_eq E a n p h
  have hciso : c.isotope = some (m0 :: L) := by
    have := condenseStatic_isotope a c (some (m0 :: L)) hcd
    have ha : ({ a with isotope := some (m0 :: L) } : Annotation) = a := by cases a; simp_all
    rw [ha, hcd] at this
    have := Except.ok.inj this
    rw [this]
  have hst := condenseStatic_static a c hcd
  obtain ⟨x, hx, hb⟩ := outMass_err_label E hc c p s m0 L lm hst hciso hl (inRange_condense a c hcd hr) hn (hres c hcd) hs
  have hxa : massOf E a = .ok x := by
    have h1 : massOf E a = massLabel E a := by simp [massOf, hiso]
    have h2 : massOf E c = massLabel E c := by simp [massOf, hciso]
    have h3 : massLabel E c = massLabel E a := by
      unfold massLabel compMassOf
      rw [condenseStatic_idem a c hcd, hcd, hrule, absentRuleBad_static_none E c hst]
    rw [h1, ← h3, ← h2]; exact hx
  exact ⟨c, s, x, hcd, hs, hn', hxa, hb⟩

/-- **the ~1e-6 slack for named modifications, explicit**: if every modification written outside a residue position has a
tabulated mass within `δ` of the mass of its composition (a hypothesis on the RESOLVED masses, C03 / C10's subject; on
/repo δ ≈ 1e-6 for Unimod / PSI-MOD names), the bound is `k·½·10⁻ᵖ + z·10⁻⁶ + j·δ` with `j` the number of such modifications -/
theorem condense_mass_label_delta (E : Env) (hc : Coherent E) (a n : Annotation) (p : ℕ) (m0 : Mod) (L : List Mod)
    (lm : LabelMap) (δ : ℚ)
    (hiso : a.isotope = some (m0 :: L)) (hl : parseIsotopeMods E.knownLabel (m0 :: L) = .ok lm) (hr : InRange a)
    (hn : ∀ i : ℤ, E.mu (.int i) = i) (hres : ∀ c, condenseStatic a = .ok c → ∀ m ∈ allMods c, isBad E m = false)
    (hrule : absentRuleBad E a = false)
    (h : condenseToMassAnn E a p = .ok n)
    (hδ : ∀ c, condenseStatic a = .ok c → ∀ m ∈ outsideMods c, |modMass E m - modMass (envC E) m| ≤ δ) :
    ∃ c s x, condenseStatic a = .ok c ∧ shiftsOf E c p = .ok s ∧ n = render c s p ∧ massOf E a = .ok x ∧
      |outMass E c s p - x| ≤ (writtenL c s : ℚ) * halfUlp p + (droppedL E lm c : ℚ) * threshold +
        δ * ((outsideMods c).length : ℚ) := by
  obtain ⟨c, s, x, hcd, hs, hn', hx, hb⟩ := condense_mass_label E hc a n p m0 L lm hiso hl hr hn hres hrule h
  refine ⟨c, s, x, hcd, hs, hn', hx, ?_⟩
  have := slack_le E c δ (hδ c hcd)
  linarith

/-- when the tabulated modification masses ARE the composition masses (the two calculators agree exactly) there is no slack -/
theorem condense_mass_label_exact (E : Env) (hc : Coherent E) (a n : Annotation) (p : ℕ) (m0 : Mod) (L : List Mod)
    (lm : LabelMap)
    (hiso : a.isotope = some (m0 :: L)) (hl : parseIsotopeMods E.knownLabel (m0 :: L) = .ok lm) (hr : InRange a)
    (hn : ∀ i : ℤ, E.mu (.int i) = i) (hres : ∀ c, condenseStatic a = .ok c → ∀ m ∈ allMods c, isBad E m = false)
    (hrule : absentRuleBad E a = false)
    (h : condenseToMassAnn E a p = .ok n)
    (hm : ∀ m : Mod, modMass E m = modMass (envC E) m) :
    ∃ c s x, condenseStatic a = .ok c ∧ shiftsOf E c p = .ok s ∧ n = render c s p ∧ massOf E a = .ok x ∧
      |outMass E c s p - x| ≤ (writtenL c s : ℚ) * halfUlp p + (droppedL E lm c : ℚ) * threshold := by
  obtain ⟨c, s, x, hcd, hs, hn', hx, hb⟩ := condense_mass_label E hc a n p m0 L lm hiso hl hr hn hres hrule h
  refine ⟨c, s, x, hcd, hs, hn', hx, ?_⟩
  rw [slack_zero E c hm] at hb
  simpa using hb

/-- a coherent environment exists (so `condense_mass_label` is not vacuous): one residue type `C2` weighing 2·50, water
`H2O` = H + OH weighing 18, integer modifications as plain shifts, every named modification as one carbon -/
def exCoh : Env :=
  { res := fun _ => 100, mu := fun v => match v with | .int i => i | .str _ => 50 | .flt _ => 0, adj := 18,
    aaComp := fun _ => [(['C'], 2)],
    modRes := fun v => match v with | .int i => .delta i | .str _ => .comp [(['C'], 1)] | .flt _ => .delta 0,
    ionAdj := [(['H'], 2), (['O'], 1)], chargeComp := [],
    em := fun e => if e = ['C'] then 50 else if e = ['1', '3', 'C'] then 51 else if e = ['O'] then 16 else
      if e = ['1', '8', 'O'] then 18 else 1,
    ntermComp := [(['H'], 1)], ctermComp := [(['O'], 1), (['H'], 1)] }

theorem exCoh_coherent : Coherent exCoh := by
  refine ⟨fun _ => by simp [exCoh, chemMass]; norm_num, by simp [exCoh, chemMass]; norm_num, ?_, fun _ => by simp [exCoh, NodupKeys],
    by simp [exCoh, NodupKeys], by simp [exCoh, NodupKeys], by simp [exCoh, NodupKeys], by simp [exCoh, NodupKeys], rfl, rfl, rfl, rfl⟩
  intro x
  simp only [exCoh, compGet]
  by_cases h1 : ['H'] = x
  · subst h1; simp; norm_num
  · by_cases h2 : ['O'] = x
    · subst h2; simp
    · simp [h1, h2]

/-- every modification resolves in `exCoh` -/
theorem exCoh_resolves : ∀ m : Mod, isBad exCoh m = false := by
  intro m
  obtain ⟨v, k⟩ := m
  cases v <;> simp [isBad, exCoh]

/-- in `exCoh` the tabulated modification masses are exactly the composition masses -/
theorem exCoh_exact : ∀ m : Mod, modMass exCoh m = modMass (envC exCoh) m := by
  intro m
  obtain ⟨v, k⟩ := m
  cases v with
  | int i => simp [modMass, envC, exCoh]
  | flt r => simp [modMass, envC, exCoh]
  | str r => simp [modMass, envC, exCoh, chemMass]

/-- `<18O>[10]-PP[Acetyl]` in `exCoh` at precision 2: the residues have no O, the C-terminal OH gets +2, `[10]-` stays an int -/
def exLab : Annotation :=
  { seq := "PP".toList, isotope := some [⟨.str "18O".toList, 1⟩], nterm := some [⟨.int 10, 1⟩], internal := some [(1, [⟨.str "Acetyl".toList, 1⟩])] }

example : condenseToMassAnn exCoh exLab 2 =
    .ok { seq := "PP".toList, nterm := some [⟨.int 10, 1⟩], cterm := some [⟨.flt "2.0".toList, 1⟩], internal := some [(1, [⟨.flt "50.0".toList, 1⟩])] } := by
  decide +kernel
example : massOf exCoh exLab = .ok 280 := by decide +kernel

/-- the cut-off term of `condense_mass` is really there on the code as it is: a residue carrying +0.0000005 gets no shift
at any precision, so the output is lighter by 5·10⁻⁷ although nothing was rounded (`k = 0`) -/
theorem condense_mass_cutoff_witness :
    shiftsFrom 8 [(5 : ℚ) / 10000000] 0 = [] ∧ droppedNonzero [(5 : ℚ) / 10000000] = 1 := by
  constructor
  · have : ¬ absQ ((5 : ℚ) / 10000000) > threshold := by
      rw [absQ_eq_abs]; unfold threshold; rw [abs_of_pos (by norm_num)]; norm_num
    simp [shiftsFrom, this]
  · have : ¬ absQ ((5 : ℚ) / 10000000) > threshold := by
      rw [absQ_eq_abs]; unfold threshold; rw [abs_of_pos (by norm_num)]; norm_num
    have h5 : ((5 : ℚ) / 10000000) ≠ 0 := by norm_num
    simp [droppedNonzero, this, h5]

end C18
end Pept
