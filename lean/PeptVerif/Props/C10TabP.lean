import PeptVerif.Model.ModDbGen
import PeptVerif.Model.ModDbFacts
/-! C10 table facts about the generated PSI-MOD vocabulary (and its overlap with Unimod), by kernel evaluation -/
namespace C10TabP
open ModDb

set_option maxRecDepth 100000

/-- PSI-MOD accessions and names are pairwise distinct, and no Unimod name other than the two listed in `collisions`
is a PSI-MOD accession or name (one kernel merge sort of the 5476 keys) -/
theorem psimod_cross_distinct : crossDistinct Gen.Unimod.entries Gen.PsiMod.entries = true := by decide +kernel

theorem psimod_keys_clean : Gen.PsiMod.entries.all entryClean = true := by decide +kernel

theorem psimod_names_not_numeric : Gen.PsiMod.entries.all nameNotNumeric = true := by decide +kernel

example : Gen.PsiMod.entries.length = 1978 := by decide +kernel

end C10TabP
