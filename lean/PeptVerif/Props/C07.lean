import PeptVerif.Lemmas.Reorder
/-!
# C07 — digested peptides keep their modifications, their mass and their place

Property theorems only. Left-hand sides are the models of `ProFormaAnnotation.slice` and of
`digestion._return_digested_sequences` (`Model/Reorder.lean`, tied to /repo by the correspondence run of `./check C07`).
`residues a : List (Char × List Mod)` is the peptide as a list of residues with their own modifications.

Not modelled here (black boxes of the oracle in harness/props/c07.py): serialisation / parsing (C01), the regular-expression
scan of the subsequence search (C16), the concrete mass tables (C02). For the mass clause the per-residue weight `w`, the
per-modification weight `m`, the contribution `t` of terminal static rules and the water `h` are arbitrary.
-/
namespace Pept.Reorder.C07

/-! ## 1. slice semantics of a piece -/

/-- the piece for span `(s,e)` has exactly the residues `s..e-1`, each with its own modifications -/
theorem slice_residues (a : Annotation) (s e : Nat) (hs : s ≤ e) (he : e ≤ a.seq.length) :
    residues (slice a s e) = ((residues a).drop s).take (e - s) :=
  residues_slice a s e hs he

/-- N-terminal mods only if the piece starts at 0 -/
theorem slice_nterm (a : Annotation) (s e : Int) :
    (slice a s e).nterm = if s > 0 then none else a.nterm := (slice_fields a s e).1

/-- C-terminal mods only if the piece ends at the end -/
theorem slice_cterm (a : Annotation) (s e : Int) :
    (slice a s e).cterm = if e < (a.seq.length : Int) then none else a.cterm := (slice_fields a s e).2.1

/-- the global isotope and static rules are carried by every piece (and, on the code as it is, so are labile and
unknown-position modifications, charge and adducts: the source of `mass_conservation_full_false_on_current_code`) -/
theorem slice_globals (a : Annotation) (s e : Int) :
    (slice a s e).isotope = a.isotope ∧ (slice a s e).static = a.static ∧ (slice a s e).labile = a.labile ∧
    (slice a s e).unknown = a.unknown ∧ (slice a s e).charge = a.charge ∧ (slice a s e).adducts = a.adducts :=
  (slice_fields a s e).2.2

/-! ## 2. fast path = general path, return types -/

/-- unmodified fast path of `slice` -/
theorem fastpath_eq (a : Annotation) (s e : Int) (h : hasMods a = false) :
    slice a s e = plain (pySlice a.seq s e) := by
  simp [slice, h]

/-- both branches of `has_mods` in `slice` are the one general expression -/
theorem slice_general (a : Annotation) (s e : Int) : slice a s e = sliceGeneral a s e :=
  slice_eq_general a s e

/-- the dispatcher's own fast path (`create_annotation(sequence[s:e])`) returns what the general path returns: every
return type describes `slice a s e` for each span -/
theorem dispatcher_eq_slices (a : Annotation) (spans : List Spans.Span) :
    digestPieces a spans = spans.map fun sp => slice a sp.1 sp.2.1 := by
  unfold digestPieces
  cases h : hasMods a
  · simp only [Bool.not_false, if_true]
    apply List.map_congr_left
    intro sp _
    rw [fastpath_eq a _ _ h]
  · simp

/-! ## 3. found again at offset `s`

`find_indices` accepts offset `s` when `is_subsequence(piece, protein.slice(s, s+len))`, which slices that candidate once
more over its whole length and compares it with the piece. That second slice returns the piece itself: -/

/-- relocation, as far as it can be stated without the search model: the candidate the search builds at offset `s`
is the piece, and re-slicing it over its full length (what `is_subsequence` compares with the piece) changes nothing -/
theorem relocate_at_offset (a : Annotation) (s e : Nat) (hs : s < e) (he : e ≤ a.seq.length) :
    slice (slice a (s : Int) (e : Int)) (0 : Nat) ((e - s : Nat) : Int) = slice a (s : Int) (e : Int) := by
  have := slice_slice' a s e 0 (e - s) (by omega) he (by omega) (by omega) (Or.inl (by omega))
  rw [this]
  congr 1 <;> omega

/-! ## 4. mass over the pieces of a partition -/

/-- for ANY additive per-residue weight the consecutive pieces `[0,e₁), [e₁,e₂), …, [e_{k-1}, n)` sum to the whole -/
theorem partition_weight (w : Char × List Mod → Rat) (a : Annotation) (ends : List Nat)
    (hinc : Increasing 0 ends a.seq.length) (hlast : lastOf 0 ends = a.seq.length) :
    ((piecesFrom a 0 ends).map fun p => weight w (residues p)).sum = weight w (residues a) := by
  rw [pieces_weight w a 0 ends hinc, hlast]
  simp [← residues_length a]

/-- exact accounting on the code as it is: if no cut falls strictly inside an interval (`CutsOK`, the property's domain),
the abstract masses of the `k` non-empty consecutive pieces of a partition sum to the mass of the whole plus `k-1` times
(one water + everything `slice` copies into every piece: labile mods, unknown-position mods, terminal static rules);
every interval modification is counted exactly once -/
theorem mass_partition_exact (w : Char × List Mod → Rat) (m : Mod → Rat) (t : Option (List Mod) → Rat) (h : Rat)
    (a : Annotation) (ends : List Nat) (hne : ends ≠ [])
    (hinc : Increasing 0 ends a.seq.length) (hlast : lastOf 0 ends = a.seq.length)
    (hc : CutsOK a.intervals a.seq.length (0 :: ends)) :
    ((piecesFrom a 0 ends).map (amass w m t h)).sum =
      amass w m t h a + times (ends.length - 1) (h + inherited m t a) := by
  rw [pieces_amass_iv w m t h a 0 ends hinc hc, hlast]
  obtain ⟨e, rest, rfl⟩ := List.exists_cons_of_ne_nil hne
  simp only [ne_eq, reduceCtorEq, not_false_eq_true, and_self, if_true, List.length_cons, Nat.add_sub_cancel, times,
    Nat.sub_zero]
  have h1 : ((residues a).drop 0).take a.seq.length = residues a := by simp [← residues_length a]
  have h2 : ivSumIn m a.intervals ((0 : Nat) : Int) (a.seq.length : Int) = intervalSum m a.intervals :=
    ivSumIn_all m a.intervals a.seq.length (fun L hL iv hiv => ⟨(hc L hL iv hiv).1, (hc L hL iv hiv).2.2.1⟩)
  rw [h1, h2]
  unfold amass inherited
  grind

/-- FULL STATEMENT (false on the current code, see below):
    `Σ mass(piece) = mass(protein) + (k-1)·water` for every modified protein whose intervals do not straddle a cut
    (labile mods are in the quantifier).
PARTIAL: it holds exactly when nothing is inherited by every piece — no labile mods, no unknown-position mods, no static
rule with a terminal target. -/
theorem mass_conservation_partial (w : Char × List Mod → Rat) (m : Mod → Rat) (t : Option (List Mod) → Rat) (h : Rat)
    (a : Annotation) (ends : List Nat) (hne : ends ≠ [])
    (hinc : Increasing 0 ends a.seq.length) (hlast : lastOf 0 ends = a.seq.length)
    (hc : CutsOK a.intervals a.seq.length (0 :: ends))
    (hlab : a.labile = none) (hunk : a.unknown = none) (hst : t a.static = 0) :
    ((piecesFrom a 0 ends).map (amass w m t h)).sum = amass w m t h a + times (ends.length - 1) h := by
  rw [mass_partition_exact w m t h a ends hne hinc hlast hc]
  have : inherited m t a = 0 := by
    unfold inherited; rw [hlab, hunk, hst]; simp [modSum]; grind
  rw [this, times_zero_add]

/-- witness of KF-C07-labile-inherited: `{100}PEPKTIDE` cut after K -/
def labileWitness : Annotation :=
  { seq := ['P', 'E', 'P', 'K', 'T', 'I', 'D', 'E'], labile := some [⟨.int 100, 1⟩] }

def intVal (md : Mod) : Rat := match md.val with
  | .int i => (i : Rat) * (md.mult : Rat)
  | _ => 0

/-- the full statement is FALSE on the current code: with residue weight 1, water 18 and the labile mod worth 100 the two
tryptic pieces of `{100}PEPKTIDE` weigh 244, the protein plus one water 144 (replayed on /repo by corpus/C07) -/
theorem mass_conservation_full_false_on_current_code :
    ((piecesFrom labileWitness 0 [4, 8]).map (amass (fun _ => 1) intVal (fun _ => 0) 18)).sum = 244 ∧
    amass (fun _ => 1) intVal (fun _ => 0) 18 labileWitness + times 1 18 = 144 := by
  decide +kernel

/-! ## non-vacuity -/

def demo : Annotation :=
  { seq := ['P', 'E', 'P', 'K', 'T', 'I', 'D', 'E'],
    nterm := some [⟨.str ['A', 'c'], 1⟩], cterm := some [⟨.str ['A', 'm'], 1⟩],
    static := some [⟨.str ['[', 'X', ']', '@', 'C'], 1⟩],
    internal := some [(0, [⟨.str ['P', 'h'], 1⟩]), (5, [⟨.int 16, 2⟩])],
    intervals := some [⟨1, 4, false, some [⟨.int 10, 1⟩]⟩, ⟨4, 6, true, none⟩] }

example : Increasing 0 [4, 8] demo.seq.length ∧ lastOf 0 [4, 8] = demo.seq.length ∧
    demo.labile = none ∧ demo.unknown = none := by simp [Increasing, lastOf, demo]
example : CutsOK demo.intervals demo.seq.length [0, 4, 8] := by
  intro L hL
  have : L = [⟨1, 4, false, some [⟨.int 10, 1⟩]⟩, ⟨4, 6, true, none⟩] := by simp [demo] at hL; exact hL.symm
  subst this
  decide
example : (piecesFrom demo 0 [4, 8]).map (·.intervals) =
    [some [⟨1, 4, false, some [⟨.int 10, 1⟩]⟩], some [⟨0, 2, true, none⟩]] := by decide
example : (piecesFrom demo 0 [4, 8]).map residues =
    [[('P', [⟨.str ['P', 'h'], 1⟩]), ('E', []), ('P', []), ('K', [])],
     [('T', []), ('I', [⟨.int 16, 2⟩]), ('D', []), ('E', [])]] := by decide
example : (piecesFrom demo 0 [4, 8]).map (fun p => (p.nterm.isSome, p.cterm.isSome)) = [(true, false), (false, true)] := by
  decide
example : hasMods (plain ['P', 'E', 'P']) = false := by decide

end Pept.Reorder.C07
