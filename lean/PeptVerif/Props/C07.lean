import PeptVerif.Lemmas.Reorder
namespace Pept.Reorder.C07

/-- unmodified fast path of the dispatcher = general path -/
theorem fastpath_eq (a : Annotation) (s e : Int) (h : hasMods a = false) :
    slice a s e = plain (pySlice a.seq s e) := by
  simp [slice, h]

end Pept.Reorder.C07
