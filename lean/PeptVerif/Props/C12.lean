import PeptVerif.Lemmas.AbsMass
/-!
# C12 — global modification rules equal the explicit per-residue form; global isotope labels

Property theorems only. Models: `Model/StaticMods.lean` (`parse_static_mods`, `condense_static_mods`, `count_residues`)
and `Model/AbsMass.lean` (the structure of `mass` and `comp_mass`; every number is a parameter of `Env`, so each theorem
below holds for ANY residue masses, modification masses / compositions and element masses). Specification:
`Spec/StaticMods.lean` (`modsAt`, `ruleModsAt`, `termAfter`).

Not stated here: the fragment-ion clause (fragmentation is modelled by C04; C12 checks it by the relational oracle on the
implementation only).
-/
namespace Pept
namespace C12
open Static AbsMass

/-- **condensing produces exactly the explicit form.** For an annotation with static rules whose text parses to the map
`m`: the result has no static rules, the same residues, on every residue the modifications it had followed by the rule
modifications of every target that sits there (`ruleModsAt`), the N- and C-terminal rule modifications appended to the
termini, and nothing else changed. -/
theorem condense_spec (a : Annotation) (rules : List Mod) (m : StaticMap)
    (hs : a.static = some rules) (hp : parseStaticMods (some rules) = .ok m) :
    ∃ c, condenseStatic a = .ok c ∧ c.static = none ∧ c.seq = a.seq ∧
      (∀ i : Nat, modsAt c i = modsAt a i ++ ruleModsAt a.seq i m) ∧
      (∀ i : Int, i < 0 → modsAt c i = modsAt a i) ∧
      c.nterm = termAfter a.nterm m nTermKey ∧ c.cterm = termAfter a.cterm m cTermKey ∧
      c.labile = a.labile ∧ c.unknown = a.unknown ∧ c.intervals = a.intervals ∧ c.isotope = a.isotope ∧
      c.charge = a.charge ∧ c.adducts = a.adducts := by
  refine ⟨applyMap a m, ?_, rfl, rfl, ?_, ?_, ?_, ?_, rfl, rfl, rfl, rfl, rfl, rfl⟩
  · simp [condenseStatic, hs, hp]
  · intro i
    exact getO_applyResidueRules a.seq m a.internal i
  · intro i hi
    exact getO_applyResidueRules_neg a.seq m a.internal i hi
  · simp only [applyMap, termAfter]
    cases dictGet m nTermKey <;> cases a.nterm <;> simp [appendMods]
  · simp only [applyMap, termAfter]
    cases dictGet m cTermKey <;> cases a.cterm <;> simp [appendMods]

/-- `<[10]@P,N-Term>P[1]EP` -/
def exRule : Annotation :=
  { seq := "PEP".toList, static := some [⟨.str "[10]@P,N-Term".toList, 1⟩], internal := some [(0, [⟨.int 1, 1⟩])] }

/-- `[10]-P[1][10]EP[10]` -/
def exExplicit : Annotation :=
  { seq := "PEP".toList, nterm := some [⟨.int 10, 1⟩], internal := some [(0, [⟨.int 1, 1⟩, ⟨.int 10, 1⟩]), (2, [⟨.int 10, 1⟩])] }

example : condenseStatic exRule = .ok exExplicit := by decide

/-- a one-letter target stands for exactly the positions of that letter, each once -/
theorem condense_single_letter (ch : Char) (seq : List Char) (i : Nat) :
    (targetIndices [ch] seq).count i = if seq[i]? = some ch then 1 else 0 := by
  rw [targetIndices_single]
  have hnd : ((List.range seq.length).filter fun j => seq[j]? == some ch).Nodup :=
    List.Nodup.sublist List.filter_sublist List.nodup_range
  rw [List.Nodup.count hnd]
  by_cases h : seq[i]? = some ch
  · have hi : i < seq.length := by
      rcases Nat.lt_or_ge i seq.length with h' | h'
      · exact h'
      · rw [List.getElem?_eq_none h'] at h; cases h
    have hmem : i ∈ (List.range seq.length).filter fun j => seq[j]? == some ch := by
      rw [List.mem_filter]; exact ⟨List.mem_range.mpr hi, by simp [h]⟩
    simp only [hmem, h, if_true]
  · have hmem : i ∉ (List.range seq.length).filter fun j => seq[j]? == some ch := by
      rw [List.mem_filter]; rintro ⟨_, h2⟩; apply h; simpa using h2
    simp only [hmem, h, if_false]

example : targetIndices ['P'] "PEPTIDE".toList = [0, 2] := by decide

/-- **same mass (fast path), for any weights.** `mass` of the rule form, computed by the static-rule block of `mass`
(terminal keys once, residue keys × `sequence.count`), equals `mass` of the condensed form; a rule text that does not parse
fails both the same way. -/
theorem mass_condense (E : Env) (a : Annotation) : (condenseStatic a >>= massFast E) = massFast E a :=
  massFast_condense E a

/-- every residue weighs 100, an integer modification weighs its value, water weighs 18 -/
def exEnv : Env :=
  { res := fun _ => 100, mu := fun v => match v with | .int i => i | _ => 0, adj := 18, aaComp := fun _ => [],
    modRes := fun _ => .bad, ionAdj := [], chargeComp := [], em := fun _ => 0 }

example : massFast exEnv exRule = .ok 349 ∧ massFast exEnv exExplicit = .ok 349 := by decide +kernel

/-- **same composition and delta mass.** `comp_mass` condenses first, so the condensed form gives the same result. Since repo
commit fdf96ab `comp_mass` also resolves the modifications of a rule whose target is absent (the condensed form no longer
has that rule), hence the hypothesis that those resolve (`absentRuleBad … = false`; part of "the modifications resolve"). -/
theorem comp_condense (E : Env) (a c : Annotation) (h : condenseStatic a = .ok c) (hrule : absentRuleBad E a = false) :
    compMassOf E c = compMassOf E a := by
  unfold compMassOf
  rw [condenseStatic_idem a c h, h, hrule, absentRuleBad_static_none E c (condenseStatic_static a c h)]

/-- **same mass whichever path `mass` takes** (fast path without labels, composition path with labels) -/
theorem mass_condense_any (E : Env) (a c : Annotation) (h : condenseStatic a = .ok c)
    (hrule : absentRuleBad E a = false) : massOf E c = massOf E a := by
  have hiso : c.isotope = a.isotope := by
    unfold condenseStatic at h
    cases hs : a.static with
    | none => simp [hs] at h; subst h; rfl
    | some rules =>
      simp only [hs] at h
      cases hp : parseStaticMods (some rules) with
      | error e => simp [hp] at h
      | ok m => simp [hp] at h; subst h; rfl
  have hfast : massFast E c = massFast E a := by
    have := massFast_condense E a
    rw [h] at this
    exact this
  have hlab : massLabel E c = massLabel E a := by
    unfold massLabel
    rw [comp_condense E a c h hrule]
  unfold massOf
  rw [hiso, hfast, hlab]

/-- **same modified-residue counts.** `count_residues` condenses first; the explicit form is a fixed point. -/
theorem count_condense (a c : Annotation) (h : condenseStatic a = .ok c) : countResidues c = countResidues a := by
  unfold countResidues
  rw [condenseStatic_idem a c h, h]

example : countResidues { seq := "PEPE".toList, static := some [⟨.str "[3.14]@E".toList, 1⟩] } =
    .ok [("P".toList, 2), ("E[3.14]".toList, 2)] := by decide

/-! ### isotope labels (composition path) -/

/-- the label map of one label: the element is the label without its digits (`D`, `T` stand for `H`) -/
example : parseIsotopeMods (fun _ => true) [⟨.str "13C".toList, 1⟩] = .ok [("C".toList, "13C".toList)] := by decide
example : parseIsotopeMods (fun _ => true) [⟨.str "D".toList, 1⟩, ⟨.str "15N".toList, 1⟩] =
    .ok [("N".toList, "15N".toList), ("H".toList, "D".toList)] := by decide

/-- **label shift.** For an unlabelled annotation `a` (condensed form `c`, all modifications resolvable) and labels `L`
with label map `lm`: the labelled mass minus the unlabelled mass is the label shift of the composition of residues,
termini (ion-type adjustment) and charge carrier, plus — only when `use_isotope_on_mods` — the label shift of the
modification composition. `labelShift em comp lm` = Σ over the entries (element ↦ label) of
count(element) · (m(label) − m(element)), each entry seeing the composition left by the previous ones. -/
theorem label_shift (E : Env) (a c : Annotation) (L : List Mod) (lm : LabelMap)
    (h0 : a.isotope = none) (hc : condenseStatic a = .ok c) (hbad : (allMods c).any (isBad E) = false)
    (hrule : absentRuleBad E a = false) (hl : parseIsotopeMods E.knownLabel L = .ok lm) :
    ∃ x y, massLabel E { a with isotope := some L } = .ok x ∧ massLabel E a = .ok y ∧
      x - y = labelShift E.em (sequenceComposition E c) lm +
        (if E.useIsotopeOnMods then labelShift E.em (modComposition E c) lm else 0) := by
  have hciso : c.isotope = none := by
    unfold condenseStatic at hc
    cases hs : a.static with
    | none => simp [hs] at hc; subst hc; exact h0
    | some rules =>
      simp only [hs] at hc
      cases hp : parseStaticMods (some rules) with
      | error e => simp [hp] at hc
      | ok m => simp [hp] at hc; subst hc; exact h0
  have hcL := condenseStatic_isotope a c (some L) hc
  have e1 : sequenceComposition E { c with isotope := some L } = sequenceComposition E c := rfl
  have e2 : modComposition E { c with isotope := some L } = modComposition E c := rfl
  have e3 : deltaMass E { c with isotope := some L } = deltaMass E c := rfl
  have e4 : allMods { c with isotope := some L } = allMods c := rfl
  have e5 : absentRuleBad E { a with isotope := some L } = false := hrule
  have hn1 := nodupKeys_sequenceComposition E c
  have hn2 := nodupKeys_modComposition E c
  cases hu : E.useIsotopeOnMods with
  | false =>
    refine ⟨chemMass E.em (relabel (sequenceComposition E c) lm) + chemMass E.em (modComposition E c) + deltaMass E c,
            chemMass E.em (sequenceComposition E c) + chemMass E.em (modComposition E c) + deltaMass E c, ?_, ?_, ?_⟩
    · simp [massLabel, compMassOf, hcL, e4, e5, hbad, hl, hu, e1, e2, e3, chemMass_dropZeros, chemMass_compAdd, chemMass]
    · simp [massLabel, compMassOf, hc, hbad, hrule, hciso, hu, relabel, chemMass_dropZeros, chemMass_compAdd, chemMass]
    · rw [chemMass_relabel E.em lm _ hn1]; simp
  | true =>
    refine ⟨chemMass E.em (relabel (sequenceComposition E c) lm) + chemMass E.em (relabel (modComposition E c) lm) +
              deltaMass E c,
            chemMass E.em (sequenceComposition E c) + chemMass E.em (modComposition E c) + deltaMass E c, ?_, ?_, ?_⟩
    · simp [massLabel, compMassOf, hcL, e4, e5, hbad, hl, hu, e1, e2, e3, chemMass_dropZeros, chemMass_compAdd, chemMass]
    · simp [massLabel, compMassOf, hc, hbad, hrule, hciso, hu, relabel, chemMass_dropZeros, chemMass_compAdd, chemMass]
    · rw [chemMass_relabel E.em lm _ hn1, chemMass_relabel E.em lm _ hn2]; simp only [if_true]; ring

/-- one label `element ↦ label`: the shift is (#atoms of the element in residues, termini and charge carrier) ×
(m(label) − m(element)) -/
theorem label_shift_single (em : List Char → Rat) (c : Comp) (el lab : List Char) :
    labelShift em c [(el, lab)] = compGet c el * (em lab - em el) := by
  simp [labelShift]

/-- two labels on different elements (the second element is neither the first element nor the first label): the shifts add -/
theorem label_shift_pair (em : List Char → Rat) (c : Comp) (e1 l1 e2 l2 : List Char) (h1 : e2 ≠ e1) (h2 : e2 ≠ l1) :
    labelShift em c [(e1, l1), (e2, l2)] =
      compGet c e1 * (em l1 - em e1) + compGet c e2 * (em l2 - em e2) := by
  simp [labelShift, compGet_relabel1_other c e1 l1 e2 h1 h2]

/-- **a label spares the modifications unless asked**: without `use_isotope_on_mods` the shift is that of the residues,
termini and charge carrier alone — the same whatever modifications the peptide carries -/
theorem label_spares_mods (E : Env) (a c : Annotation) (L : List Mod) (lm : LabelMap)
    (h0 : a.isotope = none) (hc : condenseStatic a = .ok c) (hbad : (allMods c).any (isBad E) = false)
    (hrule : absentRuleBad E a = false) (hl : parseIsotopeMods E.knownLabel L = .ok lm) (hu : E.useIsotopeOnMods = false) :
    ∃ x y, massLabel E { a with isotope := some L } = .ok x ∧ massLabel E a = .ok y ∧
      x - y = labelShift E.em (sequenceComposition E { seq := a.seq }) lm := by
  obtain ⟨x, y, hx, hy, hxy⟩ := label_shift E a c L lm h0 hc hbad hrule hl
  refine ⟨x, y, hx, hy, ?_⟩
  have : sequenceComposition E c = sequenceComposition E { seq := a.seq } := by
    unfold sequenceComposition; rw [condenseStatic_seq a c hc]
  rw [hxy, hu, this]; simp

/-- **with `use_isotope_on_mods` the label also reaches the atoms inside modifications** -/
theorem label_reaches_mods (E : Env) (a c : Annotation) (L : List Mod) (lm : LabelMap)
    (h0 : a.isotope = none) (hc : condenseStatic a = .ok c) (hbad : (allMods c).any (isBad E) = false)
    (hrule : absentRuleBad E a = false) (hl : parseIsotopeMods E.knownLabel L = .ok lm) (hu : E.useIsotopeOnMods = true) :
    ∃ x y, massLabel E { a with isotope := some L } = .ok x ∧ massLabel E a = .ok y ∧
      x - y = labelShift E.em (sequenceComposition E { seq := a.seq }) lm + labelShift E.em (modComposition E c) lm := by
  obtain ⟨x, y, hx, hy, hxy⟩ := label_shift E a c L lm h0 hc hbad hrule hl
  refine ⟨x, y, hx, hy, ?_⟩
  have : sequenceComposition E c = sequenceComposition E { seq := a.seq } := by
    unfold sequenceComposition; rw [condenseStatic_seq a c hc]
  rw [hxy, hu, this]; simp

/-- **a peptide without the element is unchanged** (the element has count zero in residues, termini and charge carrier,
and — when modifications are reached — in the modifications) -/
theorem label_absent_element (E : Env) (a c : Annotation) (L : List Mod) (lm : LabelMap)
    (h0 : a.isotope = none) (hc : condenseStatic a = .ok c) (hbad : (allMods c).any (isBad E) = false)
    (hrule : absentRuleBad E a = false) (hl : parseIsotopeMods E.knownLabel L = .ok lm)
    (habs : ∀ p ∈ lm, compGet (sequenceComposition E c) p.1 = 0)
    (hmods : E.useIsotopeOnMods = true → ∀ p ∈ lm, compGet (modComposition E c) p.1 = 0) :
    massLabel E { a with isotope := some L } = massLabel E a := by
  obtain ⟨x, y, hx, hy, hxy⟩ := label_shift E a c L lm h0 hc hbad hrule hl
  rw [labelShift_zero E.em lm _ habs] at hxy
  have : x = y := by
    cases hu : E.useIsotopeOnMods with
    | false => rw [hu] at hxy; simp at hxy; linarith
    | true =>
      rw [hu, labelShift_zero E.em lm _ (hmods hu)] at hxy; simp at hxy; linarith
  rw [hx, hy, this]

/-- non-vacuity of the label theorems: glycine-like residue `C2H3NO` + water, label `13C`, shift = 2 · (13 − 12) -/
example : labelShift (fun e => if e = "13C".toList then 13 else if e = "C".toList then 12 else 1)
    [("C".toList, 2), ("H".toList, 5), ("N".toList, 1), ("O".toList, 2)] [("C".toList, "13C".toList)] = 2 := by
  decide +kernel

end C12
end Pept
