import PeptVerif.Model.AbsMass
/-! C12 property theorems (in progress) -/
