import PeptVerif.Lemmas.FragmentMass
/-!
C04, numeric clause on the models: the mass the fragment model assigns to an ion equals what the mass model
(`Model/Mass.lean`, read-only import; fast path = no isotope labels) gives for the ion's own sequence, ion type, charge,
isotope and loss — for every plain working copy (static rules written out, as `fragment` does first), every span, every
weight table for which the residues and modifications resolve.  (For peptides with isotope labels the implementation
takes the offsets from `mass` of the empty labelled peptide; that case rests on the oracle of `./check C04`.)
-/
namespace C04
open Fragment Pept Pept.Mass Chem

/-- the fragment model's table parameters read off the generated tables of the mass model -/
def tableParams : MassParams :=
  { proton := Gen.protonMass, neutron := Gen.neutronMass,
    fragAdjN := fun mono => (fragmentAdjMass mono ionN).getD 0,
    fragAdj := fun mono t => (fragmentAdjMass mono (keyOfChars t.name)).getD 0,
    ionOffset := fun mono t => (fragmentIonAdjMass mono (keyOfChars t.name)).getD 0 }

/-- The `'n'` entry of `MONOISOTOPIC/AVERAGE_FRAGMENT_ADJUSTMENTS` is 0.  `_build_fragments` relies on it: every
component already contains this entry and `adjust_mass(sum, 0, 'n')` adds it once more. -/
theorem neutral_adjustment_is_zero : ∀ mono : Bool, fragmentAdjMass mono ionN = some 0 := by
  decide +kernel

/-- the sixteen fragment ion types have entries in both adjustment tables and are neither `p` nor `n`: the generated
tables satisfy the hypotheses of `frag_mass_eq_mass` -/
theorem tables_agree : ∀ mono : Bool, ∀ t ∈ Ion.forwardTypes ++ Ion.backwardTypes ++ Ion.internalTypes ++ [Ion.I],
    (fragmentAdjMass mono (keyOfChars t.name)).isSome = true ∧
    (fragmentIonAdjMass mono (keyOfChars t.name)).isSome = true ∧
    keyOfChars t.name ≠ ionP ∧ keyOfChars t.name ≠ ionN := by
  decide +kernel

/-- **frag_mass_eq_mass** (no rounding; `precision=None`): let the working copy be plain, its residues and mods resolve,
and the `k`-th mass component be `mass(slice(k, k+1), charge=0, ion_type='n')` (what `fragment` computes from `split()`).
Then for every ion type `t` whose table entries are the model's parameters, every span `[s, s+len+1)` inside the
peptide, every charge, isotope and loss:
`mass(slice(s, e), ion_type=t, charge, isotope, loss) = Fragment.mass`. -/
theorem frag_mass_eq_mass (cm : CompMassFn) (menv : Pept.Env) (w : Char → Rat) (mw : Mod → Rat) (j : Job)
    (t : Ion) (s len : Nat) (c iso : Int) (loss : Rat)
    (hp : Plain j.annotation) (hr : Resolves menv j.monoisotopic w mw j.annotation.seq)
    (ht : TablesAgree j.env.P j.monoisotopic t) (hprec : j.precision = none)
    (hlen : s + (len + 1) ≤ j.annotation.seq.length)
    (hc : ∀ k : Nat, k < j.annotation.seq.length → ∃ x,
      massWith cm menv (slice j.annotation (k : Int) ((k : Int) + 1))
        { charge := some 0, ion := ionN, mono := j.monoisotopic } = .ok x ∧ j.massComponents[k]? = some x) :
    massWith cm menv (slice j.annotation (s : Int) ((s : Int) + (len : Int) + 1))
        { charge := some c, ion := keyOfChars t.name, mono := j.monoisotopic, isotope := iso, loss := loss } =
      .ok (mkFrag j ⟨t, (s : Int), (s : Int) + (len : Int) + 1, c, iso, loss⟩).mass :=
  mkFrag_mass_eq_massWith cm menv w mw j t s len c iso loss hp hr ht hprec hlen hc

/-- non-vacuity: the table hypothesis holds for the generated tables (here: y ions, monoisotopic) -/
example : TablesAgree tableParams true Ion.Y :=
  { proton := rfl, neutron := rfl, adjN := neutral_adjustment_is_zero true,
    adjN' := by show (fragmentAdjMass true ionN).getD 0 = 0; rw [neutral_adjustment_is_zero true]; rfl,
    fragAdj := by
      show fragmentAdjMass true (keyOfChars Ion.Y.name) = some ((fragmentAdjMass true (keyOfChars Ion.Y.name)).getD 0)
      have h := (tables_agree true Ion.Y (by decide)).1
      cases hx : fragmentAdjMass true (keyOfChars Ion.Y.name) with
      | none => rw [hx] at h; cases h
      | some v => rfl,
    ionOffset := by
      show fragmentIonAdjMass true (keyOfChars Ion.Y.name) =
        some ((fragmentIonAdjMass true (keyOfChars Ion.Y.name)).getD 0)
      have h := (tables_agree true Ion.Y (by decide)).2.1
      cases hx : fragmentIonAdjMass true (keyOfChars Ion.Y.name) with
      | none => rw [hx] at h; cases h
      | some v => rfl,
    notP := (tables_agree true Ion.Y (by decide)).2.2.1, notN := (tables_agree true Ion.Y (by decide)).2.2.2 }

/-- non-vacuity: a plain peptide -/
example : Plain { seq := ['P', 'E', 'P'], nterm := some [⟨.int 1, 1⟩], internal := some [(1, [⟨.int 3, 1⟩])] } :=
  ⟨rfl, rfl, rfl, rfl, rfl, rfl⟩

end C04
