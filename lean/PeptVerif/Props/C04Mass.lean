import PeptVerif.Lemmas.FragmentLabel
/-!
C04, numeric clause on the models: the mass the fragment model assigns to an ion equals what the mass model
(`Model/Mass.lean`, read-only import; fast path = no isotope labels) gives for the ion's own sequence, ion type, charge,
isotope and loss — for every plain working copy (static rules written out, as `fragment` does first), every span, every
weight table for which the residues and modifications resolve.  (For peptides with isotope labels the implementation
takes the offsets from `mass` of the empty labelled peptide; that case rests on the oracle of `./check C04`.)
-/
namespace C04
open Fragment Pept Pept.Mass Pept.CompCalc Chem

/-- the fragment model's table parameters read off the generated tables of the mass model -/
def tableParams : MassParams :=
  { proton := Gen.protonMass, neutron := Gen.neutronMass,
    fragAdjN := fun mono => (fragmentAdjMass mono ionN).getD 0,
    fragAdj := fun mono t => (fragmentAdjMass mono (keyOfChars t.name)).getD 0,
    ionOffset := fun mono t => (fragmentIonAdjMass mono (keyOfChars t.name)).getD 0 }

/-- The `'n'` entry of `MONOISOTOPIC/AVERAGE_FRAGMENT_ADJUSTMENTS` is 0.  `_build_fragments` relies on it: every
component already contains this entry and `adjust_mass(sum, 0, 'n')` adds it once more. -/
theorem neutral_adjustment_is_zero : ∀ mono : Bool, fragmentAdjMass mono ionN = some 0 := by
  decide +kernel

/-- the sixteen fragment ion types have entries in both adjustment tables and are neither `p` nor `n`: the generated
tables satisfy the hypotheses of `frag_mass_eq_mass` -/
theorem tables_agree : ∀ mono : Bool, ∀ t ∈ Ion.forwardTypes ++ Ion.backwardTypes ++ Ion.internalTypes ++ [Ion.I],
    (fragmentAdjMass mono (keyOfChars t.name)).isSome = true ∧
    (fragmentIonAdjMass mono (keyOfChars t.name)).isSome = true ∧
    keyOfChars t.name ≠ ionP ∧ keyOfChars t.name ≠ ionN := by
  decide +kernel

/-- **frag_mass_eq_mass** (no rounding; `precision=None`): let the working copy be plain, its residues and mods resolve,
and the `k`-th mass component be `mass(slice(k, k+1), charge=0, ion_type='n')` (what `fragment` computes from `split()`).
Then for every ion type `t` whose table entries are the model's parameters, every span `[s, s+len+1)` inside the
peptide, every charge, isotope and loss:
`mass(slice(s, e), ion_type=t, charge, isotope, loss) = Fragment.mass`. -/
theorem frag_mass_eq_mass (cm : CompMassFn) (menv : Pept.Env) (w : Char → Rat) (mw : Mod → Rat) (j : Job)
    (t : Ion) (s len : Nat) (c iso : Int) (loss : Rat)
    (hp : Plain j.annotation) (hr : Resolves menv j.monoisotopic w mw j.annotation.seq)
    (ht : TablesAgree j.env.P j.monoisotopic t) (hprec : j.precision = none)
    (hlen : s + (len + 1) ≤ j.annotation.seq.length)
    (hc : ∀ k : Nat, k < j.annotation.seq.length → ∃ x,
      massWith cm menv (slice j.annotation (k : Int) ((k : Int) + 1))
        { charge := some 0, ion := ionN, mono := j.monoisotopic } = .ok x ∧ j.massComponents[k]? = some x) :
    massWith cm menv (slice j.annotation (s : Int) ((s : Int) + (len : Int) + 1))
        { charge := some c, ion := keyOfChars t.name, mono := j.monoisotopic, isotope := iso, loss := loss } =
      .ok (mkFrag j ⟨t, (s : Int), (s : Int) + (len : Int) + 1, c, iso, loss⟩).mass :=
  mkFrag_mass_eq_massWith cm menv w mw j t s len c iso loss hp hr ht hprec hlen hc

/-- non-vacuity: the table hypothesis holds for the generated tables (here: y ions, monoisotopic) -/
example : TablesAgree tableParams true Ion.Y :=
  { proton := rfl, neutron := rfl, adjN := neutral_adjustment_is_zero true,
    adjN' := by show (fragmentAdjMass true ionN).getD 0 = 0; rw [neutral_adjustment_is_zero true]; rfl,
    fragAdj := by
      show fragmentAdjMass true (keyOfChars Ion.Y.name) = some ((fragmentAdjMass true (keyOfChars Ion.Y.name)).getD 0)
      have h := (tables_agree true Ion.Y (by decide)).1
      cases hx : fragmentAdjMass true (keyOfChars Ion.Y.name) with
      | none => rw [hx] at h; cases h
      | some v => rfl,
    ionOffset := by
      show fragmentIonAdjMass true (keyOfChars Ion.Y.name) =
        some ((fragmentIonAdjMass true (keyOfChars Ion.Y.name)).getD 0)
      have h := (tables_agree true Ion.Y (by decide)).2.1
      cases hx : fragmentIonAdjMass true (keyOfChars Ion.Y.name) with
      | none => rw [hx] at h; cases h
      | some v => rfl,
    notP := (tables_agree true Ion.Y (by decide)).2.2.1, notN := (tables_agree true Ion.Y (by decide)).2.2.2 }

/-- non-vacuity: a plain peptide -/
example : Plain { seq := ['P', 'E', 'P'], nterm := some [⟨.int 1, 1⟩], internal := some [(1, [⟨.int 3, 1⟩])] } :=
  ⟨rfl, rfl, rfl, rfl, rfl, rfl⟩

/-! ## isotope-labelled peptides (composition path of `mass`) -/

/-- the sixteen fragment ion types -/
def fragmentTypes : List Ion := Ion.forwardTypes ++ Ion.backwardTypes ++ Ion.internalTypes ++ [Ion.I]

/-- the generated tables satisfy what the label path needs for every fragment ion type and both mass modes: the type
has a neutral adjustment and a base-adduct text that parses, all their elements (and H, e, n) have masses, and the
`'n'` adjustment is the empty composition -/
theorem label_tables_ok : ∀ mono : Bool, ∀ t ∈ fragmentTypes,
    labelTablesB mono (keyOfChars t.name) (adjOfKey (keyOfChars t.name)) (baseOfKey (keyOfChars t.name))
      (txtOfKey (keyOfChars t.name)) = true := by
  decide +kernel

/-- **isotope substitution is linear**: on a composition with distinct keys, `apply_isotope_mods_to_composition` has
the same mass as the unlabelled composition under the relabelled mass function `labelMu map μ` — so labelled masses
add up over `addAll`. -/
theorem isotope_substitution_linear (μ : Elem → Rat) (K : Elem → Prop) (mods : List Mod)
    (map : List (Chem.Key × Chem.Key)) (hp : parseIsotopeMods mods = .ok map) (hK : ∀ p ∈ map, K p.2) (c : Comp)
    (h : KN c) (hc : AK K c) :
    ∃ c', applyIsotopeMods c mods = .ok c' ∧ chemMassL μ c' = chemMassL (labelMu map μ) c ∧ AK K c' :=
  applyIsotopeMods_mass μ K mods map hp hK c h hc

example : parseIsotopeMods [⟨.str ['1', '3', 'C'], 1⟩, ⟨.str ['D'], 1⟩] =
    .ok [(keyOfChars ['C'], keyOfChars ['1', '3', 'C']), (kH, kD)] := by decide +kernel

/-- **the label path of `mass` decomposes** on a plain labelled working copy: for every fragment ion type `t`,
`mass(slice, t, charge, isotope, loss) = labelled residues + placed mods + labelOffset(t, charge) + isotope·neutron + loss`,
`mass(slice, 'n', 0) = labelled residues + placed mods`, `mass(empty labelled peptide, t, charge) = labelOffset(t, charge)`.
The offset `labelOffset` = labelled (neutral adjustment of `t`) + labelled (`charge − 1` protons + base adducts of `t`)
depends on the ion type **and on the charge**. -/
theorem label_path_decomposes (menv : Pept.Env) (mono : Bool) (dl : Mod → Option Rat) (cp : Mod → Comp)
    (aa : Char → Comp) (a : Annotation) (i0 : Mod) (is : List Mod) (map : List (Chem.Key × Chem.Key))
    (hpl : PlainL a (i0 :: is)) (hparse : parseIsotopeMods (i0 :: is) = .ok map)
    (hmapK : ∀ p ∈ map, knownOf mono p.2)
    (hres : ResiduesResolve (knownOf mono) aa a.seq) (hmods : ModsResolve menv (knownOf mono) dl cp)
    (t : Ion) (ht : t ∈ fragmentTypes) :
    LabelledDecomposes CompCalc.compMass menv mono a
      (fun x => chemMassL (labelMu map (muOf mono)) (aa x)) (modWeight (muOf mono) dl cp) (keyOfChars t.name)
      (labelOffset mono map (adjOfKey (keyOfChars t.name)) (baseOfKey (keyOfChars t.name))) (muOf mono kNn) :=
  labelledDecomposes_compMass menv mono dl cp aa a i0 is map hpl hparse hmapK hres hmods _ _ _ _
    (labelTables_of_B _ _ _ _ _ (label_tables_ok mono t ht))

/-- **frag_mass_eq_mass_labelled** (no rounding). For a plain working copy with isotope labels whose residues, mods and
labels resolve; components `mass(slice(k,k+1), charge=0, ion_type='n')`; and the label shift of the model being what
`_label_shift` computes **for this ion type and this charge**,
`labelShift t c = mass(empty labelled peptide, t, c) − adjust_mass(0.0, c, t)`:
the ion's mass in the fragment model is `mass(slice(s,e), ion_type=t, charge=c, isotope, loss)` on the composition path. -/
theorem frag_mass_eq_mass_labelled (menv : Pept.Env) (dl : Mod → Option Rat) (cp : Mod → Comp) (aa : Char → Comp)
    (j : Job) (i0 : Mod) (is : List Mod) (map : List (Chem.Key × Chem.Key))
    (t : Ion) (s len : Nat) (c iso : Int) (loss : Rat)
    (hpl : PlainL j.annotation (i0 :: is)) (hparse : parseIsotopeMods (i0 :: is) = .ok map)
    (hmapK : ∀ p ∈ map, knownOf j.monoisotopic p.2)
    (hres : ResiduesResolve (knownOf j.monoisotopic) aa j.annotation.seq)
    (hmods : ModsResolve menv (knownOf j.monoisotopic) dl cp) (ht : t ∈ fragmentTypes)
    (hneutron : j.env.P.neutron = muOf j.monoisotopic kNn) (hN : j.env.P.fragAdjN j.monoisotopic = 0)
    (hprec : j.precision = none) (hlen : s + (len + 1) ≤ j.annotation.seq.length)
    (hc : ∀ k : Nat, k < j.annotation.seq.length → ∃ x,
      massOf CompCalc.compMass menv j.monoisotopic (slice j.annotation (k : Int) ((k : Int) + 1)) ionN 0 0 0 = .ok x ∧
      j.massComponents[k]? = some x)
    (hshift : ∃ m, massOf CompCalc.compMass menv j.monoisotopic (blankOf j.annotation) (keyOfChars t.name) c 0 0 = .ok m ∧
      j.env.labelShift j.annotation j.monoisotopic t c =
        m - (j.env.P.proton * ((c - 1 : Int) : Rat) + j.env.P.ionOffset j.monoisotopic t +
              j.env.P.fragAdj j.monoisotopic t)) :
    massOf CompCalc.compMass menv j.monoisotopic (slice j.annotation (s : Int) ((s : Int) + (len : Int) + 1))
        (keyOfChars t.name) c iso loss =
      .ok (mkFrag j ⟨t, (s : Int), (s : Int) + (len : Int) + 1, c, iso, loss⟩).mass := by
  have hd := label_path_decomposes menv j.monoisotopic dl cp aa j.annotation i0 is map hpl hparse hmapK hres hmods t ht
  rw [← hneutron] at hd
  exact mkFrag_mass_eq_massWith_labelled CompCalc.compMass menv _ _ _ j t s len c iso loss
    (by rw [hpl.isotope]; rfl) hd hN hprec hlen hc hshift

/-- non-vacuity: a plain labelled peptide, a resolver for which every modification is a pure mass shift, residues
that resolve on the generated residue table -/
example : PlainL { seq := ['P', 'E', 'P'], isotope := some [⟨.str ['1', '3', 'C'], 1⟩], nterm := some [⟨.int 1, 1⟩] }
    [⟨.str ['1', '3', 'C'], 1⟩] := ⟨rfl, rfl, rfl, rfl, rfl, rfl⟩

example : ModsResolve { res := fun _ => ⟨.ok 1, .ok 1, .ok (some 1), .ok []⟩, parseStatic := fun _ => .ok [] }
    (knownOf true) (fun _ => some 1) (fun _ => []) := ⟨fun _ => rfl, fun _ h => by cases h⟩

example : ∀ c ∈ ['P', 'E', 'P'], (lookup c.toNat Gen.aaComp).isSome = true := by decide +kernel

/-- **why the shift is keyed by (ion type, charge)**: using the shift computed for charge `c₀` at charge `c` changes
the ion's mass by `(O c₀ − O c) − proton·(c₀ − c)` … -/
theorem label_shift_needs_charge (P : MassParams) (mono : Bool) (t : Ion) (O : Int → Rat) (c c₀ : Int) :
    let shift := fun (z : Int) => O z -
      (P.proton * ((z - 1 : Int) : Rat) + P.ionOffset mono t + P.fragAdj mono t)
    (shift c₀ + (P.proton * ((c - 1 : Int) : Rat) + P.ionOffset mono t + P.fragAdj mono t)) -
      (shift c + (P.proton * ((c - 1 : Int) : Rat) + P.ionOffset mono t + P.fragAdj mono t)) =
      (O c₀ - O c) - P.proton * (((c₀ - c : Int)) : Rat) :=
  labelShift_wrong_charge P mono t O c c₀

/-- … which is not zero on the generated tables: with the label `<D>` a b ion's offset grows by one deuteron-for-proton
per charge, not by `PROTON_MASS` (so a table keyed by the ion type alone is wrong from charge 2 on). -/
theorem label_offset_charge_step_ne_proton :
    labelOffset true [(kH, kD)] (adjOfKey (keyOfChars Ion.B.name)) (baseOfKey (keyOfChars Ion.B.name)) 2 -
      labelOffset true [(kH, kD)] (adjOfKey (keyOfChars Ion.B.name)) (baseOfKey (keyOfChars Ion.B.name)) 1
      ≠ Gen.protonMass := by
  decide +kernel

end C04
