import PeptVerif.Lemmas.ModDbGeneric
import PeptVerif.Model.ModDbGen
/-!
C09 (deferred validation) on the resolver model: "an unresolvable modification makes mass / comp raise a
ValueError-family error instead of silently counting as zero".

* `massForm T a` / `compForm T a` (defined in `Lemmas/ModDbGeneric.lean`): the decidable predicate "alternative `a` is of
  a documented resolvable form" (tag only; number; `glycan:`; a gno / xlmod / resid prefix; and — unless it starts with
  `info:` — a PSI-MOD string, a Unimod string, `formula:`, `obs:`; for compositions numbers, `obs:` and `info:` are not
  forms).
* an alternative that is not of such a form has no value (`None`), a string none of whose alternatives is of such a form
  raises; a value always comes from a reader of the text or from a vocabulary — the only constant is the `0` of a bare tag.
* inside a vocabulary family an unknown key is an error.
* every error of the resolver is of the `ValueError` family (for the generated tables; for arbitrary tables up to three
  precisely located table defects).
-/
namespace C10Resolve
open ModDb Formula ModDbGeneric

/-- a tiny table for the non-vacuity examples -/
def T0 : Tables :=
  { unimod := [⟨str% "1", str% "Acetyl", [], some ⟨42010565, 6⟩, none, some (str% "C2H2O")⟩,
               ⟨str% "2", str% "NoMass", [], none, none, none⟩],
    psimod := [], xlmod := [], resid := [], gno := [], mono := [],
    mass := { elems := [], electron := ⟨0, 0⟩, proton := ⟨1, 0⟩, neutron := ⟨1, 0⟩ } }

/-! ## B. an alternative outside the documented forms has no value; a value implies a documented form -/

theorem parseModMass_not_form (T : Tables) (a : Str) (mono : Bool) (h : massForm T a = false) :
    parseModMass T a mono = .ok none :=
  parseModMass_not_form' T a mono h

theorem parseModMass_some_form (T : Tables) (a : Str) (mono : Bool) (x : Mass)
    (h : parseModMass T a mono = .ok (some x)) : massForm T a = true := by
  cases hf : massForm T a with
  | true => rfl
  | false => rw [parseModMass_not_form T a mono hf] at h; cases h

theorem parseModComp_not_form (T : Tables) (a : Str) (h : compForm T a = false) :
    parseModComp T a = .ok none :=
  parseModComp_not_form' T a h

theorem parseModComp_some_form (T : Tables) (a : Str) (x : Comp)
    (h : parseModComp T a = .ok (some x)) : compForm T a = true := by
  cases hf : compForm T a with
  | true => rfl
  | false => rw [parseModComp_not_form T a hf] at h; cases h

example : massForm T0 (str% "Oxidation") = false := by decide +kernel
example : massForm T0 (str% "Acetyl") = true := by decide +kernel
example : massForm T0 (str% "+15.99") = true ∧ compForm T0 (str% "+15.99") = false := by decide +kernel
example : massForm T0 (str% "INFO:Acetyl") = false := by decide +kernel

/-! ## C. no silent zero -/

/-- a value of `mod_mass` is the value of one alternative of a documented form: there is no default branch -/
theorem resolve_no_silent_zero (T : Tables) (s : Str) (mono : Bool) (x : Mass) (h : modMass T s mono = .ok x) :
    ∃ a ∈ splitBar s, massForm T a = true ∧ parseModMass T a mono = .ok (some x) := by
  obtain ⟨a, ha, hp⟩ := firstMass_ok T mono x _ h
  exact ⟨a, ha, parseModMass_some_form T a mono x hp, hp⟩

theorem resolve_no_silent_zero_comp (T : Tables) (s : Str) (x : Comp) (h : modComp T s = .ok x) :
    ∃ a ∈ splitBar s, compForm T a = true ∧ parseModComp T a = .ok (some x) := by
  obtain ⟨a, ha, hp⟩ := firstComp_ok T x _ h
  exact ⟨a, ha, parseModComp_some_form T a x hp, hp⟩

/-- a modification none of whose alternatives is of a documented form raises `InvalidModificationMassError` -/
theorem unresolvable_mass_raises (T : Tables) (s : Str) (mono : Bool)
    (h : ∀ a ∈ splitBar s, massForm T a = false) : modMass T s mono = .error .invalidModMass :=
  firstMass_all_none T mono _ (fun a ha => parseModMass_not_form T a mono (h a ha))

/-- … and `InvalidCompositionError` for compositions -/
theorem unresolvable_comp_raises (T : Tables) (s : Str)
    (h : ∀ a ∈ splitBar s, compForm T a = false) : modComp T s = .error .invalidComp :=
  firstComp_all_none T _ (fun a ha => parseModComp_not_form T a (h a ha))

example : ∀ a ∈ splitBar (str% "Oxidation|INFO:x"), massForm T0 a = false := by decide +kernel
example : modMass T0 (str% "Oxidation|INFO:x") true = .error .invalidModMass := by decide +kernel
example : modComp T0 (str% "Oxidation|+15.99") = .error .invalidComp := by decide +kernel

/-- The only branch that returns a constant not read from the text or a table is the bare tag: a value of an
alternative that does not start with `#` is the number the text spells, or what a vocabulary / the glycan reader /
the formula reader / the observed-mass reader returned for it. -/
theorem zero_default_only_for_tag (T : Tables) (a : Str) (mono : Bool) (x : Mass)
    (ht : startsWith a [35] = false) (h : parseModMass T a mono = .ok (some x)) :
    let m := if a.contains 35 then beforeHash a else a
    (∃ n, convertType m = .num n ∧ x = some n.val) ∨ (convertType m = .special ∧ x = none) ∨
    glycanMassProforma T m mono = .ok (some x) ∨
    getMass T T.gno (stripPrefix pGno m) mono = .ok x ∨
    getMass T T.xlmod (stripPrefix pXlmod m) mono = .ok x ∨
    getMass T T.resid (stripPrefix pResid m) mono = .ok x ∨
    getMass T T.psimod (stripPrefix pPsi m) mono = .ok x ∨
    getMass T T.unimod (stripPrefix pUnimod m) mono = .ok x ∨
    chemMassProforma T m mono = .ok x ∨
    obsMassProforma m = .ok x := by
  intro m
  rw [parseModMass_eq] at h
  simp only [ht, Bool.and_false, Bool.false_eq_true, if_false] at h
  change massBody T m mono = .ok (some x) at h
  unfold massBody at h
  split at h
  · rename_i n hn
    simp only [Except.ok.injEq, Option.some.injEq] at h
    exact .inl ⟨n, hn, h.symm⟩
  · rename_i hn
    simp only [Except.ok.injEq, Option.some.injEq] at h
    exact .inr (.inl ⟨hn, h.symm⟩)
  · exact .inr (.inr (massStrBody_ok_cases T m mono x h))

/-! ## D. inside a vocabulary family an unknown key is an error, never a value -/

theorem getMass_ok_cases (T : Tables) (db : List Entry) (k : Str) (mono : Bool) (x : Mass)
    (h : getMass T db k mono = .ok x) :
    (signed k = true ∧ parseFloat k ≠ .bad) ∨ ∃ e, findEntry db k = some e ∧ entryMass T e mono = .ok x := by
  cases hs : signed k with
  | true =>
    left
    refine ⟨rfl, ?_⟩
    intro hb
    rw [getMass_signed' T db k mono hs, hb] at h
    cases h
  | false =>
    right
    rw [getMass_unsigned T db k mono hs] at h
    cases hf : findEntry db k with
    | none => rw [hf] at h; cases h
    | some e => rw [hf] at h; exact ⟨e, rfl, h⟩

theorem unknown_key_raises (T : Tables) (db : List Entry) (k : Str) (mono : Bool)
    (hs : signed k = false) (hf : findEntry db k = none) : getMass T db k mono = .error .unknownMod := by
  rw [getMass_unsigned T db k mono hs, hf]

theorem unknown_key_raises_comp (db : List Entry) (k : Str)
    (hs : signed k = false) (hf : findEntry db k = none) : getComp db k = .error .unknownMod := by
  rw [getComp_unsigned db k hs, hf]

theorem getComp_ok_cases (db : List Entry) (k : Str) (f : Str) (h : getComp db k = .ok f) :
    signed k = false ∧ ∃ e, findEntry db k = some e ∧ e.comp = some f := by
  cases hs : signed k with
  | true =>
    rw [getComp_signed' db k hs] at h
    cases hp : parseFloat k <;> (rw [hp] at h; cases h)
  | false =>
    refine ⟨rfl, ?_⟩
    rw [getComp_unsigned db k hs] at h
    cases hf : findEntry db k with
    | none => rw [hf] at h; cases h
    | some e =>
      rw [hf] at h
      cases hc : e.comp with
      | none => simp only [hc] at h; cases h
      | some c =>
        simp only [hc, Except.ok.injEq] at h
        exact ⟨e, rfl, by rw [← h, hc]⟩

/-- an entry without a stored mass and without a composition: `UnknownModificationMassError` -/
theorem entry_without_mass_raises (T : Tables) (e : Entry) (mono : Bool)
    (hm : (if mono then e.mono else e.avg) = none) (hc : e.comp = none) :
    entryMass T e mono = .error .unknownModMass := by
  simp only [entryMass, hm, hc]

/-- an entry without a composition: `InvalidCompositionError` -/
theorem entry_without_comp_raises (db : List Entry) (k : Str) (e : Entry)
    (hs : signed k = false) (hf : findEntry db k = some e) (hc : e.comp = none) :
    getComp db k = .error .invalidComp := by
  rw [getComp_unsigned db k hs, hf]; simp only [hc]

/-- a signed text inside a family that is not a number: `InvalidDeltaMassError` -/
theorem bad_shift_raises (T : Tables) (db : List Entry) (k : Str) (mono : Bool)
    (hs : signed k = true) (hb : parseFloat k = .bad) : getMass T db k mono = .error .invalidDeltaMass := by
  rw [getMass_signed' T db k mono hs, hb]

example : modMass T0 (str% "U:Oxidation") true = .error .unknownMod := by decide +kernel
example : modComp T0 (str% "U:Oxidation") = .error .unknownMod := by decide +kernel
example : modMass T0 (str% "U:NoMass") true = .error .unknownModMass := by decide +kernel
example : modComp T0 (str% "U:NoMass") = .error .invalidComp := by decide +kernel
example : modMass T0 (str% "U:+1x") true = .error .invalidDeltaMass := by decide +kernel

/-! ## E. every error of the resolver is of the `ValueError` family

`Err.isValueErrorFamily` (in `Lemmas/ModDbGeneric.lean`) is true exactly for `unknownMod`, `unknownModMass`,
`invalidDeltaMass`, `invalidComp`, `deltaMassComp`, `invalidModMass`, `invalidChemFormula`, `invalidGlycanFormula`
(all subclasses of `ValueError`) and `valueError` (the plain `ValueError` of `str.index`). -/

example : [Err.unknownMod, .unknownModMass, .invalidDeltaMass, .invalidComp, .deltaMassComp, .invalidModMass,
    .invalidChemFormula, .invalidGlycanFormula, .valueError].all Err.isValueErrorFamily = true := by decide
example : [Err.typeError, .keyError, .hang, .special].all (fun e => !e.isValueErrorFamily) = true := by decide

/-- For ALL tables: an error of `mod_mass` is of the `ValueError` family, or a `TypeError` / `KeyError` / endless loop —
and each of these three is traced to a defect of the tables (next three theorems). `Err.special` (the opaque inf / nan
count of the separated formula form) cannot occur: `mod_mass` never uses a separator. -/
theorem resolver_errors_are_value_errors (T : Tables) (s : Str) (mono : Bool) (e : Err)
    (h : modMass T s mono = .error e) :
    e.isValueErrorFamily = true ∨ e = .typeError ∨ e = .keyError ∨ e = .hang := by
  rcases firstMass_err T mono _ _ h with h | ⟨h, _⟩ | ⟨h, _⟩ | ⟨h, _⟩
  · exact .inl h
  · exact .inr (.inl h)
  · exact .inr (.inr (.inl h))
  · exact .inr (.inr (.inr h))

theorem resolver_errors_are_value_errors_comp (T : Tables) (s : Str) (e : Err) (h : modComp T s = .error e) :
    e.isValueErrorFamily = true ∨ e = .typeError ∨ e = .keyError ∨ e = .hang := by
  rcases firstComp_err T _ _ h with h | ⟨h, _⟩ | ⟨h, _⟩ | ⟨h, _⟩
  · exact .inl h
  · exact .inr (.inl h)
  · exact .inr (.inr (.inl h))
  · exact .inr (.inr (.inr h))

/-- `TypeError` only from a monosaccharide entry without mono mass, average mass or composition -/
theorem typeError_provenance (T : Tables) (s : Str) (mono : Bool)
    (h : modMass T s mono = .error .typeError ∨ modComp T s = .error .typeError) :
    ∃ en ∈ T.mono, en.mono = none ∨ en.avg = none ∨ en.comp = none := by
  have : ErrOK T .typeError := by
    rcases h with h | h
    · exact firstMass_err T mono _ _ h
    · exact firstComp_err T _ _ h
  rcases this with h | ⟨_, h⟩ | ⟨h, _⟩ | ⟨h, _⟩
  · cases h
  · exact h
  · cases h
  · cases h

/-- `KeyError` only from an element row (not an isotope key) without an average mass -/
theorem keyError_provenance (T : Tables) (s : Str) (mono : Bool)
    (h : modMass T s mono = .error .keyError ∨ modComp T s = .error .keyError) :
    ∃ el ∈ T.mass.elems, el.avg = none ∧ isIsoKey el.sym = false := by
  have : ErrOK T .keyError := by
    rcases h with h | h
    · exact firstMass_err T mono _ _ h
    · exact firstComp_err T _ _ h
  rcases this with h | ⟨h, _⟩ | ⟨_, h⟩ | ⟨h, _⟩
  · cases h
  · cases h
  · exact h
  · cases h

/-- an endless loop only from an empty monosaccharide name / synonym -/
theorem hang_provenance (T : Tables) (s : Str) (mono : Bool)
    (h : modMass T s mono = .error .hang ∨ modComp T s = .error .hang) :
    [] ∈ namesSorted T.mono := by
  have : ErrOK T .hang := by
    rcases h with h | h
    · exact firstMass_err T mono _ _ h
    · exact firstComp_err T _ _ h
  rcases this with h | ⟨h, _⟩ | ⟨h, _⟩ | ⟨_, h⟩
  · cases h
  · cases h
  · cases h
  · exact h

/-- the readers below the resolver never produce the opaque `special` error without a separator -/
theorem no_special (T : Tables) (s : Str) (mono : Bool) :
    parseChem s [] ≠ .error .special ∧ chemMassStr T.mass mono s [] ≠ .error .special ∧
    glycanMassStr T.mono mono s ≠ .error .special ∧ glycanCompStr T.mono s ≠ .error .special ∧
    modMass T s mono ≠ .error .special ∧ modComp T s ≠ .error .special := by
  have hs : ¬ ErrOK T .special := by
    rintro (h | ⟨h, _⟩ | ⟨h, _⟩ | ⟨h, _⟩) <;> cases h
  refine ⟨fun h => ?_, fun h => ?_, fun h => ?_, fun h => ?_, fun h => ?_, fun h => ?_⟩
  · exact absurd (parseChem_err _ _ h) (by decide)
  · exact hs (chemMassStr_err T mono _ _ h)
  · exact hs (glycanMassStr_err T mono _ _ h)
  · exact hs (glycanCompStr_err T _ _ h)
  · exact hs (firstMass_err T mono _ _ h)
  · exact hs (firstComp_err T _ _ h)

/-! ### the generated tables have none of the three defects -/

/-- every monosaccharide entry of the generated table has mono mass, average mass and composition -/
theorem gen_mono_complete : ∀ en ∈ Gen.Mono.entries, en.mono ≠ none ∧ en.avg ≠ none ∧ en.comp ≠ none := by
  decide +kernel

/-- every monosaccharide name / synonym of the generated table is non-empty -/
theorem gen_names_nonempty : [] ∉ namesSorted Gen.Mono.entries := by
  decide +kernel

/-- every element row of the generated table is an isotope key or has an average mass -/
theorem gen_elems_avg : ∀ el ∈ Gen.ElementsC15.elems, el.avg ≠ none ∨ isIsoKey el.sym = true := by
  decide +kernel

/-- **Generated tables**: every error of `mod_mass` is of the `ValueError` family -/
theorem resolver_errors_gen (s : Str) (mono : Bool) (e : Err) (h : modMass Gen.tables s mono = .error e) :
    e.isValueErrorFamily = true := by
  rcases resolver_errors_are_value_errors Gen.tables s mono e h with h' | h' | h' | h'
  · exact h'
  · subst h'
    obtain ⟨en, hen, hd⟩ := typeError_provenance Gen.tables s mono (.inl h)
    obtain ⟨h1, h2, h3⟩ := gen_mono_complete en hen
    rcases hd with hd | hd | hd <;> contradiction
  · subst h'
    obtain ⟨el, hel, h1, h2⟩ := keyError_provenance Gen.tables s mono (.inl h)
    rcases gen_elems_avg el hel with h3 | h3
    · contradiction
    · rw [h2] at h3; cases h3
  · subst h'
    exact absurd (hang_provenance Gen.tables s mono (.inl h)) gen_names_nonempty

/-- **Generated tables**: every error of `mod_comp` is of the `ValueError` family -/
theorem resolver_errors_gen_comp (s : Str) (e : Err) (h : modComp Gen.tables s = .error e) :
    e.isValueErrorFamily = true := by
  rcases resolver_errors_are_value_errors_comp Gen.tables s e h with h' | h' | h' | h'
  · exact h'
  · subst h'
    obtain ⟨en, hen, hd⟩ := typeError_provenance Gen.tables s true (.inr h)
    obtain ⟨h1, h2, h3⟩ := gen_mono_complete en hen
    rcases hd with hd | hd | hd <;> contradiction
  · subst h'
    obtain ⟨el, hel, h1, h2⟩ := keyError_provenance Gen.tables s true (.inr h)
    rcases gen_elems_avg el hel with h3 | h3
    · contradiction
    · rw [h2] at h3; cases h3
  · subst h'
    exact absurd (hang_provenance Gen.tables s true (.inr h)) gen_names_nonempty

/-- Together with C: on the generated tables a modification none of whose alternatives is of a documented form raises a
`ValueError`-family error, and *every* failure of `mod_mass` / `mod_comp` is of that family — never a silent zero. -/
theorem unresolvable_raises_value_error (s : Str) (mono : Bool)
    (h : ∀ a ∈ splitBar s, massForm Gen.tables a = false) :
    ∃ e, modMass Gen.tables s mono = .error e ∧ e.isValueErrorFamily = true :=
  ⟨.invalidModMass, unresolvable_mass_raises Gen.tables s mono h, rfl⟩

-- the three defects, on toy tables (non-vacuity of the provenance theorems)
def Tbad : Tables :=
  { T0 with mono := [⟨str% "X", str% "Hex", [], none, none, none⟩],
            mass := { T0.mass with elems := [⟨str% "C", ⟨12, 0⟩, none, none⟩] } }
example : modMass Tbad (str% "Glycan:Hex2") true = .error .typeError := by decide +kernel
example : modMass Tbad (str% "Formula:C") false = .error .keyError := by decide +kernel
example : modMass { T0 with mono := [⟨str% "X", [], [], none, none, none⟩] } (str% "Glycan:Q") true = .error .hang := by
  decide +kernel
example : modMass T0 (str% "Formula:[C") true = .error .valueError := by decide +kernel
example : modMass T0 (str% "Formula:C]") true = .error .invalidChemFormula := by decide +kernel

end C10Resolve
