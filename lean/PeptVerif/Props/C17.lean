import PeptVerif.Lemmas.Score
/-!
# C17 — spectrum matching pairs each fragment with exactly the peaks in tolerance

Property theorems only. Models: `Model/Score.lean` (the code of score.py, generic in the number type; the driver
runs the same definitions at IEEE doubles). Brute-force specification: `Spec/Score.lean` (`window`, `bruteForce`).
Helper lemmas: `Lemmas/Score.lean`.

Reading decisions (DESIGN.md §4.0): m/z lists sorted ascending; ppm tolerance ≤ 10⁶; `closest` / `largest` may return
any arg-min / arg-max; in the intensity-fraction clause a peak is identified by its m/z (a `FragmentMatch` carries no
peak index), so the spectrum is assumed to have pairwise distinct m/z there.
-/
namespace Score
variable {α : Type}

/-! ## 1. the two-pointer sweep = the quadratic brute-force matcher -/

/-- Step 1. For *any* `ys` (no sortedness needed here): if the "below the window" predicates are
monotone along `xs` (a peak below the window of `x` is below the window of every later `x'`) and the
shared start pointer is admissible, the sweep with its three early exits returns the prefix-length
windows. `within` (the upper bound) need not be monotone: the upper pointer restarts from the lower one. -/
theorem sweep_eq_windowTW (below within : α → α → Bool) (ys : List α) (xs : List α) (start : Nat)
    (hmono : xs.Pairwise (fun x x' => ∀ y, below y x = true → below y x' = true))
    (hstart : ∀ x ∈ xs, start ≤ (ys.takeWhile (fun y => below y x)).length) :
    sweep below within ys start xs = xs.map (windowTW below within ys) := by
  induction xs generalizing start with
  | nil => simp [sweep]
  | cons x xs ih =>
    have hx := hstart x (by simp)
    have hs : advance (fun y => below y x) ys start = (ys.takeWhile (fun y => below y x)).length := by
      rw [advance_eq, takeWhile_drop_len _ _ _ hx]; omega
    have hle := takeWhile_len_le (fun y => below y x) ys
    rw [List.pairwise_cons] at hmono
    have hnext : ∀ x' ∈ xs, (ys.takeWhile (fun y => below y x)).length ≤ (ys.takeWhile (fun y => below y x')).length :=
      fun x' hx' => takeWhile_len_mono _ _ _ (hmono.1 x' hx')
    simp only [sweep, List.map_cons]
    split
    · rename_i hge
      have hsl : (ys.takeWhile (fun y => below y x)).length = ys.length := by omega
      have : windowTW below within ys x = none := by
        simp [windowTW, hsl]
      rw [this, ih start hmono.2 (fun x' hx' => by have := hnext x' hx'; omega)]
    · rw [hs]
      split
      · rename_i _ hge
        have hsl : (ys.takeWhile (fun y => below y x)).length = ys.length := by omega
        have : windowTW below within ys x = none := by simp [windowTW, hsl]
        rw [this, ih _ hmono.2 hnext]
      · rw [ih _ hmono.2 hnext, advance_eq]
        congr 1
        simp only [windowTW]
        split <;> split <;> first | rfl | omega | (simp; omega)

/-- Step 2. On a sorted peak list the prefix-length window denotes exactly the indices `j` with
`lo x ≤ ys[j] ≤ hi x` (bounds inclusive) found by testing every `j`. -/
theorem windowTW_eq_bruteforce [LinearOrder α] (lo hi : α → α) (ys : List α) (hys : ys.Pairwise (· ≤ ·)) (x : α) :
    idxList (windowTW (fun y x => decide (y < lo x)) (fun y x => decide (y ≤ hi x)) ys x)
      = window (fun y x => decide (lo x ≤ y) && decide (y ≤ hi x)) ys x := by
  rw [idxList_windowTW]
  unfold window
  rw [windowTW_eq_window_aux lo hi x 0 ys hys]
  simp

/-- `sweep_correct`: for sorted fragment and peak lists of any length and a monotone lower bound, the sweep
(shared lower pointer, three early exits) returns for every fragment exactly the brute-force window. -/
theorem sweep_correct [LinearOrder α] (lo hi : α → α) (xs ys : List α)
    (hxs : xs.Pairwise (· ≤ ·)) (hys : ys.Pairwise (· ≤ ·)) (hlo : ∀ a b, a ≤ b → lo a ≤ lo b) :
    (sweep (fun y x => decide (y < lo x)) (fun y x => decide (y ≤ hi x)) ys 0 xs).map idxList
      = xs.map (window (fun y x => decide (lo x ≤ y) && decide (y ≤ hi x)) ys) := by
  rw [sweep_eq_windowTW]
  · rw [List.map_map]
    apply List.map_congr_left
    intro x _
    exact windowTW_eq_bruteforce lo hi ys hys x
  · refine hxs.imp ?_
    intro a b hab y hy
    simp only [decide_eq_true_eq] at hy ⊢
    exact lt_of_lt_of_le hy (hlo a b hab)
  · intro x _; exact Nat.zero_le _

example : ([100, 200, 200, 300] : List Rat).Pairwise (· ≤ ·) := by decide

/-- absolute tolerance: the lower bound `mz - tol` is monotone for every tolerance (also negative ones) -/
theorem th_monotone (tol a b : Rat) (h : a ≤ b) : lo .th tol a ≤ lo .th tol b := by
  simp only [lo, offset, rat_sub]
  linarith

/-- ppm tolerance: the lower bound `mz - mz·tol/10⁶` is monotone whenever `tol ≤ 10⁶` (no sign condition on `mz`
is needed for monotonicity; `mz ≥ 0` only makes the window non-degenerate) -/
theorem ppm_monotone (tol a b : Rat) (htol : tol ≤ 1000000) (h : a ≤ b) : lo .ppm tol a ≤ lo .ppm tol b := by
  simp only [lo, offset, rat_sub, rat_mul, rat_div, rat_million]
  have h1 : 0 ≤ 1 - tol / 1000000 := by linarith
  have h2 := mul_nonneg (sub_nonneg.mpr h) h1
  have e : b - b * tol / 1000000 - (a - a * tol / 1000000) = (b - a) * (1 - tol / 1000000) := by ring
  linarith

example : (20 : Rat) ≤ 1000000 := by decide

/-- the lower bound is *not* monotone for tolerances above 10⁶ ppm: the hypothesis of `ppm_monotone` is needed -/
theorem ppm_not_monotone_above_million : ¬ (lo .ppm (2000000 : Rat) 1 ≤ lo .ppm 2000000 2) := by
  simp only [lo, offset, rat_sub, rat_mul, rat_div, rat_million]
  norm_num

/-- `get_matched_indices` (model at ℚ) = brute force, tolerance type `th`, any tolerance value -/
theorem getMatchedIndices_correct_th (tol : Rat) (xs ys : List Rat)
    (hxs : xs.Pairwise (· ≤ ·)) (hys : ys.Pairwise (· ≤ ·)) :
    (getMatchedIndices .th tol xs ys).map idxList = bruteForce .th tol xs ys :=
  sweep_correct (lo .th tol) (hi .th tol) xs ys hxs hys (th_monotone tol)

/-- `get_matched_indices` (model at ℚ) = brute force, tolerance type `ppm`, tolerance ≤ 10⁶ -/
theorem getMatchedIndices_correct_ppm (tol : Rat) (htol : tol ≤ 1000000) (xs ys : List Rat)
    (hxs : xs.Pairwise (· ≤ ·)) (hys : ys.Pairwise (· ≤ ·)) :
    (getMatchedIndices .ppm tol xs ys).map idxList = bruteForce .ppm tol xs ys :=
  sweep_correct (lo .ppm tol) (hi .ppm tol) xs ys hxs hys (fun a b => ppm_monotone tol a b htol)

/-- no match is reported exactly when there is none: the entry for `x` is `None` iff the brute-force window is empty -/
theorem none_iff_window_empty [LinearOrder α] (lo hi : α → α) (ys : List α) (hys : ys.Pairwise (· ≤ ·)) (x : α) :
    windowTW (fun y x => decide (y < lo x)) (fun y x => decide (y ≤ hi x)) ys x = none
      ↔ window (fun y x => decide (lo x ≤ y) && decide (y ≤ hi x)) ys x = [] := by
  rw [windowTW_none_iff, windowTW_eq_bruteforce lo hi ys hys x]

/-! ## 2. the modes of `match_spectra` -/

/-- whatever the mode, `match_spectra` reports `None` for a fragment iff `get_matched_indices` did -/
theorem match_none_iff [Num α] (mode : Mode) (ys : List α) (ints : Option (List α)) (x : α) (w : Option (Nat × Nat)) :
    pick mode ys ints x w = .ok Hit.none ↔ w = none :=
  pick_none_iff mode ys ints x w

/-- mode `all` over ℚ: for sorted lists the result is, fragment by fragment, the brute-force window
(`None` when it is empty, else the list of all indices within tolerance) -/
theorem all_mode_eq_window (t : Tol) (tol : Rat) (xs ys : List Rat) (ints : Option (List Rat))
    (hxs : xs.Pairwise (· ≤ ·)) (hys : ys.Pairwise (· ≤ ·)) (hlo : ∀ a b, a ≤ b → lo t tol a ≤ lo t tol b) :
    matchSpectra .all t tol xs ys ints
      = .ok (xs.map fun x => hitOfWindow (window (inWindow t tol) ys x)) := by
  unfold matchSpectra getMatchedIndices
  rw [sweep_eq_windowTW]
  · have hz : ∀ (l : List Rat) (f : Rat → Option (Nat × Nat)), l.zip (l.map f) = l.map fun x => (x, f x) := by
      intro l f; induction l with
      | nil => rfl
      | cons a l ih => simp [ih]
    rw [hz, mapM_ok _ (fun p => hitOfWindow (idxList p.2))]
    · rw [List.map_map]
      congr 1
      apply List.map_congr_left
      intro x _
      simp only [Function.comp]
      congr 1
      exact windowTW_eq_bruteforce (lo t tol) (hi t tol) ys hys x
    · intro p hp
      obtain ⟨x, _, rfl⟩ := List.mem_map.mp hp
      exact pick_all ys ints x _ (fun s e h => (windowTW_wf _ _ ys x s e h).1)
  · refine hxs.imp ?_
    intro a b hab y hy
    simp only [below, rat_lt, decide_eq_true_eq] at hy ⊢
    exact lt_of_lt_of_le hy (hlo a b hab)
  · intro x _; exact Nat.zero_le _

/-- mode `closest` over ℚ: on a non-empty window `[s, e)` the result is an index of the window whose peak is at
minimal distance from the fragment (the model returns the first such; any arg-min satisfies the property) -/
theorem closest_mem_argmin (ys : List Rat) (ints : Option (List Rat)) (x : Rat) (s e : Nat) (hse : s < e)
    (he : e ≤ ys.length) :
    ∃ j, pick .closest ys ints x (some (s, e)) = .ok (.one j) ∧ s ≤ j ∧ ∃ hj : j < e,
      ∀ k (hk : k < e), s ≤ k → |x - ys[j]'(by omega)| ≤ |x - ys[k]'(by omega)| :=
  closest_spec ys ints x s e hse he

/-- mode `largest` over ℚ: on a non-empty window the result is an index of the window of maximal intensity -/
theorem largest_mem_argmax (ys ints : List Rat) (x : Rat) (s e : Nat) (hse : s < e) (he : e ≤ ints.length) :
    ∃ j, pick .largest ys (some ints) x (some (s, e)) = .ok (.one j) ∧ s ≤ j ∧ ∃ hj : j < e,
      ∀ k (hk : k < e), s ≤ k → ints[k]'(by omega) ≤ ints[j]'(by omega) :=
  largest_spec ys ints x s e hse he

/-! ## 3. matched-intensity fraction -/

/-- `get_matched_intensity_percentage` over ℚ: for a spectrum `ps` of (m/z, intensity) peaks with pairwise distinct
m/z and matches that are peaks of it (in any order, with any repetition), the result is the summed intensity of the
distinct matched peaks over the total intensity. -/
theorem intensity_fraction_eq (ps ms : List (Rat × Rat)) (hnd : (ps.map (·.1)).Nodup) (hsub : ∀ m ∈ ms, m ∈ ps)
    (htot : (ps.map (·.2)).sum ≠ 0) :
    matchedIntensityPercentage ms (ps.map (·.2))
      = ((matchedPeaks ps ms).map (·.2)).sum / (ps.map (·.2)).sum := by
  unfold matchedIntensityPercentage
  simp only [rat_eq, rat_zero, rat_div, sumL_eq_sum (ps.map (·.2)), htot, decide_false, Bool.false_eq_true, if_false]
  rw [matched_sum_eq ps ms hnd hsub]

/-- … and it lies in `[0, 1]` when the intensities are non-negative (also when the total is 0: the code returns 0) -/
theorem intensity_fraction_unit_interval (ps ms : List (Rat × Rat)) (hnd : (ps.map (·.1)).Nodup)
    (hsub : ∀ m ∈ ms, m ∈ ps) (hnn : ∀ p ∈ ps, 0 ≤ p.2) :
    0 ≤ matchedIntensityPercentage ms (ps.map (·.2)) ∧ matchedIntensityPercentage ms (ps.map (·.2)) ≤ 1 := by
  by_cases htot : (ps.map (·.2)).sum = 0
  · unfold matchedIntensityPercentage
    simp [sumL_eq_sum (ps.map (·.2)), htot]
  · rw [intensity_fraction_eq ps ms hnd hsub htot]
    obtain ⟨h1, h2⟩ := matched_le_total ps ms hnn
    have hpos : 0 < (ps.map (·.2)).sum := lt_of_le_of_ne (le_trans h2 h1) (Ne.symm htot)
    exact ⟨div_nonneg h2 (le_of_lt hpos), (div_le_one hpos).mpr h1⟩

example : (([(100, 5), (200, 0), (300, 7)] : List (Rat × Rat)).map (·.1)).Nodup := by decide

/-! ## 4. fragment matches and coverage -/

/-- `get_fragment_matches`, mode `all`, over ℚ: after both inputs have been sorted by m/z (stable), every fragment is
paired with exactly the peaks whose m/z lies in its window — whatever the order of the inputs was. -/
theorem fragment_matches_all (t : Tol) (tol : Rat) (frags : List (Nat × Rat)) (mzs ints : List Rat)
    (hlo : ∀ a b, a ≤ b → lo t tol a ≤ lo t tol b) :
    getFragmentMatches .all t tol frags mzs ints
      = .ok ((sortBy (fun a b => Num.lt a.2 b.2) frags).flatMap fun f =>
          ((sortBy (fun (a b : Rat × Rat) => Num.lt a.1 b.1) (mzs.zip ints)).filter
              (fun p => inWindow t tol p.1 f.2)).map fun p => (⟨f.1, p.1, p.2⟩ : FMatch Rat)) := by
  unfold getFragmentMatches
  simp only
  have hfs : ((sortBy (fun (a b : Nat × Rat) => Num.lt a.2 b.2) frags).map (·.2)).Pairwise (· ≤ ·) := by
    rw [List.pairwise_map]; exact sortBy_sorted (fun a : Nat × Rat => a.2) frags
  have hps : ((sortBy (fun (a b : Rat × Rat) => Num.lt a.1 b.1) (mzs.zip ints)).map (·.1)).Pairwise (· ≤ ·) := by
    rw [List.pairwise_map]; exact sortBy_sorted (fun a : Rat × Rat => a.1) (mzs.zip ints)
  rw [all_mode_eq_window t tol _ _ _ hfs hps hlo]
  simp only
  congr 1
  generalize sortBy (fun (a b : Nat × Rat) => Num.lt a.2 b.2) frags = fs
  generalize sortBy (fun (a b : Rat × Rat) => Num.lt a.1 b.1) (mzs.zip ints) = peaks
  rw [List.map_map]
  have hz : ∀ (l : List (Nat × Rat)) (g : Nat × Rat → Hit), l.zip (l.map g) = l.map fun x => (x, g x) := by
    intro l g; induction l with
    | nil => rfl
    | cons a l ih => simp [ih]
  rw [hz, List.flatMap_map]
  apply List.flatMap_congr
  intro f _
  simp only [Function.comp, expandHit_hitOfWindow]
  have := window_filterMap (inWindow t tol) f.2 (fun p => (⟨f.1, p.1, p.2⟩ : FMatch Rat)) peaks []
  simpa [window] using this


/-- … hence, regardless of the order in which fragments and peaks are given: a match `(fragment, m/z, intensity)` is
produced iff the fragment is one of the given fragments, the peak one of the given peaks, and the peak's m/z lies
in the fragment's window (bounds inclusive) -/
theorem fragment_matches_order_free (t : Tol) (tol : Rat) (frags : List (Nat × Rat)) (mzs ints : List Rat)
    (hlo : ∀ a b, a ≤ b → lo t tol a ≤ lo t tol b) (ms : List (FMatch Rat))
    (h : getFragmentMatches .all t tol frags mzs ints = .ok ms) (fid : Nat) (mz inten : Rat) :
    (∃ m ∈ ms, m.frag = fid ∧ m.mz = mz ∧ m.inten = inten) ↔
      ∃ f ∈ frags, ∃ p ∈ mzs.zip ints, inWindow t tol p.1 f.2 = true ∧ f.1 = fid ∧ p.1 = mz ∧ p.2 = inten := by
  rw [fragment_matches_all t tol frags mzs ints hlo] at h
  cases h
  constructor
  · rintro ⟨m, hm, h1, h2, h3⟩
    rw [List.mem_flatMap] at hm
    obtain ⟨f, hf, hm⟩ := hm
    rw [List.mem_map] at hm
    obtain ⟨p, hp, rfl⟩ := hm
    rw [List.mem_filter] at hp
    exact ⟨f, (mem_sortBy _ _ _).mp hf, p, (mem_sortBy _ _ _).mp hp.1, hp.2, h1, h2, h3⟩
  · rintro ⟨f, hf, p, hp, hw, h1, h2, h3⟩
    refine ⟨⟨f.1, p.1, p.2⟩, ?_, h1, h2, h3⟩
    rw [List.mem_flatMap]
    refine ⟨f, (mem_sortBy _ _ _).mpr hf, ?_⟩
    rw [List.mem_map]
    exact ⟨p, List.mem_filter.mpr ⟨(mem_sortBy _ _ _).mpr hp, hw⟩, rfl⟩

/-- `get_match_coverage` (after the repair) counts a fragment once: a further match of a fragment that already
occurred among the matches (mode `all` pairs a fragment with every peak in its window) changes nothing -/
theorem coverage_once {κ : Type} [DecidableEq κ] (n : Nat) (pre post : List (CovIn κ)) (m : CovIn κ) (hm : m ∈ pre) :
    matchCoverage true n (pre ++ m :: post) = matchCoverage true n (pre ++ post) :=
  matchCoverageGo_dup n m post pre [] [] (Or.inl hm)

/-- … and a fragment is counted: when all matches belong to different fragments, every match increments the
residues `start..end-1` under its label exactly as the plain per-match count does -/
theorem coverage_distinct_fragments {κ : Type} [DecidableEq κ] (n : Nat) (ms : List (CovIn κ)) (hnd : (ms.map (·.key)).Nodup) :
    matchCoverage true n ms = matchCoverage false n ms :=
  matchCoverageGo_nodup n ms [] [] [] (fun _ _ => by simp) hnd

/-- the defect that was repaired (KF-C17-coverage-per-peak): counting per match, a b-ion covering residues 0..2 that
matched two peaks contributed 2 to every residue -/
theorem coverage_per_match_counts_twice :
    matchCoverage false 3 [(⟨0, 1, "b", 0, 3⟩ : CovIn Nat), ⟨0, 1, "b", 0, 3⟩] = .ok [((1, "b"), [2, 2, 2])] ∧
    matchCoverage true 3 [(⟨0, 1, "b", 0, 3⟩ : CovIn Nat), ⟨0, 1, "b", 0, 3⟩] = .ok [((1, "b"), [1, 1, 1])] := by decide

example : (([⟨0, 1, "b", 0, 3⟩, ⟨1, 1, "y", 1, 3⟩] : List (CovIn Nat)).map (·.key)).Nodup := by decide

/-! ## 5. the same on the real records: `FragmentMatch(fragment : Fragment, mz, intensity)`

`Model/ScoreFrag.lean` applies the functions above to `Fragment.Frag` (the `Fragment` dataclass of
Model/Fragment.lean) through the projections score.py uses. -/
section
open Fragment (Frag Ion)


/-- generic: after the repair, `cov[label][i]` is the number of distinct fragments (keys) among the matches whose
label is `label` and whose span contains `i` -/
theorem coverage_counts_distinct {κ : Type} [DecidableEq κ] (n : Nat) (ms : List (CovIn κ))
    (hf : ∀ m ∈ ms, ∀ m' ∈ ms, m.key = m'.key → m = m') (cov' : List ((Nat × String) × List Nat))
    (h : matchCoverage true n ms = .ok cov') (l : Nat × String) (i : Nat) (hi : i < n) :
    rowVal cov' l i = (((ms.filter fun m => decide (hits l i m)).map (·.key)).toFinset).card := by
  have := matchCoverageGo_count n l i hi ms [] [] cov' hf (by intro p hp; simp at hp) h
  rw [this]
  simp [rowVal, newKeys]

/-- `get_match_coverage` on `FragmentMatch` records: for every label (`'+'*charge + ion_type`) and residue `i`,
the entry is the number of distinct matched fragments — distinct `(label, start, end, isotope, loss, monoisotopic,
internal)` — of that label whose span `[start, end)` contains `i`, however many peaks each of them matched -/
theorem fragment_coverage_counts_fragments (ms : List FragMatch) (m0 : FragMatch) (rest : List FragMatch)
    (hms : ms = m0 :: rest) (cov' : List ((Nat × String) × List Nat)) (h : getMatchCoverageF ms = .ok cov')
    (l : Nat × String) (i : Nat) (hi : i < m0.fragment.parent.seq.length) :
    rowVal cov' l i
      = (((ms.filter fun m => decide (hits l i (covInOf m))).map fun m => covKey m.fragment).toFinset).card := by
  subst hms
  unfold getMatchCoverageF at h
  simp only at h
  have := coverage_counts_distinct _ _ (by
    intro a ha b hb e
    obtain ⟨x, _, rfl⟩ := List.mem_map.mp ha
    obtain ⟨y, _, rfl⟩ := List.mem_map.mp hb
    exact covInOf_inj x y e) cov' h l i hi
  rw [this, List.filter_map, List.map_map]
  rfl

/-- `get_fragment_matches`, mode `all`, on `Fragment` records over ℚ: a `FragmentMatch(f, mz, intensity)` is produced
iff `f` is one of the given fragments, `(mz, intensity)` one of the given peaks, and `mz` lies in the window of `f.mz`
— regardless of the order of either input -/
theorem fragment_matches_pairs (t : Tol) (tol : Rat) (frags : List Frag) (mzs ints : List Rat)
    (hlo : ∀ a b, a ≤ b → lo t tol a ≤ lo t tol b) (ms : List FragMatch)
    (h : getFragmentMatchesF .all t tol frags mzs ints = .ok ms) (m : FragMatch) :
    m ∈ ms ↔ m.fragment ∈ frags ∧ (m.mz, m.intensity) ∈ mzs.zip ints ∧ inWindow t tol m.mz m.fragment.mz = true := by
  unfold getFragmentMatchesF at h
  cases h0 : getFragmentMatches .all t tol ((List.range frags.length).zip (frags.map (·.mz))) mzs ints with
  | error e => rw [h0] at h; cases h
  | ok ms0 =>
    rw [h0] at h
    simp only [Except.ok.injEq] at h
    subst h
    have key := fragment_matches_order_free t tol _ mzs ints hlo ms0 h0
    rw [List.mem_filterMap]
    constructor
    · rintro ⟨m0, hm0, hm⟩
      cases hf : frags[m0.frag]? with
      | none => rw [hf] at hm; cases hm
      | some f =>
        rw [hf] at hm
        simp only [Option.map_some, Option.some.injEq] at hm
        subst hm
        obtain ⟨f', hf', p, hp, hw, e1, e2, e3⟩ := (key m0.frag m0.mz m0.inten).mp ⟨m0, hm0, rfl, rfl, rfl⟩
        obtain ⟨j, x⟩ := f'
        have hlen : (List.range frags.length).length = (frags.map (·.mz)).length := by simp
        have : (frags.map (·.mz))[j]? = some x := by
          have := (mem_range_zip (frags.map (·.mz)) j x).mp (by simpa using hf')
          exact this
        simp only at e1 e2 e3 hw
        subst e1
        rw [List.getElem?_map, hf] at this
        simp only [Option.map_some, Option.some.injEq] at this
        refine ⟨List.mem_of_getElem? hf, ?_, ?_⟩
        · rw [← e2, ← e3]; exact hp
        · rw [← e2, this]; exact hw
    · rintro ⟨hf, hp, hw⟩
      obtain ⟨j, hj⟩ := List.getElem?_of_mem hf
      have hz : (j, m.fragment.mz) ∈ (List.range frags.length).zip (frags.map (·.mz)) := by
        have := (mem_range_zip (frags.map (·.mz)) j m.fragment.mz).mpr (by rw [List.getElem?_map, hj]; rfl)
        simpa using this
      obtain ⟨m0, hm0, e1, e2, e3⟩ := (key j m.mz m.intensity).mpr ⟨(j, m.fragment.mz), hz, (m.mz, m.intensity), hp, hw, rfl, rfl, rfl⟩
      refine ⟨m0, hm0, ?_⟩
      rw [e1, hj, e2, e3]
      rfl

/-- the matched-intensity share on `FragmentMatch` records: the statement of `intensity_fraction_eq` /
`intensity_fraction_unit_interval` for the `(mz, intensity)` pairs the records carry -/
theorem fragment_intensity_fraction (ps : List (Rat × Rat)) (ms : List FragMatch) (hnd : (ps.map (·.1)).Nodup)
    (hsub : ∀ m ∈ ms, (m.mz, m.intensity) ∈ ps) (hnn : ∀ p ∈ ps, 0 ≤ p.2) :
    (((ps.map (·.2)).sum ≠ 0 → getMatchedIntensityPercentageF ms (ps.map (·.2))
        = ((matchedPeaks ps (ms.map fun m => (m.mz, m.intensity))).map (·.2)).sum / (ps.map (·.2)).sum)) ∧
      0 ≤ getMatchedIntensityPercentageF ms (ps.map (·.2)) ∧ getMatchedIntensityPercentageF ms (ps.map (·.2)) ≤ 1 := by
  have hsub' : ∀ x ∈ ms.map (fun m => (m.mz, m.intensity)), x ∈ ps := by
    intro x hx
    obtain ⟨m, hm, rfl⟩ := List.mem_map.mp hx
    exact hsub m hm
  exact ⟨fun htot => intensity_fraction_eq ps _ hnd hsub' htot, intensity_fraction_unit_interval ps _ hnd hsub' hnn⟩

end
end Score
