import PeptVerif.Lemmas.Score
/-!
# C17 — spectrum matching pairs each fragment with exactly the peaks in tolerance

Property theorems only. Models: `Model/Score.lean`; brute-force specification: `Spec/Score.lean`.
-/
namespace Score
variable {α : Type}

/-- C17 step 1. For *any* `ys` (no sortedness needed here): if the "below the window" predicates are
monotone along `xs` (a peak below the window of `x` is below the window of every later `x'`) and the
shared start pointer is admissible, the sweep with its three early exits returns the prefix-length
windows. `within` (the upper bound) need not be monotone: the upper pointer restarts from the lower one. -/
theorem sweep_eq_windowTW (below within : α → α → Bool) (ys : List α) (xs : List α) (start : Nat)
    (hmono : xs.Pairwise (fun x x' => ∀ y, below y x = true → below y x' = true))
    (hstart : ∀ x ∈ xs, start ≤ (ys.takeWhile (fun y => below y x)).length) :
    sweep below within ys start xs = xs.map (windowTW below within ys) := by
  induction xs generalizing start with
  | nil => simp [sweep]
  | cons x xs ih =>
    have hx := hstart x (by simp)
    have hs : advance (fun y => below y x) ys start = (ys.takeWhile (fun y => below y x)).length := by
      rw [advance_eq, takeWhile_drop_len _ _ _ hx]; omega
    have hle := takeWhile_len_le (fun y => below y x) ys
    rw [List.pairwise_cons] at hmono
    have hnext : ∀ x' ∈ xs, (ys.takeWhile (fun y => below y x)).length ≤ (ys.takeWhile (fun y => below y x')).length :=
      fun x' hx' => takeWhile_len_mono _ _ _ (hmono.1 x' hx')
    simp only [sweep, List.map_cons]
    split
    · rename_i hge
      have hsl : (ys.takeWhile (fun y => below y x)).length = ys.length := by omega
      have : windowTW below within ys x = none := by
        simp [windowTW, hsl]
      rw [this, ih start hmono.2 (fun x' hx' => by have := hnext x' hx'; omega)]
    · rw [hs]
      split
      · rename_i _ hge
        have hsl : (ys.takeWhile (fun y => below y x)).length = ys.length := by omega
        have : windowTW below within ys x = none := by simp [windowTW, hsl]
        rw [this, ih _ hmono.2 hnext]
      · rw [ih _ hmono.2 hnext, advance_eq]
        congr 1
        simp only [windowTW]
        split <;> split <;> first | rfl | omega | (simp; omega)

end Score
