import PeptVerif.Model.C07Gen
import PeptVerif.Props.C06
import PeptVerif.Props.C07
/-!
# C07 extension (round 5) — the semi- and non-enzymatic sequence generators

The property quantifies "also for the semi- and non-enzymatic sequence generators". Until this round the spans of the four
generators were taken from the implementation in the correspondence run; here they are computed by the model
(`genSpans`, `genPieceSpans`: `Model/C07Gen.lean`, driver op `gen`) and the slice clauses of the property are proved for every
peptide every generator returns, for every annotation, every `min_len ≥ 1` (or `None`) and every `max_len`.
-/
namespace Pept.Reorder.C07
open Spans

/-- every element of the `annotation-span` output of `_return_digested_sequences` is `(slice a s e, (s,e,v))` for one of
the spans handed in (fast path included) -/
theorem pieceSpans_mem (a : Annotation) (spans : List Span) (p : Annotation) (sp : Span)
    (h : (p, sp) ∈ digestPieceSpans a spans) : sp ∈ spans ∧ p = slice a sp.1 sp.2.1 := by
  unfold digestPieceSpans at h
  cases hm : hasMods a
  · simp only [hm, Bool.not_false, if_true] at h
    rw [List.mem_map] at h
    obtain ⟨y, hy, he⟩ := h
    simp only [Prod.mk.injEq] at he
    obtain ⟨h1, rfl⟩ := he
    exact ⟨hy, by rw [← h1, fastpath_eq a _ _ hm]⟩
  · simp only [hm, Bool.not_true, Bool.false_eq_true, ↓reduceIte] at h
    rw [List.mem_map] at h
    obtain ⟨y, hy, he⟩ := h
    simp only [Prod.mk.injEq] at he
    obtain ⟨h1, rfl⟩ := he
    exact ⟨hy, h1.symm⟩

example : (slice demo 1 3, ((1, 3, 0) : Span)) ∈ digestPieceSpans demo [(0, 1, 0), (1, 3, 0)] := by decide

/-- the spans of every generator are proper, non-empty sub-spans of the protein: `0 ≤ s < e ≤ n`, not the whole protein -/
theorem genSpans_bounds (k : GenKind) (n : Nat) (lo hi : Option Int) (hlo : 1 ≤ lo.getD 1) (sp : Span)
    (h : sp ∈ genSpans k n lo hi) : 0 ≤ sp.1 ∧ sp.1 < sp.2.1 ∧ sp.2.1 ≤ (n : Int) ∧ sp.2.1 - sp.1 < (n : Int) := by
  cases k <;> simp only [genSpans] at h
  · rw [mem_buildLeftSemi] at h; simp only at h; omega
  · rw [mem_buildRightSemi] at h; simp only at h; omega
  · rw [List.mem_append, mem_buildLeftSemi, mem_buildRightSemi] at h; simp only at h; omega
  · rw [mem_buildNonEnzymatic] at h; simp only at h; omega

example : ((0, 2, 0) : Span) ∈ genSpans .semi 4 none (some 2) ∧ ((2, 4, 0) : Span) ∈ genSpans .semi 4 none (some 2) := by
  decide

/-- **slice clauses for the generators.** Every `(peptide, (s,e,v))` returned by any of the four generators is the slice of the
protein over a non-empty proper span inside it, has exactly the residues `s..e-1` each with its own modifications, carries
N-terminal (C-terminal) modifications only if `s = 0` (`e = n`), and carries the global isotope and static rules. -/
theorem generator_piece (k : GenKind) (a : Annotation) (lo hi : Option Int) (hlo : 1 ≤ lo.getD 1)
    (p : Annotation) (sp : Span) (h : (p, sp) ∈ genPieceSpans k a lo hi) :
    0 ≤ sp.1 ∧ sp.1 < sp.2.1 ∧ sp.2.1 ≤ (a.seq.length : Int) ∧
    p = slice a sp.1 sp.2.1 ∧
    residues p = ((residues a).drop sp.1.toNat).take (sp.2.1.toNat - sp.1.toNat) ∧
    p.nterm = (if sp.1 > 0 then none else a.nterm) ∧
    p.cterm = (if sp.2.1 < (a.seq.length : Int) then none else a.cterm) ∧
    p.isotope = a.isotope ∧ p.static = a.static := by
  obtain ⟨hmem, hp⟩ := pieceSpans_mem a _ p sp h
  obtain ⟨h0, h1, h2, _⟩ := genSpans_bounds k _ lo hi hlo sp hmem
  refine ⟨h0, h1, h2, hp, ?_, ?_, ?_, ?_, ?_⟩
  · obtain ⟨s, hs⟩ : ∃ s : Nat, sp.1 = (s : Int) := ⟨sp.1.toNat, by omega⟩
    obtain ⟨e, he⟩ : ∃ e : Nat, sp.2.1 = (e : Int) := ⟨sp.2.1.toNat, by omega⟩
    rw [hp, hs, he, Int.toNat_natCast, Int.toNat_natCast]
    exact slice_residues a s e (by omega) (by omega)
  · rw [hp]; exact slice_nterm a _ _
  · rw [hp]; exact slice_cterm a _ _
  · rw [hp]; exact (slice_globals a _ _).1
  · rw [hp]; exact (slice_globals a _ _).2.1

example : genPieceSpans .right demo none (some 2) ≠ [] := by decide

/-- left-semi peptides start at 0 and stop before the end: they keep the N-terminal modifications of the protein and never
carry its C-terminal modifications; right-semi peptides the other way round; a non-enzymatic peptide never carries both
unless the protein has neither (it is a proper sub-span). No hypothesis on `min_len`. -/
theorem generator_terminals (a : Annotation) (lo hi : Option Int) (p : Annotation) (sp : Span) :
    ((p, sp) ∈ genPieceSpans .left a lo hi → p.nterm = a.nterm ∧ p.cterm = none) ∧
    ((p, sp) ∈ genPieceSpans .right a lo hi → p.nterm = none ∧ p.cterm = a.cterm) ∧
    ((p, sp) ∈ genPieceSpans .non a lo hi → p.nterm = none ∨ p.cterm = none) := by
  refine ⟨?_, ?_, ?_⟩ <;> intro h <;> obtain ⟨hmem, hp⟩ := pieceSpans_mem a _ p sp h <;>
    simp only [genSpans] at hmem
  · rw [mem_buildLeftSemi] at hmem; simp only at hmem
    rw [hp, slice_nterm, slice_cterm]
    exact ⟨by rw [if_neg (by omega)], by rw [if_pos (by omega)]⟩
  · rw [mem_buildRightSemi] at hmem; simp only at hmem
    rw [hp, slice_nterm, slice_cterm]
    exact ⟨by rw [if_pos (by omega)], by rw [if_neg (by omega)]⟩
  · rw [mem_buildNonEnzymatic] at hmem; simp only at hmem
    rw [hp, slice_nterm, slice_cterm]
    by_cases h0 : sp.1 > 0
    · left; rw [if_pos h0]
    · right; rw [if_pos (by omega)]

example : (slice demo 0 3, ((0, 3, 0) : Span)) ∈ genPieceSpans .left demo none none ∧
    (slice demo 0 3).nterm = demo.nterm ∧ demo.nterm ≠ none ∧ (slice demo 0 3).cterm = none ∧ demo.cterm ≠ none := by decide

end Pept.Reorder.C07
