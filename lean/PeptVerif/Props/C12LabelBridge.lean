import PeptVerif.Lemmas.ConcreteLabel
import PeptVerif.Props.C12Concrete
/-!
# C12: bridge lemma on the label path (separate module)

Kept apart from `Props/C12Concrete.lean` because it rests on C04's closed form `Fragment.massOf_labelled`
(`Lemmas/FragmentLabel.lean`, owned by the C04 package) over C03's `Model/CompCalc.lean`: when either of those files is being
reworked this module does not build, and the harness then reports it as "label bridge not built" instead of failing the
theorems of C12 that do not depend on it.
-/
namespace Pept
namespace C12LabelBridge
open Chem AbsMass Static CondenseMass Concrete

/-- **bridge lemma (label path)**, precursor ion, the property's labels (single or pair), plain annotation -/
theorem mass_bridge_label (env : Pept.Env) (mono : Bool) (dl : Mod → Option ℚ) (cp : Mod → Chem.Comp)
    (b : Annotation) (L : List Mod) (ch : Int) (hL : L ∈ labelLists) (hpl : Fragment.PlainL b L)
    (hseq : CompCalc.KnownResidues b.seq)
    (hmods : Fragment.ModsResolve env (Fragment.knownOf mono) dl cp) (hsm : ∀ m, dl m = none → SmallKeys (cp m)) :
    ∃ X, Mass.mass env b { charge := some ch, mono := mono } = .ok X ∧
      AbsMass.massLabel (envFor env Mass.ionP mono ch 0 0) b = .ok X :=
  mass_bridge_label_precursor env mono dl cp b L ch hL hpl hseq hmods hsm

/-- non-vacuity: `<13C><15N>PEP[1]` is a plain labelled annotation with a label pair of the property -/
example : [(⟨.str ['1', '3', 'C'], 1⟩ : Mod), ⟨.str ['1', '5', 'N'], 1⟩] ∈ labelLists := by decide


end C12LabelBridge
end Pept
