import PeptVerif.Props.C13
/-!
# C13, extension (round 5): the stopping rule of `_apply_variable_mods_rec` in every mode

`variable_skip_exact` pins the result list in mode skip; for append / overwrite the property only demands the confinement
clauses (`variable_changes_confined`, `variable_no_form_twice`). What was not stated for those two modes is the bound the
recursion enforces with `count_modified_residues() == max_mod_count`, `max_mod_count = max_mods + starting count`:
in **every** mode a returned form has at most `max_mods` modified residues (dict keys) more than the input. Re-modifying a
residue that is already modified (append / overwrite) adds no key and therefore is not counted, exactly as the quantifier
of the property says.
-/
namespace Pept
namespace ModBuilder

/-- invariant of the recursion: a form that starts at or below the bound never gets above it -/
theorem varRec_count_le (m : ModMap) (mode : Mode) (mc : Int) :
    ∀ (rem idx : Nat) (a x : Annotation), x ∈ varRec m mode mc rem idx a →
      (countModified a : Int) ≤ mc → (countModified x : Int) ≤ mc := by
  intro rem
  induction rem with
  | zero =>
    intro idx a x hx hle
    simp only [varRec, List.mem_singleton] at hx
    subst hx; exact hle
  | succ rem ih =>
    intro idx a x hx hle
    unfold varRec at hx
    by_cases hc : (countModified a : Int) = mc
    · simp only [hc, if_true, List.mem_singleton] at hx
      subst hx; exact hle
    · simp only [hc, if_false] at hx
      rcases List.mem_append.mp hx with hx | hx
      · cases hm : mapGet m (idx : Int) with
        | none => simp [hm] at hx
        | some gs =>
          simp only [hm] at hx
          obtain ⟨g, -, hx⟩ := List.mem_flatMap.mp hx
          cases hs : varStep mode a (idx : Int) g with
          | none => simp [hs] at hx
          | some a' =>
            simp only [hs] at hx
            have hcnt := (varStep_some hs).2.2.2.1
            refine ih (idx + 1) a' x hx ?_
            rw [hcnt]
            split <;> omega
      · exact ih (idx + 1) a x hx hle

/-- C13 (variable, **every mode**), the `max_mods` bound: every returned form has at most `max_mods` modified residues
more than the input (pre-existing modified residues are not counted, and neither is re-modifying one of them in mode
append / overwrite; the termini never count). For every annotation, every rule set, every `max_mods ≥ 0`; no hypothesis
about the site lists. -/
theorem variable_max_mods_bound (a : Annotation) (internal : Option (List (Rule VarIn))) (maxMods : Int)
    (nterm cterm : TermIn VarIn) (mode : Mode) (es : List Int) (h0 : 0 ≤ maxMods)
    (x : Annotation) (hx : x ∈ applyVariable a internal maxMods nterm cterm mode es) :
    (countModified x : Int) ≤ (countModified a : Int) + maxMods := by
  rw [applyVariable_eq, applyVariableCore_eq] at hx
  obtain ⟨b, hb, hx⟩ := List.mem_flatMap.mp hx
  obtain ⟨vn, vc, rfl, -, -⟩ := mem_variantBases hb
  have hba : countModified ({ a with nterm := vn, cterm := vc } : Annotation) = countModified a := rfl
  unfold variableBuilder at hx
  have := varRec_count_le _ mode _ _ _ _ x hx (by omega)
  rw [hba] at this
  omega

/-- … and with `max_mods = 0` no returned form has more modified residues (dict keys) than the input, in every mode. -/
theorem variable_max_mods_zero (a : Annotation) (internal : Option (List (Rule VarIn)))
    (nterm cterm : TermIn VarIn) (mode : Mode) (es : List Int)
    (x : Annotation) (hx : x ∈ applyVariable a internal 0 nterm cterm mode es) :
    (countModified x : Int) ≤ (countModified a : Int) := by
  have := variable_max_mods_bound a internal 0 nterm cterm mode es (by omega) x hx
  omega

/-- non-vacuity: `apply_variable_mods('P[1]EPP', {'P': [['a'], ['b']]}, 1, nterm_mods='A', mode='append')` — 30 forms, the
input has one modified residue, every form has at most two, some form has two, and some form re-modifies residue 0
(`P[1][a]`) *and* modifies a second residue (the re-modification is not counted). -/
example :
    let a : Annotation := { seq := "PEPP".toList, internal := some [(0, [⟨.int 1, 1⟩])] }
    let internal : Option (List (Rule VarIn)) :=
      some [([0, 2, 3], .nested [.many [⟨.str "a".toList, 1⟩], .many [⟨.str "b".toList, 1⟩]])]
    let r := applyVariable a internal 1 (.direct (.one ⟨.str "A".toList, 1⟩)) .none .append [-1, 0, 1, 2, 3]
    countModified a = 1 ∧ r.all (fun x => countModified x ≤ 2) = true ∧ r.any (fun x => countModified x = 2) = true ∧
    r.any (fun x => countModified x = 2 ∧ modsAt x 0 = some [⟨.int 1, 1⟩, ⟨.str "a".toList, 1⟩]) = true := by decide

end ModBuilder
end Pept
