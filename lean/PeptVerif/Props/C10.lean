import PeptVerif.Model.ModDbGen
/-! C10 property theorems (being filled in) -/
namespace C10
open ModDb Formula

/-- the generated tables have the advertised sizes (guards against a silently truncated translation) -/
theorem table_sizes : Gen.Unimod.entries.length = Gen.Unimod.count ∧ Gen.PsiMod.entries.length = Gen.PsiMod.count
    ∧ Gen.XlMod.entries.length = Gen.XlMod.count ∧ Gen.Mono.entries.length = Gen.Mono.count := by
  decide +kernel

end C10
