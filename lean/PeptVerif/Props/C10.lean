import PeptVerif.Model.ModDbGen
import PeptVerif.Lemmas.ModDbSpelling
import PeptVerif.Props.C10TabU
import PeptVerif.Props.C10TabP
import PeptVerif.Props.C10TabX
/-!
C10 — a modification means the same thing however it is spelled.

`T = Gen.tables` are the vocabularies regenerated from the repo under test on every run. The table facts come from
`Props/C10Tab{U,P,X}.lean` (kernel evaluation); everything here is derived from them by table-independent lemmas
(`Lemmas/ModDbLemmas.lean`, `Lemmas/ModDbSpelling.lean`), for every entry, every documented prefix in ANY letter case,
both mass kinds and the composition, "same error" included (`entryMass` / `entryCompParsed` are `Except` values).
-/
namespace C10
open ModDb Formula KSort

abbrev T : Tables := Gen.tables

/-- the generated tables have the advertised sizes (guards against a silently truncated translation) -/
theorem table_sizes : Gen.Unimod.entries.length = Gen.Unimod.count ∧ Gen.PsiMod.entries.length = Gen.PsiMod.count
    ∧ Gen.XlMod.entries.length = Gen.XlMod.count ∧ Gen.Mono.entries.length = Gen.Mono.count := by
  decide +kernel

/-! ## obligation 1: prefix stripping (table independent) -/

/-- For every key `k` (colons, brackets, anything) and every documented prefix `p` of the five families, spelled in any
letter case (`lower p' = p`), `_strip_*_str (p' ++ k) = k`. Holds since fix 6511c11 (`split(':', 1)[1]`). -/
theorem strip_prefix_key (ps : List Str) (hps : ps ∈ [pUnimod, pPsi, pXlmod, pResid, pGno]) (p p' : Str) (hp : p ∈ ps)
    (hl : lower p' = p) (k : Str) : stripPrefix ps (p' ++ k) = k := by
  have hall : ∀ ps ∈ [pUnimod, pPsi, pXlmod, pResid, pGno], ∀ p ∈ ps, goodPrefix p = true := by decide
  exact stripPrefix_spelled hp (hall ps hps p hp) hl k

example : stripPrefix pUnimod (str% "uNiMoD:Label:13C(6)") = str% "Label:13C(6)" := by decide

/-- the code before the repair (`split(':')[1]`) cut the key at its second colon: the witness replayed by the harness -/
theorem strip_old_code_cut_at_second_colon :
    stripPrefixOld pUnimod (str% "U:Label:13C(6)") = str% "Label" ∧
    stripPrefixOld pUnimod (str% "UNIMOD:ICAT-G:2H(8)") = str% "ICAT-G" := by decide

/-! ## obligation 2 → 3: the hygiene facts of the generated tables, bundled -/

theorem all_clean {db : List Entry} (h : db.all entryClean = true) :
    ∀ e ∈ db, keyClean e.id = true ∧ keyClean e.name = true := by
  intro e he
  have := List.all_eq_true.mp h e he
  simpa [entryClean] using this

theorem all_notNumeric {db : List Entry} (h : db.all nameNotNumeric = true) : ∀ e ∈ db, convertType e.name = .str := by
  intro e he
  have := List.all_eq_true.mp h e he
  simpa [nameNotNumeric] using this

theorem vocab_facts : VocabFacts T := by
  have hcross := nodup_of_msort _ C10TabP.psimod_cross_distinct
  have hsplit := List.nodup_append.mp hcross
  refine
    { uKeys := keysOK_of_check C10TabU.unimod_keys_distinct
      pKeys := keysOK_of_nodup hsplit.2.1
      xKeys := keysOK_of_check C10TabX.xlmod_keys_distinct
      uClean := all_clean C10TabU.unimod_keys_clean
      pClean := all_clean C10TabP.psimod_keys_clean
      xClean := all_clean C10TabX.xlmod_keys_clean
      uNum := all_notNumeric C10TabU.unimod_names_not_numeric
      pNum := all_notNumeric C10TabP.psimod_names_not_numeric
      cross := ?_ }
  intro e he hn
  have hmem : e.name ∈ (Gen.Unimod.entries.map (·.name)).filter (fun n => !collisions.contains n) := by
    simp only [List.mem_filter, List.mem_map, Bool.not_eq_true', List.contains_eq_mem, decide_eq_false_iff_not]
    exact ⟨⟨e, he, rfl⟩, hn⟩
  have hdisj := hsplit.2.2 e.name hmem
  constructor
  · apply lookupLast_none
    intro e' he' heq
    exact hdisj e'.id (by simp only [keysOf, List.mem_append, List.mem_map]; exact Or.inl ⟨e', he', rfl⟩) heq.symm
  · apply lookupLast_none
    intro e' he' heq
    exact hdisj e'.name (by simp only [keysOf, List.mem_append, List.mem_map]; exact Or.inr ⟨e', he', rfl⟩) heq.symm

/-! ## obligation 3: spelling invariance -/

/-- Unimod, prefixed spellings: `U:` / `UNIMOD:` in any letter case, followed by the name (215 names contain colons, 51
brackets) or the accession, give the entry's own mono / average mass — or its own error — and its own composition. -/
theorem spelling_invariant_unimod_prefixed (e : Entry) (he : e ∈ Gen.Unimod.entries) (p p' : Str) (hp : p ∈ pUnimod)
    (hl : lower p' = p) :
    (∀ mono, modMass T (p' ++ e.name) mono = entryMass T e mono ∧ modMass T (p' ++ e.id) mono = entryMass T e mono) ∧
    modComp T (p' ++ e.name) = entryCompParsed e ∧ modComp T (p' ++ e.id) = entryCompParsed e :=
  ⟨fun mono => unimod_prefixed_mass vocab_facts he hp hl mono, unimod_prefixed_comp vocab_facts he hp hl⟩

/- FULL statement for the bare Unimod name: `∀ e ∈ Unimod, modMass T e.name mono = entryMass T e mono`.
   It is FALSE on the current tables for the two names that are also PSI-MOD names (the bare name is looked up in
   PSI-MOD first, whose average mass has two decimals): see `bare_name_full_false_on_current_tables`. -/
/-- Unimod, bare name: resolves to the entry's own values whenever the name is not one of the two PSI-MOD collisions -/
theorem spelling_invariant_unimod_bare_partial (e : Entry) (he : e ∈ Gen.Unimod.entries) (hn : e.name ∉ collisions) :
    (∀ mono, modMass T e.name mono = entryMass T e mono) ∧ modComp T e.name = entryCompParsed e :=
  ⟨fun mono => unimod_bare_mass vocab_facts he hn mono, unimod_bare_comp vocab_facts he hn⟩

/-- PSI-MOD: bare name, and `M:` / `MOD:` / `PSI-MOD:` in any letter case followed by name or accession -/
theorem spelling_invariant_psimod (e : Entry) (he : e ∈ Gen.PsiMod.entries) (p p' : Str) (hp : p ∈ pPsi)
    (hl : lower p' = p) :
    (∀ mono, modMass T e.name mono = entryMass T e mono ∧ modMass T (p' ++ e.name) mono = entryMass T e mono ∧
      modMass T (p' ++ e.id) mono = entryMass T e mono) ∧
    modComp T e.name = entryCompParsed e ∧ modComp T (p' ++ e.name) = entryCompParsed e ∧
      modComp T (p' ++ e.id) = entryCompParsed e :=
  ⟨fun mono => ⟨psi_bare_mass vocab_facts he mono, psi_prefixed_mass vocab_facts he hp hl mono⟩,
    psi_bare_comp vocab_facts he, psi_prefixed_comp vocab_facts he hp hl⟩

/-- XLMOD (prefixed spellings only): `X:` / `XLMOD:` in any letter case followed by name or accession -/
theorem spelling_invariant_xlmod (e : Entry) (he : e ∈ Gen.XlMod.entries) (p p' : Str) (hp : p ∈ pXlmod)
    (hl : lower p' = p) :
    (∀ mono, modMass T (p' ++ e.name) mono = entryMass T e mono ∧ modMass T (p' ++ e.id) mono = entryMass T e mono) ∧
    modComp T (p' ++ e.name) = entryCompParsed e ∧ modComp T (p' ++ e.id) = entryCompParsed e :=
  ⟨fun mono => xlmod_prefixed_mass vocab_facts he hp hl mono, xlmod_prefixed_comp vocab_facts he hp hl⟩

/-- "same error": an entry without mass and without composition gives `UnknownModificationMassError` through every
spelling, one without composition gives `InvalidCompositionError` (436 PSI-MOD and 915 XLMOD entries) -/
theorem entry_without_mass (e : Entry) (mono : Bool) (hm : e.mono = none) (ha : e.avg = none) (hc : e.comp = none) :
    entryMass T e mono = .error .unknownModMass ∧ entryCompParsed e = .error .invalidComp := by
  cases mono <;> simp [entryMass, entryCompParsed, entryComp, hm, ha, hc]

end C10
