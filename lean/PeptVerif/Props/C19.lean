import PeptVerif.Model.Combinatoric
namespace Pept.C19
end Pept.C19
