import PeptVerif.Model.Combinatoric
import PeptVerif.Spec.Combinatoric
import PeptVerif.Lemmas.Combinatoric
import PeptVerif.Lemmas.CombinatoricSpec
import PeptVerif.Lemmas.CombinatoricParse
import PeptVerif.Lemmas.CombinatoricExt
/-!
# C19 - combinatorial expansions are exactly the combinatorics of the modified residues

Model: `Pept.permutations / product / combinations / combinationsWithReplacement` (Model/Combinatoric.lean),
which follow proforma_parser.py: serialise start and end, pop the mods of a copy, put the internal mods back,
`split` into one-residue pieces, enumerate with `itertools`, re-parse `start + pieces + end`.
Every `theorem` below is a proof obligation. `n = a.seq.length`, `k = sizeOf a size` (`None` means `n`).
-/
namespace Pept.C19
open Pept

/-- example annotation: `{Glycan:Hex}<13C>[Acetyl]-PE[3]T[1.0][Phospho]^2-[Amide]/2` -/
def exA : Annotation :=
  { seq := "PET".toList
    labile := some [⟨.str "Glycan:Hex".toList, 1⟩]
    isotope := some [⟨.str "13C".toList, 1⟩]
    nterm := some [⟨.str "Acetyl".toList, 1⟩]
    cterm := some [⟨.str "Amide".toList, 1⟩]
    internal := some [(1, [⟨.int 3, 1⟩]), (2, [⟨.flt "1.0".toList, 1⟩, ⟨.str "Phospho".toList, 2⟩])]
    charge := some 2 }

/-! ## the four counting formulas (for every list and every size) -/

/-- `itertools.permutations`: n!/(n-k)! results -/
theorem length_perms {α : Type} (k : Nat) (l : List α) : (permsK k l).length = l.length.descFactorial k :=
  length_permsK k l

/-- `itertools.combinations`: C(n,k) results -/
theorem length_combs {α : Type} (k : Nat) (l : List α) : (combsK k l).length = l.length.choose k :=
  length_combsK k l

/-- `itertools.combinations_with_replacement`: C(n+k-1,k) results -/
theorem length_cwr {α : Type} (k : Nat) (l : List α) : (cwrK k l).length = (l.length + k - 1).choose k :=
  length_cwrK k l

/-- `itertools.product`: n^k results -/
theorem length_prod {α : Type} (k : Nat) (l : List α) : (prodK k l).length = l.length ^ k :=
  length_prodK k l

example : (permsK 2 [1, 2, 3]).length = 6 ∧ (combsK 2 [1, 2, 3]).length = 3 ∧ (cwrK 2 [1, 2, 3]).length = 6 ∧
    (prodK 2 [1, 2, 3]).length = 9 := by decide

/-- one component per residue -/
theorem length_components (a : Annotation) : (components a).length = a.seq.length := by
  simp [components, split, afterPop]

/-- `permutations(size)` returns n!/(n-k)! annotations -/
theorem count_permutations (a : Annotation) (size : Option Nat) :
    (permutations a size).length = a.seq.length.descFactorial (sizeOf a size) := by
  simp [permutations, length_permsK, length_components]

/-- `combinations(size)` returns C(n,k) annotations -/
theorem count_combinations (a : Annotation) (size : Option Nat) :
    (combinations a size).length = a.seq.length.choose (sizeOf a size) := by
  simp [combinations, length_combsK, length_components]

/-- `combinations_with_replacement(size)` returns C(n+k-1,k) annotations -/
theorem count_combinations_with_replacement (a : Annotation) (size : Option Nat) :
    (combinationsWithReplacement a size).length = (a.seq.length + sizeOf a size - 1).choose (sizeOf a size) := by
  simp [combinationsWithReplacement, length_cwrK, length_components]

/-- `product(repeat)` returns n^k annotations -/
theorem count_product (a : Annotation) (rep : Option Nat) :
    (product a rep).length = a.seq.length ^ (sizeOf a rep) := by
  simp [product, length_prodK, length_components]

/-- `size=None` means the full length: n! permutations -/
theorem count_permutations_none (a : Annotation) : (permutations a none).length = a.seq.length.factorial := by
  rw [count_permutations]; simp [sizeOf, Nat.descFactorial_self]

example : (permutations exA none).length = 6 ∧ (combinations exA (some 2)).length = 3 := by decide

/-! ## sizes above n give an empty list for the non-repeating forms -/

theorem permutations_empty_of_gt (a : Annotation) (k : Nat) (h : a.seq.length < k) : permutations a (some k) = [] := by
  apply List.eq_nil_of_length_eq_zero
  rw [count_permutations]
  exact (Nat.descFactorial_eq_zero_iff_lt).2 h

theorem combinations_empty_of_gt (a : Annotation) (k : Nat) (h : a.seq.length < k) : combinations a (some k) = [] := by
  apply List.eq_nil_of_length_eq_zero
  rw [count_combinations]
  exact Nat.choose_eq_zero_of_lt h

example : exA.seq.length < 4 ∧ permutations exA (some 4) = [] ∧ combinations exA (some 5) = [] := by decide

/-! ## elementwise specification

The model goes through `split`, `slice`, the dictionary of popped mods and the joined text; the specification
is direct: enumerate the list `residues a` of (residue, own mods) pairs and `wrap` each selection in the
globals of `a`. -/

theorem permutations_spec (a : Annotation) (size : Option Nat) :
    permutations a size = (permsK (sizeOf a size) (residues a)).map (wrap a) := by
  simp [permutations, components_eq, permsK_map, assemble_singletons, Function.comp_def]

theorem product_spec (a : Annotation) (rep : Option Nat) :
    product a rep = (prodK (sizeOf a rep) (residues a)).map (wrap a) := by
  simp [product, components_eq, prodK_map, assemble_singletons, Function.comp_def]

theorem combinations_spec (a : Annotation) (size : Option Nat) :
    combinations a size = (combsK (sizeOf a size) (residues a)).map (wrap a) := by
  simp [combinations, components_eq, combsK_map, assemble_singletons, Function.comp_def]

theorem combinations_with_replacement_spec (a : Annotation) (size : Option Nat) :
    combinationsWithReplacement a size = (cwrK (sizeOf a size) (residues a)).map (wrap a) := by
  simp [combinationsWithReplacement, components_eq, cwrK_map, assemble_singletons, Function.comp_def]

/-! ## the enumerations are the standard ones, in order

The `itertools` documentation defines the four enumerations through index tuples: all tuples of `range(n)` of
length `k` in lexicographic order (`product`), those without a repeated index (`permutations`), with strictly
increasing indices (`combinations`), with weakly increasing indices (`combinations_with_replacement`); the
result is the tuple read through the pool. `specProd/specPerms/specCombs/specCwr` (Spec/Combinatoric.lean) are
literally these definitions; the recursive models agree with them for every pool (repeated elements included)
and every size - content *and* order. -/

theorem prod_is_standard {α : Type} (k : Nat) (l : List α) : prodK k l = specProd k l := prodK_eq_spec k l

theorem perms_is_standard {α : Type} (k : Nat) (l : List α) : permsK k l = specPerms k l := permsK_eq_spec k l

theorem combs_is_standard {α : Type} (k : Nat) (l : List α) : combsK k l = specCombs k l := combsK_eq_spec k l

theorem cwr_is_standard {α : Type} (k : Nat) (l : List α) : cwrK k l = specCwr k l := cwrK_eq_spec k l

/-- the whole property for `permutations` in one statement: the results are, in order, the index tuples without
repetition, each read through the modified residues and wrapped in the globals of `a` -/
theorem permutations_standard (a : Annotation) (size : Option Nat) :
    permutations a size =
      ((tuples (sizeOf a size) a.seq.length).filter fun t => decide t.Nodup).map fun idx => wrap a (pick (residues a) idx) := by
  rw [permutations_spec, perms_is_standard, specPerms]
  simp [residues, Function.comp_def]

theorem product_standard (a : Annotation) (rep : Option Nat) :
    product a rep = (tuples (sizeOf a rep) a.seq.length).map fun idx => wrap a (pick (residues a) idx) := by
  rw [product_spec, prod_is_standard, specProd]
  simp [residues, Function.comp_def]

theorem combinations_standard (a : Annotation) (size : Option Nat) :
    combinations a size =
      ((tuples (sizeOf a size) a.seq.length).filter fun t => decide (t.Pairwise (· < ·))).map
        fun idx => wrap a (pick (residues a) idx) := by
  rw [combinations_spec, combs_is_standard, specCombs]
  simp [residues, Function.comp_def]

theorem combinations_with_replacement_standard (a : Annotation) (size : Option Nat) :
    combinationsWithReplacement a size =
      ((tuples (sizeOf a size) a.seq.length).filter fun t => decide (t.Pairwise (· ≤ ·))).map
        fun idx => wrap a (pick (residues a) idx) := by
  rw [combinations_with_replacement_spec, cwr_is_standard, specCwr]
  simp [residues, Function.comp_def]

example : specPerms 2 [10, 20, 20] = [[10, 20], [10, 20], [20, 10], [20, 20], [20, 10], [20, 20]] := by decide

/-! ## every result parses; the text the Python builds re-parses to the assembled annotation

On top of the parser / serializer models and the round-trip theorem of C01 (`Pept.parse`, `Pept.serialize`,
`Pept.canon`, `parse_serialize`). `canon a` is the decidable well-formedness predicate of Spec/ProForma.lean (the image
of the grammar); sizes are ≥ 1 (size 0 yields one annotation with an empty sequence, which is not canonical).
`permutationsText` etc. (Model/CombinatoricText.lean) are the literal Python: serialize start, pieces and end,
enumerate the piece texts, concatenate, `parse`. -/

/-- every result of the four expansions of a canonical annotation is canonical -/
theorem results_canon (a : Annotation) (hc : canon a = true) (size : Option Nat) (hk : 1 ≤ sizeOf a size) :
    (∀ r ∈ permutations a size, canon r = true) ∧ (∀ r ∈ product a size, canon r = true) ∧
    (∀ r ∈ combinations a size, canon r = true) ∧ (∀ r ∈ combinationsWithReplacement a size, canon r = true) := by
  rw [permutations_spec, product_spec, combinations_spec, combinations_with_replacement_spec]
  exact ⟨canon_of_enum @permsK @mem_permsK a hc _ hk, canon_of_enum @prodK @mem_prodK a hc _ hk,
    canon_of_enum @combsK @mem_combsK a hc _ hk, canon_of_enum @cwrK @mem_cwrK a hc _ hk⟩

/-- **every result parses**: its serialization (either `include_plus` setting, any mix) parses back to itself -/
theorem results_parse (plus : Plus) (a : Annotation) (hc : canon a = true) (size : Option Nat) (hk : 1 ≤ sizeOf a size)
    (r : Annotation)
    (hr : r ∈ permutations a size ∨ r ∈ product a size ∨ r ∈ combinations a size ∨ r ∈ combinationsWithReplacement a size) :
    parse true (serialize plus r) = .ok (.single r) := by
  obtain ⟨h1, h2, h3, h4⟩ := results_canon a hc size hk
  apply parse_serialize
  rcases hr with h | h | h | h
  · exact h1 r h
  · exact h2 r h
  · exact h3 r h
  · exact h4 r h

/-- the string the Python puts together for a selection of pieces, `serialize_start + ''.join(piece texts) + serialize_end`,
is the serialization of the assembled annotation -/
theorem expansionText_eq (plus : Plus) (a : Annotation) (hc : canon a = true) (sel : List Annotation)
    (h : ∀ p ∈ sel, p ∈ pieces a) :
    expansionText plus a sel = serialize plus (assemble a (sel.map residues)) := expansionText_eq' plus a hc sel h

/-- re-parsing that string gives exactly the assembled annotation: `assemble` *is* `parse(start + pieces + end)` -/
theorem reparse_eq (a : Annotation) (hc : canon a = true) (sel : List Annotation) (h : ∀ p ∈ sel, p ∈ pieces a)
    (hne : sel ≠ []) : reparse a sel = .ok (.single (assemble a (sel.map residues))) := reparse_eq' a hc sel h hne

/-- the literal text-level `permutations` returns exactly the annotation-level results (none fails to parse, none is a
multi-chain object) -/
theorem permutationsText_eq (a : Annotation) (hc : canon a = true) (size : Option Nat) (hk : 1 ≤ sizeOf a size) :
    permutationsText a size = (permutations a size).map fun r => .ok (.single r) :=
  text_eq_of_enum @permsK @mem_permsK @permsK_map a hc _ hk

theorem productText_eq (a : Annotation) (hc : canon a = true) (rep : Option Nat) (hk : 1 ≤ sizeOf a rep) :
    productText a rep = (product a rep).map fun r => .ok (.single r) :=
  text_eq_of_enum @prodK @mem_prodK @prodK_map a hc _ hk

theorem combinationsText_eq (a : Annotation) (hc : canon a = true) (size : Option Nat) (hk : 1 ≤ sizeOf a size) :
    combinationsText a size = (combinations a size).map fun r => .ok (.single r) :=
  text_eq_of_enum @combsK @mem_combsK @combsK_map a hc _ hk

theorem combinationsWithReplacementText_eq (a : Annotation) (hc : canon a = true) (size : Option Nat)
    (hk : 1 ≤ sizeOf a size) :
    combinationsWithReplacementText a size = (combinationsWithReplacement a size).map fun r => .ok (.single r) :=
  text_eq_of_enum @cwrK @mem_cwrK @cwrK_map a hc _ hk

/-- **string in, strings out** (sequence/combinatoric.py): on the text of a canonical annotation (written with any `+`
convention) the four module-level functions return the serializations of the annotation-level results -/
theorem combinatoric_py_strings (plus : Plus) (a : Annotation) (hc : canon a = true) (size : Option Nat)
    (hk : 1 ≤ sizeOf a size) :
    permutationsStr (serialize plus a) size = .ok ((permutations a size).map (serialize (constPlus false))) ∧
    productStr (serialize plus a) size = .ok ((product a size).map (serialize (constPlus false))) ∧
    combinationsStr (serialize plus a) size = .ok ((combinations a size).map (serialize (constPlus false))) ∧
    combinationsWithReplacementStr (serialize plus a) size =
      .ok ((combinationsWithReplacement a size).map (serialize (constPlus false))) :=
  ⟨expandStr_eq _ permutations plus a hc size (permutationsText_eq a hc size hk),
   expandStr_eq _ product plus a hc size (productText_eq a hc size hk),
   expandStr_eq _ combinations plus a hc size (combinationsText_eq a hc size hk),
   expandStr_eq _ combinationsWithReplacement plus a hc size (combinationsWithReplacementText_eq a hc size hk)⟩

example : canon exA = true ∧ 1 ≤ sizeOf exA (some 2) := by decide +kernel

example : permutationsStr "[Acetyl]-PE[3]T".toList (some 2) =
    .ok ["[Acetyl]-PE[3]".toList, "[Acetyl]-PT".toList, "[Acetyl]-E[3]P".toList, "[Acetyl]-E[3]T".toList,
         "[Acetyl]-TP".toList, "[Acetyl]-TE[3]".toList] := by decide +kernel

/-- the i-th entry of `residues a` is the i-th residue with the mods it carries -/
theorem residues_getElem (a : Annotation) (i : Nat) (h : i < (residues a).length) :
    (residues a)[i] = (a.seq[i]'(by simpa [residues] using h), modsAt a i) := by
  simp [residues, modsAt, List.getElem_zipIdx]

/-- a result's sequence is the selected residues in order -/
theorem wrap_seq (a : Annotation) (sel : List (Char × List Mod)) : (wrap a sel).seq = sel.map (·.1) := rfl

/-- position `i` of a result carries exactly the mods of the i-th selected residue (multipliers as written) -/
theorem wrap_mods (a : Annotation) (sel : List (Char × List Mod)) (i : Nat) (h : i < sel.length) :
    modsAt (wrap a sel) i = sel[i].2.map normMult := modsAt_wrap a sel i h

/-- on the domain (multipliers ≥ 1) a residue's mods come through unchanged -/
theorem wrap_mods_unchanged (a : Annotation) (sel : List (Char × List Mod)) (i : Nat) (h : i < sel.length)
    (hm : sel[i].2.all (fun m => decide (m.mult ≥ 1)) = true) :
    modsAt (wrap a sel) i = sel[i].2 := by
  rw [modsAt_wrap a sel i h, map_normMult_id _ hm]

example : (residues exA)[2]! = ('T', [⟨.flt "1.0".toList, 1⟩, ⟨.str "Phospho".toList, 2⟩]) ∧
    ((residues exA)[2]!).2.all (fun m => decide (m.mult ≥ 1)) = true := by decide

/-- labile, global, terminal and charge annotations of every result are those of the input -/
theorem wrap_globals_unchanged (a : Annotation) (sel : List (Char × List Mod)) (h : expandDomain a = true) :
    (wrap a sel).labile = a.labile ∧ (wrap a sel).static = a.static ∧ (wrap a sel).isotope = a.isotope ∧
    (wrap a sel).unknown = a.unknown ∧ (wrap a sel).nterm = a.nterm ∧ (wrap a sel).cterm = a.cterm ∧
    (wrap a sel).charge = a.charge ∧ (wrap a sel).adducts = a.adducts ∧ (wrap a sel).intervals = none := by
  simp only [expandDomain, Bool.and_eq_true] at h
  obtain ⟨⟨⟨⟨⟨⟨⟨⟨⟨h1, h2⟩, h3⟩, h4⟩, h5⟩, h6⟩, h7⟩, _⟩, _⟩, _⟩ := h
  simp only [wrap]
  refine ⟨normList_id _ h3, normList_id _ h2, normList_id _ h1, normList_id _ h4, normList_id _ h5, normList_id _ h6,
    trivial, normList_id _ h7, trivial⟩

example : expandDomain exA = true := by decide

example : (combinations exA (some 2)).map (·.seq) = ["PE".toList, "PT".toList, "ET".toList] := by decide

/-! ## outside `canon` (round 5): empty-but-present lists, multipliers < 1, results are in normal form

`canon` (and `expandDomain`) exclude annotations whose private fields hold an empty list instead of `None`, or a multiplier
< 1. Such objects cannot be parsed from text but can be built by writing the fields. What the expansions do with them:
* an empty-but-present labile / static / isotope / C-term / adduct list is not written, so text and results are those of
  `dropEmpty a` - the theorems above hold with `canon (dropEmpty a)` in place of `canon a`;
* an empty-but-present N-term or unknown-position list makes every result fail to parse (a bare `-` / `?` is written):
  kernel-checked counter-examples, replayed on the implementation (harness stage `outside_domain`);
* a multiplier < 1 comes back as 1 (counter-example to "own modifications unchanged", the text-level model agrees with `assemble`);
* whatever the input, every result is in normal form (`results_lists_ok`, `wrap_wrap`). -/

/-- the annotation-level results ignore empty-but-present lists -/
theorem expansions_dropEmpty (a : Annotation) (size : Option Nat) :
    permutations (dropEmpty a) size = permutations a size ∧ product (dropEmpty a) size = product a size ∧
    combinations (dropEmpty a) size = combinations a size ∧
    combinationsWithReplacement (dropEmpty a) size = combinationsWithReplacement a size := by
  simp only [permutations, product, combinations, combinationsWithReplacement, components_dropEmpty, sizeOf_dropEmpty,
    assemble_dropEmpty, and_self]

/-- the literal text-level expansions ignore empty-but-present labile / static / isotope / C-term / adduct lists (for EVERY
annotation: the text written is the same) -/
theorem expansionsText_dropEmpty (a : Annotation) (size : Option Nat) :
    permutationsText (dropEmpty a) size = permutationsText a size ∧ productText (dropEmpty a) size = productText a size ∧
    combinationsText (dropEmpty a) size = combinationsText a size ∧
    combinationsWithReplacementText (dropEmpty a) size = combinationsWithReplacementText a size := by
  simp only [permutationsText, productText, combinationsText, combinationsWithReplacementText, pieces_dropEmpty,
    sizeOf_dropEmpty, reparse_dropEmpty, and_self]

/-- `permutationsText_eq` ... `combinationsWithReplacementText_eq` with the weaker hypothesis `canon (dropEmpty a)`: the
literal text-level model returns exactly the annotation-level results also when some of the five lists are empty-but-present -/
theorem expansionsText_eq_ext (a : Annotation) (hc : canon (dropEmpty a) = true) (size : Option Nat) (hk : 1 ≤ sizeOf a size) :
    permutationsText a size = (permutations a size).map (fun r => .ok (.single r)) ∧
    productText a size = (product a size).map (fun r => .ok (.single r)) ∧
    combinationsText a size = (combinations a size).map (fun r => .ok (.single r)) ∧
    combinationsWithReplacementText a size = (combinationsWithReplacement a size).map (fun r => .ok (.single r)) := by
  obtain ⟨t1, t2, t3, t4⟩ := expansionsText_dropEmpty a size
  obtain ⟨e1, e2, e3, e4⟩ := expansions_dropEmpty a size
  have hk' : 1 ≤ sizeOf (dropEmpty a) size := hk
  rw [← t1, ← t2, ← t3, ← t4, ← e1, ← e2, ← e3, ← e4]
  exact ⟨permutationsText_eq _ hc size hk', productText_eq _ hc size hk', combinationsText_eq _ hc size hk',
    combinationsWithReplacementText_eq _ hc size hk'⟩

/-- every result parses, also from an annotation with empty-but-present labile / static / isotope / C-term / adduct lists -/
theorem results_parse_ext (plus : Plus) (a : Annotation) (hc : canon (dropEmpty a) = true) (size : Option Nat)
    (hk : 1 ≤ sizeOf a size) (r : Annotation)
    (hr : r ∈ permutations a size ∨ r ∈ product a size ∨ r ∈ combinations a size ∨ r ∈ combinationsWithReplacement a size) :
    parse true (serialize plus r) = .ok (.single r) := by
  obtain ⟨e1, e2, e3, e4⟩ := expansions_dropEmpty a size
  rw [← e1, ← e2, ← e3, ← e4] at hr
  exact results_parse plus (dropEmpty a) hc size hk r hr

/-- not canonical (three empty-but-present lists), but covered by the `_ext` theorems -/
def exEmpty : Annotation := { exA with labile := some [], cterm := some [], adducts := some [] }

example : canon exEmpty = false ∧ expandDomain exEmpty = false ∧ canon (dropEmpty exEmpty) = true ∧
    1 ≤ sizeOf exEmpty (some 2) := by decide +kernel

/-- for EVERY annotation (no hypothesis) the list fields of every result are `None` or non-empty with multipliers ≥ 1 -/
theorem results_lists_ok (a : Annotation) (sel : List (Char × List Mod)) :
    okList (wrap a sel).labile = true ∧ okList (wrap a sel).static = true ∧ okList (wrap a sel).isotope = true ∧
    okList (wrap a sel).unknown = true ∧ okList (wrap a sel).nterm = true ∧ okList (wrap a sel).cterm = true ∧
    okList (wrap a sel).adducts = true := by
  simp only [wrap, okList_normList, and_self]

/-- the normal form is reached after one round: wrapping a selection in the globals of a result is wrapping it in the
globals of the original input (for EVERY annotation) -/
theorem wrap_wrap (a : Annotation) (sel sel' : List (Char × List Mod)) : wrap (wrap a sel) sel' = wrap a sel' := by
  simp only [wrap, normList_idem]

example : wrap exEmpty (residues exEmpty) ≠ exEmpty ∧
    wrap (wrap exEmpty (residues exEmpty)) [('T', [])] = wrap exEmpty [('T', [])] := by decide

/-- an empty-but-present N-term list -/
def exEmptyNterm : Annotation := { seq := "PET".toList, internal := some [(1, [⟨.int 3, 1⟩])], nterm := some [] }

/-- an empty-but-present unknown-position list -/
def exEmptyUnknown : Annotation := { seq := "PET".toList, internal := some [(1, [⟨.int 3, 1⟩])], unknown := some [] }

/-- COUNTER-EXAMPLE to "every result parses" outside `canon`: with an empty-but-present N-term list the text starts with a
bare `-` and `parse` raises (the annotation-level `assemble` would give 6 results) -/
theorem empty_nterm_does_not_parse :
    serializeStart (constPlus false) exEmptyNterm = ['-'] ∧
    collect (permutationsText exEmptyNterm (some 2)) = .error .format ∧ (permutations exEmptyNterm (some 2)).length = 6 := by
  decide +kernel

/-- the same for an empty-but-present unknown-position list (a bare `?`) -/
theorem empty_unknown_does_not_parse :
    serializeStart (constPlus false) exEmptyUnknown = ['?'] ∧
    collect (combinationsText exEmptyUnknown (some 2)) = .error .format ∧ (combinations exEmptyUnknown (some 2)).length = 3 := by
  decide +kernel

/-- multipliers 0 and -2 (outside `canon` and `expandDomain`) -/
def exMult : Annotation :=
  { seq := "PET".toList, internal := some [(1, [⟨.int 3, 0⟩]), (2, [⟨.str "Phospho".toList, -2⟩])], charge := some 2 }

/-- COUNTER-EXAMPLE to "residues taken together with their own modifications" outside the domain: a multiplier < 1 is not
written and comes back as 1; the literal text-level model and `assemble` agree on it -/
theorem mult_below_one_normalised :
    modsAt exMult 1 = [⟨.int 3, 0⟩] ∧ modsAt (wrap exMult (residues exMult)) 1 = [⟨.int 3, 1⟩] ∧
    canon exMult = false ∧
    combinationsText exMult (some 2) = (combinations exMult (some 2)).map (fun r => .ok (.single r)) := by
  decide +kernel

end Pept.C19
