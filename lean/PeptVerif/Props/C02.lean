import PeptVerif.Spec.Mass
/-!
C02 — peptide mass and m/z equal the sum of their physical parts; agreement with an independent NIST reference.
Property theorems only (helper lemmas live in `Lemmas/Mass.lean`).
-/
namespace Pept.C02
open Pept Pept.Chem Pept.Spec

def absR (q : Rat) : Rat := if q < 0 then -q else q

/-- the 24 residue compositions of `constants.py::AA_COMPOSITIONS` are the hand-typed residue formulas -/
theorem residue_table_ok : Gen.aaComp = Spec.residueFormula := by decide +kernel

example : (lookup 87 Gen.aaComp) = some [(kC, 11), (kH, 10), (kN, 2), (kO, 1)] := by decide +kernel

/-- every hand-typed NIST nuclide mass agrees within 1e-8 with what the library derives from data/chem.txt
(monoisotopic table `ISOTOPIC_ATOMIC_MASSES`, recomputed in Lean from the generated nuclide list) -/
theorem nuclide_table_ok :
    Spec.nuclides.all (fun p => match elemMass true p.1 with
      | some m => decide (absR (m - p.2) ≤ 1 / 100000000)
      | none => false) = true := by decide +kernel

/-- average masses (Σ mass·abundance over data/chem.txt) agree within 1e-6 with the hand-typed isotopic compositions -/
theorem average_table_ok :
    Spec.isotopeTable.all (fun p => match elemMass false p.1, refElem false p.1 with
      | some m, some r => decide (absR (m - r) ≤ 1 / 1000000)
      | _, _ => false) = true := by decide +kernel

/-- particle constants of constants.py agree with CODATA within 1e-8, and the proton constant differs from
`m(¹H) − mₑ` (the charge carrier the ion tables encode) by ε with |ε| ≤ 2e-8 -/
theorem particles_ok :
    absR (Gen.protonMass - protonRef) ≤ 1 / 100000000 ∧
    absR (Gen.electronMass - electronRef) ≤ 1 / 100000000 ∧
    absR (Gen.neutronMass - neutronRef) ≤ 1 / 100000000 ∧
    (match elemMass true kH with
      | some h => decide (absR (Gen.protonMass - (h - Gen.electronMass)) ≤ 2 / 100000000)
      | none => false) = true := by decide +kernel

end Pept.C02
