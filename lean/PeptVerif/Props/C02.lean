import PeptVerif.Lemmas.Mass
/-!
C02 — peptide mass and m/z equal the sum of their physical parts; agreement with an independent NIST reference.
Property theorems only (helper lemmas live in `Lemmas/Mass.lean`).
-/
namespace Pept.C02
open Pept Pept.Chem Pept.Spec

def absR (q : Rat) : Rat := if q < 0 then -q else q

/-- the 24 residue compositions of `constants.py::AA_COMPOSITIONS` are the hand-typed residue formulas -/
theorem residue_table_ok : Gen.aaComp = Spec.residueFormula := by decide +kernel

example : (lookup 87 Gen.aaComp) = some [(kC, 11), (kH, 10), (kN, 2), (kO, 1)] := by decide +kernel

/-- every hand-typed NIST nuclide mass agrees within 1e-8 with what the library derives from data/chem.txt
(monoisotopic table `ISOTOPIC_ATOMIC_MASSES`, recomputed in Lean from the generated nuclide list) -/
theorem nuclide_table_ok :
    Spec.nuclides.all (fun p => match elemMass true p.1 with
      | some m => decide (absR (m - p.2) ≤ 1 / 100000000)
      | none => false) = true := by decide +kernel

/-- average masses (Σ mass·abundance over data/chem.txt) agree within 1e-6 with the hand-typed isotopic compositions -/
theorem average_table_ok :
    Spec.isotopeTable.all (fun p => match elemMass false p.1, refElem false p.1 with
      | some m, some r => decide (absR (m - r) ≤ 1 / 1000000)
      | _, _ => false) = true := by decide +kernel

/-- particle constants of constants.py agree with CODATA within 1e-8, and the proton constant differs from
`m(¹H) − mₑ` (the charge carrier the ion tables encode) by ε with |ε| ≤ 2e-8 -/
theorem particles_ok :
    absR (Gen.protonMass - protonRef) ≤ 1 / 100000000 ∧
    absR (Gen.electronMass - electronRef) ≤ 1 / 100000000 ∧
    absR (Gen.neutronMass - neutronRef) ≤ 1 / 100000000 ∧
    (match elemMass true kH with
      | some h => decide (absR (Gen.protonMass - (h - Gen.electronMass)) ≤ 2 / 100000000)
      | none => false) = true := by decide +kernel


/-- the backbone-offset table of the specification against what `adjust_mass` adds (neutral adjustment for `p`, `n`;
neutral + ion adjustment = offset + h⁺ for the 16 fragment types), both modes — kernel evaluation over the generated
tables -/
theorem adjust_tables_ok : Mass.adjustTablesOk = true := by decide +kernel

open Pept.Mass in
/-- **mass = specification sum** for every annotation in the domain of the specification (known residues and ion
type, every modification resolves), any charge (given or from the annotation, any sign), isotope offset, loss and
precision, both modes, every placement and multiplier, global rules included — on the fast path without an adduct
list.  (Full statement = the same with `adducts` arbitrary; it fails on the current code exactly by the adduct
arithmetic, see `mass_adducts_discrepancy` / `mass_eq_spec_full_false_on_current_code`.) -/
theorem mass_eq_spec_partial (env : Env) (a : Annotation) (o : Opts)
    (hlab : o.isotopeMods = none) (hlab' : a.isotope = none)
    (hadd : o.adducts = none) (hadd' : a.adducts = none)
    (hdom : inDomain env a o.ion o.mono none = true) :
    mass env a o = .ok (roundOpt (specMassT lib env a o.ion
      ((effCharge a o).getD 0) o.mono o.isotope o.loss none) o.precision) := by
  unfold inDomain at hdom
  simp only [Bool.and_eq_true] at hdom
  obtain ⟨⟨⟨⟨hres, hoff⟩, hmods⟩, hstat⟩, _⟩ := hdom
  have hB : a.seq.contains 'B' = false := by
    cases hc : a.seq.contains 'B' with
    | false => rfl
    | true =>
      have hm : 'B' ∈ a.seq := List.contains_iff_mem.mp hc
      have := List.all_eq_true.mp hres 'B' hm
      revert this; decide
  have hZ : a.seq.contains 'Z' = false := by
    cases hc : a.seq.contains 'Z' with
    | false => rfl
    | true =>
      have hm : 'Z' ∈ a.seq := List.contains_iff_mem.mp hc
      have := List.all_eq_true.mp hres 'Z' hm
      revert this; decide
  obtain ⟨v, hv⟩ := Option.isSome_iff_exists.mp hoff
  unfold mass massWith resolveArgs effLabels
  rw [hlab, hlab', hadd, hadd']
  simp only [pure_bind', hB, hZ, Bool.false_eq_true, if_false]
  unfold fastMass
  rw [staticMass_ok env o.mono a hstat, bind_ok, residueMass_ok o.mono a.seq residue_table_ok hres, bind_ok,
    placedModsMass_ok env o.mono a o.ion hmods, bind_ok, adjustMass_eq adjust_tables_ok _ _ _ _ _ _ _ v hv]
  unfold specMassT
  rw [hv]
  simp only [Option.getD_some]
  apply congrArg Except.ok
  apply congrArg (fun q => roundOpt q o.precision)
  ring

example : inDomain ⟨fun _ => ⟨.ok 1, .ok 1, .ok none, .ok []⟩, fun _ => .ok []⟩
    { seq := "PEPTIDE".toList, internal := some [(2, [⟨.int 7, 2⟩])] } 121 true none = true := by decide +kernel

end Pept.C02
