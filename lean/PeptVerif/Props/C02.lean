import PeptVerif.Lemmas.Mass
import PeptVerif.Lemmas.Label
import PeptVerif.Model.MassEnv
/-!
C02 — peptide mass and m/z equal the sum of their physical parts; agreement with an independent NIST reference.
Property theorems only (helper lemmas live in `Lemmas/Mass.lean`).
-/
namespace Pept.C02
open Pept Pept.Chem Pept.Spec

def absR (q : Rat) : Rat := if q < 0 then -q else q

/-- the 24 residue compositions of `constants.py::AA_COMPOSITIONS` are the hand-typed residue formulas -/
theorem residue_table_ok : Gen.aaComp = Spec.residueFormula := by decide +kernel

example : (lookup 87 Gen.aaComp) = some [(kC, 11), (kH, 10), (kN, 2), (kO, 1)] := by decide +kernel

/-- every hand-typed NIST nuclide mass agrees within 1e-8 with what the library derives from data/chem.txt
(monoisotopic table `ISOTOPIC_ATOMIC_MASSES`, recomputed in Lean from the generated nuclide list) -/
theorem nuclide_table_ok :
    Spec.nuclides.all (fun p => match elemMass true p.1 with
      | some m => decide (absR (m - p.2) ≤ 1 / 100000000)
      | none => false) = true := by decide +kernel

/-- average masses (Σ mass·abundance over data/chem.txt) agree within 1e-6 with the hand-typed isotopic compositions -/
theorem average_table_ok :
    Spec.isotopeTable.all (fun p => match elemMass false p.1, refElem false p.1 with
      | some m, some r => decide (absR (m - r) ≤ 1 / 1000000)
      | _, _ => false) = true := by decide +kernel

/-- particle constants of constants.py agree with CODATA within 1e-8, and the proton constant differs from
`m(¹H) − mₑ` (the charge carrier the ion tables encode) by ε with |ε| ≤ 2e-8 -/
theorem particles_ok :
    absR (Gen.protonMass - protonRef) ≤ 1 / 100000000 ∧
    absR (Gen.electronMass - electronRef) ≤ 1 / 100000000 ∧
    absR (Gen.neutronMass - neutronRef) ≤ 1 / 100000000 ∧
    (match elemMass true kH with
      | some h => decide (absR (Gen.protonMass - (h - Gen.electronMass)) ≤ 2 / 100000000)
      | none => false) = true := by decide +kernel


/-- the backbone-offset table of the specification against what `adjust_mass` adds (neutral adjustment for `p`, `n`;
neutral + ion adjustment = offset + h⁺ for the 16 fragment types), both modes — kernel evaluation over the generated
tables -/
theorem adjust_tables_ok : Mass.adjustTablesOk = true := by decide +kernel

open Pept.Mass in
/-- **mass = specification sum** for every annotation in the domain of the specification (known residues and ion
type, every modification resolves), any charge (given or from the annotation, any sign), isotope offset, loss and
precision, both modes, every placement and multiplier, global rules included — on the fast path without an adduct
list.  (Full statement = the same with `adducts` arbitrary; it fails on the current code exactly by the adduct
arithmetic, see `mass_adducts_discrepancy` / `mass_eq_spec_full_false_on_current_code`.) -/
theorem mass_eq_spec_partial (env : Env) (a : Annotation) (o : Opts)
    (hlab : o.isotopeMods = none) (hlab' : a.isotope = none)
    (hadd : o.adducts = none) (hadd' : a.adducts = none)
    (hdom : inDomain env a o.ion o.mono none = true) :
    mass env a o = .ok (roundOpt (specMassT lib env a o.ion
      ((effCharge a o).getD 0) o.mono o.isotope o.loss none) o.precision) :=
  mass_eq_spec_of_tables residue_table_ok adjust_tables_ok env a o hlab hlab' hadd hadd' hdom

example : inDomain ⟨fun _ => ⟨.ok 1, .ok 1, .ok none, .ok []⟩, fun _ => .ok []⟩
    { seq := "PEPTIDE".toList, internal := some [(2, [⟨.int 7, 2⟩])] } 121 true none = true := by decide +kernel


open Pept.Mass in
/-- `mz` = specification mass divided by the charge in force (undivided when that charge is 0), rounded last -/
theorem mz_eq_spec_partial (env : Env) (a : Annotation) (o : Opts)
    (hlab : o.isotopeMods = none) (hlab' : a.isotope = none)
    (hadd : o.adducts = none) (hadd' : a.adducts = none)
    (hdom : inDomain env a o.ion o.mono none = true) :
    mz env a o = .ok (adjustMz (specMassT lib env a o.ion ((effCharge a o).getD 0) o.mono o.isotope o.loss none)
      (effCharge a o) o.precision) := by
  have hc : effCharge a { o with charge := effCharge a o, precision := none, useIsotopeOnMods := false } = effCharge a o := by
    unfold effCharge
    cases o.charge with
    | some c => rfl
    | none => cases a.charge <;> rfl
  have hm := mass_eq_spec_partial env a { o with charge := effCharge a o, precision := none, useIsotopeOnMods := false }
    hlab hlab' hadd hadd' hdom
  rw [hc] at hm
  unfold mz mzWith
  unfold mass at hm
  dsimp only at hm ⊢
  rw [hm]
  rfl

/-- for a positive charge the m/z is the mass divided by the charge -/
theorem adjustMz_pos (m : Rat) (z : Int) (hz : 0 < z) : Mass.adjustMz m (some z) none = m / (z : Rat) := by
  unfold Mass.adjustMz
  have : z ≠ 0 := by omega
  simp [roundOpt, this]

/-- `precision = p ≥ 0` moves the result by at most half a unit of the last place: |round(x, p) − x| ≤ ½·10⁻ᵖ -/
theorem precision_bound (q : Rat) (p : Nat) :
    roundOpt q (some (p : Int)) - q ≤ 1 / 2 / pow10 p ∧ q - roundOpt q (some (p : Int)) ≤ 1 / 2 / pow10 p :=
  pyRound_bound q p

open Pept.Mass in
/-- the adduct arithmetic of the current code, exactly: for one stated ion `count × symbol^charge` (not an electron)
`_parse_adduct_mass` returns count·(m − q·mₑ) **plus** q·mₑ·(count − 1): the electron correction is applied once instead
of `count` times (known finding KF-C02-adduct-electron-count; pinned by doctests) -/
theorem adductMass_discrepancy (mono : Bool) (x : List Nat) (cnt : Int) (sym : Key) (q : Int) (m : Rat)
    (hp : parseIonElements x = .ok (cnt, sym, q)) (he : sym ≠ kE)
    (hm : lookup sym (if mono then isotopicMasses else averageMasses) = some m) :
    adductMass mono x = .ok ((cnt : Rat) * (m - (q : Rat) * Gen.electronMass)
      + (q : Rat) * Gen.electronMass * ((cnt : Rat) - 1)) := by
  unfold adductMass
  rw [hp, bind_ok]
  simp only [he, if_false]
  rw [Mass.adductElemMass_of_table mono sym m hm]
  apply congrArg Except.ok
  ring

/-- so with every count equal to 1 the stated ion contributes exactly m − q·mₑ -/
theorem adductMass_count_one (mono : Bool) (x : List Nat) (sym : Key) (q : Int) (m : Rat)
    (hp : Mass.parseIonElements x = .ok (1, sym, q)) (he : sym ≠ kE)
    (hm : lookup sym (if mono then isotopicMasses else averageMasses) = some m) :
    Mass.adductMass mono x = .ok (m - (q : Rat) * Gen.electronMass) := by
  rw [adductMass_discrepancy mono x 1 sym q m hp he hm]
  apply congrArg Except.ok
  push_cast
  ring

/-- the full statement (adduct lists included) is false on the current code: `PEPTIDE/2[+2Na+]` -/
theorem mass_eq_spec_full_false_on_current_code :
    Mass.mass ⟨fun _ => default, fun _ => .ok []⟩
      { seq := "PEPTIDE".toList, charge := some 2, adducts := some [⟨.str "+2Na+".toList, 1⟩] } {}
    ≠ .ok (specMassT lib ⟨fun _ => default, fun _ => .ok []⟩ { seq := "PEPTIDE".toList } Mass.ionP 2 true 0 0
        (some ("+2Na+".toList.map Char.toNat))) := by decide +kernel


/-- every key of `AVERAGE_ATOMIC_MASSES` is an element symbol present in `ISOTOPIC_ATOMIC_MASSES` (118 elements) -/
theorem avg_keys_ok : Mass.avgKeysOk = true := by decide +kernel

open Pept.Mass in
/-- **mass with an explicit adduct list, full characterisation of the current code** (peptide ion types `p`/`n`; the
list comes from the argument or from the annotation): the specification sum — charge term = Σ count·(m(ion) − q·mₑ) —
**plus** `adductDefect` = Σ q·mₑ·(count − 1) over the stated non-electron ions (`PROTON_MASS − (m(H) − mₑ)` for the
literal `+H+`).  The defect is the known finding KF-C02-adduct-electron-count; it vanishes when every count is 1
(`adductDefect_counts_one`). -/
theorem mass_eq_spec_adducts (env : Env) (a : Annotation) (o : Opts) (s : List Char)
    (hr : resolveArgs a o = .ok ⟨effCharge a o, some (.str s), none⟩)
    (hdom : inDomain env a o.ion o.mono (some (s.map Char.toNat)) = true) :
    mass env a o = .ok (roundOpt (specMassT lib env a o.ion ((effCharge a o).getD 0) o.mono o.isotope o.loss
        (some (s.map Char.toNat)) + adductDefect o.mono (s.map Char.toNat)) o.precision) :=
  mass_eq_spec_adducts_of_tables residue_table_ok adjust_tables_ok avg_keys_ok env a o s hr hdom

open Pept.Mass in
/-- when every stated ion has count 1 (or is an electron) and the list is not the literal `+H+`, the defect is 0:
then mass = specification sum exactly, i.e. "charging adds exactly the stated adduct ions" -/
theorem adductDefect_counts_one (mono : Bool) (s : List Nat) (hs : s ≠ [43, 72, 43])
    (h : ∀ x ∈ splitComma s, ∀ cnt sym q, parseIonElements x = .ok (cnt, sym, q) → sym = kE ∨ cnt = 1) :
    adductDefect mono s = 0 := by
  unfold adductDefect
  simp only [hs, if_false]
  have : ∀ l : List (List Nat), (∀ x ∈ l, adductDefectIon x = 0) → Spec.sumR (l.map adductDefectIon) = 0 := by
    intro l
    induction l with
    | nil => intro _; rfl
    | cons x l ih =>
      intro hl
      rw [List.map_cons, Spec.sumR_cons, hl x List.mem_cons_self, ih (fun y hy => hl y (List.mem_cons_of_mem _ hy))]
      ring
  apply this
  intro x hx
  unfold adductDefectIon
  cases hp : parseIonElements x with
  | error e => rfl
  | ok r =>
    obtain ⟨cnt, sym, q⟩ := r
    rcases h x hx cnt sym q hp with he | hc
    · simp [he]
    · simp only [hc]
      split <;> simp

-- non-vacuity: PEPTIDE/2[+Na+,+K+] (annotation adducts) and an adduct argument on an uncharged peptide
example : Mass.resolveArgs { seq := "PEPTIDE".toList, charge := some 2, adducts := some [⟨.str "+Na+,+K+".toList, 1⟩] } {}
    = .ok ⟨some 2, some (.str "+Na+,+K+".toList), none⟩ := rfl
example : inDomain ⟨fun _ => default, fun _ => .ok []⟩
    { seq := "PEPTIDE".toList, charge := some 2, adducts := some [⟨.str "+Na+,+K+".toList, 1⟩] } Mass.ionP false
    (some ("+Na+,+K+".toList.map Char.toNat)) = true := by decide +kernel


/-! ### from the library's tables to the independent reference -/

/-- the element keys of the hand-typed monoisotopic reference (the 21 nuclides) -/
def refKeys : List Elem := nuclides.map (·.1)

/-- per key, library (data/chem.txt through the model) vs hand-typed NIST value: within 1e-8 -/
theorem nuclide_keys_close :
    refKeys.all (fun e => decide (-(1 / 100000000 : Rat) ≤ lib.elem true e - nist.elem true e) &&
      decide (lib.elem true e - nist.elem true e ≤ 1 / 100000000)) = true := by decide +kernel

open Pept.Mass in
/-- **the library's monoisotopic mass of any composition over the reference nuclides is within 1e-8·Σ|count| of the
mass computed from the hand-typed NIST table** — the bridge from "model = specification over the library's tables"
(`mass_eq_spec_partial`) to "agreement with an independently computed reference": e.g. a peptide of 300 atoms is within
3·10⁻⁶ Da, inside the property's 10⁻⁵ -/
theorem reference_closeness (c : Comp) (hc : ∀ p ∈ c, p.1 ∈ refKeys) :
    lib.compMass true c - nist.compMass true c ≤ 1 / 100000000 * l1 c ∧
    -(1 / 100000000 * l1 c) ≤ lib.compMass true c - nist.compMass true c := by
  apply chemMassL_close (lib.elem true) (nist.elem true) (1 / 100000000) refKeys _ c hc
  intro e he
  have := List.all_eq_true.mp nuclide_keys_close e he
  simp only [Bool.and_eq_true, decide_eq_true_eq] at this
  exact this

example : ∀ p ∈ ([(kC, 34), (kH, 53), (kN, 7), (kO, 15)] : Comp), p.1 ∈ refKeys := by decide +kernel


/-! ### precision -/

open Pept.Mass in
/-- **`precision` is applied last, on both code paths** (fast path and isotope-label / composition path): the result
with `precision = p` is the rounding of the result with `precision = None`, errors unchanged -/
theorem mass_precision_last (env : Env) (a : Annotation) (o : Opts) :
    mass env a o = (mass env a { o with precision := none }).map (fun x => roundOpt x o.precision) := by
  unfold mass massWith
  have hr : resolveArgs a { o with precision := none } = resolveArgs a o := rfl
  rw [hr]
  cases resolveArgs a o with
  | error e => rfl
  | ok r =>
    simp only [bind_ok]
    cases hB : a.seq.contains 'B' with
    | true => rfl
    | false =>
      cases hZ : a.seq.contains 'Z' with
      | true => rfl
      | false =>
        simp only [Bool.false_eq_true, if_false]
        cases hi : r.isotopeMods with
        | none => exact fastMass_precision_last env a o r
        | some l =>
          cases l with
          | nil => exact fastMass_precision_last env a o r
          | cons m ms =>
            simp only
            cases CompCalc.compMass env a o.ion r.charge o.isotope r.adducts (some (m :: ms)) o.useIsotopeOnMods with
            | error e => rfl
            | ok cd =>
              simp only [bind_ok]
              cases chemMass o.mono cd.1 none with
              | error e => rfl
              | ok cmv => rfl

open Pept.Mass in
/-- hence, on both paths, `precision = p ≥ 0` moves the mass by at most half a unit of the last place -/
theorem mass_precision_bound (env : Env) (a : Annotation) (o : Opts) (p : Nat) (x : Rat)
    (hx : mass env a { o with precision := none } = .ok x) :
    ∃ y, mass env a { o with precision := some (p : Int) } = .ok y ∧
      y - x ≤ 1 / 2 / pow10 p ∧ x - y ≤ 1 / 2 / pow10 p := by
  refine ⟨pyRound x (p : Int), ?_, pyRound_bound x p⟩
  rw [mass_precision_last]
  show (mass env a { o with precision := none }).map _ = _
  rw [hx]
  rfl


/-! ### the rule parser instantiated -/

open Pept.Mass in
/-- `mass_eq_spec_partial` with the concrete model of `parse_static_mods` (C12's `Static.parseStaticMods`) in place of the
parameter: global rules are read by the modelled parser, and `inDomain` then asks that this parser accepts them -/
theorem mass_eq_spec_concrete (res : ModVal → Res) (a : Annotation) (o : Opts)
    (hlab : o.isotopeMods = none) (hlab' : a.isotope = none)
    (hadd : o.adducts = none) (hadd' : a.adducts = none)
    (hdom : inDomain (Env.concrete res) a o.ion o.mono none = true) :
    mass (Env.concrete res) a o = .ok (roundOpt (specMassT lib (Env.concrete res) a o.ion
      ((effCharge a o).getD 0) o.mono o.isotope o.loss none) o.precision) :=
  mass_eq_spec_partial (Env.concrete res) a o hlab hlab' hadd hadd' hdom

-- non-vacuity: `<[+10][1.5]^2@T,N-Term>PEPTIDTE`, every value resolving to a number
example : inDomain (Env.concrete fun _ => ⟨.ok 10, .ok 10, .ok (some 10), .error .valueError⟩)
    { seq := "PEPTIDTE".toList, static := some [⟨.str "[+10][1.5]^2@T,N-Term".toList, 1⟩] } Mass.ionP true none = true := by
  decide +kernel


/-! ### the isotope-label path: sum of parts with the element substituted -/

/-- the two encodings of every +1 ion agree (same obligation as `C03.ion_tables_agree`; needed here for fragment carriers) -/
theorem ion_tables_ok : CompCalc.ionTablesOk = true := by decide +kernel

open Pept.Mass Pept.CompCalc Pept.Label in
/-- **mass of an isotope-labelled peptide = the sum of its parts with the element replaced by the label.**
With global isotope labels `L` in force (argument or annotation; `lm` = the parsed map element ↦ label) the model's
composition path returns, rounded last,

  `[Σ residues + ion-type offset + charge carrier]` (= `chemMassL sb`, spelled out in the library's terms)
  `+ labelShift sb lm`  — the label applied to residues, termini / ion offset and charge carrier
  `+ [Σ mult·(composition mass of each modification) + isotope·mₙ]` (= `chemMassL mc`)
  `+ labelShift mc lm` only with `use_isotope_on_mods`
  `+ δ` (the plain mass shifts) `+ loss`,

where `labelShift ν c lm` = Σ over the entries (element ↦ label) of count(element in c)·(m(label) − m(element)), each
entry seeing the composition left by the previous ones (`labelShift_single`, `compGet_addAll`: counts add over residues,
offset and carrier).  `chemMassL mc + δ` is the modification sum of the unlabelled specification up to the row gaps.
Same shape as `C12.label_shift` (x − y = labelShift sequence-part + [use_isotope_on_mods] labelShift mod-part).
Scope: no global static rule, no explicit adduct list (both are tied by correspondence on this path). -/
theorem mass_label_eq_spec (env : Env) (a : Annotation) (o : Opts)
    (L : List Mod) (lm : List (Key × Key)) (hL : effLabels a o = some L) (hLne : L ≠ [])
    (hparse : parseIsotopeMods L = .ok lm)
    (hstatic : a.static = none) (had : o.adducts = none) (had' : a.adducts = none)
    (hres : KnownResidues a.seq) (hcons : AllConsistent env o.mono (writtenMods a))
    (hadj : (lookup o.ion neutralAdj).isSome = true)
    (hion : o.ion = ionP ∨ o.ion = ionN ∨ (lookup o.ion Gen.ionComp).isSome = true)
    (hknown : ∀ c d, compMass env a o.ion (effCharge a o) o.isotope none (some L) o.useIsotopeOnMods = .ok (c, d) →
      c.all (fun p => (elemMass o.mono p.1).isSome) = true) :
    ∃ sb mc d, NodupKeys sb ∧ NodupKeys mc ∧
      chemMassL (μ o.mono) sb = resSum o.mono a.seq + (fragmentAdjMass o.mono o.ion).getD 0
        + carrierMassLib o.mono o.ion ((effCharge a o).getD 0) ∧
      chemMassL (μ o.mono) mc + d + gapSum env o.mono (placedMods a o.ion)
        = modsValue env o.mono (placedMods a o.ion) + (o.isotope : Rat) * Gen.neutronMass ∧
      mass env a o = .ok (roundOpt (chemMassL (μ o.mono) sb + labelShift (μ o.mono) sb lm
        + (chemMassL (μ o.mono) mc + (if o.useIsotopeOnMods then labelShift (μ o.mono) mc lm else 0)) + d + o.loss)
        o.precision) :=
  mass_label_of_tables ion_tables_ok env a o L lm hL hLne hparse hstatic had had' hres hcons hadj hion hknown

open Pept.Label in
/-- one label `element ↦ label`: the shift is (#atoms of the element) × (m(label) − m(element)) -/
theorem label_shift_single (ν : Elem → Rat) (c : Comp) (el lab : Key) (h : el ≠ lab) :
    labelShift ν c [(el, lab)] = compGet c el * (ν lab - ν el) := labelShift_single ν c el lab h

open Pept.Label in
/-- the atoms of an element add up over the merged parts (residues, ion offset, charge carrier) -/
theorem label_count_additive (a b : Comp) (e : Elem) (hb : NodupKeys b) :
    compGet (addAll a b) e = compGet a e + compGet b e := compGet_addAll a b e hb

open Pept.Label in
/-- relabelling a composition with distinct keys changes its mass by exactly `labelShift` -/
theorem relabel_mass_shift (ν : Elem → Rat) (c : Comp) (lm : List (Key × Key)) (h : NodupKeys c) :
    chemMassL ν (CompCalc.relabel c lm) = chemMassL ν c + labelShift ν c lm := relabel_mass ν c lm h

-- non-vacuity: `<13C>` parses to C ↦ 13C; glycine residue + water: two carbons move, shift = 2·(m(13C) − m(C))
example : CompCalc.parseIsotopeMods [⟨.str "13C".toList, 1⟩] = .ok [(kC, Spec.k "13C")] := by decide +kernel
example : Label.labelShift (fun e => if e = Spec.k "13C" then 13 else if e = kC then 12 else 1)
    [(kC, 2), (kH, 5), (kN, 1), (kO, 2)] [(kC, Spec.k "13C")] = 2 := by decide +kernel

/-- A caller that rounds the mass to `p` places FIRST and then asks `adjust_mz` for `p` places (the fragment path: `fragment()` hands the
rounded fragment mass to `adjust_mz`) is within `½·10⁻ᵖ·(1 + 1/z)` of the exact quotient - the half-unit bound does not hold for it.
`mz()` itself rounds once (it asks `mass` for the unrounded value): `mz_eq_spec_partial`, `mass_precision_last`. -/
theorem mz_double_rounding_bound (m : Rat) (z p : Nat) (hz : 0 < z) :
    Mass.adjustMz (pyRound m (p : Int)) (some (z : Int)) (some (p : Int)) - m / (z : Rat) ≤ 1 / 2 / pow10 p * (1 + 1 / (z : Rat)) ∧
    m / (z : Rat) - Mass.adjustMz (pyRound m (p : Int)) (some (z : Int)) (some (p : Int)) ≤ 1 / 2 / pow10 p * (1 + 1 / (z : Rat)) := by
  have hz' : (0 : Rat) < (z : Rat) := by exact_mod_cast hz
  have hne : ¬ ((z : Int) = 0) := by exact_mod_cast hz.ne'
  have hm : Mass.adjustMz (pyRound m (p : Int)) (some (z : Int)) (some (p : Int))
      = pyRound (pyRound m (p : Int) / (z : Rat)) (p : Int) := by
    unfold Mass.adjustMz
    simp [roundOpt, hz.ne']
  rw [hm]
  have b1 := pyRound_bound (pyRound m (p : Int) / (z : Rat)) p
  have b2 := pyRound_bound m p
  have e1 : (pyRound m (p : Int) - m) / (z : Rat) ≤ 1 / 2 / pow10 p / (z : Rat) := div_le_div_of_nonneg_right b2.1 hz'.le
  have e2 : (m - pyRound m (p : Int)) / (z : Rat) ≤ 1 / 2 / pow10 p / (z : Rat) := div_le_div_of_nonneg_right b2.2 hz'.le
  have k : 1 / 2 / pow10 p * (1 + 1 / (z : Rat)) = 1 / 2 / pow10 p + 1 / 2 / pow10 p / (z : Rat) := by ring
  rw [k]
  rw [sub_div] at e1 e2
  constructor <;> linarith [b1.1, b1.2]

end Pept.C02
