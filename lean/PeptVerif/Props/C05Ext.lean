import PeptVerif.Props.C05
import PeptVerif.Lemmas.C05Ext
/-!
C05, round-5 extension.  Property theorems only; same objects as `Props/C05.lean`: the executable model of
`mass(ion_type=…)` / `mz(…)` (driver ops `mass`, `mz`, run against the real code on every check) over the regenerated tables.

* complementary pairs for every forward / backward pair at arbitrary charges, isotope offsets and losses;
* neutral loss and isotope offset shift every ion by exactly the loss / isotope · neutron mass;
* the closed form of the charge relation for every pair of charges (negative included) and m/z for every z ≠ 0;
* an internal ion is a difference of two prefix (b) ions plus the pair offset plus h⁺;
* a forward / backward series grows strictly with the fragment number (all residue masses of the table are positive);
* which pieces carry a terminal modification: the N-terminal one every prefix and no suffix / internal piece, the
  C-terminal one every suffix; global (static) rules only through the residues the piece contains.
-/
namespace Pept.C05
open Pept Pept.Chem Pept.Mass Pept.Spec

local notation "tR" => Pept.C02.residue_table_ok
local notation "tA" => Pept.C02.adjust_tables_ok

/-- the middle piece of a double cleavage: residues `s₂` with their residue mods, no terminus -/
def midAnn (s₂ : List Char) (I₂ : List (Int × List Mod)) : Annotation := { seq := s₂, internal := some I₂ }

/-- **complementary pairs, all nine**: for a cleavage `s₁ | s₂`, forward type `f ∈ {a,b,c}` on the N-terminal piece and backward
type `g ∈ {x,y,z}` on the C-terminal piece, at any charges, isotope offsets and losses:
`f + g = M + 2h⁺ + off(f) + off(g) + (z₁+z₂−2)·proton + (iso₁+iso₂)·neutron + loss₁ + loss₂` -/
theorem complementary_pairs (env : Env) (mono : Bool) (s₁ s₂ : List Char) (nt ct : Option (List Mod))
    (I₁ I₂ : List (Int × List Mod))
    (hb : fragDomain env (prefixAnn s₁ nt I₁) mono) (hy : fragDomain env (suffixAnn s₂ ct I₂) mono)
    (hM : inDomain env (wholeAnn s₁ s₂ nt ct I₁ I₂) ionP mono none = true)
    (f g : Key) (hf : f ∈ [k "a", k "b", k "c"]) (hg : g ∈ [k "x", k "y", k "z"])
    (z₁ z₂ iso₁ iso₂ : Int) (l₁ l₂ : Rat) :
    ∃ mf mg M, mass env (prefixAnn s₁ nt I₁) (ionQuery f z₁ mono iso₁ l₁) = .ok mf ∧
      mass env (suffixAnn s₂ ct I₂) (ionQuery g z₂ mono iso₂ l₂) = .ok mg ∧
      mass env (wholeAnn s₁ s₂ nt ct I₁ I₂) (ionQuery ionP 0 mono 0 0) = .ok M ∧
      mf + mg = M + 2 * lib.hplus mono + (seriesOffset lib mono f).getD 0 + (seriesOffset lib mono g).getD 0
        + ((z₁ : Rat) + (z₂ : Rat) - 2) * Gen.protonMass + ((iso₁ : Rat) + (iso₂ : Rat)) * Gen.neutronMass + l₁ + l₂ := by
  obtain ⟨of, hfp, hfn⟩ := offset_forward mono f hf
  obtain ⟨og, hgp, hgn⟩ := offset_backward mono g hg
  refine ⟨_, _, _, fragMass tR tA env _ mono hb f hfp hfn _ of z₁ iso₁ l₁,
    fragMass tR tA env _ mono hy g hgp hgn _ og z₂ iso₂ l₂,
    precursorMass tR tA env _ mono rfl rfl hM 0 0 0, ?_⟩
  have hfm : (I₂.map (fun p => (p.1 + (s₁.length : Int), p.2))).flatMap (·.2) = I₂.flatMap (·.2) := by
    rw [List.flatMap_map]
  have hp : lib.proton = Gen.protonMass := rfl
  have hn : lib.neutron = Gen.neutronMass := rfl
  unfold ionBase residueSum staticValue placedMods prefixAnn suffixAnn wholeAnn
  simp only [Option.getD_none, Option.getD_some, List.flatMap_nil, List.append_nil, List.nil_append,
    List.map_append, sumR_append, modsValue_append, List.flatMap_append, hfm, if_true]
  have h98 : (98 : Key) = ionP ↔ False := by decide
  simp only [h98, if_false, modsValue, List.map_nil, sumR_nil, hp, hn]
  push_cast
  ring

/-- **a_i + x_(n−i) = M + 2h⁺ − H2 and c_i + z_(n−i) = M + 2h⁺** (singly charged; b/y is `b_plus_y`) -/
theorem complementary_ax_cz (env : Env) (mono : Bool) (s₁ s₂ : List Char) (nt ct : Option (List Mod))
    (I₁ I₂ : List (Int × List Mod))
    (hb : fragDomain env (prefixAnn s₁ nt I₁) mono) (hy : fragDomain env (suffixAnn s₂ ct I₂) mono)
    (hM : inDomain env (wholeAnn s₁ s₂ nt ct I₁ I₂) ionP mono none = true) :
    ∃ ma mx mc mz M, mass env (prefixAnn s₁ nt I₁) (ionQuery (k "a") 1 mono 0 0) = .ok ma ∧
      mass env (suffixAnn s₂ ct I₂) (ionQuery (k "x") 1 mono 0 0) = .ok mx ∧
      mass env (prefixAnn s₁ nt I₁) (ionQuery (k "c") 1 mono 0 0) = .ok mc ∧
      mass env (suffixAnn s₂ ct I₂) (ionQuery (k "z") 1 mono 0 0) = .ok mz ∧
      mass env (wholeAnn s₁ s₂ nt ct I₁ I₂) (ionQuery ionP 0 mono 0 0) = .ok M ∧
      ma + mx = M + 2 * lib.hplus mono - lib.compMass mono fH2 ∧ mc + mz = M + 2 * lib.hplus mono := by
  obtain ⟨ma, mx, M, h1, h2, h3, h4⟩ := complementary_pairs env mono s₁ s₂ nt ct I₁ I₂ hb hy hM (k "a") (k "x")
    (by decide) (by decide) 1 1 0 0 0 0
  obtain ⟨mc, mz, M', h5, h6, h7, h8⟩ := complementary_pairs env mono s₁ s₂ nt ct I₁ I₂ hb hy hM (k "c") (k "z")
    (by decide) (by decide) 1 1 0 0 0 0
  have hMM : M' = M := by rw [h3] at h7; exact (Except.ok.inj h7).symm
  subst hMM
  refine ⟨ma, mx, mc, mz, M', h1, h2, h5, h6, h3, ?_, ?_⟩
  · rw [h4]
    have ha : (seriesOffset lib mono (k "a")).getD 0 = -(lib.compMass mono fCO) := rfl
    have hx : (seriesOffset lib mono (k "x")).getD 0 = lib.compMass mono fCO - lib.compMass mono fH2 := rfl
    rw [ha, hx]; push_cast; ring
  · rw [h8]
    have hc : (seriesOffset lib mono (k "c")).getD 0 = lib.compMass mono fNH3 := rfl
    have hz : (seriesOffset lib mono (k "z")).getD 0 = -(lib.compMass mono fNH3) := rfl
    rw [hc, hz]; push_cast; ring

/-- **a neutral loss and an isotope offset shift every ion by exactly `loss` and `isotope · NEUTRON_MASS`**: every ion
type (precursor included), every charge -/
theorem loss_isotope_shift (env : Env) (a : Annotation) (t : Key) (mono : Bool) (hl : a.isotope = none)
    (had : a.adducts = none) (hdom : inDomain env a t mono none = true) (z iso : Int) (loss : Rat) :
    ∃ m, mass env a (ionQuery t z mono 0 0) = .ok m ∧
      mass env a (ionQuery t z mono iso loss) = .ok (m + (iso : Rat) * Gen.neutronMass + loss) := by
  refine ⟨_, mass_eq_spec_of_tables tR tA env a (ionQuery t z mono 0 0) rfl hl rfl had hdom, ?_⟩
  rw [mass_eq_spec_of_tables tR tA env a (ionQuery t z mono iso loss) rfl hl rfl had hdom]
  apply congrArg Except.ok
  show specMassT lib env a t z mono iso loss none = specMassT lib env a t z mono 0 0 none + (iso : Rat) * Gen.neutronMass + loss
  unfold specMassT
  have hn : lib.neutron = Gen.neutronMass := rfl
  rw [hn]; push_cast; ring

/-- **charge relation in closed form**: for any two charges `z₀`, `z` (zero and negative included) the masses of the same
ion differ by `(z − z₀) · PROTON_MASS` -/
theorem charge_difference (env : Env) (a : Annotation) (t : Key) (mono : Bool) (hl : a.isotope = none)
    (had : a.adducts = none) (hdom : inDomain env a t mono none = true) (z₀ z iso : Int) (loss : Rat) :
    ∃ m, mass env a (ionQuery t z₀ mono iso loss) = .ok m ∧
      mass env a (ionQuery t z mono iso loss) = .ok (m + ((z : Rat) - (z₀ : Rat)) * Gen.protonMass) := by
  refine ⟨_, mass_eq_spec_of_tables tR tA env a (ionQuery t z₀ mono iso loss) rfl hl rfl had hdom, ?_⟩
  rw [mass_eq_spec_of_tables tR tA env a (ionQuery t z mono iso loss) rfl hl rfl had hdom]
  apply congrArg Except.ok
  show specMassT lib env a t z mono iso loss none = specMassT lib env a t z₀ mono iso loss none + _
  unfold specMassT Spec.chargeTerm
  have hp : lib.proton = Gen.protonMass := rfl
  split_ifs <;> rw [hp] <;> ring

/-- **m/z for every charge z ≠ 0, negative included**: `mz` of a fragment ion is
`(m₁ + (z − 1) · PROTON_MASS) / z` with `m₁` its singly charged mass (the code divides by the signed charge) -/
theorem mz_charge_relation (env : Env) (a : Annotation) (t : Key) (mono : Bool) (hl : a.isotope = none)
    (had : a.adducts = none) (hdom : inDomain env a t mono none = true) (z iso : Int) (hz : z ≠ 0) (loss : Rat) :
    ∃ m₁, mass env a (ionQuery t 1 mono iso loss) = .ok m₁ ∧
      mz env a (ionQuery t z mono iso loss) = .ok ((m₁ + ((z : Rat) - 1) * Gen.protonMass) / (z : Rat)) := by
  obtain ⟨m₁, h1, h2⟩ := charge_difference env a t mono hl had hdom 1 z iso loss
  refine ⟨m₁, h1, ?_⟩
  rw [mz_of_mass env a t z mono iso loss _ h2, if_neg hz]
  push_cast
  rfl

/-- **an internal ion is a difference of two prefix ions**: for `s₁ | s₂ | …`, forward `f`, backward `g`:
`fg[s₂] (z) = b[s₁ ++ s₂] (z) − b[s₁] (1) + h⁺ + off(f) + off(g)`, N-terminal mods and residue mods of `s₁` cancel -/
theorem internal_prefix_difference (env : Env) (mono : Bool) (s₁ s₂ : List Char) (nt : Option (List Mod))
    (I₁ I₂ : List (Int × List Mod))
    (h₁ : fragDomain env (prefixAnn s₁ nt I₁) mono)
    (h₂ : fragDomain env (prefixAnn (s₁ ++ s₂) nt (I₁ ++ I₂.map (fun p => (p.1 + (s₁.length : Int), p.2)))) mono)
    (hm : fragDomain env (midAnn s₂ I₂) mono)
    (f g : Key) (hf : f ∈ [k "a", k "b", k "c"]) (hg : g ∈ [k "x", k "y", k "z"]) (z iso : Int) (loss : Rat) :
    ∃ b₁ b₂, mass env (prefixAnn s₁ nt I₁) (ionQuery (k "b") 1 mono 0 0) = .ok b₁ ∧
      mass env (prefixAnn (s₁ ++ s₂) nt (I₁ ++ I₂.map (fun p => (p.1 + (s₁.length : Int), p.2))))
        (ionQuery (k "b") z mono iso loss) = .ok b₂ ∧
      mass env (midAnn s₂ I₂) (ionQuery (f * 256 + g) z mono iso loss)
        = .ok (b₂ - b₁ + lib.hplus mono + (seriesOffset lib mono f).getD 0 + (seriesOffset lib mono g).getD 0) := by
  obtain ⟨_, ob, _, _, _, _, _⟩ := offsets mono
  have hfg := offset_internal mono f g hf hg
  have hne : f * 256 + g ≠ ionP ∧ f * 256 + g ≠ ionN := by
    simp only [List.mem_cons, List.mem_nil_iff, or_false] at hf hg
    rcases hf with rfl | rfl | rfl <;> rcases hg with rfl | rfl | rfl <;> decide
  refine ⟨_, _, fragMass tR tA env _ mono h₁ (k "b") (by decide) (by decide) _ ob 1 0 0,
    fragMass tR tA env _ mono h₂ (k "b") (by decide) (by decide) _ ob z iso loss, ?_⟩
  rw [fragMass tR tA env _ mono hm (f * 256 + g) hne.1 hne.2 _ hfg z iso loss]
  apply congrArg Except.ok
  have hfm : (I₂.map (fun p => (p.1 + (s₁.length : Int), p.2))).flatMap (·.2) = I₂.flatMap (·.2) := by
    rw [List.flatMap_map]
  unfold ionBase residueSum staticValue placedMods prefixAnn midAnn
  simp only [Option.getD_none, Option.getD_some, List.flatMap_nil, List.append_nil,
    List.map_append, sumR_append, modsValue_append, List.flatMap_append, hfm]
  have h98 : (98 : Key) = ionP ↔ False := by decide
  simp only [h98, if_false, modsValue, List.map_nil, sumR_nil]
  push_cast
  ring

/-- every residue of the table has a non-negative mass in both modes, positive unless it is `X` (empty composition in
`AA_COMPOSITIONS`, mass 0) — kernel evaluation over the generated element tables -/
theorem residues_positive : residuesPositive = true := by decide +kernel

/-- **a forward series grows with the fragment number**: extending the N-terminal piece `s₁` by a non-empty run of known
residues `s₂` whose residue mods have a non-negative total makes every forward ion (same type, charge, isotope, loss)
heavier by exactly the residues and mods gained; never lighter, and strictly heavier unless the run contains `X`
(full statement "strictly heavier" fails in the code as it is: `X` weighs 0, so b_i = b_(i+1) across an `X`) -/
theorem forward_series_monotone (env : Env) (mono : Bool) (s₁ s₂ : List Char) (nt : Option (List Mod))
    (I₁ I₂ : List (Int × List Mod)) (hs : s₂ ≠ [])
    (h₁ : fragDomain env (prefixAnn s₁ nt I₁) mono)
    (h₂ : fragDomain env (prefixAnn (s₁ ++ s₂) nt (I₁ ++ I₂.map (fun p => (p.1 + (s₁.length : Int), p.2)))) mono)
    (hpos : 0 ≤ modsValue env mono (I₂.flatMap (·.2)))
    (f : Key) (hf : f ∈ [k "a", k "b", k "c"]) (z iso : Int) (loss : Rat) :
    ∃ m₁ m₂, mass env (prefixAnn s₁ nt I₁) (ionQuery f z mono iso loss) = .ok m₁ ∧
      mass env (prefixAnn (s₁ ++ s₂) nt (I₁ ++ I₂.map (fun p => (p.1 + (s₁.length : Int), p.2))))
        (ionQuery f z mono iso loss) = .ok m₂ ∧
      m₂ = m₁ + residueSum lib mono s₂ + modsValue env mono (I₂.flatMap (·.2)) ∧ m₁ ≤ m₂ ∧ ('X' ∉ s₂ → m₁ < m₂) := by
  obtain ⟨of, hfp, hfn⟩ := offset_forward mono f hf
  refine ⟨_, _, fragMass tR tA env _ mono h₁ f hfp hfn _ of z iso loss,
    fragMass tR tA env _ mono h₂ f hfp hfn _ of z iso loss, ?_⟩
  have hk : s₂.all (fun c => (lookup c.toNat residueFormula).isSome) = true := by
    obtain ⟨_, _, hd⟩ := h₂
    unfold inDomain at hd
    simp only [Bool.and_eq_true] at hd
    have := hd.1.1.1.1
    simp only [prefixAnn, List.all_append, Bool.and_eq_true] at this
    exact this.2
  have hr0 := residueSum_nonneg residues_positive mono s₂ hk
  have hfm : (I₂.map (fun p => (p.1 + (s₁.length : Int), p.2))).flatMap (·.2) = I₂.flatMap (·.2) := by
    rw [List.flatMap_map]
  have heq : ionBase env (prefixAnn (s₁ ++ s₂) nt (I₁ ++ I₂.map (fun p => (p.1 + (s₁.length : Int), p.2)))) mono
      = ionBase env (prefixAnn s₁ nt I₁) mono + residueSum lib mono s₂ + modsValue env mono (I₂.flatMap (·.2)) := by
    unfold ionBase staticValue placedMods prefixAnn
    simp only [Option.getD_none, Option.getD_some, List.flatMap_nil, List.append_nil,
      modsValue_append, List.flatMap_append, hfm, residueSum_append]
    ring
  refine ⟨?_, ?_, fun hx => ?_⟩
  · rw [heq]; ring
  · rw [heq]; linarith
  · have hr := residueSum_pos residues_positive mono s₂ hs hx hk
    rw [heq]; linarith

/-- the counter-example to strict growth, in the code as it is: the residue `X` is in the table and weighs nothing -/
theorem x_residue_massless (mono : Bool) :
    ∃ f, lookup 'X'.toNat Gen.aaComp = some f ∧ lib.compMass mono f = 0 := ⟨[], by decide +kernel, rfl⟩

/-- **which pieces carry a terminal modification**: an N-terminal modification list `nt` is carried by every N-terminal piece
(each forward ion is heavier by exactly its value) — the C-terminal and the internal pieces (`suffixAnn`, `midAnn`) have no
N-terminal field at all, so none of their ions can depend on it; symmetrically for the C-terminus -/
theorem terminal_mod_locality (env : Env) (mono : Bool) (s : List Char) (nt ct : List Mod) (I : List (Int × List Mod))
    (hN : fragDomain env (prefixAnn s (some nt) I) mono) (hN₀ : fragDomain env (prefixAnn s none I) mono)
    (hC : fragDomain env (suffixAnn s (some ct) I) mono) (hC₀ : fragDomain env (suffixAnn s none I) mono)
    (f g : Key) (hf : f ∈ [k "a", k "b", k "c"]) (hg : g ∈ [k "x", k "y", k "z"]) (z iso : Int) (loss : Rat) :
    ∃ mf mg, mass env (prefixAnn s none I) (ionQuery f z mono iso loss) = .ok mf ∧
      mass env (prefixAnn s (some nt) I) (ionQuery f z mono iso loss) = .ok (mf + modsValue env mono nt) ∧
      mass env (suffixAnn s none I) (ionQuery g z mono iso loss) = .ok mg ∧
      mass env (suffixAnn s (some ct) I) (ionQuery g z mono iso loss) = .ok (mg + modsValue env mono ct) := by
  obtain ⟨of, hfp, hfn⟩ := offset_forward mono f hf
  obtain ⟨og, hgp, hgn⟩ := offset_backward mono g hg
  refine ⟨_, _, fragMass tR tA env _ mono hN₀ f hfp hfn _ of z iso loss, ?_,
    fragMass tR tA env _ mono hC₀ g hgp hgn _ og z iso loss, ?_⟩
  · rw [fragMass tR tA env _ mono hN f hfp hfn _ of z iso loss]
    apply congrArg Except.ok
    unfold ionBase staticValue placedMods prefixAnn
    simp only [Option.getD_none, Option.getD_some, List.flatMap_nil, List.append_nil, modsValue_append]
    have h98 : (98 : Key) = ionP ↔ False := by decide
    simp only [h98, if_false, modsValue, List.map_nil, sumR_nil]
    ring
  · rw [fragMass tR tA env _ mono hC g hgp hgn _ og z iso loss]
    apply congrArg Except.ok
    unfold ionBase staticValue placedMods suffixAnn
    simp only [Option.getD_none, Option.getD_some, List.flatMap_nil, List.append_nil, modsValue_append]
    have h98 : (98 : Key) = ionP ↔ False := by decide
    simp only [h98, if_false, modsValue, List.map_nil, sumR_nil]
    ring

/-! ### non-vacuity -/

-- complementary pairs / ax-cz / internal difference / monotone: PEP | TIDE with mods in each piece
example : fragDomain exEnv (prefixAnn "PEP".toList (some [⟨.int 42, 1⟩]) [(1, [⟨.int 7, 2⟩])]) true ∧
    fragDomain exEnv (suffixAnn "TIDE".toList (some [⟨.int 1, 1⟩]) [(0, [⟨.int 80, 1⟩])]) true ∧
    inDomain exEnv (wholeAnn "PEP".toList "TIDE".toList (some [⟨.int 42, 1⟩]) (some [⟨.int 1, 1⟩])
      [(1, [⟨.int 7, 2⟩])] [(0, [⟨.int 80, 1⟩])]) ionP true none = true :=
  ⟨⟨rfl, rfl, by decide +kernel⟩, ⟨rfl, rfl, by decide +kernel⟩, by decide +kernel⟩
example : fragDomain exEnv (prefixAnn ("PEP".toList ++ "TI".toList) (some [⟨.int 42, 1⟩])
      ([(1, [⟨.int 7, 2⟩])] ++ [((0 : Int), [(⟨.int 80, 1⟩ : Mod)])].map (fun p => (p.1 + ("PEP".toList.length : Int), p.2)))) false ∧
    fragDomain exEnv (midAnn "TI".toList [(0, [⟨.int 80, 1⟩])]) false ∧ "TI".toList ≠ [] ∧ 'X' ∉ "TI".toList ∧
    (0 : Rat) ≤ modsValue exEnv false ([((0 : Int), [(⟨.int 80, 1⟩ : Mod)])].flatMap (·.2)) :=
  ⟨⟨rfl, rfl, by decide +kernel⟩, ⟨rfl, rfl, by decide +kernel⟩, by decide, by decide, by decide +kernel⟩
-- loss / isotope / charge / m-over-z: an internal ion type of a modified peptide, charge −2 ≠ 0
example : exAnn.isotope = none ∧ exAnn.adducts = none ∧ inDomain exEnv exAnn (k "cz") false none = true ∧ (-2 : Int) ≠ 0 :=
  ⟨rfl, rfl, by decide +kernel, by decide⟩
-- terminal locality: PEPTIDE with / without a terminal mod
example : fragDomain exEnv (prefixAnn "PEPTIDE".toList (some [⟨.int 42, 1⟩]) [(2, [⟨.int 7, 2⟩])]) true ∧
    fragDomain exEnv (prefixAnn "PEPTIDE".toList none [(2, [⟨.int 7, 2⟩])]) true ∧
    fragDomain exEnv (suffixAnn "PEPTIDE".toList (some [⟨.int 1, 1⟩]) [(2, [⟨.int 7, 2⟩])]) true ∧
    fragDomain exEnv (suffixAnn "PEPTIDE".toList none [(2, [⟨.int 7, 2⟩])]) true :=
  ⟨⟨rfl, rfl, by decide +kernel⟩, ⟨rfl, rfl, by decide +kernel⟩, ⟨rfl, rfl, by decide +kernel⟩, ⟨rfl, rfl, by decide +kernel⟩⟩

end Pept.C05
