import PeptVerif.Lemmas.ScoreRnd
import PeptVerif.Props.C17
import PeptVerif.Model.ScoreFilter
/-!
# C17 extension — the windows of `get_matched_indices` under rounded arithmetic

Property theorems only. `Spec/ScoreRnd.lean` instantiates the generic model of `Model/Score.lean` (the definitions the
driver runs at IEEE doubles) at ℚ with every `+ - * /` followed by an abstract rounding function `rnd : ℚ → ℚ`, i.e.
in the operation order of score.py:

    th : lo = rnd (mz - tol),                             hi = rnd (mz + tol)
    ppm: lo = rnd (mz - rnd (rnd (mz * tol) / 1000000)),  hi = rnd (mz + rnd (rnd (mz * tol) / 1000000))

Assumptions on `rnd` (hypotheses of the theorems): `RndMono rnd` (monotone) and `RndRel rnd u` (`|rnd z - z| ≤ u·|z|`).
TRUSTED, not proved: IEEE binary64 round-to-nearest-even satisfies both with `u = 2^-53` as long as no operation
overflows or produces a subnormal (see the header of Spec/ScoreRnd.lean).

Sandwich (for all inputs, no sign conditions): with `E = exactTol` (`tol`, resp. `mz·tol/10⁶`) and
`S = slack u` (`u(|mz|+|tol|)`, resp. `u|mz| + 4u|E|`; for `mz, tol ≥ 0` this is `tol(1 ± u) ± u·mz`, resp.
`E(1 ± 4u) ± u·mz`, so `c = 1` for th and `c = 4` for ppm, the absolute slack `u·mz` is half an ulp of `mz`):
every peak with `|y - mz| ≤ E - S` is matched and every matched peak has `|y - mz| ≤ E + S`.
-/
namespace Score

/-- the rounded bounds are the ones score.py computes, operation by operation (`rfl`: they *are* the generic model
`lo` / `hi` at the rounded arithmetic) -/
theorem rounded_bounds_unfold (rnd : Rat → Rat) (tol x : Rat) :
    loR rnd .th tol x = rnd (x - tol) ∧ hiR rnd .th tol x = rnd (x + tol)
    ∧ loR rnd .ppm tol x = rnd (x - rnd (rnd (x * tol) / 1000000))
    ∧ hiR rnd .ppm tol x = rnd (x + rnd (rnd (x * tol) / 1000000)) :=
  ⟨rfl, rfl, rfl, rfl⟩

example : loR id .ppm 20 (1000 : Rat) = 1000 - 1/50 := by decide +kernel

/-- `rounded_sweep_correct`: the model of `get_matched_indices` run with rounded arithmetic returns, for sorted lists
of any length, exactly the brute-force windows of the *rounded* bounds, provided the rounded lower bound is monotone
along the fragment list (always true for th: `rounded_th_lower_monotone`; for ppm it can fail, that is known finding
KF-C17-ppm-lower-bound-rounding, and `rounded_ppm_lower_monotone_of_gap` gives a sufficient condition). -/
theorem rounded_sweep_correct (rnd : Rat → Rat) (t : Tol) (tol : Rat) (xs ys : List Rat)
    (hys : ys.Pairwise (· ≤ ·)) (hlo : xs.Pairwise (fun a b => loR rnd t tol a ≤ loR rnd t tol b)) :
    (getMatchedIndicesR rnd t tol xs ys).map idxList = xs.map (window (inWindowR rnd t tol) ys) := by
  unfold getMatchedIndicesR getMatchedIndices
  rw [sweep_eq_windowTW]
  · rw [List.map_map]
    apply List.map_congr_left
    intro x _
    exact windowTW_eq_bruteforce (loR rnd t tol) (hiR rnd t tol) ys hys x
  · refine hlo.imp ?_
    intro a b hab y hy
    have hy' : y < loR rnd t tol a := of_decide_eq_true hy
    exact decide_eq_true (lt_of_lt_of_le hy' hab)
  · intro x _; exact Nat.zero_le _

example : ([100, 200, 300] : List Rat).Pairwise (fun a b => loR id .ppm 20 a ≤ loR id .ppm 20 b) := by decide +kernel

/-- th: a monotone rounding keeps the lower bound `rnd (mz - tol)` monotone, for every tolerance -/
theorem rounded_th_lower_monotone (rnd : Rat → Rat) (hmono : RndMono rnd) (tol a b : Rat) (h : a ≤ b) :
    loR rnd .th tol a ≤ loR rnd .th tol b := by
  rw [loR_th, loR_th]
  exact hmono _ _ (by linarith)

/-- a rounding that is not the identity and has both properties with `u = 1/16` -/
example : RndMono (fun z => z * (17/16)) ∧ RndRel (fun z => z * (17/16)) (1/16) := by
  constructor
  · intro a b h; show a * (17/16) ≤ b * (17/16); linarith
  · intro z
    show |z * (17/16) - z| ≤ 1/16 * |z|
    have : z * (17/16) - z = 1/16 * z := by ring
    rw [this, abs_mul]; norm_num

/-- ppm: the rounded lower bound is monotone from `a` to `b` when the exact gain `(b-a)(1-tol/10⁶)` covers the two
rounding slacks (for 20 ppm and doubles: when `b - a` exceeds about one ulp of `b`) -/
theorem rounded_ppm_lower_monotone_of_gap (rnd : Rat → Rat) (u : Rat) (hrel : RndRel rnd u) (hu : u ≤ 1/8)
    (tol a b : Rat) (hgap : slack u .ppm tol a + slack u .ppm tol b ≤ (b - a) * (1 - tol / 1000000)) :
    loR rnd .ppm tol a ≤ loR rnd .ppm tol b := by
  have ⟨_, ha⟩ := abs_le.mp (ppm_bound_err hrel hu tol a).1
  have ⟨hb, _⟩ := abs_le.mp (ppm_bound_err hrel hu tol b).1
  have e : (b - a) * (1 - tol / 1000000) = (b - b * tol / 1000000) - (a - a * tol / 1000000) := by ring
  rw [e] at hgap
  linarith

/-- th sandwich for one fragment / peak pair, all inputs: `|y-x| ≤ tol - u(|x|+|tol|)` ⇒ matched ⇒
`|y-x| ≤ tol + u(|x|+|tol|)` -/
theorem th_window_sandwich (rnd : Rat → Rat) (u : Rat) (hrel : RndRel rnd u) (tol x y : Rat) :
    (|y - x| ≤ tol - u * (|x| + |tol|) → inWindowR rnd .th tol y x = true)
    ∧ (inWindowR rnd .th tol y x = true → |y - x| ≤ tol + u * (|x| + |tol|)) := by
  have ⟨hl, hh⟩ := th_bound_err hrel tol x
  have := sandwich_of_bound_err _ _ x tol _ y hl hh
  simpa [inWindowR, slack] using this

/-- ppm sandwich for one fragment / peak pair, all inputs (`E = x·tol/10⁶`, `u ≤ 1/8`):
`|y-x| ≤ E - (u|x| + 4u|E|)` ⇒ matched ⇒ `|y-x| ≤ E + (u|x| + 4u|E|)` -/
theorem ppm_window_sandwich (rnd : Rat → Rat) (u : Rat) (hrel : RndRel rnd u) (hu : u ≤ 1/8) (tol x y : Rat) :
    (|y - x| ≤ x * tol / 1000000 - (u * |x| + 4 * u * |x * tol / 1000000|) → inWindowR rnd .ppm tol y x = true)
    ∧ (inWindowR rnd .ppm tol y x = true → |y - x| ≤ x * tol / 1000000 + (u * |x| + 4 * u * |x * tol / 1000000|)) := by
  have ⟨hl, hh⟩ := ppm_bound_err hrel hu tol x
  have := sandwich_of_bound_err _ _ x (x * tol / 1000000) _ y hl hh
  simpa [inWindowR, slack] using this

/-- both modes in one statement -/
theorem window_sandwich (rnd : Rat → Rat) (u : Rat) (hrel : RndRel rnd u) (hu : u ≤ 1/8) (t : Tol) (tol x y : Rat) :
    (|y - x| ≤ exactTol t tol x - slack u t tol x → inWindowR rnd t tol y x = true)
    ∧ (inWindowR rnd t tol y x = true → |y - x| ≤ exactTol t tol x + slack u t tol x) := by
  cases t
  · exact ppm_window_sandwich rnd u hrel hu tol x y
  · exact th_window_sandwich rnd u hrel tol x y

/-- the identity has both properties with `u = 0`, which turns the sandwich into an equivalence (the exact-ℚ theorems of
Props/C17); a rounding that is not the identity is the example after `rounded_th_lower_monotone` -/
example : RndRel id 0 ∧ RndMono id := ⟨fun z => by simp, fun _ _ h => h⟩

/-- **`get_matched_indices` with rounded bounds, th.** For a monotone rounding with relative error `u`, sorted lists of
any length, any tolerance: peak `j` is reported for fragment `i` whenever its exact distance is at most
`tol - u(|mz|+|tol|)`, and only if it is at most `tol + u(|mz|+|tol|)`. -/
theorem getMatchedIndices_rounded_th (rnd : Rat → Rat) (u : Rat) (hmono : RndMono rnd) (hrel : RndRel rnd u)
    (tol : Rat) (xs ys : List Rat) (hxs : xs.Pairwise (· ≤ ·)) (hys : ys.Pairwise (· ≤ ·))
    (i j : Nat) (x y : Rat) (hx : xs[i]? = some x) (hy : ys[j]? = some y) :
    (|y - x| ≤ tol - u * (|x| + |tol|) → j ∈ idxList (((getMatchedIndicesR rnd .th tol xs ys)[i]?).getD none))
    ∧ (j ∈ idxList (((getMatchedIndicesR rnd .th tol xs ys)[i]?).getD none) → |y - x| ≤ tol + u * (|x| + |tol|)) := by
  have hcorr := rounded_sweep_correct rnd .th tol xs ys hys
    (hxs.imp (fun {a b} h => rounded_th_lower_monotone rnd hmono tol a b h))
  have hi : idxList (((getMatchedIndicesR rnd .th tol xs ys)[i]?).getD none) = window (inWindowR rnd .th tol) ys x := by
    have := congrArg (fun l => l[i]?) hcorr
    simp only [List.getElem?_map, hx, Option.map_some] at this
    cases hg : (getMatchedIndicesR rnd .th tol xs ys)[i]? with
    | none => rw [hg] at this; simp at this
    | some w => rw [hg] at this; simpa using this
  rw [hi, mem_window]
  have hs := th_window_sandwich rnd u hrel tol x y
  constructor
  · intro h; exact ⟨y, hy, hs.1 h⟩
  · rintro ⟨y', hy', hp⟩
    rw [hy] at hy'; cases hy'
    exact hs.2 hp

/-- **`get_matched_indices` with rounded bounds, ppm.** Same statement with `E = mz·tol/10⁶` and slack
`u|mz| + 4u|E|`, under the hypothesis that the rounded lower bound is monotone along the fragment list (not implied by
the two rounding assumptions: KF-C17-ppm-lower-bound-rounding; `rounded_ppm_lower_monotone_of_gap` is a sufficient
condition, and the harness evaluates the hypothesis on every case it checks). -/
theorem getMatchedIndices_rounded_ppm (rnd : Rat → Rat) (u : Rat) (hrel : RndRel rnd u) (hu : u ≤ 1/8)
    (tol : Rat) (xs ys : List Rat) (hys : ys.Pairwise (· ≤ ·))
    (hlo : xs.Pairwise (fun a b => loR rnd .ppm tol a ≤ loR rnd .ppm tol b))
    (i j : Nat) (x y : Rat) (hx : xs[i]? = some x) (hy : ys[j]? = some y) :
    (|y - x| ≤ x * tol / 1000000 - (u * |x| + 4 * u * |x * tol / 1000000|)
        → j ∈ idxList (((getMatchedIndicesR rnd .ppm tol xs ys)[i]?).getD none))
    ∧ (j ∈ idxList (((getMatchedIndicesR rnd .ppm tol xs ys)[i]?).getD none)
        → |y - x| ≤ x * tol / 1000000 + (u * |x| + 4 * u * |x * tol / 1000000|)) := by
  have hcorr := rounded_sweep_correct rnd .ppm tol xs ys hys hlo
  have hi : idxList (((getMatchedIndicesR rnd .ppm tol xs ys)[i]?).getD none) = window (inWindowR rnd .ppm tol) ys x := by
    have := congrArg (fun l => l[i]?) hcorr
    simp only [List.getElem?_map, hx, Option.map_some] at this
    cases hg : (getMatchedIndicesR rnd .ppm tol xs ys)[i]? with
    | none => rw [hg] at this; simp at this
    | some w => rw [hg] at this; simpa using this
  rw [hi, mem_window]
  have hs := ppm_window_sandwich rnd u hrel hu tol x y
  constructor
  · intro h; exact ⟨y, hy, hs.1 h⟩
  · rintro ⟨y', hy', hp⟩
    rw [hy] at hy'; cases hy'
    exact hs.2 hp

/-- non-vacuity: with the identity rounding (`u = 0`) the th theorem applies to a concrete spectrum -/
example : idxList (((getMatchedIndicesR id .th 1 [100, 250] [99, 100, 101, 102, 250])[0]?).getD none) = [0, 1, 2] := by
  decide +kernel

/-! ## the isotope filters `filter_missing_mono_isotope`, `filter_skipped_isotopes` (Model/ScoreFilter.lean) -/

variable {μ : Type}

/-- `filter_missing_mono_isotope`, membership: a match is kept iff some match of the input with isotope 0 carries its label with
the stars removed -/
theorem filter_missing_mono_spec (label : μ → List Char) (isotope : μ → Int) (ms : List μ) (m : μ) :
    m ∈ filterMissingMonoIsotope label isotope ms
      ↔ m ∈ ms ∧ ∃ m0 ∈ ms, isotope m0 = 0 ∧ label m0 = monoLabel (label m) := by
  simp only [filterMissingMonoIsotope, List.mem_filter, List.contains_eq_mem, List.mem_map, decide_eq_true_eq, beq_iff_eq]
  constructor
  · rintro ⟨hm, m0, ⟨h0, hi⟩, hl⟩; exact ⟨hm, m0, h0, hi, hl⟩
  · rintro ⟨hm, m0, h0, hi, hl⟩; exact ⟨hm, m0, ⟨h0, hi⟩, hl⟩

/-- … order and multiplicity of the kept matches are those of the input -/
theorem filter_missing_mono_sublist (label : μ → List Char) (isotope : μ → Int) (ms : List μ) :
    (filterMissingMonoIsotope label isotope ms).Sublist ms := by
  unfold filterMissingMonoIsotope
  exact List.filter_sublist

/-- … and the result is closed: when isotope-0 labels carry no `*` (true for `Fragment.label`, which appends `'*' * isotope`), every
kept match has its monoisotopic match kept as well, and filtering again changes nothing -/
theorem filter_missing_mono_closed (label : μ → List Char) (isotope : μ → Int) (ms : List μ)
    (hstar : ∀ m ∈ ms, isotope m = 0 → '*' ∉ label m) :
    (∀ m ∈ filterMissingMonoIsotope label isotope ms,
        ∃ m0 ∈ filterMissingMonoIsotope label isotope ms, isotope m0 = 0 ∧ label m0 = monoLabel (label m))
    ∧ filterMissingMonoIsotope label isotope (filterMissingMonoIsotope label isotope ms)
        = filterMissingMonoIsotope label isotope ms := by
  have hself : ∀ m0 ∈ ms, isotope m0 = 0 → monoLabel (label m0) = label m0 := by
    intro m0 h0 hi
    unfold monoLabel
    rw [List.filter_eq_self]
    intro c hc
    have := hstar m0 h0 hi
    simp only [bne_iff_ne, ne_eq]
    rintro rfl
    exact this hc
  have hkeep : ∀ m ∈ filterMissingMonoIsotope label isotope ms,
      ∃ m0 ∈ filterMissingMonoIsotope label isotope ms, isotope m0 = 0 ∧ label m0 = monoLabel (label m) := by
    intro m hm
    obtain ⟨_, m0, h0, hi, hl⟩ := (filter_missing_mono_spec label isotope ms m).mp hm
    refine ⟨m0, ?_, hi, hl⟩
    exact (filter_missing_mono_spec label isotope ms m0).mpr ⟨h0, m0, h0, hi, (hself m0 h0 hi).symm⟩
  refine ⟨hkeep, ?_⟩
  have e : ∀ L : List μ, filterMissingMonoIsotope label isotope L
      = L.filter (fun f => ((L.filter (fun f => isotope f == 0)).map label).contains (monoLabel (label f))) := fun _ => rfl
  generalize filterMissingMonoIsotope label isotope ms = R at hkeep ⊢
  rw [e R, List.filter_eq_self]
  intro m hm
  obtain ⟨m0, h0, hi, hl⟩ := hkeep m hm
  simp only [List.contains_eq_mem, List.mem_map, List.mem_filter, decide_eq_true_eq, beq_iff_eq]
  exact ⟨m0, ⟨h0, hi⟩, hl⟩

example : filterMissingMonoIsotope (fun m : String × Int => m.1.toList) (·.2)
    [("+b2", 0), ("+b2*", 1), ("+y3*", 1), ("+y4**", 2), ("+y4", 0)]
    = [("+b2", 0), ("+b2*", 1), ("+y4**", 2), ("+y4", 0)] := by decide

/-- `filter_skipped_isotopes`, membership: a match is kept iff the input contains its label with one trailing `*` removed
(nothing qualifies when there is no trailing `*`, unless some label is empty) or with one `*` appended -/
theorem filter_skipped_isotopes_spec (label : μ → List Char) (ms : List μ) (m : μ) :
    m ∈ filterSkippedIsotopes label ms
      ↔ m ∈ ms ∧ ((∃ m' ∈ ms, label m' = removeIsotope (label m)) ∨ (∃ m' ∈ ms, label m' = addIsotope (label m))) := by
  simp only [filterSkippedIsotopes, List.mem_filter, List.contains_eq_mem, List.mem_map, decide_eq_true_eq, Bool.or_eq_true]

theorem filter_skipped_isotopes_sublist (label : μ → List Char) (ms : List μ) :
    (filterSkippedIsotopes label ms).Sublist ms := by
  unfold filterSkippedIsotopes
  exact List.filter_sublist

example : filterSkippedIsotopes (fun m : String => m.toList) ["+b2", "+b2*", "+y3**", "+y4"] = ["+b2", "+b2*"] := by decide

end Score
