import PeptVerif.Lemmas.Fragment
/-!
Property theorems for C04: fragmentation enumerates every ion exactly once and agrees with the mass calculator; all
return types and the cached `Fragmenter` are projections of the same list.

All theorems are about the executable model `PeptVerif/Model/Fragment.lean` (tied to /repo by `./check C04`), hold for
every peptide length and for every weight function (`Env`: per-residue components, table constants, label shift,
loss-pattern matching, `str(loss)` are arbitrary).  Helper definitions used in the statements (in
`Lemmas/Fragment.lean`): `allKeys` (the nested loops of one call, in order), `outOf` (the loop body), `SpanOK` (where an
ion type may be cut), `ionBase` (the part of an ion's mass that does not come from residues), `numberOf`, `project`.
-/
namespace C04
open Fragment Pept Spans

/-- a concrete environment for the non-vacuity examples -/
def exEnv : Env :=
  { P := { proton := 1, neutron := 1, fragAdjN := fun _ => 0, fragAdj := fun _ _ => 0, ionOffset := fun _ _ => 0 },
    splitMass := fun a _ => a.seq.map fun _ => 57, labelShift := fun _ _ _ _ => 0, condenseStatic := id,
    showLoss := fun _ => ['?'] }

def exPeptide : Annotation := { seq := ['P', 'E', 'P', 'T'], nterm := some [⟨.int 1, 1⟩] }
def exArgs : Args :=
  { ionTypes := .many [.B, .Y, .BY, .I], charges := .many [1, 2], isotopes := .many [0, 1], waterLoss := true }

/-! ## 1. span enumeration -/

/-- forward ions are cut at the `n` prefixes `[0, n), [0, n-1), …, [0, 1)`, each once -/
theorem forwardSpans_prefixes (n : Nat) (h : 1 ≤ n) :
    forwardSpans (n : Int) = (List.range n).map (fun (k : Nat) => ((0 : Int), (n : Int) - (k : Int), (0 : Int))) ∧
    (forwardSpans (n : Int)).Nodup ∧ (forwardSpans (n : Int)).length = n := by
  refine ⟨forwardSpans_eq n h, ?_, by simp [forwardSpans_eq n h]⟩
  rw [forwardSpans_eq n h]
  exact nodup_map_of_inj List.nodup_range (fun a _ b _ hab => by simp only [Prod.mk.injEq] at hab; omega)

example : forwardSpans 4 = [(0, 4, 0), (0, 3, 0), (0, 2, 0), (0, 1, 0)] := by decide

/-- backward ions are cut at the `n` suffixes `[0, n), [1, n), …, [n-1, n)`, each once -/
theorem backwardSpans_suffixes (n : Nat) (h : 1 ≤ n) :
    backwardSpans (n : Int) = (List.range n).map (fun (k : Nat) => ((k : Int), (n : Int), (0 : Int))) ∧
    (backwardSpans (n : Int)).Nodup ∧ (backwardSpans (n : Int)).length = n := by
  refine ⟨backwardSpans_eq n h, ?_, by simp [backwardSpans_eq n h]⟩
  rw [backwardSpans_eq n h]
  exact nodup_map_of_inj List.nodup_range (fun a _ b _ hab => by simp only [Prod.mk.injEq] at hab; omega)

example : backwardSpans 4 = [(0, 4, 0), (1, 4, 0), (2, 4, 0), (3, 4, 0)] := by decide

/-- internal ions are cut exactly at the strictly internal spans `0 < s < e < n`, each once -/
theorem internalSpans_strict (n : Int) :
    (∀ s e v : Int, (s, e, v) ∈ internalSpans n ↔ 0 < s ∧ s < e ∧ e < n ∧ v = 0) ∧ (internalSpans n).Nodup := by
  exact ⟨mem_internalSpans n, nodup_internalSpans n⟩

example : internalSpans 4 = [(1, 2, 0), (1, 3, 0), (2, 3, 0)] := by decide

/-- there are `(n-1)(n-2)/2` of them (natural-number subtraction: none for `n ≤ 2`) -/
theorem internalSpans_count (n : Nat) : 2 * (internalSpans (n : Int)).length = (n - 1) * (n - 2) :=
  Fragment.internalSpans_count n

example : (internalSpans 12).length = 55 := by decide

/-- immonium ions are cut at the `n` single residues, each once -/
theorem immoniumSpans_residues (n : Nat) :
    immoniumSpans (n : Int) = (List.range n).map (fun (k : Nat) => ((k : Int), (k : Int) + 1, (0 : Int))) ∧
    (immoniumSpans (n : Int)).Nodup ∧ (immoniumSpans (n : Int)).length = n := by
  refine ⟨immoniumSpans_eq n, ?_, by simp [immoniumSpans_eq n]⟩
  rw [immoniumSpans_eq n]
  exact nodup_map_of_inj List.nodup_range (fun a _ b _ hab => by simp only [Prod.mk.injEq] at hab; omega)

example : immoniumSpans 3 = [(0, 1, 0), (1, 2, 0), (2, 3, 0)] := by decide

/-! ## 2. neutral losses are a set of sums -/

/-- `get_losses` is duplicate free and contains exactly 0 and every sum of a non-empty sub-multiset of at most
`max(1, max_losses)` applicable losses (one copy of a rule's delta per match of its pattern) -/
theorem getLosses_set (s : List Char) (losses : List LossRule) (m : Int) :
    (getLosses s losses m).Nodup ∧
    ∀ x : Rat, x ∈ getLosses s losses m ↔
      x = 0 ∨ ∃ sub : List Rat, sub.Sublist (applicableList s losses) ∧ 1 ≤ sub.length ∧
        (sub.length : Int) ≤ max 1 m ∧ x = sub.sum :=
  ⟨nodup_getLosses s losses m, mem_getLosses s losses m⟩

example : applicableList ['A', 'A'] [(.cls ['A'], -10), (.cls ['A'], -5)] = [-10, -10, -5, -5] := by decide

/-- applicability per span: only the number of matches of a rule's pattern on the span's residues matters (whether
that number is counted in Lean — character classes — or supplied by the implementation's `re.findall` —
`Pat.opaque`), and a rule without a match on the span contributes nothing -/
theorem unmatched_rules_irrelevant (s : List Char) (rules : List LossRule) (m : Int) :
    getLosses s rules m = getLosses s (rules.filter fun r => decide (0 < r.1.count s)) m := by
  unfold getLosses
  rw [← applicableList_filter]

/-- one rule on a span with `c` matches: its loss may be taken `i` times, `1 ≤ i ≤ min(c, max(1, max_losses))` -/
theorem one_rule_applicability (s : List Char) (r : LossRule) (m : Int) (x : Rat) :
    x ∈ getLosses s [r] m ↔
      x = 0 ∨ ∃ i : Nat, 1 ≤ i ∧ i ≤ r.1.count s ∧ (i : Int) ≤ max 1 m ∧ x = (i : Rat) * r.2 :=
  getLosses_one_rule s r m x

/-- the residue-class tests of the two built-in rules are inside the model: `'[STED]'` / `'[RKNQ]'` count the residues
of the class -/
theorem builtin_patterns (s : List Char) :
    waterPat.count s = (s.filter fun c => decide (c ∈ ['S', 'T', 'E', 'D'])).length ∧
    ammoniaPat.count s = (s.filter fun c => decide (c ∈ ['R', 'K', 'N', 'Q'])).length :=
  ⟨rfl, rfl⟩

/-- `water_loss=True, ammonia_loss=True`, no custom rules: on a span with `nw` residues in S/T/E/D and `na` residues
in R/K/N/Q the applicable losses are exactly 0 and `i·(−18.01056) + j·(−17.02655)` with `i ≤ nw`, `j ≤ na`,
`1 ≤ i + j ≤ max(1, max_losses)`. -/
theorem builtin_losses (s : List Char) (args : Args) (hl : args.losses = none) (hw : args.waterLoss = true)
    (ha : args.ammoniaLoss = true) (x : Rat) :
    x ∈ getLosses s (lossList args) args.maxLosses ↔
      x = 0 ∨ ∃ i j : Nat, 1 ≤ i + j ∧ i ≤ waterPat.count s ∧ j ≤ ammoniaPat.count s ∧
        ((i + j : Nat) : Int) ≤ max 1 args.maxLosses ∧
        x = (i : Rat) * waterLossValue + (j : Rat) * ammoniaLossValue := by
  have : lossList args = [(waterPat, waterLossValue), (ammoniaPat, ammoniaLossValue)] := by
    simp [lossList, hl, hw, ha]
  rw [this]
  exact getLosses_two_rules s _ _ _ x

example : waterPat.count ['A', 'Q', 'E'] = 1 ∧ ammoniaPat.count ['A', 'Q', 'E'] = 1 := by decide

/-! ## 3. `fragment` never reaches the error of `get_number`; exactly one ion per requested key -/

/-- On a peptide without sequence ambiguity `fragment` returns normally, and its result is one pass of the loop body
over `allKeys` (forward, backward, internal, immonium; span > ion type > isotope > loss > charge); with unknown-position
mods or intervals it raises `ValueError`. -/
theorem fragment_total (env : Env) (a : Annotation) (args : Args) (mc : Option (List Rat)) :
    (containsSequenceAmbiguity (mkJob env a args mc).annotation = false →
      fragment env a args mc =
        .ok ((allKeys (mkJob env a args mc) args.ionTypes.toList).flatMap (outOf (mkJob env a args mc)))) ∧
    (containsSequenceAmbiguity (mkJob env a args mc).annotation = true →
      fragment env a args mc = .error .valueError) :=
  ⟨fragment_ok env a args mc, fragment_ambiguous env a args mc⟩

example : containsSequenceAmbiguity (mkJob exEnv exPeptide exArgs none).annotation = false := by decide

/-- the `Fragment` objects of a result -/
def fragsOf (out : List Out) : List Frag :=
  out.filterMap fun o => match o with
    | .frag f => some f
    | _ => none

/-- `return_type='fragment'`: the result consists of `Fragment`s only, and their key list
(ion type, start, end, charge, isotope, loss) is `allKeys`, in order. -/
theorem fragment_keys (env : Env) (a : Annotation) (args : Args) (mc : Option (List Rat)) (out : List Out)
    (hrt : args.returnType = .fragment) (h : fragment env a args mc = .ok out) :
    out = (fragsOf out).map Out.frag ∧
    (fragsOf out).map Frag.key = allKeys (mkJob env a args mc) args.ionTypes.toList := by
  have hamb : containsSequenceAmbiguity (mkJob env a args mc).annotation = false := by
    cases hc : containsSequenceAmbiguity (mkJob env a args mc).annotation
    · rfl
    · rw [fragment_ambiguous env a args mc hc] at h; cases h
  rw [fragment_ok env a args mc hamb] at h
  injection h with h
  subst h
  have hout : outOf (mkJob env a args mc) = fun k => [Out.frag (mkFrag (mkJob env a args mc) k)] := by
    funext k
    have : (mkJob env a args mc).returnType = .fragment := hrt
    simp [outOf, this]
  rw [hout]
  generalize allKeys (mkJob env a args mc) args.ionTypes.toList = keys
  induction keys with
  | nil => exact ⟨rfl, rfl⟩
  | cons k ks ih =>
    obtain ⟨ih1, ih2⟩ := ih
    refine ⟨?_, ?_⟩
    · simp only [List.flatMap_cons, List.singleton_append, fragsOf, List.filterMap_cons, List.map_cons]
      congr 1
    · simp only [List.flatMap_cons, List.singleton_append, fragsOf, List.filterMap_cons, List.map_cons]
      congr 1

/-- **exactly one ion per requested key**: for duplicate-free requested ion types, isotopes and charges (losses are a
set by construction) no key occurs twice, … -/
theorem fragment_keys_nodup (env : Env) (a : Annotation) (args : Args) (mc : Option (List Rat)) (out : List Out)
    (hrt : args.returnType = .fragment) (h : fragment env a args mc = .ok out)
    (hn : 1 ≤ (mkJob env a args mc).annotation.seq.length)
    (hi : args.ionTypes.toList.Nodup) (hiso : args.isotopes.toList.Nodup) (hc : args.charges.toList.Nodup) :
    ((fragsOf out).map Frag.key).Nodup := by
  rw [(fragment_keys env a args mc out hrt h).2]
  exact nodup_allKeys _ _ hn hi hiso hc

example : exArgs.ionTypes.toList.Nodup ∧ exArgs.isotopes.toList.Nodup ∧ exArgs.charges.toList.Nodup ∧
    1 ≤ (mkJob exEnv exPeptide exArgs none).annotation.seq.length := by decide

/-- … and a key occurs iff it was requested: its ion type is in the request and the span is one of that type's spans
(`n` prefixes for a/b/c, `n` suffixes for x/y/z, the strictly internal spans for internal types, the `n` single
residues for `i`), its isotope and charge are requested, and its loss is applicable to the span's residues. -/
theorem fragment_keys_complete (env : Env) (a : Annotation) (args : Args) (mc : Option (List Rat)) (out : List Out)
    (hrt : args.returnType = .fragment) (h : fragment env a args mc = .ok out)
    (hn : 1 ≤ (mkJob env a args mc).annotation.seq.length) (k : Key) :
    k ∈ (fragsOf out).map Frag.key ↔
      k.ion ∈ args.ionTypes.toList ∧
      SpanOK (alen (mkJob env a args mc).annotation) k.ion k.start k.stop ∧
      k.isotope ∈ args.isotopes.toList ∧
      k.loss ∈ getLosses (slice (mkJob env a args mc).annotation k.start k.stop).seq (lossList args) args.maxLosses ∧
      k.charge ∈ args.charges.toList := by
  rw [(fragment_keys env a args mc out hrt h).2]
  exact mem_allKeys _ _ k hn

/-- the ion types that are silently ignored produce nothing: every returned ion has one of the sixteen types -/
theorem fragment_ions_classified (env : Env) (a : Annotation) (args : Args) (mc : Option (List Rat)) (out : List Out)
    (hrt : args.returnType = .fragment) (h : fragment env a args mc = .ok out) (f : Frag) (hf : f ∈ fragsOf out) :
    Classified f.ion := by
  have hk : f.key ∈ (fragsOf out).map Frag.key := List.mem_map.2 ⟨f, hf, rfl⟩
  rw [(fragment_keys env a args mc out hrt h).2] at hk
  exact classified_of_mem_allKeys _ _ _ hk

/-! ## 4. masses: table offset + the components of the ion's own span -/

/-- every returned `Fragment` is the loop body applied to its own key -/
theorem fragment_is_mkFrag (env : Env) (a : Annotation) (args : Args) (mc : Option (List Rat)) (out : List Out)
    (hrt : args.returnType = .fragment) (h : fragment env a args mc = .ok out) (f : Frag) (hf : f ∈ fragsOf out) :
    f = mkFrag (mkJob env a args mc) f.key := by
  have hamb : containsSequenceAmbiguity (mkJob env a args mc).annotation = false := by
    cases hc : containsSequenceAmbiguity (mkJob env a args mc).annotation
    · rfl
    · rw [fragment_ambiguous env a args mc hc] at h; cases h
  rw [fragment_ok env a args mc hamb] at h
  injection h with h
  subst h
  have hr : (mkJob env a args mc).returnType = .fragment := hrt
  simp only [fragsOf, List.mem_filterMap, List.mem_flatMap] at hf
  obtain ⟨o, ⟨k, _, ho⟩, hof⟩ := hf
  simp only [outOf, hr, List.mem_singleton] at ho
  subst ho
  simp only [Option.some.injEq] at hof
  subst hof
  rfl

/-- **components_sum**: an ion's mass is `round(Σ_{k ∈ [start, end)} component k + base)`, where `base` depends only on
(ion type, charge, isotope, loss) and the tables — so the mass depends only on the ion's own span and key; the neutral
mass is the same with charge 0 and no rounding; m/z is `round(mass / charge)`. -/
theorem components_sum (env : Env) (a : Annotation) (args : Args) (mc : Option (List Rat)) (out : List Out)
    (hrt : args.returnType = .fragment) (h : fragment env a args mc = .ok out) (f : Frag) (hf : f ∈ fragsOf out) :
    let j := mkJob env a args mc
    f.mass = roundOpt (spanSum j.massComponents f.start f.stop + ionBase j f.ion f.charge f.isotope f.loss) args.precision ∧
    f.neutralMass = spanSum j.massComponents f.start f.stop + ionBase j f.ion 0 f.isotope f.loss ∧
    f.mz = roundOpt (if f.charge = 0 then f.mass else f.mass / (f.charge : Rat)) args.precision := by
  intro j
  have e := fragment_is_mkFrag env a args mc out hrt h f hf
  refine ⟨?_, ?_, ?_⟩
  · rw [e]; exact mass_formula j f.key
  · rw [e]; exact neutral_formula j f.key
  · rw [e]; rfl

/-- the component sum is additive in the cut point (prefix sums) … -/
theorem spanSum_additive (comps : List Rat) (s m e : Int) (h0 : 0 ≤ s) (h1 : s ≤ m) (h2 : m ≤ e) :
    spanSum comps s e = spanSum comps s m + spanSum comps m e :=
  spanSum_split comps s m e h0 h1 h2

example : (0 : Int) ≤ 1 ∧ (1 : Int) ≤ 3 ∧ (3 : Int) ≤ 4 := by decide

/-- … and local: it reads only the components inside the span (a modification changes exactly the ions whose span
contains its residue) -/
theorem spanSum_local (c₁ c₂ : List Rat) (s e : Int) (h0 : 0 ≤ s)
    (h : ∀ i : Nat, s ≤ (i : Int) → (i : Int) < e → c₁[i]? = c₂[i]?) : spanSum c₁ s e = spanSum c₂ s e :=
  spanSum_congr c₁ c₂ s e h0 h

/-! ## 5. the other return types and `Fragmenter` are projections of the same list -/

/-- For each of `mass`, `mz`, `label`, `mass-label`, `mz-label` (and trivially `fragment`): the result is the
`return_type='fragment'` result with every `Fragment` replaced by its own `.mass` / `.mz` / `.label` — same length, same
order, same errors. -/
theorem projections (env : Env) (a : Annotation) (args : Args) (mc : Option (List Rat)) (rt : RT) (hrt : rt ≠ .other) :
    fragment env a { args with returnType := rt } mc =
      (fragment env a { args with returnType := .fragment } mc) >>= fun l => l.mapM (project env.showLoss rt) := by
  have hann : ∀ r, (mkJob env a { args with returnType := r } mc).annotation = (mkJob env a args mc).annotation :=
    fun _ => rfl
  cases hc : containsSequenceAmbiguity (mkJob env a args mc).annotation
  · rw [fragment_ok env a _ mc (by rw [hann]; exact hc), fragment_ok env a _ mc (by rw [hann]; exact hc)]
    show Except.ok ((allKeys (mkJob env a args mc) args.ionTypes.toList).flatMap
          (outOf ((mkJob env a args mc).withRT rt))) =
      List.mapM (project env.showLoss rt) ((allKeys (mkJob env a args mc) args.ionTypes.toList).flatMap
          (outOf ((mkJob env a args mc).withRT .fragment)))
    symm
    apply mapM_flatMap_ok
    intro k hkmem
    exact project_outOf (mkJob env a args mc) rt hrt k (classified_of_mem_allKeys _ _ _ hkmem)
  · rw [fragment_ambiguous env a _ mc (by rw [hann]; exact hc), fragment_ambiguous env a _ mc (by rw [hann]; exact hc)]
    rfl

/-- an unknown `return_type` appends nothing -/
theorem unknown_return_type (env : Env) (a : Annotation) (args : Args) (mc : Option (List Rat))
    (hrt : args.returnType = .other) (h : containsSequenceAmbiguity (mkJob env a args mc).annotation = false) :
    fragment env a args mc = .ok [] := by
  rw [fragment_ok env a args mc h]
  have hr : (mkJob env a args mc).returnType = .other := hrt
  have : outOf (mkJob env a args mc) = fun _ => [] := by funext k; simp [outOf, hr]
  rw [this]
  simp

/-- `Fragmenter(sequence, mono).fragment(args)` is `fragment(sequence, monoisotopic=mono, args)`: the cached mass
components are the ones `fragment` computes itself. -/
theorem fragmenter_eq_fragment (env : Env) (a : Annotation) (mono : Bool) (args : Args) :
    (Fragmenter.new env a mono).fragment args = fragment env a { args with monoisotopic := mono } none := by
  simp [Fragmenter.fragment, Fragmenter.new, fragment, mkJob]

/-- The model's `Fragmenter` carries no state besides the annotation, the mass mode and the components: whatever
sequence of requests is issued on ONE object (any order, repeats, two objects interleaved), each answer is what the
stateless `fragment` gives for that request alone — answers do not depend on the history of the object.
(`./check C04` drives the real `Fragmenter` through such sequences: oracle `fragmenter_history`.) -/
theorem fragmenter_history (env : Env) (a : Annotation) (mono : Bool) (reqs : List Args) :
    reqs.map (Fragmenter.new env a mono).fragment =
      reqs.map (fun args => fragment env a { args with monoisotopic := mono } none) :=
  List.map_congr_left (fun args _ => fragmenter_eq_fragment env a mono args)

example : [exArgs, { exArgs with ionTypes := .one .BY }, exArgs].length = 3 := rfl

/-! ## 6. numbering and labels -/

/-- `Fragment.number` of a returned ion: prefix ions (a, b, c) carry the number of residues counted from the
N-terminus, suffix ions (x, y, z) the number of residues counted from the C-terminus — both equal the ion's own
length —, internal ions the two cut indices, immonium ions the residue index. -/
theorem numbering (env : Env) (a : Annotation) (args : Args) (mc : Option (List Rat)) (out : List Out)
    (hrt : args.returnType = .fragment) (h : fragment env a args mc = .ok out)
    (hn : 1 ≤ (mkJob env a args mc).annotation.seq.length) (f : Frag) (hf : f ∈ fragsOf out) :
    (f.ion.isForward = true → f.number = .ok (.int (f.stop - f.start)) ∧ f.start = 0) ∧
    (f.ion.isBackward = true → f.number = .ok (.int (f.stop - f.start)) ∧ f.stop = alen f.parent) ∧
    (f.ion.isInternal = true → f.number = .ok (.pair f.start f.stop)) ∧
    (f.ion = Ion.I → f.number = .ok (.int f.start) ∧ f.stop = f.start + 1) := by
  have hk : f.key ∈ (fragsOf out).map Frag.key := List.mem_map.2 ⟨f, hf, rfl⟩
  have hspan := ((fragment_keys_complete env a args mc out hrt h hn f.key).1 hk).2.1
  have hpar : f.parent = (mkJob env a args mc).annotation := by
    rw [fragment_is_mkFrag env a args mc out hrt h f hf]; rfl
  have hkey : f.key.ion = f.ion ∧ f.key.start = f.start ∧ f.key.stop = f.stop := ⟨rfl, rfl, rfl⟩
  rw [hkey.1, hkey.2.1, hkey.2.2, ← hpar] at hspan
  obtain ⟨iF, iB, iI⟩ := I_unclassified
  refine ⟨?_, ?_, ?_, ?_⟩
  · intro hfw
    rcases hspan with ⟨_, h1, _, _⟩ | ⟨hb, _⟩ | ⟨hi, _⟩ | ⟨hI, _⟩
    · refine ⟨?_, h1⟩
      simp [Frag.number, getNumber, hfw, h1]
    · rw [not_forward_of_backward hb] at hfw; cases hfw
    · rw [not_forward_of_internal hi] at hfw; cases hfw
    · rw [hI, iF] at hfw; cases hfw
  · intro hbw
    have hnf := not_forward_of_backward hbw
    rcases hspan with ⟨hf', _⟩ | ⟨_, _, _, h3⟩ | ⟨hi, _⟩ | ⟨hI, _⟩
    · rw [hnf] at hf'; cases hf'
    · refine ⟨?_, h3⟩
      simp [Frag.number, getNumber, hnf, hbw, h3]
    · rw [not_backward_of_internal hi] at hbw; cases hbw
    · rw [hI, iB] at hbw; cases hbw
  · intro hint
    simp [Frag.number, getNumber, not_forward_of_internal hint, not_backward_of_internal hint, hint]
  · intro hI
    rcases hspan with ⟨hf', _⟩ | ⟨hb, _⟩ | ⟨hi, _⟩ | ⟨_, _, _, h3⟩
    · rw [hI, iF] at hf'; cases hf'
    · rw [hI, iB] at hb; cases hb
    · rw [hI, iI] at hi; cases hi
    · refine ⟨?_, h3⟩
      simp [Frag.number, getNumber, hI, iF, iB, iI]

/-- the label text: `'+' * charge`, the ion type, the number, `(loss)` unless the loss is 0, `'*' * isotope` -/
theorem label_format (showLoss : Rat → List Char) (f : Frag) (num : Number) (h : f.number = .ok num) :
    f.label showLoss = .ok (List.replicate f.charge.toNat '+' ++ f.ion.name ++ num.text ++
      (if f.loss ≠ 0 then '(' :: showLoss f.loss ++ [')'] else []) ++
      (if f.isotope > 0 then List.replicate f.isotope.toNat '*' else [])) := by
  simp [Frag.label, h, getLabel, rep, bind, Except.bind, pure, Except.pure]

example : getLabel (fun _ => ['-', '1', '8']) Ion.Y 2 (.int 3) (-18) 1 =
    ['+', '+', 'y', '3', '(', '-', '1', '8', ')', '*'] := by decide

/-! ## 7. each ion carries the modifications that sit on its residues and termini -/

/-- `slice(start, stop)`: the residues `[start, stop)`; the N-terminal mods iff the piece starts at 0; the C-terminal
mods iff it ends at the C-terminus; the residue mods of exactly the residues inside, re-indexed; global isotope labels
(and whatever global fields are left) unchanged. -/
theorem slice_carries (a : Annotation) (s e : Int) :
    (slice a s e).seq = (a.seq.drop s.toNat).take (e.toNat - s.toNat) ∧
    (slice a s e).nterm = (if s > 0 then none else a.nterm) ∧
    (slice a s e).cterm = (if e < alen a then none else a.cterm) ∧
    (slice a s e).isotope = a.isotope ∧ (slice a s e).static = a.static ∧
    (∀ d, a.internal = some d → ∀ (k' : Int) (m : List Mod),
      (∃ d', (slice a s e).internal = some d' ∧ (k', m) ∈ d') ↔ ∃ k, (k, m) ∈ d ∧ s ≤ k ∧ k < e ∧ k' = k - s) ∧
    (a.internal = none → (slice a s e).internal = none) := by
  refine ⟨slice_seq a s e, slice_nterm a s e, slice_cterm a s e, (slice_global a s e).1, (slice_global a s e).2.1,
    fun d hd k' m => mem_slice_internal a s e d hd k' m, ?_⟩
  intro h
  rw [slice_internal, h]; rfl

example : slice exPeptide 1 3 = { seq := ['E', 'P'] } ∧ (slice exPeptide 0 2).nterm = exPeptide.nterm := by decide

/-- every returned `Fragment` has `sequence = parent.slice(start, end)` (serialised by C01's writer),
`unmod_sequence` = the residues `[start, end)`, `internal = (start ≠ 0 and end ≠ len(parent))`, and the parent is the
working copy of the peptide (labile mods removed, static rules written out). -/
theorem fragment_carries (env : Env) (a : Annotation) (args : Args) (mc : Option (List Rat)) (out : List Out)
    (hrt : args.returnType = .fragment) (h : fragment env a args mc = .ok out) (f : Frag) (hf : f ∈ fragsOf out) :
    f.parent = env.condenseStatic (popLabile a) ∧
    f.sequence = slice f.parent f.start f.stop ∧
    f.unmodSequence = (f.parent.seq.drop f.start.toNat).take (f.stop.toNat - f.start.toNat) ∧
    f.internal = (decide (f.start ≠ 0) && decide (f.stop ≠ alen f.parent)) ∧
    f.monoisotopic = args.monoisotopic := by
  have e := fragment_is_mkFrag env a args mc out hrt h f hf
  have hp : f.parent = (mkJob env a args mc).annotation := by rw [e]; rfl
  have hs : f.sequence = slice (mkJob env a args mc).annotation f.start f.stop := by rw [e]; rfl
  have hu : f.unmodSequence = (slice (mkJob env a args mc).annotation f.start f.stop).seq := by rw [e]; rfl
  have hi : f.internal = (decide (f.start ≠ 0) && decide (f.stop ≠ alen (mkJob env a args mc).annotation)) := by
    rw [e]; rfl
  have hm : f.monoisotopic = args.monoisotopic := by rw [e]; rfl
  refine ⟨hp, by rw [hs, hp], ?_, by rw [hi, hp], hm⟩
  rw [hu, slice_seq, hp]; rfl

end C04
