import PeptVerif.Model.Fragment
/-! Property theorems for C04 (fragmentation). -/
namespace C04
open Fragment Pept

/-- `Fragmenter(sequence, mono).fragment(args)` is `fragment(sequence, monoisotopic=mono, args)`:
the cached mass components are the ones `fragment` computes itself. -/
theorem fragmenter_eq_fragment (env : Env) (a : Annotation) (mono : Bool) (args : Args) :
    (Fragmenter.new env a mono).fragment args = fragment env a { args with monoisotopic := mono } none := by
  simp [Fragmenter.fragment, Fragmenter.new, fragment, mkJob]

end C04
