import PeptVerif.Lemmas.FormulaHill
import PeptVerif.Props.C15
/-!
# C15, extension (round 5) — what "Hill order" of `write_chem_formula(..., hill_order=True)` is

`Props/C15.lean` proves that parsing the written string returns `sortBy (hillIndex E) c` without its zero entries, and that
this is a permutation of the composition; it does not say what the order *is*.  Here, for every element table `E` and every
composition (any length, any keys, also keys unknown to the table, which get the index 10000 as in `HILL_ORDER.get(k, 10_000)`):

* the entries are visited in non-decreasing Hill index (`hill_sorted`, `hill_written_sorted`);
* the sort is stable, as Python's `sorted` is: entries with equal index (e.g. all keys outside the table) keep the
  insertion order of the dict (`hill_stable`);
* hence the dict obtained by parsing the Hill-ordered string is the permutation of the non-zero entries that is sorted by
  Hill index and stable (`parse_write_hill_characterised`) — these three facts determine a list uniquely (`hill_order_unique`);
* on the repo's table carbon has index 0 and is the only key with it (`hill_carbon_first_table`).
-/
namespace C15Ext
open ModDb Formula C15

/-- Hill index of an entry of a composition -/
abbrev hkey (E : List Elem) : Str × Num → Nat := fun kv => hillIndex E kv.1

/-- **Sortedness.** With `hill_order=True` the writer visits the entries in non-decreasing Hill index. -/
theorem hill_sorted (E : List Elem) (c : Comp) :
    (hillSort E true c).Pairwise (fun a b => hillIndex E a.1 ≤ hillIndex E b.1) := by
  simpa [hillSort] using sortBy_sorted (hkey E) c

example : hillSort exTable.elems true exComp =
    [(kC, Num.ofInt 2), (kH, numNeg15), (kCe, Num.ofInt 0), (k13C, Num.ofInt 6), (kE, Num.ofInt (-1)), (kD, Num.ofInt 2)] := by
  decide +kernel

/-- the same for what is actually written (zero counts dropped) -/
theorem hill_written_sorted (E : List Elem) (c : Comp) :
    (dropZeros (hillSort E true c)).Pairwise (fun a b => hillIndex E a.1 ≤ hillIndex E b.1) := by
  unfold dropZeros
  exact (hill_sorted E c).filter _

example : (dropZeros (hillSort exTable.elems true exComp)).map (·.1) = [kC, kH, k13C, kE, kD] := by decide +kernel

/-- **Stability.** Entries with the same Hill index keep the order they have in the dict (Python's `sorted` is stable);
in particular all keys without an index (isotopes, particles, unknown symbols: index 10000) stay in insertion order. -/
theorem hill_stable (E : List Elem) (c : Comp) (n : Nat) :
    (hillSort E true c).filter (fun kv => hillIndex E kv.1 == n) = c.filter (fun kv => hillIndex E kv.1 == n) := by
  simpa [hillSort] using sortBy_stable (hkey E) n c

example : (hillSort exTable.elems true exComp).filter (fun kv => hillIndex exTable.elems kv.1 == 10000) =
    [(k13C, Num.ofInt 6), (kE, Num.ofInt (-1)), (kD, Num.ofInt 2)] := by decide +kernel

/-- `hill_order=False` leaves the dict order alone. -/
theorem plain_order (E : List Elem) (c : Comp) : hillSort E false c = c := by simp [hillSort]

example : hillSort exTable.elems false exComp = exComp := plain_order _ _

/-- **Uniqueness.** A list that is sorted by a key and has, for every key value, the same sub-list of entries as `l`
is `sortBy key l`: "permutation + sorted + stable" determines the Hill order completely. -/
theorem hill_order_unique (E : List Elem) (c r : Comp)
    (hs : r.Pairwise (fun a b => hillIndex E a.1 ≤ hillIndex E b.1))
    (hst : ∀ n, r.filter (fun kv => hillIndex E kv.1 == n) = c.filter (fun kv => hillIndex E kv.1 == n)) :
    r = hillSort E true c := by
  have h2 : ∀ n, r.filter (fun kv => hkey E kv == n) = (hillSort E true c).filter (fun kv => hkey E kv == n) := by
    intro n
    rw [hst n]
    exact (hill_stable E c n).symm
  exact sorted_filter_ext (hkey E) r (hillSort E true c) hs (hill_sorted E c) h2

example : hillSort exTable.elems true [(kH, Num.ofInt 1), (kC, Num.ofInt 2)] = [(kC, Num.ofInt 2), (kH, Num.ofInt 1)] := by
  decide +kernel

/-- **Round trip with the order spelled out**: parsing the Hill-ordered string gives a dict `r` that is a permutation of the
non-zero entries, sorted by Hill index, and stable with respect to the dict order of the composition. -/
theorem parse_write_hill_characterised (E : List Elem) (c : Comp) (h : DomComp c) :
    ∃ r, parseChem (writeChem E c [] true) [] = .ok r ∧
      r.Perm (dropZeros c) ∧
      r.Pairwise (fun a b => hillIndex E a.1 ≤ hillIndex E b.1) ∧
      ∀ n, r.filter (fun kv => hillIndex E kv.1 == n) = (dropZeros c).filter (fun kv => hillIndex E kv.1 == n) := by
  refine ⟨dropZeros (hillSort E true c), parseChem_write E true h.wf, (hillSort_perm E true c).filter _,
    hill_written_sorted E c, ?_⟩
  intro n
  unfold dropZeros
  rw [List.filter_comm, hill_stable E c n, List.filter_comm]

example : ∃ r, parseChem (writeChem exTable.elems exComp [] true) [] = .ok r ∧ r.map (·.1) = [kC, kH, k13C, kE, kD] :=
  ⟨_, parseChem_write exTable.elems true exComp_dom.wf, by decide +kernel⟩

/-- On the repo's element table carbon has Hill index 0 and no other key has it: with `hill_order=True` a non-zero `C` entry
is written first. -/
theorem hill_carbon_first_table :
    hillIndex repoTable.elems kC = 0 ∧ ∀ e ∈ repoTable.elems, e.hill = some 0 → e.sym = kC := by
  refine ⟨by decide +kernel, ?_⟩
  have h : repoTable.elems.all (fun e => e.hill != some 0 || e.sym == kC) = true := by decide +kernel
  intro e he h0
  have := List.all_eq_true.1 h e he
  simpa [h0] using this

example : hillIndex repoTable.elems k13C = 2 ∧ hillIndex repoTable.elems kH = 4 ∧ hillIndex repoTable.elems kD = 9 ∧
    hillIndex repoTable.elems kE = 10000 := by decide +kernel

end C15Ext
