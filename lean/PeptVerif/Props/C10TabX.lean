import PeptVerif.Model.ModDbGen
import PeptVerif.Model.ModDbFacts
/-! C10 table facts about the generated XLMOD vocabulary, by kernel evaluation -/
namespace C10TabX
open ModDb

set_option maxRecDepth 100000

theorem xlmod_keys_distinct : keysDistinct Gen.XlMod.entries = true := by decide +kernel

theorem xlmod_keys_clean : Gen.XlMod.entries.all entryClean = true := by decide +kernel

example : Gen.XlMod.entries.length = 1101 := by decide +kernel

end C10TabX
