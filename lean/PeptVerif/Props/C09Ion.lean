import PeptVerif.Model.C09Ion
/-!
# C09 extension (goal (b)) — `parse_ion_elements` is total

A separate Props module because `Pept.Err` of the parser model (Model/ModText.lean) and of the mass model (Model/Chem.lean,
used by Props/C09Ext.lean) cannot be imported together.
-/
/-! Model: Model/C09Ion.lean.
Termination: `popCount`, `popSymbol`, `digitsUS`, `popCharge` are structural recursions / list combinators on the text. -/
namespace Pept
namespace Ion

/-- **`parse_ion_elements` is total.** For EVERY text and EVERY element table the repaired function returns
(count, symbol, charge) or raises ValueError — never TypeError / KeyError / IndexError. -/
theorem parseIon_total (known : List Char → Bool) (s : List Char) :
    (∃ r, parseIonElements true known s = .ok r) ∨ parseIonElements true known s = .error .value := by
  unfold parseIonElements
  cases popCount s 1 [] with
  | none => exact Or.inr rfl
  | some p =>
    obtain ⟨cnt, rest⟩ := p
    simp only
    split
    · exact Or.inr rfl
    · cases hc : popCharge (popSymbol rest).2 with
      | ok v => exact Or.inl ⟨_, rfl⟩
      | error e =>
        have : e = .value := by
          unfold popCharge at hc
          simp only at hc
          split at hc
          · cases hc
          · split at hc
            · cases hc
            · cases hc; rfl
        subst this; exact Or.inr rfl

example : parseIonElements true (fun s => s = ['M', 'g']) "+2Mg2-".toList = .ok (2, ['M', 'g'], -2) := by decide
example : parseIonElements true (fun s => s = ['N', 'a']) "Na1_0+".toList = .ok (1, ['N', 'a'], 10) := by decide
example : parseIonElements true (fun _ => true) "+Na+x".toList = .error .value := by decide
example : parseIonElements true (fun _ => false) "+Foo+".toList = .error .value := by decide

/-- The full statement is FALSE for the code before fix e1f2554: no symbol at all (`''`, `'+'`, `'2+'`) made
`count, ion = None` raise TypeError. -/
theorem parseIon_total_false_before_fix (known : List Char → Bool) :
    parseIonElements false known [] = .error .type ∧ parseIonElements false known "2+".toList = .error .type := by
  constructor <;> rfl

/-- **Deferred validation of the ion symbol happens here.** Whatever the repaired function returns has a symbol that is the
electron `e` or a key of the element table: the later `ISOTOPIC_ATOMIC_MASSES[symbol]` of `_parse_adduct_mass` cannot raise
KeyError (it could before the fix: `parseIonElements false (fun _ => false) "+Foo+"` is accepted). -/
theorem parseIon_symbol_known (known : List Char → Bool) (s : List Char) (cnt ch : Int) (sym : List Char)
    (h : parseIonElements true known s = .ok (cnt, sym, ch)) : sym = ['e'] ∨ known sym = true := by
  unfold parseIonElements at h
  cases hp : popCount s 1 [] with
  | none => simp [hp] at h
  | some p =>
    obtain ⟨c, rest⟩ := p
    simp only [hp] at h
    split at h
    · cases h
    · rename_i hk
      cases hc : popCharge (popSymbol rest).2 with
      | error e => simp [hc] at h
      | ok v =>
        simp [hc] at h
        obtain ⟨_, hs, _⟩ := h
        subst hs
        simp at hk
        by_cases he : (popSymbol rest).1 = ['e']
        · exact Or.inl he
        · exact Or.inr (hk he)

example : parseIonElements false (fun _ => false) "+Foo+".toList = .ok (1, ['F', 'o', 'o'], 1) := by decide

end Ion
end Pept
