import PeptVerif.Model.AnnotEq
import PeptVerif.Model.ModDict
import PeptVerif.Lemmas.AnnotEq
import PeptVerif.Lemmas.ModDict
import PeptVerif.Lemmas.DecimalKey
import PeptVerif.Lemmas.AnnotCanon
import PeptVerif.Lemmas.ModDictText
/-!
# C20 - modification dictionaries and annotation copies reconstruct the same peptide; equality laws

Models: `Pept.annEq` (`ProFormaAnnotation.__eq__`), `areModsEqual`, `areIntervalsEqual`, `modEq`, `ivEq`
(Model/AnnotEq.lean) and `modDict`, `addModDict`, `strip`, `copy`, `dictArgs`, `createAnnotation`
(Model/ModDict.lean). Every `theorem` below is a proof obligation.

A *slot* is a position that carries a list of modifications: labile, unknown, N-term, C-term, charge adducts,
isotope rules, static rules, or a residue index (`Slot.get`); the interval list is a position of its own and
every interval carries a list as well.
-/
namespace Pept.C20
open Pept

/-- `{Glycan:Hex}[Acetyl]-PE[3]T[1.0][Phospho]^2/2` with an interval `(0,2)[+5]` -/
def exA : Annotation :=
  { seq := "PET".toList
    labile := some [⟨.str "Glycan:Hex".toList, 1⟩]
    nterm := some [⟨.str "Acetyl".toList, 1⟩]
    internal := some [(1, [⟨.int 3, 1⟩]), (2, [⟨.flt "1.0".toList, 1⟩, ⟨.str "Phospho".toList, 2⟩])]
    intervals := some [⟨0, 2, false, some [⟨.int 5, 1⟩]⟩]
    charge := some 2 }

/-- the same peptide with the mods of residue 2 in the other order and `1.0` written as the int `1` -/
def exB : Annotation :=
  { exA with internal := some [(2, [⟨.str "Phospho".toList, 2⟩, ⟨.int 1, 1⟩]), (1, [⟨.int 3, 1⟩])] }

/-! ## equality is an equivalence relation -/

theorem eq_refl (a : Annotation) : annEq a a = true := (annEq_iff a a).2 (annEquiv_refl a)

theorem eq_symm (a b : Annotation) : annEq a b = annEq b a := by
  cases hab : annEq a b with
  | true => exact ((annEq_iff b a).2 (annEquiv_symm ((annEq_iff a b).1 hab))).symm
  | false =>
    cases hba : annEq b a with
    | true => rw [(annEq_iff a b).2 (annEquiv_symm ((annEq_iff b a).1 hba))] at hab; cases hab
    | false => rfl

theorem eq_trans (a b c : Annotation) (h1 : annEq a b = true) (h2 : annEq b c = true) : annEq a c = true :=
  (annEq_iff a c).2 (annEquiv_trans ((annEq_iff a b).1 h1) ((annEq_iff b c).1 h2))

example : annEq exA exB = true ∧ annEq exB exA = true ∧ exA ≠ exB := by decide

/-! ## what equality means -/

/-- `a == b` iff residues and charge agree and every position carries equal multisets (declarative form of the
eleven sequential tests of `__eq__`, with the key-union loop over internal mods replaced by "for every index") -/
theorem eq_iff_equiv (a b : Annotation) : annEq a b = true ↔ AnnEquiv a b := annEq_iff a b

/-- `a == b` iff the canonical forms are equal. `eqCanon` (Lemmas/AnnotCanon.lean) keeps residues and charge and
replaces every mod list by the *multiset* of its canonical `(valKey, multiplier)` keys (`Multiset` = lists up to
reordering), the internal dict by the function index ↦ multiset (None for a missing index), and the interval
list by the multiset of `(start, end, ambiguous, multiset of keys)` -/
theorem eq_iff_canon (a b : Annotation) : annEq a b = true ↔ eqCanon a = eqCanon b := annEq_iff_canon a b

/-- two mod lists are equal iff their multisets of (value as Python compares it, multiplier) keys are equal:
`modKey` is the canonical form of one mod (an int and a float with the same decimal value have the same key) -/
theorem mods_eq_iff_perm_keys (l l' : List Mod) :
    areModsEqual (some l) (some l') = true ↔ (l.map modKey).Perm (l'.map modKey) :=
  counterEq_iff_perm l l'

/-- `None` and a list (even an empty one) are different -/
theorem mods_none_ne_list (l : List Mod) : areModsEqual none (some l) = false ∧ areModsEqual (some l) none = false :=
  ⟨rfl, rfl⟩

example : modKey ⟨.int 1, 1⟩ = modKey ⟨.flt "1.0".toList, 1⟩ ∧ modKey ⟨.int 100, 2⟩ = modKey ⟨.flt "100.0".toList, 2⟩ ∧
    modKey ⟨.int 1, 1⟩ ≠ modKey ⟨.str "1".toList, 1⟩ ∧ modKey ⟨.flt "1.5".toList, 1⟩ ≠ modKey ⟨.flt "1.25".toList, 1⟩ := by
  decide

/-! ## what "the same value" means (`Mod.val == Mod.val`)

Numbers are compared as numbers whatever their Python type: with `decEquiv m e m' e'` standing for
`m·10^e = m'·10^e'`, an int equals an int iff they are the same integer, an int `i` equals a float whose repr reads
as `m·10^e` iff `i = m·10^e`, two floats are equal iff their reprs denote the same decimal, and a string equals
only the same string (never a number). The canonical key `valKey` (mantissa without trailing zeros) decides this. -/

theorem value_eq_int_int (i j : Int) : valEq (.int i) (.int j) = true ↔ i = j := valEq_int_int i j

theorem value_eq_int_float (i : Int) (r : List Char) (m e : Int) (h : readDec r = some (m, e)) :
    valEq (.int i) (.flt r) = true ↔ decEquiv i 0 m e := valEq_int_flt i r m e h

theorem value_eq_float_float (r r' : List Char) (m e m' e' : Int) (h : readDec r = some (m, e))
    (h' : readDec r' = some (m', e')) : valEq (.flt r) (.flt r') = true ↔ decEquiv m e m' e' :=
  valEq_flt_flt r r' m e m' e' h h'

theorem value_eq_str (s : List Char) (v : ModVal) : valEq (.str s) v = true ↔ v = .str s := valEq_str s v

example : readDec "15.995".toList = some (15995, -3) ∧ readDec "1e-05".toList = some (1, -5) ∧
    readDec "-0.0".toList = some (0, -1) ∧ readDec "100.0".toList = some (1000, -1) ∧ readDec "nan".toList = none := by decide

example : decEquiv 100 0 1000 (-1) ∧ ¬ decEquiv 1 0 15 (-1) := by unfold decEquiv; decide

/-! ## insensitive to the order of modifications at one position -/

/-- reordering the mods of any slot, reordering the interval list and reordering the mods inside intervals
(`Rel2`: interval by interval, same bounds) gives an equal annotation -/
theorem eq_perm_insensitive (a b : Annotation) (hseq : a.seq = b.seq) (hcharge : a.charge = b.charge)
    (hslots : ∀ s : Slot, (s.get a = none ∧ s.get b = none) ∨ ∃ l l', s.get a = some l ∧ s.get b = some l' ∧ l.Perm l')
    (hiv : (a.intervals = none ∧ b.intervals = none) ∨
      ∃ L L' L'', a.intervals = some L ∧ b.intervals = some L' ∧ L.Perm L'' ∧
        Rel2 (fun i j : Interval => i.start = j.start ∧ i.stop = j.stop ∧ i.ambiguous = j.ambiguous ∧
          ((i.mods = none ∧ j.mods = none) ∨ ∃ m m', i.mods = some m ∧ j.mods = some m' ∧ m.Perm m')) L'' L') :
    annEq a b = true := by
  have modsOk : ∀ o o' : Option (List Mod),
      ((o = none ∧ o' = none) ∨ ∃ l l', o = some l ∧ o' = some l' ∧ l.Perm l') → areModsEqual o o' = true := by
    intro o o' h
    rcases h with ⟨h1, h2⟩ | ⟨l, l', h1, h2, hp⟩
    · rw [h1, h2]; rfl
    · rw [h1, h2]; exact msEq_of_perm modEq l l' hp
  have slotOk : ∀ s : Slot, areModsEqual (s.get a) (s.get b) = true := fun s => modsOk _ _ (hslots s)
  refine (annEq_iff a b).2 ⟨hseq, slotOk .labile, slotOk .unknown, slotOk .nterm, slotOk .cterm, slotOk .adducts,
    slotOk .isotope, slotOk .static, fun k => slotOk (.residue k), ?_, hcharge⟩
  rcases hiv with ⟨h1, h2⟩ | ⟨L, L', L'', h1, h2, hp, hr⟩
  · rw [h1, h2]; rfl
  · rw [h1, h2, areIntervalsEqual_some]
    have hr' : Rel2 (fun i j => ivEq i j = true) L'' L' :=
      hr.imp fun x y hxy => (ivEq_iff x y).2 ⟨hxy.1, hxy.2.1, hxy.2.2.1, modsOk _ _ hxy.2.2.2⟩
    refine ⟨(hp.length_eq).trans (length_of_rel2 _ _ hr'), ?_⟩
    exact msEq_trans ivEq_bequiv L L'' L' (msEq_of_perm ivEq L L'' hp) (msEq_of_rel2 ivEq_bequiv L'' L' hr')

/-- the hypotheses of `eq_perm_insensitive` on a concrete pair: `[Acetyl][Methyl]-PE` and `[Methyl][Acetyl]-PE` -/
example :
    let a : Annotation := { seq := "PE".toList, nterm := some [⟨.str "Acetyl".toList, 1⟩, ⟨.str "Methyl".toList, 1⟩] }
    let b : Annotation := { seq := "PE".toList, nterm := some [⟨.str "Methyl".toList, 1⟩, ⟨.str "Acetyl".toList, 1⟩] }
    a ≠ b ∧ ∀ s : Slot, (s.get a = none ∧ s.get b = none) ∨ ∃ l l', s.get a = some l ∧ s.get b = some l' ∧ l.Perm l' := by
  refine ⟨by decide, ?_⟩
  intro s
  cases s
  case nterm => exact Or.inr ⟨_, _, rfl, rfl, List.Perm.swap _ _ _⟩
  all_goals exact Or.inl ⟨rfl, rfl⟩

/-! ## sensitive to every other difference (one theorem per perturbation kind) -/

/-- a different residue -/
theorem eq_sensitive_residue (a b : Annotation) (h : a.seq ≠ b.seq) : annEq a b = false := by
  cases he : annEq a b with
  | false => rfl
  | true => exact absurd ((annEq_iff a b).1 he).seq h

/-- a different charge (including None against a number) -/
theorem eq_sensitive_charge (a b : Annotation) (h : a.charge ≠ b.charge) : annEq a b = false := by
  cases he : annEq a b with
  | false => rfl
  | true => exact absurd ((annEq_iff a b).1 he).charge h

/-- one modification *value* changed to a value Python does not consider equal, in any slot -/
theorem eq_sensitive_value (a b : Annotation) (s : Slot) (l : List Mod) (i : Nat) (hi : i < l.length) (v : ModVal)
    (hv : valEq l[i].val v = false) (ha : s.get a = some l) (hb : s.get b = some (l.set i { l[i] with val := v })) :
    annEq a b = false := by
  apply annEq_false_of_slot a b s
  rw [ha, hb]
  exact msEq_set modEq_bequiv l i _ hi (modEq_false_of_val _ v hv)

/-- the hypotheses of `eq_sensitive_value` on a concrete pair: N-terminal `Acetyl` against `Formyl` -/
example : valEq (ModVal.str "Acetyl".toList) (.str "Formyl".toList) = false ∧
    Slot.get .nterm exA = some [⟨.str "Acetyl".toList, 1⟩] ∧
    annEq exA { exA with nterm := some ([⟨.str "Acetyl".toList, 1⟩].set 0 ⟨.str "Formyl".toList, 1⟩) } = false := by decide

/-- one *multiplier* changed, in any slot -/
theorem eq_sensitive_multiplier (a b : Annotation) (s : Slot) (l : List Mod) (i : Nat) (hi : i < l.length) (k : Int)
    (hk : k ≠ l[i].mult) (ha : s.get a = some l) (hb : s.get b = some (l.set i { l[i] with mult := k })) :
    annEq a b = false := by
  apply annEq_false_of_slot a b s
  rw [ha, hb]
  exact msEq_set modEq_bequiv l i _ hi (modEq_false_of_mult _ k hk)

/-- one modification *dropped*, in any slot -/
theorem eq_sensitive_drop (a b : Annotation) (s : Slot) (l : List Mod) (i : Nat) (hi : i < l.length)
    (ha : s.get a = some l) (hb : s.get b = some (l.eraseIdx i)) : annEq a b = false := by
  apply annEq_false_of_slot a b s
  rw [ha, hb]
  exact msEq_eraseIdx modEq_bequiv l i hi

/-- one modification *duplicated* (inserted anywhere), in any slot -/
theorem eq_sensitive_duplicate (a b : Annotation) (s : Slot) (l : List Mod) (i j : Nat) (hi : i < l.length)
    (hj : j ≤ l.length) (ha : s.get a = some l) (hb : s.get b = some (l.insertIdx j l[i])) : annEq a b = false := by
  apply annEq_false_of_slot a b s
  rw [ha, hb]
  exact msEq_insertIdx modEq_bequiv l j _ hj

/-- a whole slot present on one side only (a list, even `[]`, against None); for a residue slot this is a
modification moved away from its *position* -/
theorem eq_sensitive_position (a b : Annotation) (s : Slot) (l : List Mod)
    (h : (s.get a = some l ∧ s.get b = none) ∨ (s.get a = none ∧ s.get b = some l)) : annEq a b = false := by
  apply annEq_false_of_slot a b s
  rcases h with ⟨h1, h2⟩ | ⟨h1, h2⟩ <;> rw [h1, h2] <;> rfl

/-- one interval changed in a *bound*, in the ambiguity flag, or in its mods (to a non-equal list) -/
theorem eq_sensitive_interval (a b : Annotation) (L : List Interval) (i : Nat) (hi : i < L.length) (iv : Interval)
    (hiv : iv.start ≠ L[i].start ∨ iv.stop ≠ L[i].stop ∨ iv.ambiguous ≠ L[i].ambiguous ∨
      areModsEqual L[i].mods iv.mods = false)
    (ha : a.intervals = some L) (hb : b.intervals = some (L.set i iv)) : annEq a b = false := by
  apply annEq_false_of_intervals
  rw [ha, hb]
  apply areIntervalsEqual_false_of_msEq
  apply msEq_set ivEq_bequiv L i iv hi
  cases he : ivEq L[i] iv with
  | false => rfl
  | true =>
    obtain ⟨h1, h2, h3, h4⟩ := (ivEq_iff _ _).1 he
    rcases hiv with h | h | h | h
    · exact absurd h1.symm h
    · exact absurd h2.symm h
    · exact absurd h3.symm h
    · rw [h4] at h; cases h

/-- one interval dropped or duplicated -/
theorem eq_sensitive_interval_count (a b : Annotation) (L : List Interval) (i : Nat) (hi : i < L.length)
    (ha : a.intervals = some L)
    (hb : b.intervals = some (L.eraseIdx i) ∨ ∃ j, j ≤ L.length ∧ b.intervals = some (L.insertIdx j L[i])) :
    annEq a b = false := by
  apply annEq_false_of_intervals
  rcases hb with hb | ⟨j, hj, hb⟩ <;> rw [ha, hb] <;> apply areIntervalsEqual_false_of_msEq
  · exact msEq_eraseIdx ivEq_bequiv L i hi
  · exact msEq_insertIdx ivEq_bequiv L j _ hj

/-- the perturbations above produce non-equal mod lists inside an interval as well -/
theorem interval_mods_sensitive (l : List Mod) (i : Nat) (hi : i < l.length) :
    (∀ v, valEq l[i].val v = false → areModsEqual (some l) (some (l.set i { l[i] with val := v })) = false) ∧
    (∀ k, k ≠ l[i].mult → areModsEqual (some l) (some (l.set i { l[i] with mult := k })) = false) ∧
    areModsEqual (some l) (some (l.eraseIdx i)) = false ∧
    (∀ j, j ≤ l.length → areModsEqual (some l) (some (l.insertIdx j l[i])) = false) :=
  ⟨fun v hv => msEq_set modEq_bequiv l i _ hi (modEq_false_of_val _ v hv),
   fun k hk => msEq_set modEq_bequiv l i _ hi (modEq_false_of_mult _ k hk),
   msEq_eraseIdx modEq_bequiv l i hi,
   fun j hj => msEq_insertIdx modEq_bequiv l j _ hj⟩

example : annEq exA { exA with charge := some 3 } = false ∧
    annEq exA { exA with nterm := some [⟨.str "Acetyl".toList, 2⟩] } = false ∧
    annEq exA { exA with internal := some [(0, [⟨.int 3, 1⟩]), (2, [⟨.flt "1.0".toList, 1⟩, ⟨.str "Phospho".toList, 2⟩])] } = false ∧
    annEq exA { exA with intervals := some [⟨0, 3, false, some [⟨.int 5, 1⟩]⟩] } = false := by decide

/-! ## modification dictionaries -/

/-- `strip()` then `add_mod_dict(mod_dict())` gives back the annotation, field by field (either append mode).
The only normalisation: an *empty* internal dict `{}` is not represented in the dictionary and comes back as None. -/
theorem add_get_inverse (a : Annotation) (app : Bool) (h : a.internal ≠ some []) :
    addModDict (strip a) (modDict a) app = a := by
  rw [addModDict_strip_modDict, if_neg h]

/-- without the side condition the rebuilt annotation is still `==` the source -/
theorem add_get_inverse_eq (a : Annotation) (app : Bool) : annEq (addModDict (strip a) (modDict a) app) a = true := by
  rw [addModDict_strip_modDict]
  split
  · rename_i h
    refine (annEq_iff _ _).2 ⟨rfl, areModsEqual_bequiv.refl _, areModsEqual_bequiv.refl _, areModsEqual_bequiv.refl _,
      areModsEqual_bequiv.refl _, areModsEqual_bequiv.refl _, areModsEqual_bequiv.refl _, areModsEqual_bequiv.refl _,
      ?_, areIntervalsEqual_bequiv.refl _, rfl⟩
    intro k
    simp [getInternal, h, areModsEqual]
  · exact eq_refl _

/-- the wrappers: `add_mods(strip_mods(x), get_mods(x))` and `add_mods(*pop_mods(x))` (default `append=True`) -/
theorem pt_add_get_inverse (a : Annotation) (h : a.internal ≠ some []) :
    ptAddMods { seq := stripMods a } (getMods a) = a ∧ ptAddMods { seq := (ptPopMods a).1 } (ptPopMods a).2 = a :=
  ⟨add_get_inverse a true h, add_get_inverse a true h⟩

example : exA.internal ≠ some [] ∧ addModDict (strip exA) (modDict exA) = exA := by decide

/-! ## the same at text level ("reproduces the original string")

With the serializer and parser models of C01 (`Pept.serialize`, `Pept.parse`, `Pept.canon`; `plus` = any `include_plus`
convention). `stripGetAddStr` / `popAddStr` (Model/SequenceFuncs.lean) are the literal
`add_mods(strip_mods(s), get_mods(s), append, include_plus)` and `add_mods(*pop_mods(s), include_plus)` on strings. -/

/-- `strip()` + `add_mod_dict(mod_dict())` serializes to the original string - for *every* annotation (an empty internal
dict and an absent one are written the same way, so no side condition) and both append modes -/
theorem add_get_inverse_text (plus : Plus) (a : Annotation) (app : Bool) :
    serialize plus (addModDict (strip a) (modDict a) app) = serialize plus a := serialize_addModDict_strip plus a app

/-- string in, string out: on the text of a canonical annotation (written with any `+` convention) the wrappers give back
its serialization in the requested convention - in particular the same string for the same convention -/
theorem pt_add_get_inverse_text (plus plus' : Plus) (app : Bool) (a : Annotation) (hc : canon a = true) :
    stripGetAddStr plus' app (serialize plus a) = .ok (serialize plus' a) ∧
    popAddStr plus' (serialize plus a) = .ok (serialize plus' a) ∧
    stripModsStr (serialize plus a) = .ok a.seq ∧ getModsStr (serialize plus a) = .ok (modDict a) := by
  refine ⟨stripGetAddStr_serialize plus plus' app a hc, popAddStr_serialize plus plus' a hc, ?_, ?_⟩
  · simp [stripModsStr, sequenceToAnnotation_serialize plus a hc, stripMods]
  · simp [getModsStr, sequenceToAnnotation_serialize plus a hc, getMods]

/-- `create_annotation(**a.dict())` writes the same string -/
theorem create_dict_text (plus : Plus) (a : Annotation) : serialize plus (createAnnotation (dictArgs a)) = serialize plus a := by
  rw [createAnnotation_dictArgs]

example : canon exA = true ∧
    serialize (constPlus false) (addModDict (strip exA) (modDict exA)) =
      "{Glycan:Hex}[Acetyl]-(PE[3])[5]T[1.0][Phospho]^2/2".toList := by decide +kernel

/-- `create_annotation(**a.dict())` is `a` -/
theorem create_dict (a : Annotation) : createAnnotation (dictArgs a) = a := createAnnotation_dictArgs a

/-- a copy is equal to its source (independence is a dynamic check) -/
theorem copy_eq (a : Annotation) : copy a = a ∧ annEq (copy a) a = true := ⟨rfl, eq_refl a⟩

/-- stripping removes every modification and nothing else -/
theorem strip_spec (a : Annotation) :
    (strip a).seq = a.seq ∧ modDict (strip a) = [] ∧ (popMods a).2 = strip a ∧ stripMods a = a.seq ∧
    (strip a).isotope = none ∧ (strip a).static = none ∧ (strip a).labile = none ∧ (strip a).unknown = none ∧
    (strip a).nterm = none ∧ (strip a).cterm = none ∧ (strip a).internal = none ∧ (strip a).intervals = none ∧
    (strip a).charge = none ∧ (strip a).adducts = none :=
  ⟨rfl, rfl, rfl, rfl, rfl, rfl, rfl, rfl, rfl, rfl, rfl, rfl, rfl, rfl⟩

/-- stripping is idempotent and a stripped annotation equals another one iff the residues agree -/
theorem strip_eq_iff (a b : Annotation) : annEq (strip a) (strip b) = true ↔ a.seq = b.seq := by
  constructor
  · intro h; exact ((annEq_iff _ _).1 h).seq
  · intro h
    have : strip a = strip b := by simp [strip, h]
    rw [this]; exact eq_refl _

end Pept.C20
