import PeptVerif.Model.AnnotEq
import PeptVerif.Model.ModDict
namespace Pept.C20
end Pept.C20
