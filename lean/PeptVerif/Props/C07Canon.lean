import PeptVerif.Props.C11Canon
import PeptVerif.Props.C16
import PeptVerif.Props.C07
/-!
# C07 — re-parse, string return types and relocation as theorems

Uses, read-only: C01's `canon` / `parse_serialize` / `serialize` (Spec/ProForma.lean, Props/C01.lean, Model/Serialize.lean),
C16's search model `Search.findIndices` / `findSubsequenceIndices` and `findIndices_spec_slice` (Model/Search.lean,
Props/C16.lean), C20's model of `==` (`annEq`). `normalize` (Lemmas/ReorderCanon.lean) is the unobservable normal form of
the residue-modification dict (`{}` ↦ `None`, entries in key order); for a slice it only removes `{}`.
-/
namespace Pept.Reorder.C07
open Pept Pept.Search

/-! ## 1. the peptide string re-parses to the returned annotation -/

/-- every digested piece for a non-empty span whose ends are not strictly inside an interval: its string parses back to
the piece (literally: to its normal form, which the library's `==` identifies with the piece), for both `include_plus`
settings -/
theorem piece_reparse (plus : Plus) (a : Annotation) (s e : Nat) (hs : s < e) (he : e ≤ a.seq.length)
    (hca : canon a = true) (hc : CutsOK a.intervals a.seq.length [s, e]) :
    parse true (serialize plus (slice a (s : Int) (e : Int))) = .ok (.single (normalize (slice a (s : Int) (e : Int)))) ∧
    annEq (normalize (slice a (s : Int) (e : Int))) (slice a (s : Int) (e : Int)) = true :=
  C11.slice_reparse plus a s e hs he hca hc

/-! ## 2. the five return types describe the same peptides -/

/-- `'str'` is `serialize` mapped over `'annotation'` (the fast path writes the bare residue string, which is what the
serializer writes for an unmodified annotation) -/
theorem strings_eq_map_serialize (plus : Plus) (a : Annotation) (spans : List Spans.Span) :
    digestStrings plus a spans = (digestPieces a spans).map (serialize plus) := by
  unfold digestStrings digestPieces
  cases h : hasMods a
  · simp only [Bool.not_false, if_true, List.map_map]
    apply List.map_congr_left
    intro sp _
    simp only [Function.comp, serialize_plain]
  · simp [List.map_map, Function.comp]

/-- `'str-span'` and `'annotation-span'` pair the same peptides with the same spans -/
theorem stringSpans_eq (plus : Plus) (a : Annotation) (spans : List Spans.Span) :
    digestStringSpans plus a spans = (digestPieceSpans a spans).map (fun p => (serialize plus p.1, p.2)) ∧
    (digestPieceSpans a spans).map (·.1) = digestPieces a spans ∧
    (digestPieceSpans a spans).map (·.2) = spans ∧
    (digestStringSpans plus a spans).map (·.1) = digestStrings plus a spans := by
  unfold digestStringSpans digestPieceSpans digestPieces digestStrings
  cases h : hasMods a
  · simp only [Bool.not_false, if_true, List.map_map]
    refine ⟨?_, ?_, ?_, ?_⟩
    · apply List.map_congr_left
      intro sp _
      simp only [Function.comp, serialize_plain]
    · apply List.map_congr_left; intro sp _; rfl
    · exact map_eq_self _ _ (fun sp _ => rfl)
    · apply List.map_congr_left; intro sp _; rfl
  · simp only [Bool.not_true, Bool.false_eq_true, if_false, List.map_map]
    refine ⟨?_, ?_, ?_, ?_⟩
    · apply List.map_congr_left; intro sp _; rfl
    · apply List.map_congr_left; intro sp _; rfl
    · exact map_eq_self _ _ (fun sp _ => rfl)
    · apply List.map_congr_left; intro sp _; rfl

/-- all five return types through the general path: each is a projection of `spans.map (slice a)` -/
theorem return_types_agree (plus : Plus) (a : Annotation) (spans : List Spans.Span) :
    digestPieces a spans = spans.map (fun sp => slice a sp.1 sp.2.1) ∧
    digestStrings plus a spans = spans.map (fun sp => serialize plus (slice a sp.1 sp.2.1)) := by
  have h1 := dispatcher_eq_slices a spans
  refine ⟨h1, ?_⟩
  rw [strings_eq_map_serialize, h1, List.map_map]
  rfl

/-! ## 3. found again at offset `s` -/

/-- the piece (as an annotation) is found in the protein at its offset `s` by the subsequence search -/
theorem relocate_annotation (a : Annotation) (s e : Nat) (hs : s < e) (he : e ≤ a.seq.length) :
    s ∈ findSubsequenceIndices a (slice a (s : Int) (e : Int)) false := by
  have hlen : (slice a (s : Int) (e : Int)).seq.length = e - s := by
    rw [slice_seq]; exact pySlice_length_nat a.seq s e (by omega) he
  have hq : 0 < (slice a (s : Int) (e : Int)).seq.length := by omega
  have h1 : a.seq.isEmpty = false := by
    cases h : a.seq with
    | nil => rw [h] at he; simp at he; omega
    | cons x t => rfl
  have h2 : (slice a (s : Int) (e : Int)).seq.isEmpty = false := by
    cases h : (slice a (s : Int) (e : Int)).seq with
    | nil => rw [h] at hq; simp at hq
    | cons x t => rfl
  unfold findSubsequenceIndices
  simp only [h1, h2, Bool.false_eq_true, if_false]
  rw [findIndices_spec_slice _ _ hq]
  refine ⟨by omega, ?_, ?_⟩
  · rw [hlen, slice_seq, pySlice_nat]
    have e1 : min s a.seq.length = s := by omega
    have e2 : min e a.seq.length = e := by omega
    rw [e1, e2]
  · have : sliceAt a s (slice a (s : Int) (e : Int)).seq.length = slice a (s : Int) (e : Int) := by
      unfold sliceAt
      rw [hlen]
      congr 1; omega
    rw [this]
    exact (annEq_iff _ _).2 (annEquiv_refl _)

/-- **the peptide string is found again at offset `s`**: what `find_subsequence_indices(protein, peptide_string)` does —
parse the string (C01), then search (C16) — returns a list containing `s` -/
theorem relocate (plus : Plus) (a : Annotation) (s e : Nat) (hs : s < e) (he : e ≤ a.seq.length)
    (hca : canon a = true) (hc : CutsOK a.intervals a.seq.length [s, e]) :
    ∃ q, parse true (serialize plus (slice a (s : Int) (e : Int))) = .ok (.single q) ∧
      s ∈ findSubsequenceIndices a q false := by
  obtain ⟨hp, heq⟩ := piece_reparse plus a s e hs he hca hc
  refine ⟨_, hp, ?_⟩
  have hlen : (slice a (s : Int) (e : Int)).seq.length = e - s := by
    rw [slice_seq]; exact pySlice_length_nat a.seq s e (by omega) he
  have hnseq : (normalize (slice a (s : Int) (e : Int))).seq = (slice a (s : Int) (e : Int)).seq := rfl
  have hq : 0 < (normalize (slice a (s : Int) (e : Int))).seq.length := by rw [hnseq]; omega
  have h1 : a.seq.isEmpty = false := by
    cases h : a.seq with
    | nil => rw [h] at he; simp at he; omega
    | cons x t => rfl
  have h2 : (normalize (slice a (s : Int) (e : Int))).seq.isEmpty = false := by
    cases h : (normalize (slice a (s : Int) (e : Int))).seq with
    | nil => rw [h] at hq; simp at hq
    | cons x t => rfl
  unfold findSubsequenceIndices
  simp only [h1, h2, Bool.false_eq_true, if_false]
  rw [findIndices_spec_slice _ _ hq, hnseq]
  refine ⟨by omega, ?_, ?_⟩
  · rw [hlen, slice_seq, pySlice_nat]
    have e1 : min s a.seq.length = s := by omega
    have e2 : min e a.seq.length = e := by omega
    rw [e1, e2]
  · have : sliceAt a s (slice a (s : Int) (e : Int)).seq.length = slice a (s : Int) (e : Int) := by
      unfold sliceAt
      rw [hlen]
      congr 1; omega
    rw [this]
    exact (annEq_iff _ _).2 (annEquiv_symm ((annEq_iff _ _).1 heq))

/-! ## non-vacuity -/

example : canon C11.cdemo = true := by decide +kernel
example : digestStrings (constPlus false) C11.cdemo [(0, 3, 0), (3, 7, 0)] =
    ["[Acetyl]-P[Phospho](EP)[1]".toList, "(?T[16]^2I)DE-[Amidated]".toList] := by decide +kernel
example : findSubsequenceIndices C11.cdemo (slice C11.cdemo 3 7) false = [3] := by decide +kernel

end Pept.Reorder.C07
