import PeptVerif.Model.ModDbGen
import PeptVerif.Lemmas.ModDbLemmas
import PeptVerif.Props.C10Generic
/-!
C10 for the 27 monosaccharide entries: `Glycan:` (any letter case) followed by the name, the accession or any synonym
resolves to the entry's own tabulated masses and composition.  Table fact by kernel evaluation + the generic glycan lemmas.
-/
namespace C10Glycan
open ModDb Formula

set_option maxRecDepth 100000

abbrev T : Tables := Gen.tables

/-- every key of the entry (accession, name, synonyms) is found by the glycan look-up and leads to this entry; no key
contains `:`, `#` or `|`; the entry has both masses and a composition -/
def monoKeyOK (db : List Entry) (e : Entry) : Bool :=
  (e.id :: e.name :: e.syns).all (fun k => monoLookup db k == some e && !k.contains 58 && !k.contains 35 && !k.contains 124)
    && e.mono.isSome && e.avg.isSome && e.comp.isSome

/-- table fact (27 entries, 74 keys) -/
theorem mono_keys_resolve : Gen.Mono.entries.all (monoKeyOK Gen.Mono.entries) = true := by decide +kernel

theorem filter_noColon {k : Str} (h : 58 ∉ k) : k.filter (· != 58) = k := by
  apply List.filter_eq_self.mpr
  intro a ha
  simp only [bne_iff_ne, ne_eq]
  intro e; exact h (e ▸ ha)

/-- monosaccharides: every `Glycan:` spelling of accession, name or synonym gives the tabulated mono / average mass and
the tabulated composition of the entry -/
theorem spelling_invariant_mono (e : Entry) (he : e ∈ Gen.Mono.entries) (k : Str) (hk : k ∈ e.id :: e.name :: e.syns)
    (p' : Str) (hl : lower p' = str% "glycan:") :
    ∃ m a f, e.mono = some m ∧ e.avg = some a ∧ e.comp = some f ∧
      modMass T (p' ++ k) true = .ok (some m.toRat) ∧ modMass T (p' ++ k) false = .ok (some a.toRat) ∧
      modComp T (p' ++ k) = parseChem f [] := by
  have hfact := List.all_eq_true.mp mono_keys_resolve e he
  simp only [monoKeyOK, Bool.and_eq_true, List.all_eq_true, Bool.not_eq_true', beq_iff_eq] at hfact
  obtain ⟨⟨⟨hkeys, hm⟩, ha⟩, hc⟩ := hfact
  obtain ⟨⟨⟨hlook, h58⟩, h35⟩, h124⟩ := hkeys k hk
  have h58' : 58 ∉ k := by simpa using h58
  have h35' : 35 ∉ k := by simpa using h35
  have h124' : 124 ∉ k := by simpa using h124
  obtain ⟨m, hm⟩ := Option.isSome_iff_exists.mp hm
  obtain ⟨a, ha⟩ := Option.isSome_iff_exists.mp ha
  obtain ⟨f, hf⟩ := Option.isSome_iff_exists.mp hc
  obtain ⟨_, _, _, h35p, h124p⟩ := spelled_decomp (p := str% "glycan:") (by decide) hl
  have hbar : 124 ∉ p' ++ k := by simp [h124p, h124']
  have hlook' : monoLookup T.mono k = some e := hlook
  refine ⟨m, a, f, hm, ha, hf, ?_, ?_, ?_⟩
  · rw [C10Generic.modMass_single T _ true hbar, C10Generic.glycan_mass_spelled T p' k true hl h35', filter_noColon h58',
      hlook']
    simp [hm]
  · rw [C10Generic.modMass_single T _ false hbar, C10Generic.glycan_mass_spelled T p' k false hl h35', filter_noColon h58',
      hlook']
    simp [ha]
  · have hs : startsWith (lower (p' ++ k)) (str% "glycan:") = true := by
      rw [lower_append, hl]; exact startsWith_append _ _
    have h35all : 35 ∉ p' ++ k := by simp [h35p, h35']
    have hj : joinAfterColon (p' ++ k) = k := by
      rw [ModDbGeneric.joinAfterColon_prefix (q := str% "glycan") k (by rw [hl]; rfl) (by decide), filter_noColon h58']
    rw [C10Generic.modComp_single T _ hbar, C10Generic.glycan_comp T _ hs h35all]
    simp only [glycanCompProforma, hs, if_true, hj, hlook', hf]
    cases parseChem f [] <;> rfl

example : ∃ e ∈ Gen.Mono.entries, e.name = str% "d-Hex" ∧ str% "HexD" ∈ e.id :: e.name :: e.syns := by decide +kernel

/-- concrete instance through the real resolver: `glycan:HexD` (synonym, lower-case prefix) = d-Hex = 146.057908799 -/
theorem glycan_synonym_resolves :
    modMass T (str% "glycan:HexD") true = .ok (some (146057908799 / 1000000000)) ∧
    modMass T (str% "GLYCAN:0C4F1FA5") true = .ok (some (146057908799 / 1000000000)) ∧
    modMass T (str% "Glycan:d-Hex") true = .ok (some (146057908799 / 1000000000)) := by decide +kernel

end C10Glycan
