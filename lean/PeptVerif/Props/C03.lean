import PeptVerif.Lemmas.Mass
/-!
C03 — mass calculator ≡ composition calculator + residual delta.  Property theorems only.
-/
namespace Pept.C03
open Pept Pept.Chem Pept.Mass Pept.CompCalc

/-- the two encodings of the +1 ion agree: the composition of `FRAGMENT_ION_BASE_CHARGE_ADDUCTS[t]` (parsed by the
adduct parser model) is `FRAGMENT_ION_COMPOSITIONS[t]`, for every ion type except `n` (whose adduct text is empty and
never parsed: `n` takes the precursor branch) -/
theorem ion_tables_agree :
    Gen.ionComp.all (fun p =>
      p.1 == ionN ||
      (match lookup p.1 Gen.baseAdducts with
        | none => false
        | some s => match chargeAdductsCompStr s with
          | .ok c => decide (dropZeros c = dropZeros (addAll [] p.2))
          | .error _ => false)) = true := by decide +kernel

/-- Python builds the default charge carrier as the text `f'{n}H+'` and parses it back; for |n| ≤ 9 the parser model
returns exactly `protonsComp n` -/
theorem protons_text_roundtrip :
    ([-9, -8, -7, -6, -5, -4, -3, -2, -1, 0, 1, 2, 3, 4, 5, 6, 7, 8, 9] : List Int).all (fun n =>
      let txt : List Nat := (if n < 0 then [45] else []) ++ natDigits n.natAbs ++ [72, 43]
      match adductComp txt with
      | .ok c => decide (c = protonsComp n)
      | .error _ => false) = true := by decide +kernel


/-! ### linearity of `chem_mass` (`chemMassL μ` = the sum Σ μ(element)·count that `chem_mass` computes) -/

/-- adding the counts of a second dict (`d[k] = d.get(k, 0) + v`) adds the masses -/
theorem chemMass_add (μ : Elem → Rat) (a b : Comp) : chemMassL μ (addAll a b) = chemMassL μ a + chemMassL μ b :=
  chemMassL_addAll μ a b

/-- scaling every count (a multiplier, a residue count) scales the mass -/
theorem chemMass_smul (μ : Elem → Rat) (k : Rat) (c : Comp) : chemMassL μ (scale k c) = k * chemMassL μ c :=
  chemMassL_scale μ k c

/-- `merge_dicts` (add counts per key, drop zero counts) is mass-additive: dropping zero counts is mass-neutral -/
theorem chemMass_merge (μ : Elem → Rat) (a b : Comp) : chemMassL μ (merge a b) = chemMassL μ a + chemMassL μ b :=
  chemMassL_merge μ a b

/-- the final `{k: v for k, v in composition.items() if v != 0}` of `_sequence_comp` does not change the mass -/
theorem chemMass_dropZeros (μ : Elem → Rat) (c : Comp) : chemMassL μ (dropZeros c) = chemMassL μ c :=
  chemMassL_dropZeros μ c

example : chemMassL (fun e => (e : Rat)) (merge [(1, 2), (2, 3)] [(2, -3), (1, 1 / 2)]) = 5 / 2 := by decide +kernel

/-- `chem_mass` itself (the function that may raise) succeeds on known elements and equals that sum -/
theorem chemMass_eq_linear (mono : Bool) (c : Comp) (h : c.all (fun p => (elemMass mono p.1).isSome) = true) :
    chemMass mono c none = .ok (chemMassL (fun e => (elemMass mono e).getD 0) c) :=
  chemMass_ok mono c h

/-- **averagine estimation is mass-exact**: the composition `estimate_comp(δ)` has monoisotopic mass exactly δ over ℚ,
so `comp(..., estimate_delta=True)` has the same monoisotopic mass as composition + residual delta -/
theorem estimate_comp_mass (δ : Rat) :
    ∃ c, estimateComp δ none = .ok c ∧ chemMass true c none = .ok δ := by
  refine ⟨_, rfl, ?_⟩
  have hk : (Gen.averagine.map (fun p => (p.1, p.2 * δ / isotopicAveragineMass))).all
      (fun p => (elemMass true p.1).isSome) = true := by
    rw [List.all_map]
    show Gen.averagine.all (fun p => (elemMass true p.1).isSome) = true
    decide +kernel
  rw [chemMass_ok true _ hk, chemMassL_averagine]

/-- and adding it to a composition adds exactly δ to the monoisotopic mass (`comp` with `estimate_delta=True`) -/
theorem comp_estimate_mass (c : Comp) (δ : Rat) :
    chemMassL (fun e => (elemMass true e).getD 0)
      (addAll c (Gen.averagine.map (fun p => (p.1, p.2 * δ / isotopicAveragineMass))))
      = chemMassL (fun e => (elemMass true e).getD 0) c + δ := by
  rw [chemMassL_addAll, chemMassL_averagine]

end Pept.C03
