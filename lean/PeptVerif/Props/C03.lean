import PeptVerif.Spec.Mass
/-!
C03 — mass calculator ≡ composition calculator + residual delta.  Property theorems only.
-/
namespace Pept.C03
open Pept Pept.Chem Pept.Mass Pept.CompCalc

/-- the two encodings of the +1 ion agree: the composition of `FRAGMENT_ION_BASE_CHARGE_ADDUCTS[t]` (parsed by the
adduct parser model) is `FRAGMENT_ION_COMPOSITIONS[t]`, for every ion type except `n` (whose adduct text is empty and
never parsed: `n` takes the precursor branch) -/
theorem ion_tables_agree :
    Gen.ionComp.all (fun p =>
      p.1 == ionN ||
      (match lookup p.1 Gen.baseAdducts with
        | none => false
        | some s => match chargeAdductsCompStr s with
          | .ok c => decide (dropZeros c = dropZeros (addAll [] p.2))
          | .error _ => false)) = true := by decide +kernel

/-- Python builds the default charge carrier as the text `f'{n}H+'` and parses it back; for |n| ≤ 9 the parser model
returns exactly `protonsComp n` -/
theorem protons_text_roundtrip :
    ([-9, -8, -7, -6, -5, -4, -3, -2, -1, 0, 1, 2, 3, 4, 5, 6, 7, 8, 9] : List Int).all (fun n =>
      let txt : List Nat := (if n < 0 then [45] else []) ++ natDigits n.natAbs ++ [72, 43]
      match adductComp txt with
      | .ok c => decide (c = protonsComp n)
      | .error _ => false) = true := by decide +kernel

end Pept.C03
