import PeptVerif.Lemmas.ModTablesBridge
import PeptVerif.Model.MassEnv
import PeptVerif.Props.C02
/-!
C03 — mass calculator ≡ composition calculator + residual delta.  Property theorems only.
-/
namespace Pept.C03
open Pept Pept.Chem Pept.Mass Pept.CompCalc

/-- the two encodings of the +1 ion agree: the composition of `FRAGMENT_ION_BASE_CHARGE_ADDUCTS[t]` (parsed by the
adduct parser model) is `FRAGMENT_ION_COMPOSITIONS[t]`, for every ion type except `n` (whose adduct text is empty and
never parsed: `n` takes the precursor branch) -/
theorem ion_tables_agree : CompCalc.ionTablesOk = true := by decide +kernel

/-- Python builds the default charge carrier as the text `f'{n}H+'` and parses it back; for |n| ≤ 9 the parser model
returns exactly `protonsComp n` -/
theorem protons_text_roundtrip :
    ([-9, -8, -7, -6, -5, -4, -3, -2, -1, 0, 1, 2, 3, 4, 5, 6, 7, 8, 9] : List Int).all (fun n =>
      let txt : List Nat := (if n < 0 then [45] else []) ++ natDigits n.natAbs ++ [72, 43]
      match adductComp txt with
      | .ok c => decide (c = protonsComp n)
      | .error _ => false) = true := by decide +kernel


/-! ### linearity of `chem_mass` (`chemMassL μ` = the sum Σ μ(element)·count that `chem_mass` computes) -/

/-- adding the counts of a second dict (`d[k] = d.get(k, 0) + v`) adds the masses -/
theorem chemMass_add (μ : Elem → Rat) (a b : Comp) : chemMassL μ (addAll a b) = chemMassL μ a + chemMassL μ b :=
  chemMassL_addAll μ a b

/-- scaling every count (a multiplier, a residue count) scales the mass -/
theorem chemMass_smul (μ : Elem → Rat) (k : Rat) (c : Comp) : chemMassL μ (scale k c) = k * chemMassL μ c :=
  chemMassL_scale μ k c

/-- `merge_dicts` (add counts per key, drop zero counts) is mass-additive: dropping zero counts is mass-neutral -/
theorem chemMass_merge (μ : Elem → Rat) (a b : Comp) : chemMassL μ (merge a b) = chemMassL μ a + chemMassL μ b :=
  chemMassL_merge μ a b

/-- the final `{k: v for k, v in composition.items() if v != 0}` of `_sequence_comp` does not change the mass -/
theorem chemMass_dropZeros (μ : Elem → Rat) (c : Comp) : chemMassL μ (dropZeros c) = chemMassL μ c :=
  chemMassL_dropZeros μ c

example : chemMassL (fun e => (e : Rat)) (merge [(1, 2), (2, 3)] [(2, -3), (1, 1 / 2)]) = 5 / 2 := by decide +kernel

/-- `chem_mass` itself (the function that may raise) succeeds on known elements and equals that sum -/
theorem chemMass_eq_linear (mono : Bool) (c : Comp) (h : c.all (fun p => (elemMass mono p.1).isSome) = true) :
    chemMass mono c none = .ok (chemMassL (fun e => (elemMass mono e).getD 0) c) :=
  chemMass_ok mono c h

/-- **averagine estimation is mass-exact**: the composition `estimate_comp(δ)` has monoisotopic mass exactly δ over ℚ,
so `comp(..., estimate_delta=True)` has the same monoisotopic mass as composition + residual delta -/
theorem estimate_comp_mass (δ : Rat) :
    ∃ c, estimateComp δ none = .ok c ∧ chemMass true c none = .ok δ := by
  refine ⟨_, rfl, ?_⟩
  have hk : (Gen.averagine.map (fun p => (p.1, p.2 * δ / isotopicAveragineMass))).all
      (fun p => (elemMass true p.1).isSome) = true := by
    rw [List.all_map]
    show Gen.averagine.all (fun p => (elemMass true p.1).isSome) = true
    decide +kernel
  rw [chemMass_ok true _ hk, chemMassL_averagine]

/-- and adding it to a composition adds exactly δ to the monoisotopic mass (`comp` with `estimate_delta=True`) -/
theorem comp_estimate_mass (c : Comp) (δ : Rat) :
    chemMassL (fun e => (elemMass true e).getD 0)
      (addAll c (Gen.averagine.map (fun p => (p.1, p.2 * δ / isotopicAveragineMass))))
      = chemMassL (fun e => (elemMass true e).getD 0) c + δ := by
  rw [chemMassL_addAll, chemMassL_averagine]


/-! ### the central identity -/

/-- **mass calculator = composition calculator + residual delta, exactly over ℚ up to `k·ε`** with
`ε = PROTON_MASS − (m(H) − mₑ)` and `k` = the number of charges the fast path adds as `PROTON_MASS` where the
composition adds `H − e` (`charge` for `p`/`n`, `charge − 1` for the 16 fragment types):

for every annotation whose written modifications resolve (a plain shift, or a composition together with a tabulated
mass: `AllConsistent`), every placement (labile, unknown,
termini, intervals, residues) and multiplier, every known ion type, any charge (argument or annotation, any sign), any
isotope offset and loss, both modes.  `gapSum` = Σ over the written modifications of multiplier × (tabulated mass −
mass of the tabulated composition): 0 for exactly self-consistent rows (`gapSum_exact`), bounded row by row for the
vocabularies by `unimod_mono_consistent`, `unimod_avg_chnops_consistent`, `psimod_mono_excluded` through `row_gap`.
|ε| ≤ 2·10⁻⁸ in monoisotopic mode (`C02.particles_ok`); in average mode
`m(H)` is the average hydrogen mass and ε = −1.157·10⁻⁴.

Partial: this theorem is the case without global static rules (`a.static = none`); `mass_eq_compMass_static` is the
case with rules, `mass_eq_compMass_adducts` the case with an explicit adduct list.  With isotope labels in force `mass`
IS the composition path (`mass_label_path`). -/
theorem mass_eq_compMass_partial (env : Env) (a : Annotation) (o : Opts)
    (hstatic : a.static = none) (hl : o.isotopeMods = none) (hl' : a.isotope = none)
    (had : o.adducts = none) (had' : a.adducts = none) (hprec : o.precision = none)
    (hres : KnownResidues a.seq) (hcons : AllConsistent env o.mono (writtenMods a))
    (hadj : (lookup o.ion neutralAdj).isSome = true)
    (hion : o.ion = ionP ∨ o.ion = ionN ∨ (lookup o.ion Gen.ionComp).isSome = true) :
    ∃ c d, compMass env a o.ion o.charge o.isotope none none o.useIsotopeOnMods = .ok (c, d) ∧
      mass env a o = .ok (chemMassL (μ o.mono) c + d + o.loss + kProtons a o * (Gen.protonMass - hplus o.mono)
        + gapSum env o.mono (Spec.placedMods a o.ion)) :=
  mass_eq_compMass_of_tables ion_tables_agree env a o hstatic hl hl' had had' hprec hres hcons hadj hion

/-- **the same identity with global static rules** (`<[mods]@targets>`, including `N-Term`, `C-Term` and multi-residue
targets, any multiplier): `comp_mass` condenses the rules into terminal / per-residue modifications, `mass` adds
`mods × number of matching residues`; both routes agree exactly.  `map` is what `parse_static_mods` returns for the
annotation's rules; its modifications must resolve self-consistently like the written ones.  Together with
`mass_eq_compMass_partial` (no rules) this covers every annotation without an explicit adduct list. -/
theorem mass_eq_compMass_static (env : Env) (a : Annotation) (o : Opts)
    (st : List Mod) (map : List (List Char × List Mod)) (hs : a.static = some st) (hp : env.parseStatic st = .ok map)
    (hl : o.isotopeMods = none) (hl' : a.isotope = none)
    (had : o.adducts = none) (had' : a.adducts = none) (hprec : o.precision = none)
    (hres : KnownResidues a.seq) (hcons : AllConsistent env o.mono (writtenMods a ++ mapMods map))
    (hadj : (lookup o.ion neutralAdj).isSome = true)
    (hion : o.ion = ionP ∨ o.ion = ionN ∨ (lookup o.ion Gen.ionComp).isSome = true) :
    ∃ c d, compMass env a o.ion o.charge o.isotope none none o.useIsotopeOnMods = .ok (c, d) ∧
      mass env a o = .ok (chemMassL (μ o.mono) c + d + o.loss + kProtons a o * (Gen.protonMass - hplus o.mono)
        + (gapSum env o.mono (Spec.placedMods a o.ion) + mapGap env o.mono a.seq map)) :=
  mass_eq_compMass_static_of_tables ion_tables_agree env a o st map hs hp hl hl' had had' hprec hres hcons hadj hion

/-- **… for the modelled `parse_static_mods`**: the rule parser is no longer a parameter but the concrete model of the C12
work package (`Static.parseStaticMods`: bracket groups with multipliers, `@`, comma-separated targets); only the
per-value resolution `res` remains a parameter (C10) -/
theorem mass_eq_compMass_static_concrete (res : ModVal → Res) (a : Annotation) (o : Opts)
    (st : List Mod) (map : List (List Char × List Mod)) (hs : a.static = some st)
    (hp : Static.parseStaticMods (some st) = .ok map)
    (hl : o.isotopeMods = none) (hl' : a.isotope = none)
    (had : o.adducts = none) (had' : a.adducts = none) (hprec : o.precision = none)
    (hres : KnownResidues a.seq) (hcons : AllConsistent (Env.concrete res) o.mono (writtenMods a ++ mapMods map))
    (hadj : (lookup o.ion neutralAdj).isSome = true)
    (hion : o.ion = ionP ∨ o.ion = ionN ∨ (lookup o.ion Gen.ionComp).isSome = true) :
    ∃ c d, compMass (Env.concrete res) a o.ion o.charge o.isotope none none o.useIsotopeOnMods = .ok (c, d) ∧
      mass (Env.concrete res) a o = .ok (chemMassL (μ o.mono) c + d + o.loss
        + kProtons a o * (Gen.protonMass - hplus o.mono)
        + (gapSum (Env.concrete res) o.mono (Spec.placedMods a o.ion) + mapGap (Env.concrete res) o.mono a.seq map)) :=
  mass_eq_compMass_static (Env.concrete res) a o st map hs (Env.concrete_parse res st map hp)
    hl hl' had had' hprec hres hcons hadj hion

-- non-vacuity: the rule `[+10][Acetyl]^2@T,N-Term` parses to T ↦ [10, Acetyl×2], N-Term ↦ [10, Acetyl×2]
example : Static.parseStaticMods (some [⟨.str "[+10][Acetyl]^2@T,N-Term".toList, 1⟩])
    = .ok [("T".toList, [⟨.int 10, 1⟩, ⟨.str "Acetyl".toList, 2⟩]),
           ("N-Term".toList, [⟨.int 10, 1⟩, ⟨.str "Acetyl".toList, 2⟩])] := by decide +kernel

/-- **the identity with an explicit adduct list** — from the `charge_adducts` argument or written in the annotation
(`PEPTIDE/2[+Na+,+K+]`), for every ion type (the list replaces the whole charge carrier in both calculators), any
charge / isotope / loss, both modes: `mass = chem_mass(comp) + δ + loss + adductGap + gapSum` with
`adductGap` = Σ q·mₑ·(count − 1) over the stated non-electron ions (and `PROTON_MASS − (m(H) − mₑ)` for the literal `+H+`).
The known finding KF-C03-adduct-electron-count is exactly a non-zero `adductGap`; it vanishes when every ion is stated
once (`adductGap_counts_one`).  (No global static rules in this statement.) -/
theorem mass_eq_compMass_adducts (env : Env) (a : Annotation) (o : Opts) (s : List Char)
    (hsrc : AdductSource a o s)
    (hstatic : a.static = none) (hl : o.isotopeMods = none) (hl' : a.isotope = none) (hprec : o.precision = none)
    (hres : KnownResidues a.seq) (hcons : AllConsistent env o.mono (writtenMods a))
    (hadj : (lookup o.ion neutralAdj).isSome = true)
    (hions : (splitComma (s.map Char.toNat)).all (Spec.adductIonOk o.mono) = true) :
    ∃ c d, compMass env a o.ion o.charge o.isotope o.adducts none o.useIsotopeOnMods = .ok (c, d) ∧
      mass env a o = .ok (chemMassL (μ o.mono) c + d + o.loss + adductGap o.mono (s.map Char.toNat)
        + gapSum env o.mono (Spec.placedMods a o.ion)) :=
  mass_eq_compMass_adducts_of_tables Pept.C02.avg_keys_ok env a o s hsrc hstatic hl hl' hprec hres hcons hadj hions

/-- every ion stated once (electrons as `e-`) and not the literal `+H+`: the two calculators agree exactly -/
theorem adductGap_counts_one (mono : Bool) (s : List Nat) (hs : s ≠ [43, 72, 43])
    (h : ∀ x ∈ splitComma s, ∀ cnt sym q, parseIonElements x = .ok (cnt, sym, q) →
      (sym = kE ∧ q = -1) ∨ (sym ≠ kE ∧ cnt = 1)) :
    adductGap mono s = 0 := by
  unfold adductGap
  simp only [hs, if_false]
  have : ∀ l : List (List Nat), (∀ x ∈ l, ionGap x = 0) → Spec.sumR (l.map ionGap) = 0 := by
    intro l
    induction l with
    | nil => intro _; rfl
    | cons x l ih =>
      intro hl
      rw [List.map_cons, Spec.sumR_cons, hl x List.mem_cons_self, ih (fun y hy => hl y (List.mem_cons_of_mem _ hy))]
      ring
  apply this
  intro x hx
  unfold ionGap
  cases hp : parseIonElements x with
  | error e => rfl
  | ok r =>
    obtain ⟨cnt, sym, q⟩ := r
    rcases h x hx cnt sym q hp with ⟨he, hq⟩ | ⟨he, hc⟩
    · simp [he, hq]
    · simp [he, hc]

-- non-vacuity: PEPTIDE/2[+Na+,+2K+] (annotation) and the argument form
example : AdductSource { seq := "PEPTIDE".toList, charge := some 2, adducts := some [⟨.str "+Na+,+2K+".toList, 1⟩] } {}
    "+Na+,+2K+".toList := Or.inr ⟨rfl, 1, rfl⟩
example : (splitComma ("+Na+,+2K+".toList.map Char.toNat)).all (Spec.adductIonOk false) = true := by decide +kernel

/-- with exactly self-consistent rows (tabulated mass = mass of the composition in the mode; every numeric, formula and
glycan modification is such a row) the gap term vanishes and the identity is `mass = chem_mass(comp) + δ + loss + k·ε` -/
theorem gapSum_exact (env : Env) (mono : Bool) (l : List Mod) (h : ∀ m ∈ l, ExactlyConsistent env mono m.val) :
    gapSum env mono l = 0 := gapSum_zero env mono l h

/-! ### exhaustive clause: every vocabulary row against this work package's element table -/

open Pept.ModTables in
/-- **every Unimod entry** (1522): |tabulated monoisotopic mass − chem_mass(tabulated composition)| ≤ 1e-4, with the
composition text read by the formula model and the masses of `Model/Chem.lean` (recomputed from data/chem.txt) -/
theorem unimod_mono_consistent : Gen.Unimod.entries.all monoOk = true := unimod_mono_consistent'

open Pept.ModTables ModDb in
/-- **average mode, exact excluded set**: the Unimod entries whose tabulated average mass is NOT within 1e-3 + 5 ppm of
the average mass of their composition are exactly these six (Hg, Mo ×3, Cu/Mo, Zn: the upstream table uses other
standard atomic weights for metals) -/
theorem unimod_avg_excluded :
    failing avgOk Gen.Unimod.entries = [str% "291", str% "391", str% "415", str% "424", str% "444", str% "954"] :=
  unimod_avg_excluded'

open Pept.ModTables in
/-- … and every Unimod entry composed of C, H, N, O, P, S and their isotopes is within 1e-3 + 5 ppm -/
theorem unimod_avg_chnops_consistent : Gen.Unimod.entries.all (fun e => avgOk e || !isChnops e) = true :=
  unimod_avg_chnops_consistent'

open Pept.ModTables in
/-- **PSI-MOD**: of the 1541 rows that carry a monoisotopic mass and a composition, the rows that are not self-consistent
within 1e-4 are exactly the 63 of `psimodMonoExcluded` (charged species off by one electron mass, iron-sulfur clusters …);
every other row is consistent -/
theorem psimod_mono_excluded : failing monoOk (rows Gen.PsiMod.entries) = psimodMonoExcluded := psimod_mono_excluded'

open Pept.ModTables in
/-- PSI-MOD average masses are tabulated with other atomic weights (often 2 decimals): 1048 of the 1541 rows are outside
1e-3 + 5 ppm; the property quantifies over the self-consistent rows only -/
theorem psimod_avg_counts :
    (rows Gen.PsiMod.entries).length = 1541 ∧ (failing avgOk (rows Gen.PsiMod.entries)).length = 1048 :=
  psimod_avg_counts'

open Pept.ModTables in
/-- **from a checked row to the gap term**: if the resolver answers a value with the row's composition and tabulated
monoisotopic mass, `k` copies of it contribute exactly `k·(m − chem_mass(c))` to `gapSum`, at most `|k|·1e-4` -/
theorem row_gap_mono (env : Env) (e : ModDb.Entry) (he : monoOk e = true) (v : ModVal) (k : Int) :
    ∃ c m, entryComp e = some c ∧ e.mono = some m ∧
      ((env.res v).delta = .ok none → (env.res v).comp = .ok c → (env.res v).mono = .ok m.toRat →
        gapOf env true ⟨v, k⟩ ≤ 1 / 10000 * Mass.absQ (k : Rat) ∧
        -(1 / 10000 * Mass.absQ (k : Rat)) ≤ gapOf env true ⟨v, k⟩) := by
  obtain ⟨c, m, x, hc, hm, hx, hb⟩ := monoOk_unfold e he
  refine ⟨c, m, hc, hm, ?_⟩
  intro hd hcomp hmono
  obtain ⟨_, hxx⟩ := massOf_eq true c x hx
  obtain ⟨b1, b2⟩ := absQ_bounds _ _ hb
  have := gapOf_row env true v k c m.toRat x (1 / 10000) hd hcomp hmono hxx ⟨by linarith, by linarith⟩
  exact ⟨this.2.1, this.2.2⟩

open Pept.ModTables in
/-- the same in average mode with the row's own tolerance 1e-3 + 5 ppm·|m| -/
theorem row_gap_avg (env : Env) (e : ModDb.Entry) (he : avgOk e = true) (v : ModVal) (k : Int) :
    ∃ c m, entryComp e = some c ∧ e.avg = some m ∧
      ((env.res v).delta = .ok none → (env.res v).comp = .ok c → (env.res v).avg = .ok m.toRat →
        gapOf env false ⟨v, k⟩ ≤ (1 / 1000 + 5 / 1000000 * ModTables.absQ m.toRat) * Mass.absQ (k : Rat) ∧
        -((1 / 1000 + 5 / 1000000 * ModTables.absQ m.toRat) * Mass.absQ (k : Rat)) ≤ gapOf env false ⟨v, k⟩) := by
  obtain ⟨c, m, x, hc, hm, hx, hb⟩ := avgOk_unfold e he
  refine ⟨c, m, hc, hm, ?_⟩
  intro hd hcomp hmono
  obtain ⟨_, hxx⟩ := massOf_eq false c x hx
  obtain ⟨b1, b2⟩ := absQ_bounds _ _ hb
  have := gapOf_row env false v k c m.toRat x (1 / 1000 + 5 / 1000000 * ModTables.absQ m.toRat) hd hcomp hmono hxx
    ⟨by linarith, by linarith⟩
  exact ⟨this.2.1, this.2.2⟩

/-- the size of ε: monoisotopic |ε| ≤ 2·10⁻⁸, average |ε| ≤ 1.2·10⁻⁴ — so the two calculators differ by at most
`|k|·2·10⁻⁸` Da (mono) resp. `|k|·1.2·10⁻⁴` Da (average), inside the property's 10⁻⁴ / 10⁻³ for |k| ≤ 8 -/
theorem epsilon_bound :
    (-(2 / 100000000 : Rat) ≤ Gen.protonMass - hplus true ∧ Gen.protonMass - hplus true ≤ 2 / 100000000) ∧
    (-(12 / 100000 : Rat) ≤ Gen.protonMass - hplus false ∧ Gen.protonMass - hplus false ≤ 12 / 100000) := by
  unfold hplus μ
  refine ⟨⟨?_, ?_⟩, ⟨?_, ?_⟩⟩ <;> decide +kernel

/-- with isotope labels in force (argument or annotation) `mass` is by definition the composition path:
`chem_mass(comp_mass(...).composition) + delta + loss`, rounded last -/
theorem mass_label_path (env : Env) (a : Annotation) (o : Opts) (r : Resolved) (m : Mod) (ms : List Mod)
    (hr : resolveArgs a o = .ok r) (hlab : r.isotopeMods = some (m :: ms))
    (hB : a.seq.contains 'B' = false) (hZ : a.seq.contains 'Z' = false) :
    mass env a o = (do
      let (c, d) ← compMass env a o.ion r.charge o.isotope r.adducts (some (m :: ms)) o.useIsotopeOnMods
      let cm ← chemMass o.mono c none
      pure (roundOpt (cm + d + o.loss) o.precision)) := by
  unfold mass massWith
  rw [hr, bind_ok]
  simp only [hB, hZ, Bool.false_eq_true, if_false]
  rw [hlab]

-- non-vacuity: PEPTIDE with a numeric shift ×2 on a residue, a composition-bearing N-terminal mod, a labile shift;
-- y-type ion, charge 2, average mode
example : AllConsistent ⟨fun v => if v = .int 7 then ⟨.ok 7, .ok 7, .ok (some 7), .error .valueError⟩
      else ⟨.ok (chemMassL (μ true) [(kO, 1)]), .ok (chemMassL (μ false) [(kO, 1)]), .ok none, .ok [(kO, 1)]⟩, fun _ => .ok []⟩ false
    (writtenMods { seq := "PEPTIDE".toList, labile := some [⟨.int 7, 1⟩], nterm := some [⟨.str "Oxidation".toList, 1⟩],
                   internal := some [(2, [⟨.int 7, 2⟩])] }) := by
  intro m hm
  simp only [writtenMods, ivMods, intMods, Option.getD_some, Option.getD_none, List.flatMap_cons, List.flatMap_nil,
    List.append_nil, List.nil_append, List.cons_append, List.mem_cons, List.mem_nil_iff, or_false] at hm
  rcases hm with rfl | rfl | rfl
  · exact Or.inl ⟨7, rfl, rfl⟩
  · exact Or.inr ⟨[(kO, 1)], _, rfl, rfl, rfl⟩
  · exact Or.inl ⟨7, rfl, rfl⟩
example : KnownResidues ['P', 'E', 'P', 'T', 'I', 'D', 'E'] := by
  intro ch hch
  simp only [List.mem_cons, List.mem_nil_iff, or_false] at hch
  rcases hch with rfl | rfl | rfl | rfl | rfl | rfl | rfl <;> exact Option.isSome_iff_exists.mp (by decide +kernel)
example : (lookup (Spec.k "y") neutralAdj).isSome = true ∧ (lookup (Spec.k "y") Gen.ionComp).isSome = true := by
  constructor <;> decide +kernel

end Pept.C03
