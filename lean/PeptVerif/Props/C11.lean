import PeptVerif.Lemmas.Reorder
namespace Pept.Reorder.C11

theorem slice_inplace_eq (a : Annotation) (s e : Int) : sliceInplace a s e = slice a s e := by
  unfold sliceInplace slice plain
  cases h : hasMods a <;> simp [hasMods] at h ⊢
  · obtain ⟨⟨⟨⟨⟨⟨⟨⟨⟨h1, h2⟩, h3⟩, h4⟩, h5⟩, h6⟩, h7⟩, h8⟩, h9⟩, h10⟩ := h
    cases a; simp_all
  · split <;> split <;> simp_all

theorem slice_residues (a : Annotation) (s e : Nat) (hs : s ≤ e) (he : e ≤ a.seq.length) :
    residues (slice a s e) = ((residues a).drop s).take (e - s) := by
  apply List.ext_getElem?
  intro i
  rw [residues_getElem?, slice_seq, pySlice_nat, List.getElem?_take, List.getElem?_take, List.getElem?_drop,
    List.getElem?_drop, residues_getElem?]
  have h1 : min s a.seq.length = s := by omega
  have h2 : min e a.seq.length = e := by omega
  rw [h1, h2]
  by_cases hi : i < e - s
  · simp only [hi, if_true]
    rw [modsAt_slice a s e i (by omega)]
  · simp [hi]

theorem reverse_residues (a : Annotation) (sw : Bool) : residues (reverse a sw) = (residues a).reverse := by
  apply List.ext_getElem?
  intro i
  rw [residues_getElem?]
  by_cases hi : i < a.seq.length
  · rw [List.getElem?_reverse (by rw [residues_length]; exact hi), residues_getElem?, residues_length,
      modsAt_reverse a sw i hi]
    show a.seq.reverse[i]?.map _ = _
    rw [List.getElem?_reverse hi]
  · have h1 : (reverse a sw).seq[i]? = none := by
      show a.seq.reverse[i]? = none
      simp; omega
    have h2 : (residues a).reverse[i]? = none := by
      simp [residues_length]; omega
    rw [h1, h2]; rfl

theorem reverse_reverse (a : Annotation) (sw : Bool) (hint : a.internal ≠ some [])
    (hiv : ∀ l, a.intervals = some l → ∀ iv ∈ l, iv.start ≤ iv.stop) :
    reverse (reverse a sw) sw = a := by
  obtain ⟨seq, iso, sta, lab, unk, nt, ct, int, ivs, ch, add⟩ := a
  simp only [reverse, List.length_reverse, List.reverse_reverse]
  congr 1
  · cases sw <;> rfl
  · cases sw <;> rfl
  · cases int with
    | none => rfl
    | some d =>
      cases d with
      | nil => exact absurd rfl hint
      | cons p t =>
        simp only [List.map_cons, List.map_map]
        rw [reverseEntry_involutive]
        congr 2
        exact map_eq_self _ t (fun q _ => reverseEntry_involutive _ q)
  · cases ivs with
    | none => rfl
    | some l =>
      simp only [Option.map_some, List.map_reverse, List.reverse_reverse, List.map_map]
      congr 1
      exact map_eq_self _ l (fun iv hiv' => reverseInterval_involutive _ iv (hiv l rfl iv hiv'))

theorem shift_residues (a : Annotation) (k : Int) (hn : a.seq ≠ []) (hk : KeysOK a) :
    ∃ b, shift a k = .ok b ∧
      residues b = (residues a).drop (k % (a.seq.length : Int)).toNat ++
        (residues a).take (k % (a.seq.length : Int)).toNat := by
  obtain ⟨b, hb, hseq, hint, -⟩ := shift_spec a k hn hk
  refine ⟨b, hb, ?_⟩
  have hlen : 0 < a.seq.length := List.length_pos_iff.mpr hn
  have hn0 : ¬ ((a.seq.length : Int) = 0) := by omega
  have he0 : 0 ≤ k % (a.seq.length : Int) := Int.emod_nonneg _ hn0
  have he : k % (a.seq.length : Int) < a.seq.length := Int.emod_lt_of_pos _ (by omega)
  generalize hE : k % (a.seq.length : Int) = eff at *
  obtain ⟨e, rfl⟩ := Int.eq_ofNat_of_zero_le he0
  simp only [Int.toNat_natCast] at *
  apply List.ext_getElem?
  intro i
  rw [residues_getElem?, hseq, List.getElem?_append, List.getElem?_append]
  simp only [List.length_drop, residues_length, List.getElem?_drop, List.getElem?_take]
  by_cases h1 : i < a.seq.length - e
  · simp only [h1, if_true]
    rw [residues_getElem?]
    rw [modsAt_shift a b e he0 he hk hint i (e + i) (by omega) (by omega) (by split <;> omega)]
  · simp only [h1, if_false]
    by_cases h2 : i - (a.seq.length - e) < e
    · simp only [h2, if_true]
      rw [residues_getElem?]
      rw [modsAt_shift a b e he0 he hk hint i (i - (a.seq.length - e)) (by omega) (by omega) (by split <;> omega)]
    · simp [h2]

theorem shift_shift_neg_partial (a : Annotation) (k : Int) (hn : a.seq ≠ []) (hk : KeysOK a)
    (hint : a.internal ≠ some []) (hiv : a.intervals = none) :
    ∃ b, shift a k = .ok b ∧ shift b (-k) = .ok a := by
  obtain ⟨b, hb, hseq, hbint, hbiv, g1, g2, g3, g4, g5, g6, g7, g8⟩ := shift_spec a k hn hk
  refine ⟨b, hb, ?_⟩
  have hlen : 0 < a.seq.length := List.length_pos_iff.mpr hn
  have hn0 : ¬ ((a.seq.length : Int) = 0) := by omega
  have he0 : 0 ≤ k % (a.seq.length : Int) := Int.emod_nonneg _ hn0
  have he : k % (a.seq.length : Int) < a.seq.length := Int.emod_lt_of_pos _ (by omega)
  have hneg := neg_emod_range k a.seq.length (by omega)
  generalize hE : k % (a.seq.length : Int) = eff at *
  obtain ⟨e, rfl⟩ := Int.eq_ofNat_of_zero_le he0
  simp only [Int.toNat_natCast] at hseq
  have hblen : b.seq.length = a.seq.length := by
    rw [hseq]; simp; omega
  have hbn : b.seq ≠ [] := by
    intro h; rw [h] at hblen; simp at hblen; omega
  have hkb : KeysOK b := by
    intro d hd
    rw [hbint] at hd
    cases hda : a.internal with
    | none => rw [hda] at hd; cases hd
    | some da =>
      obtain ⟨hnd, hr⟩ := hk da hda
      rw [hda] at hd
      cases da with
      | nil => cases hd
      | cons p t =>
        simp only [Option.some.injEq] at hd
        subst hd
        refine ⟨shift_keys_nodup _ _ _ he0 he hnd hr, ?_⟩
        intro q hq
        simp only [List.mem_map] at hq
        obtain ⟨r, _, rfl⟩ := hq
        rw [hblen]
        exact ⟨Int.emod_nonneg _ hn0, Int.emod_lt_of_pos _ (by omega)⟩
  obtain ⟨c, hc, hcseq, hcint, hciv, c1, c2, c3, c4, c5, c6, c7, c8⟩ := shift_spec b (-k) hbn hkb
  rw [hc]
  congr 1
  rw [hblen] at hcseq hcint hciv
  rw [hneg] at hcseq hcint hciv
  apply Annotation.ext'
  · rw [hcseq, hseq]
    by_cases h0 : (e : Int) = 0
    · have : e = 0 := by omega
      subst this; simp
    · simp only [h0, if_false]
      have : ((a.seq.length : Int) - (e : Int)).toNat = a.seq.length - e := by omega
      rw [this, List.drop_left' (by simp), List.take_left' (by simp), List.take_append_drop]
  · rw [c1, g1]
  · rw [c2, g2]
  · rw [c3, g3]
  · rw [c4, g4]
  · rw [c7, g7]
  · rw [c8, g8]
  · rw [hcint, hbint]
    cases hda : a.internal with
    | none => rfl
    | some da =>
      cases da with
      | nil => exact absurd hda hint
      | cons p t =>
        obtain ⟨_, hr⟩ := hk _ hda
        simp only [List.map_cons, List.map_map]
        rw [shiftEntry_inverse e _ _ he0 he rfl p (hr p (by simp))]
        congr 2
        exact map_eq_self _ t (fun q hq => shiftEntry_inverse e _ _ he0 he rfl q (hr q (by simp [hq])))
  · rw [hciv, hbiv, hiv]
  · rw [c5, g5]
  · rw [c6, g6]

theorem shift_multiple_partial (a : Annotation) (k : Int) (hn : a.seq ≠ []) (hk : KeysOK a)
    (hint : a.internal ≠ some []) (hiv : a.intervals = none) (hmul : k % (a.seq.length : Int) = 0) :
    shift a k = .ok a := by
  obtain ⟨b, hb, hseq, hbint, hbiv, g1, g2, g3, g4, g5, g6, g7, g8⟩ := shift_spec a k hn hk
  rw [hb]
  congr 1
  rw [hmul] at hseq hbint hbiv
  have hlen : 0 < a.seq.length := List.length_pos_iff.mpr hn
  apply Annotation.ext' _ g1 g2 g3 g4 g7 g8 _ _ g5 g6
  · rw [hseq]; simp
  · rw [hbint]
    cases hda : a.internal with
    | none => rfl
    | some da =>
      cases da with
      | nil => exact absurd hda hint
      | cons p t =>
        obtain ⟨_, hr⟩ := hk _ hda
        simp only
        congr 1
        apply map_eq_self
        intro q hq
        have h1 := hr q hq
        unfold shiftEntry
        ext
        · simp only [Int.sub_zero]
          exact Int.emod_eq_of_lt h1.1 h1.2
        · rfl
  · rw [hbiv, hiv]

theorem shift_length_partial (a : Annotation) (hn : a.seq ≠ []) (hk : KeysOK a)
    (hint : a.internal ≠ some []) (hiv : a.intervals = none) : shift a a.seq.length = .ok a :=
  shift_multiple_partial a _ hn hk hint hiv Int.emod_self

end Pept.Reorder.C11
