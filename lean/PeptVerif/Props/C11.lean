import PeptVerif.Lemmas.Reorder
namespace Pept.Reorder.C11

theorem slice_inplace_eq (a : Annotation) (s e : Int) : sliceInplace a s e = slice a s e := by
  unfold sliceInplace slice plain
  cases h : hasMods a <;> simp [hasMods] at h ⊢
  · obtain ⟨⟨⟨⟨⟨⟨⟨⟨⟨h1, h2⟩, h3⟩, h4⟩, h5⟩, h6⟩, h7⟩, h8⟩, h9⟩, h10⟩ := h
    cases a; simp_all
  · split <;> split <;> simp_all

end Pept.Reorder.C11
