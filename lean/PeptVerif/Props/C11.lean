import PeptVerif.Lemmas.Reorder
/-!
# C11 — reordering and cutting a peptide moves modifications with their residues

Property theorems only. Left-hand sides are the models of `ProFormaAnnotation.slice / reverse / shift / shuffle /
sort_residues / split` (`Model/Reorder.lean`, tied to /repo by the correspondence run of `./check C11`; the model follows
the code after the five `fix:` commits listed in known_findings.json).
`residues a : List (Char × List Mod)` is the peptide as a list of residues, each with its own modifications.

Domain hypotheses and why they are there
* `KeysOK a`: residue-modification keys are distinct (a Python dict) and are positions of the sequence. Outside it
  `shuffle` / `sort_residues` raise KeyError and `shift` merges entries (`k` and `k+n` collide) — modelled, not in the domain.
* `a.seq ≠ []` for shift / shuffle (ZeroDivisionError / ValueError on the empty sequence — modelled).
* `a.internal ≠ some []` in the *identity* laws: `{}` is normalised to `None` by reverse / shift (not observable through
  the API, `==` treats both alike).
* `IntervalsOK a` (intervals non-empty and inside the sequence) and `a.intervals ≠ some []` (`[]` is normalised to `None`) in
  the shift identities; `NoWrap a k` (no interval has the rotation point strictly inside) for shift k then -k and for the
  cover law of shift: an interval that wraps around after the rotation cannot be written as one (start, end) pair and is
  replaced by a different interval — known finding KF-C11-shift-interval-wraparound,
  `shift_wraparound_false_on_current_code`. Shifting by a multiple of the length never wraps.
* `perm.Perm (List.range n)`: the permutation argument of `shuffle` is the outcome of `random.shuffle` on the positions.
-/
namespace Pept.Reorder.C11

theorem slice_inplace_eq (a : Annotation) (s e : Int) : sliceInplace a s e = slice a s e := by
  unfold sliceInplace slice plain
  cases h : hasMods a <;> simp [hasMods] at h ⊢
  · obtain ⟨⟨⟨⟨⟨⟨⟨⟨⟨h1, h2⟩, h3⟩, h4⟩, h5⟩, h6⟩, h7⟩, h8⟩, h9⟩, h10⟩ := h
    cases a; simp_all
  · split <;> split <;> simp_all
example : sliceInplace demo 0 3 = slice demo 0 3 ∧ (slice demo 0 3).cterm = none := by decide

theorem slice_residues (a : Annotation) (s e : Nat) (hs : s ≤ e) (he : e ≤ a.seq.length) :
    residues (slice a s e) = ((residues a).drop s).take (e - s) :=
  residues_slice a s e hs he
example : residues (slice demo (1 : Nat) (4 : Nat)) = [('E', []), ('P', []), ('T', [⟨.int 16, 2⟩])] := by decide

theorem reverse_residues (a : Annotation) (sw : Bool) : residues (reverse a sw) = (residues a).reverse := by
  apply List.ext_getElem?
  intro i
  rw [residues_getElem?]
  by_cases hi : i < a.seq.length
  · rw [List.getElem?_reverse (by rw [residues_length]; exact hi), residues_getElem?, residues_length,
      modsAt_reverse a sw i hi]
    show a.seq.reverse[i]?.map _ = _
    rw [List.getElem?_reverse hi]
  · have h1 : (reverse a sw).seq[i]? = none := by
      show a.seq.reverse[i]? = none
      simp; omega
    have h2 : (residues a).reverse[i]? = none := by
      simp [residues_length]; omega
    rw [h1, h2]; rfl
example : (residues (reverse demo true)).map (·.2) = [[], [], [], [⟨.int 16, 2⟩], [], [], [⟨.str ['P', 'h'], 1⟩]] := by decide

theorem reverse_reverse (a : Annotation) (sw : Bool) (hint : a.internal ≠ some [])
    (hiv : ∀ l, a.intervals = some l → ∀ iv ∈ l, iv.start ≤ iv.stop) :
    reverse (reverse a sw) sw = a := by
  obtain ⟨seq, iso, sta, lab, unk, nt, ct, int, ivs, ch, add⟩ := a
  simp only [reverse, List.length_reverse, List.reverse_reverse]
  congr 1
  · cases sw <;> rfl
  · cases sw <;> rfl
  · cases int with
    | none => rfl
    | some d =>
      cases d with
      | nil => exact absurd rfl hint
      | cons p t =>
        simp only [List.map_cons, List.map_map]
        rw [reverseEntry_involutive]
        congr 2
        exact map_eq_self _ t (fun q _ => reverseEntry_involutive _ q)
  · cases ivs with
    | none => rfl
    | some l =>
      simp only [Option.map_some, List.map_reverse, List.reverse_reverse, List.map_map]
      congr 1
      exact map_eq_self _ l (fun iv hiv' => reverseInterval_involutive _ iv (hiv l rfl iv hiv'))
example : demo.internal ≠ some [] ∧ ∀ l, demo.intervals = some l → ∀ iv ∈ l, iv.start ≤ iv.stop := by
  refine ⟨by decide, ?_⟩
  intro l h; cases h; decide

theorem shift_residues (a : Annotation) (k : Int) (hn : a.seq ≠ []) (hk : KeysOK a) :
    ∃ b, shift a k = .ok b ∧
      residues b = (residues a).drop (k % (a.seq.length : Int)).toNat ++
        (residues a).take (k % (a.seq.length : Int)).toNat := by
  obtain ⟨b, hb, hseq, hint, -⟩ := shift_spec a k hn hk
  refine ⟨b, hb, ?_⟩
  have hlen : 0 < a.seq.length := List.length_pos_iff.mpr hn
  have hn0 : ¬ ((a.seq.length : Int) = 0) := by omega
  have he0 : 0 ≤ k % (a.seq.length : Int) := Int.emod_nonneg _ hn0
  have he : k % (a.seq.length : Int) < a.seq.length := Int.emod_lt_of_pos _ (by omega)
  generalize hE : k % (a.seq.length : Int) = eff at *
  obtain ⟨e, rfl⟩ := Int.eq_ofNat_of_zero_le he0
  simp only [Int.toNat_natCast] at *
  apply List.ext_getElem?
  intro i
  rw [residues_getElem?, hseq, List.getElem?_append, List.getElem?_append]
  simp only [List.length_drop, residues_length, List.getElem?_drop, List.getElem?_take]
  by_cases h1 : i < a.seq.length - e
  · simp only [h1, if_true]
    rw [residues_getElem?]
    rw [modsAt_shift a b e he0 he hk hint i (e + i) (by omega) (by omega) (by split <;> omega)]
  · simp only [h1, if_false]
    by_cases h2 : i - (a.seq.length - e) < e
    · simp only [h2, if_true]
      rw [residues_getElem?]
      rw [modsAt_shift a b e he0 he hk hint i (i - (a.seq.length - e)) (by omega) (by omega) (by split <;> omega)]
    · simp [h2]
example : demo.seq ≠ [] ∧ KeysOK demo := ⟨by decide, demo_keysOK⟩
example : (shift demo 2).toOption.map (fun b => (residues b).map (·.1)) = some ['P', 'T', 'I', 'D', 'E', 'P', 'E'] := by decide
example : (shift demo (-9)).toOption.map (fun b => (residues b).map (·.2)) =
    some [[], [], [⟨.str ['P', 'h'], 1⟩], [], [], [⟨.int 16, 2⟩], []] := by decide

/-- the rotate law in terms of `List.rotateLeft` -/
theorem shift_residues_rotate (a : Annotation) (k : Int) (hn : a.seq ≠ []) (hk : KeysOK a) :
    ∃ b, shift a k = .ok b ∧ residues b = (residues a).rotateLeft (k % (a.seq.length : Int)).toNat := by
  obtain ⟨b, hb, hr⟩ := shift_residues a k hn hk
  refine ⟨b, hb, ?_⟩
  have hlen : 0 < a.seq.length := List.length_pos_iff.mpr hn
  have he0 : 0 ≤ k % (a.seq.length : Int) := Int.emod_nonneg _ (by omega)
  have he : k % (a.seq.length : Int) < a.seq.length := Int.emod_lt_of_pos _ (by omega)
  rw [hr]
  simp only [List.rotateLeft, residues_length]
  split
  · have : (k % (a.seq.length : Int)).toNat = 0 := by omega
    simp [this]
  · have : (k % (a.seq.length : Int)).toNat % a.seq.length = (k % (a.seq.length : Int)).toNat :=
      Nat.mod_eq_of_lt (by omega)
    simp [this]

/-- FULL STATEMENT (false on the current code for an interval that wraps, see `shift_wraparound_false_on_current_code`):
    `∀ a k, a.seq ≠ [] → KeysOK a → IntervalsOK a → … → ∃ b, shift a k = .ok b ∧ shift b (-k) = .ok a`.
PARTIAL, exact hypothesis: no interval wraps at the intermediate step (`NoWrap a k`, decidable for concrete inputs). -/
theorem shift_shift_neg_partial (a : Annotation) (k : Int) (hn : a.seq ≠ []) (hk : KeysOK a)
    (hint : a.internal ≠ some []) (hivne : a.intervals ≠ some []) (hwf : IntervalsOK a) (hnw : NoWrap a k) :
    ∃ b, shift a k = .ok b ∧ shift b (-k) = .ok a := by
  obtain ⟨b, hb, hseq, hbint, hbiv, g1, g2, g3, g4, g5, g6, g7, g8⟩ := shift_spec a k hn hk
  refine ⟨b, hb, ?_⟩
  have hlen : 0 < a.seq.length := List.length_pos_iff.mpr hn
  have hn0 : ¬ ((a.seq.length : Int) = 0) := by omega
  have he0 : 0 ≤ k % (a.seq.length : Int) := Int.emod_nonneg _ hn0
  have he : k % (a.seq.length : Int) < a.seq.length := Int.emod_lt_of_pos _ (by omega)
  have hneg := neg_emod_range k a.seq.length (by omega)
  have hnw' : ∀ L, a.intervals = some L → ∀ iv ∈ L, ¬ wraps (k % (a.seq.length : Int)) iv := hnw
  generalize hE : k % (a.seq.length : Int) = eff at *
  obtain ⟨e, rfl⟩ := Int.eq_ofNat_of_zero_le he0
  simp only [Int.toNat_natCast] at hseq
  have hblen : b.seq.length = a.seq.length := by
    rw [hseq]; simp; omega
  have hbn : b.seq ≠ [] := by
    intro h; rw [h] at hblen; simp at hblen; omega
  have hkb : KeysOK b := by
    intro d hd
    rw [hbint] at hd
    cases hda : a.internal with
    | none => rw [hda] at hd; cases hd
    | some da =>
      obtain ⟨hnd, hr⟩ := hk da hda
      rw [hda] at hd
      cases da with
      | nil => cases hd
      | cons p t =>
        simp only [Option.some.injEq] at hd
        subst hd
        refine ⟨shift_keys_nodup _ _ _ he0 he hnd hr, ?_⟩
        intro q hq
        simp only [List.mem_map] at hq
        obtain ⟨r, _, rfl⟩ := hq
        rw [hblen]
        exact ⟨Int.emod_nonneg _ hn0, Int.emod_lt_of_pos _ (by omega)⟩
  obtain ⟨c, hc, hcseq, hcint, hciv, c1, c2, c3, c4, c5, c6, c7, c8⟩ := shift_spec b (-k) hbn hkb
  rw [hc]
  congr 1
  rw [hblen] at hcseq hcint hciv
  rw [hneg] at hcseq hcint hciv
  apply Annotation.ext'
  · rw [hcseq, hseq]
    by_cases h0 : (e : Int) = 0
    · have : e = 0 := by omega
      subst this; simp
    · simp only [h0, if_false]
      have : ((a.seq.length : Int) - (e : Int)).toNat = a.seq.length - e := by omega
      rw [this, List.drop_left' (by simp), List.take_left' (by simp), List.take_append_drop]
  · rw [c1, g1]
  · rw [c2, g2]
  · rw [c3, g3]
  · rw [c4, g4]
  · rw [c7, g7]
  · rw [c8, g8]
  · rw [hcint, hbint]
    cases hda : a.internal with
    | none => rfl
    | some da =>
      cases da with
      | nil => exact absurd hda hint
      | cons p t =>
        obtain ⟨_, hr⟩ := hk _ hda
        simp only [List.map_cons, List.map_map]
        rw [shiftEntry_inverse e _ _ he0 he rfl p (hr p (by simp))]
        congr 2
        exact map_eq_self _ t (fun q hq => shiftEntry_inverse e _ _ he0 he rfl q (hr q (by simp [hq])))
  · rw [hbiv] at hciv
    cases hL : a.intervals with
    | none => rw [hL] at hciv; exact hciv
    | some L =>
      cases L with
      | nil => exact absurd hL hivne
      | cons iv t =>
        rw [hL] at hciv
        simp only at hciv
        have hok := hwf _ hL
        have hne : sortBy (fun (x : Interval) => x.start.toNat)
            ((iv :: t).map (shiftInterval (e : Int) (a.seq.length : Int))) ≠ [] := by
          intro h
          have := sortBy_length (fun (x : Interval) => x.start.toNat)
            ((iv :: t).map (shiftInterval (e : Int) (a.seq.length : Int)))
          rw [h] at this; simp at this
        obtain ⟨x, xs, hx⟩ := List.exists_cons_of_ne_nil hne
        rw [hx] at hciv
        simp only at hciv
        rw [← hx] at hciv
        rw [hciv]
        congr 1
        apply eq_of_perm_of_sorted (fun (x : Interval) => x.start.toNat)
        · refine (sortBy_perm _ _).trans ?_
          refine ((sortBy_perm _ _).map _).trans ?_
          rw [List.map_map]
          have := map_eq_self (shiftInterval (if (e : Int) = 0 then 0 else (a.seq.length : Int) - (e : Int))
              (a.seq.length : Int) ∘ shiftInterval (e : Int) (a.seq.length : Int)) (iv :: t)
            (fun q hq => shiftInterval_inverse e _ _ q he0 he rfl (hok.1 q hq) (hnw' _ hL q hq))
          rw [this]
        · exact sortBy_sorted _ _
        · exact startSorted_of_ok _ _ hok.1 hok.2
  · rw [c5, g5]
  · rw [c6, g6]
example : demo.seq ≠ [] ∧ KeysOK demo ∧ demo.internal ≠ some [] ∧ demo.intervals ≠ some [] ∧ IntervalsOK demo ∧ NoWrap demo 3 :=
  ⟨by decide, demo_keysOK, by decide, by decide, demo_intervalsOK, demo_noWrap_3⟩
example : ((shift demo 3).toOption.bind fun b => (shift b (-3)).toOption) = some demo := by decide

/-- shifting by a multiple of the length is the identity, intervals included (full statement after fix 918a950; before it an
interval ending at the last residue was moved to the front even by `shift(0)`) -/
theorem shift_multiple (a : Annotation) (k : Int) (hn : a.seq ≠ []) (hk : KeysOK a)
    (hint : a.internal ≠ some []) (hivne : a.intervals ≠ some []) (hwf : IntervalsOK a)
    (hmul : k % (a.seq.length : Int) = 0) :
    shift a k = .ok a := by
  obtain ⟨b, hb, hseq, hbint, hbiv, g1, g2, g3, g4, g5, g6, g7, g8⟩ := shift_spec a k hn hk
  rw [hb]
  congr 1
  rw [hmul] at hseq hbint hbiv
  have hlen : 0 < a.seq.length := List.length_pos_iff.mpr hn
  apply Annotation.ext' _ g1 g2 g3 g4 g7 g8 _ _ g5 g6
  · rw [hseq]; simp
  · rw [hbint]
    cases hda : a.internal with
    | none => rfl
    | some da =>
      cases da with
      | nil => exact absurd hda hint
      | cons p t =>
        obtain ⟨_, hr⟩ := hk _ hda
        simp only
        congr 1
        apply map_eq_self
        intro q hq
        have h1 := hr q hq
        unfold shiftEntry
        ext
        · simp only [Int.sub_zero]
          exact Int.emod_eq_of_lt h1.1 h1.2
        · rfl
  · rw [hbiv]
    cases hL : a.intervals with
    | none => rfl
    | some L =>
      cases L with
      | nil => exact absurd hL hivne
      | cons iv t =>
        have hok := hwf _ hL
        simp only
        congr 1
        rw [map_eq_self _ (iv :: t) (fun q hq => shiftInterval_zero _ q (by omega) (hok.1 q hq))]
        exact sortBy_of_sorted _ _ ((startSorted_of_ok _ _ hok.1 hok.2).imp (fun h => Nat.le_of_lt h))

theorem shift_length (a : Annotation) (hn : a.seq ≠ []) (hk : KeysOK a)
    (hint : a.internal ≠ some []) (hivne : a.intervals ≠ some []) (hwf : IntervalsOK a) :
    shift a a.seq.length = .ok a :=
  shift_multiple a _ hn hk hint hivne hwf Int.emod_self


example : (shift demo 7).toOption = some demo ∧ (shift demo (-14)).toOption = some demo ∧ (shift demo 0).toOption = some demo := by
  decide

/-- shuffle: the residue at new position `i` is the residue `perm[i]` of the input with its own modifications; the result
is a permutation of the modified residues; global, terminal and interval annotations are untouched -/
theorem shuffle_residues (a : Annotation) (perm : List Nat) (hn : a.seq ≠ [])
    (hp : perm.Perm (List.range a.seq.length)) (hk : KeysOK a) :
    ∃ b, shuffle a perm = .ok b ∧ residues b = perm.filterMap ((residues a)[·]?) ∧
      (residues b).Perm (residues a) ∧
      b.isotope = a.isotope ∧ b.static = a.static ∧ b.labile = a.labile ∧ b.unknown = a.unknown ∧
      b.charge = a.charge ∧ b.adducts = a.adducts ∧ b.nterm = a.nterm ∧ b.cterm = a.cterm ∧
      b.intervals = a.intervals := by
  obtain ⟨b, hb, hseq, hm, g⟩ := permuteWith_spec a perm (perm.filterMap (a.seq[·]?)) hp hk
  have hne : a.seq.isEmpty = false := by cases h : a.seq <;> simp_all
  refine ⟨b, by simp [shuffle, hne, hb], ?_, ?_, g⟩
  · exact residues_of_permuted a b perm hp hseq hm
  · rw [residues_of_permuted a b perm hp hseq hm]
    exact filterMap_getElem?_perm _ perm (by rw [residues_length]; exact hp)
example : [2, 0, 1, 6, 5, 4, 3].Perm (List.range demo.seq.length) := by decide
example : (shuffle demo [2, 0, 1, 6, 5, 4, 3]).toOption.map (fun b => (residues b).map (·.2)) =
    some [[], [⟨.str ['P', 'h'], 1⟩], [], [], [], [], [⟨.int 16, 2⟩]] := by decide

/-- sort_residues: a permutation of the modified residues, sorted by residue letter, everything else untouched -/
theorem sort_residues (a : Annotation) (hk : KeysOK a) :
    ∃ b, sortResidues a = .ok b ∧ residues b = (sortOrder a.seq).filterMap ((residues a)[·]?) ∧
      (residues b).Perm (residues a) ∧
      ((residues b).map (·.1)).Pairwise (fun c d => c.toNat ≤ d.toNat) ∧
      b.isotope = a.isotope ∧ b.static = a.static ∧ b.labile = a.labile ∧ b.unknown = a.unknown ∧
      b.charge = a.charge ∧ b.adducts = a.adducts ∧ b.nterm = a.nterm ∧ b.cterm = a.cterm ∧
      b.intervals = a.intervals := by
  have hp := sortOrder_perm a.seq
  obtain ⟨b, hb, hseq, hm, g⟩ := permuteWith_spec a (sortOrder a.seq) (sortBy (fun (c : Char) => c.toNat) a.seq) hp hk
  have hseq' : b.seq = (sortOrder a.seq).filterMap (a.seq[·]?) := by rw [hseq, sortBy_seq_eq]
  refine ⟨b, hb, residues_of_permuted a b _ hp hseq' hm, ?_, ?_, g⟩
  · rw [residues_of_permuted a b _ hp hseq' hm]
    exact filterMap_getElem?_perm _ _ (by rw [residues_length]; exact hp)
  · have : (residues b).map (·.1) = b.seq := by
      simp [residues, List.map_map, Function.comp_def]
    rw [this, hseq]
    exact sortBy_sorted _ _


example : (sortResidues demo).toOption.map residues =
    some [('D', []), ('E', []), ('E', []), ('I', []), ('P', [⟨.str ['P', 'h'], 1⟩]), ('P', []), ('T', [⟨.int 16, 2⟩])] := by
  decide

theorem reverse_globals_terminals (a : Annotation) (sw : Bool) :
    (reverse a sw).isotope = a.isotope ∧ (reverse a sw).static = a.static ∧ (reverse a sw).labile = a.labile ∧
    (reverse a sw).unknown = a.unknown ∧ (reverse a sw).charge = a.charge ∧ (reverse a sw).adducts = a.adducts ∧
    (reverse a sw).nterm = (if sw then a.cterm else a.nterm) ∧
    (reverse a sw).cterm = (if sw then a.nterm else a.cterm) := by
  simp [reverse]
example : (reverse demo true).nterm = demo.cterm ∧ (reverse demo false).labile = demo.labile := by decide

theorem reverse_intervals (a : Annotation) (sw : Bool) :
    (reverse a sw).intervals = a.intervals.map fun l => l.reverse.map (reverseInterval a.seq.length) := rfl

/-- a reversed interval keeps its modifications and its flag and covers exactly the mirrored residues -/
theorem reverseInterval_cover (n : Int) (iv : Interval) (h : iv.start ≤ iv.stop) :
    (reverseInterval n iv).mods = iv.mods ∧ (reverseInterval n iv).ambiguous = iv.ambiguous ∧
    ∀ i : Int, covers (reverseInterval n iv) i ↔ covers iv (n - 1 - i) := by
  unfold reverseInterval covers
  have h1 : ¬ (n - iv.stop > n - iv.start) := by omega
  simp only [h1, if_false]
  refine ⟨trivial, trivial, ?_⟩
  intro i
  constructor <;> intro ⟨h2, h3⟩ <;> constructor <;> omega
example : (reverse demo false).intervals = some [⟨2, 4, true, none⟩, ⟨4, 6, false, some [⟨.int 1, 1⟩]⟩] := by decide

def shiftWitness : Annotation :=
  { seq := ['P', 'E', 'P', 'T', 'I', 'D', 'E'], intervals := some [⟨5, 7, false, some [⟨.int 1, 1⟩]⟩] }

/-- the witness of the repaired defect KF-C11-shift-intervals: `PEPTI(DE)[1]` shifted by 0 or by its length 7 is unchanged
(it was `(PEPTI)[1]DE`), shifted by 2 it is `PTI(DE)[1]PE` -/
example : (shift shiftWitness 0).toOption = some shiftWitness ∧ (shift shiftWitness 7).toOption = some shiftWitness ∧
    (shift shiftWitness 2).toOption.map (·.intervals) = some (some [⟨3, 5, false, some [⟨.int 1, 1⟩]⟩]) := by decide

/-- `(PE)[1]P` -/
def wrapWitness : Annotation :=
  { seq := ['P', 'E', 'P'], intervals := some [⟨0, 2, false, some [⟨.int 1, 1⟩]⟩] }

/-- the un-restricted statements are FALSE on the current code for an interval that wraps (KF-C11-shift-interval-wraparound):
`(PE)[1]P` shifted by 1 is `EPP` whose interval should cover positions 2 and 0; the code writes `E(P)[1]P` (position 1
only), and shifting back by -1 gives `PE(P)[1]` instead of `(PE)[1]P` -/
theorem shift_wraparound_false_on_current_code :
    wraps (1 % 3) ⟨0, 2, false, some [⟨.int 1, 1⟩]⟩ ∧
    (shift wrapWitness 1).toOption.map (·.intervals) = some (some [⟨1, 2, false, some [⟨.int 1, 1⟩]⟩]) ∧
    ((shift wrapWitness 1).toOption.bind fun b => (shift b (-1)).toOption).map (·.intervals) =
      some (some [⟨2, 3, false, some [⟨.int 1, 1⟩]⟩]) ∧
    ((shift wrapWitness 1).toOption.bind fun b => (shift b (-1)).toOption) ≠ some wrapWitness := by
  decide

/-- cover law of shift: when no interval wraps, the new intervals are the shifted ones in sequence order; every interval keeps
its modifications and its flag, and position `i` of the
rotated peptide is covered iff its source position `(i + k) mod n` was covered -/
theorem shift_intervals_cover (a : Annotation) (k : Int) (hn : a.seq ≠ []) (hk : KeysOK a) (hwf : IntervalsOK a)
    (hnw : NoWrap a k) (L : List Interval) (hL : a.intervals = some L) (hLne : L ≠ []) :
    ∃ b, shift a k = .ok b ∧
      b.intervals = some (sortBy (fun (iv : Interval) => iv.start.toNat)
        (L.map (shiftInterval (k % (a.seq.length : Int)) a.seq.length))) ∧
      ∀ iv ∈ L,
        (shiftInterval (k % (a.seq.length : Int)) a.seq.length iv).mods = iv.mods ∧
        (shiftInterval (k % (a.seq.length : Int)) a.seq.length iv).ambiguous = iv.ambiguous ∧
        ∀ i : Int, 0 ≤ i → i < (a.seq.length : Int) →
          (covers (shiftInterval (k % (a.seq.length : Int)) a.seq.length iv) i ↔
            covers iv ((i + k % (a.seq.length : Int)) % (a.seq.length : Int))) := by
  obtain ⟨b, hb, _, _, hbiv, _⟩ := shift_spec a k hn hk
  have hlen : 0 < a.seq.length := List.length_pos_iff.mpr hn
  have he0 : 0 ≤ k % (a.seq.length : Int) := Int.emod_nonneg _ (by omega)
  have he : k % (a.seq.length : Int) < a.seq.length := Int.emod_lt_of_pos _ (by omega)
  refine ⟨b, hb, ?_, ?_⟩
  · rw [hbiv, hL]
    cases L with
    | nil => exact absurd rfl hLne
    | cons iv t => rfl
  · intro iv hiv
    have w := (hwf L hL).1 iv hiv
    have nw := hnw L hL iv hiv
    refine ⟨?_, ?_, fun i hi0 hi => shiftInterval_cover _ _ iv he0 he w nw i hi0 hi⟩
    · rw [shiftInterval_nowrap _ _ iv he0 he w nw]
    · rw [shiftInterval_nowrap _ _ iv he0 he w nw]
example : (shift demo 3).toOption.map (·.intervals) =
    some (some [⟨0, 2, true, none⟩, ⟨5, 7, false, some [⟨.int 1, 1⟩]⟩]) := by decide

theorem split_concat (a : Annotation) : (split a).flatMap residues = residues a := by
  unfold split
  rw [List.flatMap_map]
  have key : ∀ i ∈ List.range a.seq.length,
      residues (if i ≠ 0 ∨ (!truthy a.labile) = true then
        { slice a (i : Int) ((i : Int) + 1) with labile := none }
        else slice a (i : Int) ((i : Int) + 1)) = ((residues a).drop i).take 1 := by
    intro i hi
    have hi' : i < a.seq.length := by simpa using hi
    have h := residues_slice a i (i + 1) (by omega) (by omega)
    have hcast : ((i : Int) + 1) = ((i + 1 : Nat) : Int) := by omega
    rw [hcast]
    split
    · refine (residues_congr _ (slice a (i : Int) ((i + 1 : Nat) : Int)) rfl rfl).trans ?_
      rw [h]; congr 1; omega
    · rw [h]; congr 1; omega
  refine (flatMap_congr' key).trans ?_
  rw [← residues_length a, range_flatMap_drop_take]
example : (split demo).length = 7 ∧ (split demo).map (·.labile.isSome) = [true, false, false, false, false, false, false] := by decide

theorem split_getElem? (a : Annotation) (i : Nat) (hi : i < a.seq.length) :
    ∃ p, (split a)[i]? = some p ∧
      p.nterm = (if i = 0 then a.nterm else none) ∧
      p.cterm = (if i + 1 = a.seq.length then a.cterm else none) ∧
      p.labile = (if i = 0 ∧ truthy a.labile then a.labile else none) ∧
      p.isotope = a.isotope ∧ p.static = a.static := by
  have F := slice_fields a (i : Int) ((i : Int) + 1)
  have f1 : (slice a (i : Int) ((i : Int) + 1)).nterm =
      if (i : Int) > 0 then none else a.nterm := F.1
  have f2 : (slice a (i : Int) ((i : Int) + 1)).cterm =
      if (i : Int) + 1 < (a.seq.length : Int) then none else a.cterm := F.2.1
  have f3 : (slice a (i : Int) ((i : Int) + 1)).isotope = a.isotope := F.2.2.1
  have f4 : (slice a (i : Int) ((i : Int) + 1)).static = a.static := F.2.2.2.1
  have f5 : (slice a (i : Int) ((i : Int) + 1)).labile = a.labile := F.2.2.2.2.1
  have e1 : (if (i : Int) > 0 then none else a.nterm) = (if i = 0 then a.nterm else none) := by
    split <;> split <;> first | rfl | omega
  have e2 : (if (i : Int) + 1 < (a.seq.length : Int) then none else a.cterm) =
      (if i + 1 = a.seq.length then a.cterm else none) := by
    split <;> split <;> first | rfl | omega
  rw [e1] at f1
  rw [e2] at f2
  unfold split
  rw [List.getElem?_map, List.getElem?_range hi]
  simp only [Option.map_some]
  generalize slice a (i : Int) ((i : Int) + 1) = s at *
  by_cases h : i = 0 ∧ truthy a.labile = true
  · have h' : ¬ (i ≠ 0 ∨ (!truthy a.labile) = true) := by simp [h.1, h.2]
    rw [if_neg h']
    exact ⟨_, rfl, f1, f2, by rw [f5]; simp [h], f3, f4⟩
  · have h' : i ≠ 0 ∨ (!truthy a.labile) = true := by
      by_cases h0 : i = 0
      · right; simp [h0] at h; simp [h]
      · left; exact h0
    rw [if_pos h']
    exact ⟨_, rfl, f1, f2, by simp [h], f3, f4⟩

theorem slice_slice (a : Annotation) (i j k l : Nat) (hij : i ≤ j) (hj : j ≤ a.seq.length) (hkl : k ≤ l)
    (hl : l ≤ j - i) (hl0 : 0 < l ∨ a.intervals = none) :
    slice (slice a (i : Int) (j : Int)) (k : Int) (l : Int) = slice a ((i + k : Nat) : Int) ((i + l : Nat) : Int) :=
  slice_slice' a i j k l hij hj hkl hl hl0
example : slice (slice demo (1 : Nat) (5 : Nat)) (1 : Nat) (3 : Nat) = slice demo (2 : Nat) (4 : Nat) := by decide
/-- the side condition `0 < l` is needed: an empty slice taken strictly inside an interval (outside the property's domain)
keeps that interval when taken directly and loses it when taken in two steps -/
example : slice (slice demo (2 : Nat) (4 : Nat)) (0 : Nat) (0 : Nat) ≠ slice demo (2 : Nat) (2 : Nat) := by decide

/-- for every additive per-residue weight `w` (e.g. residue mass + masses of the residue's modifications) the total is
unchanged by reversal -/
theorem reverse_weight (w : Char × List Mod → Rat) (a : Annotation) (sw : Bool) :
    weight w (residues (reverse a sw)) = weight w (residues a) := by
  rw [reverse_residues]; exact weight_perm w _ _ (List.reverse_perm _)
example : weight (fun p => (p.2.length : Rat) + 1) (residues (reverse demo false)) = 9 := by decide +kernel

theorem shift_weight (w : Char × List Mod → Rat) (a : Annotation) (k : Int) (hn : a.seq ≠ []) (hk : KeysOK a) :
    ∃ b, shift a k = .ok b ∧ weight w (residues b) = weight w (residues a) ∧ (residues b).Perm (residues a) := by
  obtain ⟨b, hb, hr⟩ := shift_residues a k hn hk
  have hp : (residues b).Perm (residues a) := by
    rw [hr]
    exact List.perm_append_comm.trans (by rw [List.take_append_drop])
  exact ⟨b, hb, weight_perm w _ _ hp, hp⟩

theorem shuffle_weight (w : Char × List Mod → Rat) (a : Annotation) (perm : List Nat) (hn : a.seq ≠ [])
    (hp : perm.Perm (List.range a.seq.length)) (hk : KeysOK a) :
    ∃ b, shuffle a perm = .ok b ∧ weight w (residues b) = weight w (residues a) := by
  obtain ⟨b, hb, _, hperm, _⟩ := shuffle_residues a perm hn hp hk
  exact ⟨b, hb, weight_perm w _ _ hperm⟩

theorem sort_weight (w : Char × List Mod → Rat) (a : Annotation) (hk : KeysOK a) :
    ∃ b, sortResidues a = .ok b ∧ weight w (residues b) = weight w (residues a) := by
  obtain ⟨b, hb, _, hperm, _⟩ := sort_residues a hk
  exact ⟨b, hb, weight_perm w _ _ hperm⟩

theorem split_weight (w : Char × List Mod → Rat) (a : Annotation) :
    ((split a).map fun p => weight w (residues p)).sum = weight w (residues a) := by
  rw [← weight_flatMap, split_concat]

/-- terminal and global annotations of a slice -/
theorem slice_globals_terminals (a : Annotation) (s e : Int) :
    (slice a s e).nterm = (if s > 0 then none else a.nterm) ∧
    (slice a s e).cterm = (if e < (a.seq.length : Int) then none else a.cterm) ∧
    (slice a s e).isotope = a.isotope ∧ (slice a s e).static = a.static ∧ (slice a s e).labile = a.labile ∧
    (slice a s e).unknown = a.unknown ∧ (slice a s e).charge = a.charge ∧ (slice a s e).adducts = a.adducts :=
  slice_fields a s e

/-- when neither cut falls strictly inside an interval, a slice keeps exactly the fully contained intervals, re-indexed -/
theorem slice_contained_intervals (a : Annotation) (i j : Int) (L : List Interval) (hL : a.intervals = some L)
    (hwf : ∀ iv ∈ L, iv.start < iv.stop)
    (hcut : ∀ iv ∈ L, ¬ (iv.start < i ∧ i < iv.stop) ∧ ¬ (iv.start < j ∧ j < iv.stop)) :
    (slice a i j).intervals = noneIfEmpty (some ((L.filter fun iv => decide (i ≤ iv.start ∧ iv.stop ≤ j)).map
      fun iv => { iv with start := iv.start - i, stop := iv.stop - i })) := by
  rw [slice_eq_general]
  show noneIfEmpty (a.intervals.map (·.filterMap (sliceInterval i j))) = _
  rw [hL]
  simp only [Option.map_some]
  congr 2
  clear hL
  induction L with
  | nil => rfl
  | cons iv t ih =>
    have h1 := hwf iv (by simp)
    have h2 := hcut iv (by simp)
    rw [List.filterMap_cons, sliceInterval_contained i j iv h1 h2.1 h2.2,
      ih (fun x hx => hwf x (by simp [hx])) (fun x hx => hcut x (by simp [hx]))]
    by_cases hc : i ≤ iv.start ∧ iv.stop ≤ j
    · simp [hc]
    · simp [hc]

example : (slice demo 1 5).intervals = some [⟨0, 2, false, some [⟨.int 1, 1⟩]⟩, ⟨2, 4, true, none⟩] ∧
    (slice demo 3 7).intervals = some [⟨0, 2, true, none⟩] ∧ (slice demo 5 7).intervals = none := by decide

end Pept.Reorder.C11
