import PeptVerif.Model.Fragment
import PeptVerif.Lemmas.AbsMass
/-!
# C12, fragment-ion clause: the rule form and the explicit form have the same fragment ions

`Model/Fragment.lean` (C04) models `fragment` / `Fragmenter` with abstract weights; `annotation.condense_static_mods()` is a
parameter of that model (`Env.condenseStatic`, "property C12"). Here it is instantiated with the model of C12
(`Static.condenseStatic`, `Model/StaticMods.lean`) and the clause is proved: the repaired `fragment` (4972c5f) writes the
static rules out on its working copy before it computes anything, and the explicit form is a fixed point of that step, so
the whole output list — keys, masses, m/z, labels, fragment sequences — is the same for the two forms, for residue targets
and for N-Term / C-Term targets alike, whatever the per-residue weights (`Env.splitMass`), tables and label shifts are.

Chain to the implementation: `fragment` ≈ `Fragment.fragment` with `condenseStatic` supplied by Python (C04's correspondence);
Python's `condense_static_mods` ≈ `Static.condenseStatic` (C12's correspondence op `condense`); `c12.py` also runs the
Fragment driver with `condenseStatic` taken from the C12 driver on the rule form and on the explicit form and compares the
two replies; and the relational oracle `fragments_rule_vs_explicit` compares the two forms on the real `fragment`.
-/
namespace Pept
namespace C12Fragment
open Static

/-- `annotation.condense_static_mods()` as a total function (a rule text that does not parse raises inside `fragment` before
anything is computed: outside the clause) -/
def condTotal (a : Annotation) : Annotation :=
  match condenseStatic a with
  | .ok c => c
  | .error _ => a

/-- popping the labile mods and writing the rules out commute -/
theorem condense_popLabile (a c : Annotation) (h : condenseStatic a = .ok c) :
    condenseStatic (Fragment.popLabile a) = .ok (Fragment.popLabile c) := by
  unfold condenseStatic at h ⊢
  cases hs : a.static with
  | none =>
    simp only [hs] at h
    have := (Except.ok.inj h).symm; subst this
    simp [Fragment.popLabile, hs]
  | some rules =>
    simp only [hs] at h
    have hs' : (Fragment.popLabile a).static = some rules := hs
    simp only [hs']
    cases hp : parseStaticMods (some rules) with
    | error e => rw [hp] at h; cases h
    | ok m =>
      rw [hp] at h
      have := (Except.ok.inj h).symm; subst this
      rfl

/-- the working copy `fragment` prepares is the same for the rule form and for its condensed explicit form -/
theorem prepared_eq (a : Annotation) : condTotal (Fragment.popLabile (condTotal a)) = condTotal (Fragment.popLabile a) := by
  unfold condTotal
  cases h : condenseStatic a with
  | error e => rfl
  | ok c =>
    simp only
    rw [condense_popLabile a c h]
    simp only
    have hc := AbsMass.condenseStatic_idem a c h
    rw [condense_popLabile c c hc]

/-- **same fragment ions.** With `condense_static_mods` read as the model of C12, `fragment` returns the same list for an
annotation with static rules and for its condensed explicit form: every ion type, charge, isotope offset, loss rule, return
type and precision; any per-residue weights, tables and label shifts. -/
theorem fragments_condense (env : Fragment.Env) (henv : env.condenseStatic = condTotal) (a : Annotation)
    (args : Fragment.Args) :
    Fragment.fragment env (condTotal a) args = Fragment.fragment env a args := by
  have hj : Fragment.mkJob env (condTotal a) args none = Fragment.mkJob env a args none := by
    unfold Fragment.mkJob
    simp only [henv, prepared_eq]
  unfold Fragment.fragment
  simp only [hj]

/-- the same, stated for the explicit form `c` that C12's `condense_spec` characterises -/
theorem fragments_condense_explicit (env : Fragment.Env) (henv : env.condenseStatic = condTotal) (a c : Annotation)
    (hc : condenseStatic a = .ok c) (args : Fragment.Args) :
    Fragment.fragment env c args = Fragment.fragment env a args := by
  have : condTotal a = c := by unfold condTotal; rw [hc]
  rw [← this]
  exact fragments_condense env henv a args

/-- `Fragmenter`: the stored mass components are the same for the two forms -/
theorem fragmenter_components_condense (env : Fragment.Env) (henv : env.condenseStatic = condTotal) (a : Annotation)
    (mono : Bool) :
    (Fragment.Fragmenter.new env (condTotal a) mono).massComponents = (Fragment.Fragmenter.new env a mono).massComponents := by
  unfold Fragment.Fragmenter.new
  simp only [henv, prepared_eq]

/-- non-vacuity: a terminal rule and a residue rule — `<[10]@P,N-Term>P[1]EP` and `[10]-P[1][10]EP[10]` — are prepared alike -/
example :
    condTotal (Fragment.popLabile { seq := "PEP".toList, static := some [⟨.str "[10]@P,N-Term".toList, 1⟩], internal := some [(0, [⟨.int 1, 1⟩])] }) =
    { seq := "PEP".toList, nterm := some [⟨.int 10, 1⟩], internal := some [(0, [⟨.int 1, 1⟩, ⟨.int 10, 1⟩]), (2, [⟨.int 10, 1⟩])] } := by
  decide

end C12Fragment
end Pept
