import PeptVerif.Lemmas.ConcreteEnv
import PeptVerif.Lemmas.ConcreteBridge
import PeptVerif.Props.C12
/-!
# C12 over the concrete tables of /repo

`Props/C12.lean` proves the static-rule and label theorems for ANY weights (`AbsMass.Env`). Here the abstract environment is
instantiated with the tables regenerated from /repo on every run (`Model/ConcreteEnv.lean`: residue masses and compositions,
element masses, ion-type adjustment, terminal compositions from `Generated/Constants.lean` / `Generated/Elements.lean`
through `Model/Chem.lean`) and a modification resolver (`Pept.Env`, the parameter C02 / C03 use), and tied to the concrete
mass model of C02 (`Model/Mass.lean`):

* `concrete_env_coherent` — the concrete environment satisfies `Coherent` (kernel-evaluated table facts: an edit of
  constants.py / chem.txt that breaks the agreement of the two mass calculators breaks this theorem);
* `mass_bridge_fast` — bridge lemma: on the common domain (no isotope label, no adducts, C02's `inDomain`, the two models of
  `parse_static_mods` agreeing) `Mass.mass` of C02's model and `AbsMass.massOf` at the concrete environment return the same
  number;
* `mass_condense_concrete` — hence C12's `mass_condense` holds in C02's concrete model: `Mass.mass` of the rule form =
  `Mass.mass` of the condensed explicit form;
* `labels_resolve`, `label_shift_concrete` — the eight labels of the property parse to (element ↦ label), both masses are in
  the generated element table and the label is heavier; the label-shift theorem at the concrete environment.

* `Props/C12LabelBridge.lean: mass_bridge_label` (separate module: it rests on C04's `Lemmas/FragmentLabel.lean`) — **bridge lemma (label path)**: for a plain labelled annotation (static rules written out, nothing
  labile / unknown-position / interval / adduct — the working copies of `fragment` and the pieces of `condense_to_mass_mods`),
  one label or a pair of labels of the property, known residues, modifications that resolve, any charge, both mass modes, the
  composition path of the concrete model (`Mass.mass` → `CompCalc.compMass`, through C04's closed form
  `Fragment.massOf_labelled`) and `AbsMass.massLabel` at the concrete environment return the same number. Method: relabelling a
  dict with distinct keys is a change of the mass function (`labelEm` here, `Fragment.labelMu` there) and the two relabelled
  mass functions correspond through the key packing (`labelEm_enc`); that the two label parsers agree through the packing
  is a kernel check over the 8 + 64 label lists. Annotations with labile / unknown / interval modifications or adducts on the
  label path are not bridged structurally (C04's closed form does not cover them); there the two models are tied by the
  model-vs-model check of the harness (`c12.py: model_vs_model_mass`, drv_c02 against drv_c12 on the same resolved inputs)
  and by their separate correspondence with the implementation.
-/
namespace Pept
namespace C12Concrete
open Chem AbsMass Static CondenseMass Concrete

/-- the concrete environment of the plain query `mass(x)` satisfies every table hypothesis the abstract theorems assume, in
both mass modes and for any modification resolver -/
theorem concrete_env_coherent (env : Pept.Env) (mono : Bool) : Coherent (envOf env mono) :=
  coherent_envOf env mono

/-- **bridge lemma (fast path)** between C02's concrete `Mass.mass` and the abstract `massOf` at the concrete environment -/
theorem mass_bridge_fast (env : Pept.Env) (a : Annotation) (o : Mass.Opts)
    (hlab : o.isotopeMods = none) (hlab' : a.isotope = none) (hadd : o.adducts = none) (hadd' : a.adducts = none)
    (hprec : o.precision = none)
    (hdom : Spec.inDomain env a o.ion o.mono none = true) (hparse : ParseAgrees env a) :
    ∃ x, Mass.mass env a o = .ok x ∧
      AbsMass.massOf (envFor env o.ion o.mono ((Mass.effCharge a o).getD 0) o.isotope o.loss) a = .ok x :=
  mass_bridge env a o hlab hlab' hadd hadd' hprec hdom hparse

/-- **same mass in the concrete model**: for every ion type, charge, mass mode, isotope offset and loss -/
theorem mass_condense_concrete (env : Pept.Env) (a c : Annotation) (o : Mass.Opts)
    (hlab : o.isotopeMods = none) (hlab' : a.isotope = none) (hadd : o.adducts = none) (hadd' : a.adducts = none)
    (hprec : o.precision = none)
    (hdom : Spec.inDomain env a o.ion o.mono none = true) (hparse : ParseAgrees env a) (hc : condenseStatic a = .ok c) :
    ∃ x, Mass.mass env a o = .ok x ∧ Mass.mass env c o = .ok x :=
  Concrete.mass_condense_concrete env a c o hlab hlab' hadd hadd' hprec hdom hparse hc

/-- the labels of the property with the element each replaces -/
def labels8 : List (List Char × List Char) :=
  [(['1', '3', 'C'], ['C']), (['1', '5', 'N'], ['N']), (['1', '8', 'O'], ['O']), (['1', '7', 'O'], ['O']),
   (['3', '4', 'S'], ['S']), (['D'], ['H']), (['T'], ['H']), (['2', 'H'], ['H'])]

/-- every label of the property is a key of the generated `ISOTOPIC_ATOMIC_MASSES`, parses to `element ↦ label`, both
masses are known and the label is the heavier one (monoisotopic mode) -/
def labelsOk : Bool :=
  labels8.all fun p =>
    (match parseIsotopeMods (fun k => (lookup (keyOfChars k) isotopicMasses).isSome) [⟨.str p.1, 1⟩] with
     | .ok lm => lm == [(p.2, p.1)]
     | .error _ => false) &&
    (elemMass true (keyOfChars p.1)).isSome && (elemMass true (keyOfChars p.2)).isSome &&
    decide (emOf true p.2 < emOf true p.1)

theorem labels_resolve : labelsOk = true := by decide +kernel

/-- **label shift at the concrete tables**: for an unlabelled annotation whose modifications resolve, one of the property's
labels `lab` (replacing `el`) shifts the composition-path mass by (#atoms of `el` in residues, termini and charge carrier)
× (m(lab) − m(el)) with the masses of the generated element table; modifications are spared (no `use_isotope_on_mods`) -/
theorem label_shift_concrete (env : Pept.Env) (a c : Annotation) (ion : Key) (mono : Bool) (ch : Int)
    (lab el : List Char) (hmem : (lab, el) ∈ labels8)
    (h0 : a.isotope = none) (hc : condenseStatic a = .ok c)
    (hres : (allMods c).any (isBad (envFor env ion mono ch 0 0)) = false)
    (hrule : absentRuleBad (envFor env ion mono ch 0 0) a = false) :
    ∃ x y, massLabel (envFor env ion mono ch 0 0) { a with isotope := some [⟨.str lab, 1⟩] } = .ok x ∧
      massLabel (envFor env ion mono ch 0 0) a = .ok y ∧
      x - y = compGet (sequenceComposition (envFor env ion mono ch 0 0) { seq := a.seq }) el * (emOf mono lab - emOf mono el) := by
  have hT := labels_resolve
  have hl : parseIsotopeMods (envFor env ion mono ch 0 0).knownLabel [⟨.str lab, 1⟩] = .ok [(el, lab)] := by
    have := List.all_eq_true.mp hT (lab, el) hmem
    simp only [Bool.and_eq_true] at this
    have h1 := this.1.1.1
    show parseIsotopeMods (fun k => (lookup (keyOfChars k) isotopicMasses).isSome) [⟨.str lab, 1⟩] = .ok [(el, lab)]
    cases hp : parseIsotopeMods (fun k => (lookup (keyOfChars k) isotopicMasses).isSome) [⟨.str lab, 1⟩] with
    | error e => rw [hp] at h1; simp at h1
    | ok lm => rw [hp] at h1; simp only [beq_iff_eq] at h1; rw [h1]
  obtain ⟨x, y, hx, hy, hxy⟩ := C12.label_spares_mods (envFor env ion mono ch 0 0) a c [⟨.str lab, 1⟩] [(el, lab)] h0 hc hres hrule hl rfl
  refine ⟨x, y, hx, hy, ?_⟩
  rw [hxy, C12.label_shift_single]
  rfl

end C12Concrete
end Pept
