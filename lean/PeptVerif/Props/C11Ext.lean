import PeptVerif.Lemmas.ReorderExt
import PeptVerif.Props.C11
/-!
# C11 extension (round 5) — `sort_residues` is a STABLE sort

`Props/C11.lean: sort_residues` proves "sorted by letter + permutation + every residue keeps its own modifications", which
leaves open WHICH of two equal letters comes first (and therefore which of two equal letters with different modifications
lands where). Python's `sorted(range(n), key=lambda x: seq[x])` is stable; the model's `sortOrder` is a stable insertion
sort. Here stability is a theorem for every sequence: in the position table of `sort_residues`, of two positions the one
with the smaller letter comes first, and among equal letters the one that was first in the input comes first.
Together with `sort_residues` (residue at new position `i` is residue `sortOrder[i]` of the input, with its mods) this pins
the result of `sort_residues` completely.
-/
namespace Pept.Reorder.C11Ext

/-- order demanded between two entries `i` (earlier) and `j` (later) of the position table of a stable sort of `seq` -/
def StableBefore (seq : List Char) (i j : Nat) : Prop :=
  ∃ c d, seq[i]? = some c ∧ seq[j]? = some d ∧ (c.toNat < d.toNat ∨ (c.toNat = d.toNat ∧ i < j))

/-- the position table `sorted(range(n), key=lambda x: seq[x])` is ordered by (letter, original position) -/
theorem sortOrder_stable (seq : List Char) : (sortOrder seq).Pairwise (StableBefore seq) := by
  unfold sortOrder
  rw [List.pairwise_map]
  have hs := sortBy_stable (fun (c : Char) => c.toNat) seq.zipIdx (zipIdx_pairwise_idx seq 0)
  refine List.Pairwise.imp_of_mem ?_ hs
  intro p q hp hq h
  have hp' := (sortBy_perm _ seq.zipIdx).mem_iff.1 hp
  have hq' := (sortBy_perm _ seq.zipIdx).mem_iff.1 hq
  have e1 : seq[p.2]? = some p.1 := List.mem_zipIdx_iff_getElem?.1 hp'
  have e2 : seq[q.2]? = some q.1 := List.mem_zipIdx_iff_getElem?.1 hq'
  exact ⟨p.1, q.1, e1, e2, h⟩
example : sortOrder ['P', 'E', 'P', 'T', 'I', 'D', 'E'] = [5, 1, 6, 4, 0, 2, 3] := by decide

/-- sort_residues, full statement: the residue at new position `i` is residue `sortOrder[i]` of the input with its own
modifications, and the position table is a permutation of the positions ordered by (letter, original position) — equal
letters keep their input order, so do their modifications -/
theorem sort_residues_stable (a : Annotation) (hk : KeysOK a) :
    ∃ b, sortResidues a = .ok b ∧ residues b = (sortOrder a.seq).filterMap ((residues a)[·]?) ∧
      (sortOrder a.seq).Perm (List.range a.seq.length) ∧
      (sortOrder a.seq).Pairwise (StableBefore a.seq) := by
  obtain ⟨b, hb, hres, _⟩ := C11.sort_residues a hk
  exact ⟨b, hb, hres, sortOrder_perm a.seq, sortOrder_stable a.seq⟩
-- two P and two E with different modifications: the modified first P (position 0) stays before the plain P (position 2)
example : (sortResidues demo).toOption.map residues =
    some [('D', []), ('E', []), ('E', []), ('I', []), ('P', [⟨.str ['P', 'h'], 1⟩]), ('P', []), ('T', [⟨.int 16, 2⟩])] := by
  decide

/-- equal letters never overtake each other: if `i < j` carry the same letter, `i` is listed before `j`
(stated on the table: a later entry with the same letter has a larger original position) -/
theorem sortOrder_equal_letters_keep_order (seq : List Char) :
    (sortOrder seq).Pairwise (fun i j => seq[i]? = seq[j]? → i < j) := by
  refine List.Pairwise.imp ?_ (sortOrder_stable seq)
  intro i j ⟨c, d, hc, hd, h⟩ heq
  rw [hc, hd] at heq
  have : c = d := Option.some.inj heq
  subst this
  omega
example : (sortOrder ['P', 'E', 'P', 'E']) = [1, 3, 0, 2] := by decide

/-- shift: global and terminal annotations stay in place — for EVERY shift amount and every annotation on which `shift`
returns (no domain hypothesis: also with out-of-range keys or wrapping intervals) -/
theorem shift_globals_terminals (a b : Annotation) (k : Int) (h : shift a k = .ok b) :
    b.isotope = a.isotope ∧ b.static = a.static ∧ b.labile = a.labile ∧ b.unknown = a.unknown ∧
    b.charge = a.charge ∧ b.adducts = a.adducts ∧ b.nterm = a.nterm ∧ b.cterm = a.cterm ∧
    b.seq.length = a.seq.length := by
  unfold shift at h
  simp only at h
  split at h
  · cases h
  · cases h
    simp only [List.length_append, List.length_drop, List.length_take, true_and]
    omega
example : (shift demo 3).toOption.map (fun b => (b.nterm, b.cterm, b.labile)) = some (demo.nterm, demo.cterm, demo.labile) ∧
    demo.labile.isSome ∧ demo.nterm.isSome ∧ demo.cterm.isSome := by decide

end Pept.Reorder.C11Ext
