import PeptVerif.Model.ModDbGen
import PeptVerif.Model.ModDbFacts
/-! C10 table facts about masses: tabulated monoisotopic mass = mass of the tabulated composition (Unimod, monosaccharides),
cross-vocabulary name collisions, and concrete resolutions (non-vacuity of the spelling theorems). Kernel evaluation. -/
namespace C10Mass
open ModDb Formula

set_option maxRecDepth 100000

abbrev T : Tables := Gen.tables

/-- every Unimod entry has a mono mass and a composition, the composition parses, every element is in the table, and
|tabulated mono mass − Σ count · isotope mass| ≤ 10⁻³ (exact rational arithmetic over the generated element table) -/
theorem unimod_mono_matches_comp : Gen.Unimod.entries.all (monoMatchesComp Gen.massTable) = true := by decide +kernel

/-- the same for the 27 monosaccharides -/
theorem mono_table_matches_comp : Gen.Mono.entries.all (monoMatchesComp Gen.massTable) = true := by decide +kernel

example : monoMatchesComp Gen.massTable
    (Entry.mk (str% "1") (str% "Acetyl") [] (some ⟨42010565, 6⟩) (some ⟨420367, 4⟩) (some (str% "H2C2O1"))) = true := by
  decide +kernel

/-- the two names carried by both Unimod and PSI-MOD mean the same thing in monoisotopic mass (10⁻⁵) and composition … -/
theorem collisions_agree_mono_comp : collisions.all (collisionOK Gen.Unimod.entries Gen.PsiMod.entries) = true := by
  decide +kernel

/-- … but NOT in average mass: PSI-MOD tabulates 339.45 / 601.8, Unimod 339.453 / 601.8021 (known finding
KF-C10-bare-name-collision-avg; the bare name is looked up in PSI-MOD first) -/
theorem collisions_avg_differ : collisions.all (fun n => !collisionAvgOK Gen.Unimod.entries Gen.PsiMod.entries n) = true := by
  decide +kernel

/-- counter-example to the full bare-name statement, replayed on the real code by the harness:
`mod_mass('NHS-LC-Biotin', monoisotopic=False) = 339.45` but `mod_mass('U:92', monoisotopic=False) = 339.453` -/
theorem bare_name_full_false_on_current_tables :
    modMass T (str% "NHS-LC-Biotin") false = .ok (some (33945 / 100)) ∧
    modMass T (str% "U:92") false = .ok (some (339453 / 1000)) := by decide +kernel

/-- concrete instances of the spelling theorems (non-vacuity): a name with a colon and brackets, through a mixed-case
prefix, the accession and the bare name -/
theorem label_13C6_resolves :
    modMass T (str% "uNiMoD:Label:13C(6)") true = .ok (some (6020129 / 1000000)) ∧
    modMass T (str% "U:188") true = .ok (some (6020129 / 1000000)) ∧
    modMass T (str% "Label:13C(6)") true = .ok (some (6020129 / 1000000)) := by decide +kernel

/-- "same error" instance: a PSI-MOD entry without mass raises the same error through every spelling -/
theorem psimod_root_same_error :
    modMass T (str% "MOD:00000") true = .error .unknownModMass ∧
    modMass T (str% "psi-mod:protein modification") true = .error .unknownModMass ∧
    modMass T (str% "protein modification") true = .error .unknownModMass ∧
    modComp T (str% "M:00000") = .error .invalidComp := by decide +kernel

end C10Mass
