import PeptVerif.Lemmas.Isotope
import PeptVerif.Lemmas.IsotopeMultinomial
/-!
# C14 — isotopic distributions are normalised, centred on the right masses and complete

Property theorems about the model `PeptVerif/Model/Isotope.lean` of `peptacular/isotope.py`.
Every statement is for all compositions and (unless a hypothesis says otherwise) all option values.
"Un-pruned" = `floor = none`, `max_isotopes = None`, `conv_min_abundance_threshold = None`,
`min_abundance_threshold = None`; "un-rounded" = `distribution_resolution = None`.
-/
namespace C14
open Isotope PeptVerif.Gen.C14

/-- **sorted by mass**: the returned pattern is strictly increasing in mass (no two peaks share a mass), for every
composition and every option value, when no final `precision` rounding is requested and the neutron mass is positive. -/
theorem sorted_by_mass (f : Formula) (o : Opts) (out : Dist Rat)
    (h : isotopicDistribution f o = .ok out) (hp : o.precision = none) (hn : 0 < o.neutronMass) :
    out.Pairwise (fun a b => a.1 < b.1) := by
  obtain ⟨L, p, d, m, _, hfin⟩ := run_ok f o out h
  obtain ⟨mx, _, _, hsc⟩ := finish_ok o _ p d m out hfin
  rw [hp] at hsc
  have hkeys := scaleAbundances_keys _ out _ _ hsc
  have hnd : NodupKeys (convolveList (roundOpt o.resolution) (some (o.convMinAbundanceThreshold.getD 0))
      o.maxIsotopes o.floor L [((0 : Rat), 1)]) :=
    nodupKeys_convolveList _ _ _ _ L _ (by simp [NodupKeys])
  have hs := sortByKey_strict _ hnd
  have h1 : (normalized o (convolveList (roundOpt o.resolution) (some (o.convMinAbundanceThreshold.getD 0))
      o.maxIsotopes o.floor L [((0 : Rat), 1)]) mx).Pairwise (fun a b => a.1 < b.1) := by
    unfold normalized
    rw [List.pairwise_map]
    exact List.Pairwise.sublist List.filter_sublist hs
  have h2 : (out.map (·.1)).Pairwise (· < ·) := by
    rw [hkeys, List.map_map, List.pairwise_map]
    exact h1.imp (fun hab => shiftFn_strictMono o p d m hn _ _ hab)
  exact List.pairwise_map.1 h2

/-- **scale_sum**: with `is_abundance_sum=True` the abundances of a non-empty pattern sum to `distribution_abundance`
(every composition, every pruning / rounding option). -/
theorem scale_sum (f : Formula) (o : Opts) (out : Dist Rat)
    (h : isotopicDistribution f o = .ok out) (hs : o.isAbundanceSum = true) (hp : o.precision = none)
    (hne : out ≠ []) : sumAb out = o.distributionAbundance := by
  obtain ⟨L, p, d, m, _, hfin⟩ := run_ok f o out h
  obtain ⟨mx, _, _, hsc⟩ := finish_ok o _ p d m out hfin
  rw [hp, hs] at hsc
  exact scaleAbundances_sum _ out _ hsc hne

/-- **scale_max**: with `is_abundance_sum=False` the largest peak equals `distribution_abundance` exactly and no peak
exceeds it — for every composition and every pruning / rounding option, provided the reporting threshold does not
exceed 1 and the requested abundance is not negative. -/
theorem scale_max (f : Formula) (o : Opts) (out : Dist Rat)
    (h : isotopicDistribution f o = .ok out) (hs : o.isAbundanceSum = false) (hp : o.precision = none)
    (hthr : o.minAbundanceThreshold.getD 0 ≤ 1) (hA : 0 ≤ o.distributionAbundance) :
    (∃ q ∈ out, q.2 = o.distributionAbundance) ∧ ∀ q ∈ out, q.2 ≤ o.distributionAbundance := by
  obtain ⟨L, p, d, m, hL, hfin⟩ := run_ok f o out h
  obtain ⟨mx, hmx, hmx0, hsc⟩ := finish_ok o _ p d m out hfin
  rw [hp, hs] at hsc
  have hout := scaleAbundances_max _ out _ hsc
  have hpos : AllPos (convolveList (roundOpt o.resolution) (some (o.convMinAbundanceThreshold.getD 0))
      o.maxIsotopes o.floor L [((0 : Rat), 1)]) :=
    allPos_convolveList _ _ _ _ L _ (listPos_of_resolve o _ L hL) allPos_start
  obtain ⟨⟨q, hq, hqm⟩, hall⟩ := maxAb_spec _ mx hmx
  have hmxpos : 0 < mx := hqm ▸ hpos q hq
  subst hout
  constructor
  · refine ⟨(shiftFn o p d m q.1, q.2 / mx * o.distributionAbundance), ?_, ?_⟩
    · simp only [List.mem_map, normalized, List.mem_filter, decide_eq_true_eq, Prod.exists, Prod.mk.injEq]
      refine ⟨shiftFn o p d m q.1, q.2 / mx, ⟨q.1, q.2 / mx, ⟨q.1, q.2, ⟨(sortByKey_perm _).mem_iff.2 hq, ?_⟩, rfl, rfl⟩, rfl, rfl⟩, rfl, rfl⟩
      rw [hqm, div_self hmx0]; exact hthr
    · show q.2 / mx * o.distributionAbundance = o.distributionAbundance
      rw [hqm, div_self hmx0, one_mul]
  · intro r hr
    simp only [List.mem_map, normalized, List.mem_filter, decide_eq_true_eq, Prod.exists, Prod.mk.injEq] at hr
    obtain ⟨k1, a1, ⟨k2, a2, ⟨k3, a3, ⟨hmem, _⟩, _, ha2⟩, _, ha1⟩, rfl⟩ := hr
    have hle : a3 ≤ mx := hall (k3, a3) ((sortByKey_perm _).mem_iff.1 hmem)
    show a1 * o.distributionAbundance ≤ o.distributionAbundance
    have : a1 ≤ 1 := by rw [← ha1, ← ha2, div_le_iff₀ hmxpos]; linarith
    nlinarith

/-- **total_abundance**: un-pruned, the un-normalised total abundance after the element loop is the product over the
elements of `(Σ_iso abundance)^count` — whatever the rounding resolution. -/
theorem total_abundance (f : Formula) (o : Opts) (t : Dist Rat) (p d m : Rat)
    (hraw : rawDistribution f o = .ok (t, p, d, m))
    (hfl : o.floor = none) (hmi : o.maxIsotopes = none) (hct : o.convMinAbundanceThreshold = none) :
    ∃ L, resolve o (cleanFormula f) = some L ∧ total t = totalProd L := by
  obtain ⟨L, hL, ht, _⟩ := rawDistribution_ok f o t p d m hraw
  refine ⟨L, hL, ?_⟩
  rw [ht, hfl, hmi, hct]
  have := total_convolveList (roundOpt o.resolution) L [((0 : Rat), 1)] (listPos_of_resolve o _ L hL) allPos_start
  simpa [total] using this

/-- **weighted_mean (element loop)**: un-pruned and un-rounded, if every element's isotope abundances sum to 1 then the
total abundance is 1 and the first moment `Σ mass·abundance` is `Σ count · Σ_iso mass·abundance`, i.e. the average
mass of the (rounded) composition. -/
theorem weighted_mean_raw (f : Formula) (o : Opts) (t : Dist Rat) (p d m : Rat)
    (hraw : rawDistribution f o = .ok (t, p, d, m))
    (hfl : o.floor = none) (hmi : o.maxIsotopes = none) (hct : o.convMinAbundanceThreshold = none)
    (hres : o.resolution = none) :
    ∃ L, resolve o (cleanFormula f) = some L ∧
      ((∀ x ∈ L, total x.1 = 1) → total t = 1 ∧ moment t = momentSum L) := by
  obtain ⟨L, hL, ht, _⟩ := rawDistribution_ok f o t p d m hraw
  refine ⟨L, hL, fun h1 => ?_⟩
  have hpos := listPos_of_resolve o _ L hL
  rw [ht, hfl, hmi, hct, hres]
  have hT := total_convolveList (roundOpt none) L [((0 : Rat), 1)] hpos allPos_start
  have hM := moment_convolveList L [((0 : Rat), 1)] hpos allPos_start h1
  have hprod : totalProd L = 1 := by
    clear hT hM hL ht hpos
    induction L with
    | nil => rfl
    | cons x r ih =>
      obtain ⟨isos, n⟩ := x
      simp only [totalProd, h1 (isos, n) (List.mem_cons_self ..), one_pow, one_mul]
      exact ih (fun y hy => h1 y (List.mem_cons_of_mem _ hy))
  constructor
  · have : (fun x => x) = roundOpt none := rfl
    simpa [total, hprod, roundOpt] using hT
  · have e : roundOpt none = id := rfl
    simp only [Option.getD_none] at hM ⊢
    rw [e]
    simpa [total, moment] using hM

/-- **weighted mean = average mass** (mass view): un-pruned, un-rounded, for elements whose isotope abundances sum to 1,
`Σ mass·abundance = (Σ abundance) · (Σ count·Σ_iso mass·abundance + delta_mass + particle_mass_offset)` for the
returned pattern, whatever `distribution_abundance` / `is_abundance_sum`.  For integer compositions `delta_mass = 0`
and the bracket is the average mass of the composition including its e/p/n entries. -/
theorem weighted_mean_eq_average (f : Formula) (o : Opts) (t : Dist Rat) (p d m : Rat) (out : Dist Rat)
    (hraw : rawDistribution f o = .ok (t, p, d, m)) (hfin : finishDistribution o t p d m = .ok out)
    (hfl : o.floor = none) (hmi : o.maxIsotopes = none) (hct : o.convMinAbundanceThreshold = none)
    (hmt : o.minAbundanceThreshold = none) (hres : o.resolution = none) (hneu : o.useNeutronCount = false)
    (hp : o.precision = none) :
    ∃ L, resolve o (cleanFormula f) = some L ∧
      ((∀ x ∈ L, total x.1 = 1) → moment out = sumAb out * (momentSum L + d + p)) := by
  obtain ⟨L, hL, h1⟩ := weighted_mean_raw f o t p d m hraw hfl hmi hct hres
  refine ⟨L, hL, fun hone => ?_⟩
  obtain ⟨hT, hM⟩ := h1 hone
  obtain ⟨L', hL', ht, _⟩ := rawDistribution_ok f o t p d m hraw
  have hpos : AllPos t := ht ▸ allPos_convolveList _ _ _ _ L' _ (listPos_of_resolve o _ L' hL') allPos_start
  obtain ⟨mx, hmx, hmx0, hsc⟩ := finish_ok o t p d m out hfin
  rw [hp] at hsc
  obtain ⟨c, hc⟩ := scale_const _ out _ _ hsc
  obtain ⟨⟨q, hq, hqm⟩, _⟩ := maxAb_spec _ mx hmx
  have hmxpos : 0 < mx := hqm ▸ hpos q hq
  have hshift : ∀ x, shiftFn o p d m x = x + d + p := by
    intro x
    unfold shiftFn
    by_cases h1 : d = 0 <;> by_cases h2 : p = 0 <;> simp [hneu, h1, h2]
  have hnorm : normalized o t mx = (sortByKey t).map (fun q => (q.1, q.2 / mx)) := by
    unfold normalized
    rw [List.filter_eq_self.2]
    intro a ha
    simp only [hmt, Option.getD_none, decide_eq_true_eq]
    exact le_of_lt (div_pos (hpos a ((sortByKey_perm t).mem_iff.1 ha)) hmxpos)
  have hW : ∀ g : Rat → Rat, integral ((normalized o t mx).map (fun q => (shiftFn o p d m q.1, q.2))) g =
      integral t (fun k => g (k + d + p)) / mx := by
    intro g
    rw [integral_map_key, hnorm, integral_div, integral_perm (sortByKey_perm t)]
    congr 1
    exact integral_congr t _ _ (fun q _ => by rw [hshift])
  have hmom : moment out = c * ((moment t + (d + p) * total t) / mx) := by
    unfold moment
    rw [hc, hW]
    congr 2
    have : (fun k : Rat => k + d + p) = (fun k => k + (d + p) * 1) := by funext k; ring
    rw [this, integral_add, integral_const]
    unfold total; ring
  have hsum : sumAb out = c * (total t / mx) := by
    rw [← total_eq_sumAb]
    unfold total
    rw [hc, hW]
  rw [hmom, hsum, hT, hM]
  ring

/-- **lightest_peak (element loop)**: un-pruned and un-rounded, the smallest key of the distribution after the element
loop is `Σ count · (smallest isotope key of the element)` and it is attained.  `μ` is any function giving the smallest key of
each isotope list: for the mass view of C,H,N,O,S,P this is the monoisotopic mass (`lightest_is_monoisotopic_CHNOSP`), so the
lightest peak sits at the monoisotopic mass of the composition. -/
theorem lightest_peak_raw (f : Formula) (o : Opts) (t : Dist Rat) (p d m : Rat)
    (hraw : rawDistribution f o = .ok (t, p, d, m))
    (hfl : o.floor = none) (hmi : o.maxIsotopes = none) (hct : o.convMinAbundanceThreshold = none)
    (hres : o.resolution = none) :
    ∃ L, resolve o (cleanFormula f) = some L ∧
      ∀ μ : Dist Rat → Rat, (∀ x ∈ L, IsMin x.1 (μ x.1)) → IsMin t (lightSum L μ) := by
  obtain ⟨L, hL, ht, _⟩ := rawDistribution_ok f o t p d m hraw
  refine ⟨L, hL, fun μ hμ => ?_⟩
  rw [ht, hfl, hmi, hct, hres]
  have := isMin_convolveList μ L [((0 : Rat), 1)] 0 (listPos_of_resolve o _ L hL) hμ allPos_start
    ⟨⟨(0, 1), List.mem_cons_self .., rfl⟩, by intro q hq; simp at hq; subst hq; exact le_refl _⟩
  have e : roundOpt none = id := rfl
  simpa [e] using this

/-- **lightest_peak** (mass view, returned pattern): un-pruned, un-rounded, the lightest returned peak sits at
`Σ count·(lightest isotope mass) + delta_mass + particle_mass_offset`. -/
theorem lightest_peak (f : Formula) (o : Opts) (t : Dist Rat) (p d m : Rat) (out : Dist Rat)
    (hraw : rawDistribution f o = .ok (t, p, d, m)) (hfin : finishDistribution o t p d m = .ok out)
    (hfl : o.floor = none) (hmi : o.maxIsotopes = none) (hct : o.convMinAbundanceThreshold = none)
    (hmt : o.minAbundanceThreshold = none) (hres : o.resolution = none) (hneu : o.useNeutronCount = false)
    (hp : o.precision = none) :
    ∃ L, resolve o (cleanFormula f) = some L ∧
      ∀ μ : Dist Rat → Rat, (∀ x ∈ L, IsMin x.1 (μ x.1)) → IsMin out (lightSum L μ + d + p) := by
  obtain ⟨L, hL, h1⟩ := lightest_peak_raw f o t p d m hraw hfl hmi hct hres
  refine ⟨L, hL, fun μ hμ => ?_⟩
  obtain ⟨⟨q0, hq0, e0⟩, hle⟩ := h1 μ hμ
  obtain ⟨L', hL', ht, _⟩ := rawDistribution_ok f o t p d m hraw
  have hpos : AllPos t := ht ▸ allPos_convolveList _ _ _ _ L' _ (listPos_of_resolve o _ L' hL') allPos_start
  obtain ⟨mx, hmx, hmx0, hsc⟩ := finish_ok o t p d m out hfin
  rw [hp] at hsc
  have hkeys := scaleAbundances_keys _ out _ _ hsc
  obtain ⟨⟨q, hq, hqm⟩, _⟩ := maxAb_spec _ mx hmx
  have hmxpos : 0 < mx := hqm ▸ hpos q hq
  have hshift : ∀ x, shiftFn o p d m x = x + d + p := by
    intro x
    unfold shiftFn
    by_cases h1 : d = 0 <;> by_cases h2 : p = 0 <;> simp [hneu, h1, h2]
  have hnorm : normalized o t mx = (sortByKey t).map (fun q => (q.1, q.2 / mx)) := by
    unfold normalized
    rw [List.filter_eq_self.2]
    intro a ha
    simp only [hmt, Option.getD_none, decide_eq_true_eq]
    exact le_of_lt (div_pos (hpos a ((sortByKey_perm t).mem_iff.1 ha)) hmxpos)
  have hk : out.map (·.1) = (sortByKey t).map (fun q => q.1 + d + p) := by
    rw [hkeys, hnorm]
    simp [List.map_map, Function.comp_def, hshift]
  constructor
  · have : lightSum L μ + d + p ∈ out.map (·.1) := by
      rw [hk]
      exact List.mem_map.2 ⟨q0, (sortByKey_perm t).mem_iff.2 hq0, by rw [e0]⟩
    obtain ⟨r, hr, hre⟩ := List.mem_map.1 this
    exact ⟨r, hr, hre⟩
  · intro r hr
    have : r.1 ∈ out.map (·.1) := List.mem_map.2 ⟨r, hr, rfl⟩
    rw [hk] at this
    obtain ⟨s, hs, hse⟩ := List.mem_map.1 this
    have := hle s ((sortByKey_perm t).mem_iff.1 hs)
    rw [← hse]; linarith

/-! ## the convolution as an operation on key-merged distributions

Two distributions are "equal after key-merge" when they integrate every function of the key to the same value (taking
indicator functions: the same abundance at every key).  `κ` is any key type with an addition (masses, neutron offsets,
pairs of both). -/

/-- **conv_comm** -/
theorem conv_comm {κ : Type} [DecidableEq κ] [Add κ] (hcomm : ∀ a b : κ, a + b = b + a) (d1 d2 : Dist κ) (g : κ → Rat) :
    integral (convolve id none none d1 d2) g = integral (convolve id none none d2 d1) g := by
  rw [integral_convolve id none d1 d2 g (allKept_none _ _), integral_convolve id none d2 d1 g (allKept_none _ _),
      integral_swap]
  simp only [id, hcomm]

/-- **conv_assoc** -/
theorem conv_assoc {κ : Type} [DecidableEq κ] [Add κ] (hassoc : ∀ a b c : κ, a + b + c = a + (b + c))
    (d1 d2 d3 : Dist κ) (g : κ → Rat) :
    integral (convolve id none none (convolve id none none d1 d2) d3) g =
    integral (convolve id none none d1 (convolve id none none d2 d3)) g := by
  rw [integral_convolve id none _ d3 g (allKept_none _ _),
      integral_convolve id none d1 d2 _ (allKept_none _ _),
      integral_convolve id none d1 _ g (allKept_none _ _)]
  apply integral_congr
  intro q1 _
  rw [integral_convolve id none d2 d3 _ (allKept_none _ _)]
  simp only [id, hassoc]

/-- **conv_pushforward**: binning the keys by an additive map commutes with convolution (after key-merge).  With
`φ = nominal neutron offset` on joint (mass, offset) keys this says that the neutron-offset view is the binned mass view. -/
theorem conv_pushforward {κ κ₂ : Type} [DecidableEq κ] [Add κ] [DecidableEq κ₂] [Add κ₂] (φ : κ → κ₂)
    (hφ : ∀ a b, φ (a + b) = φ a + φ b) (d1 d2 : Dist κ) (g : κ₂ → Rat) :
    integral (pushforward φ (convolve id none none d1 d2)) g =
    integral (convolve id none none (pushforward φ d1) (pushforward φ d2)) g := by
  rw [integral_pushforward, integral_convolve id none d1 d2 _ (allKept_none _ _),
      integral_convolve id none _ _ g (allKept_none _ _), integral_pushforward]
  apply integral_congr
  intro q1 _
  rw [integral_pushforward]
  simp only [id, hφ]

/-- **merge_adds**: `merge_isotopic_distributions` adds abundances at equal masses: the merged pattern integrates every
function of the mass to the sum of the integrals of its inputs (indicator functions: abundance at a mass = sum of the
input abundances at that mass), and it is sorted by mass. -/
theorem merge_adds (ds : List (Dist Rat)) (g : Rat → Rat) :
    integral (mergeDistributions ds none) g = sumIntegrals ds g ∧
    (mergeDistributions ds none).Pairwise (fun a b => a.1 ≤ b.1) := by
  constructor
  · unfold mergeDistributions
    rw [integral_perm (sortByKey_perm _), integral_mergeLoop]
    simp
  · exact sortByKey_sorted _

/-! ## facts about the generated NIST table (`decide`, no axioms) -/

def keyC : Key := [67]
def keyH : Key := [72]
def keyN : Key := [78]
def keyO : Key := [79]
def keyS : Key := [83]
def keyP : Key := [80]
def keySe : Key := [83, 101]
def keyCl : Key := [67, 108]
def keyBr : Key := [66, 114]
def keyFe : Key := [70, 101]

/-- abundance numerators of an element sum to the scale (abundances sum to 1) -/
def abSumOk (k : Key) : Bool :=
  match lookupEntry k with
  | some e => (e.2.2.map (·.2.2)).sum == abScale
  | none => false

/-- **abundances_sum_to_one**: for C,H,N,O,S,P,Se,Cl,Br,Fe the isotope abundances of the source table sum to exactly 1 -/
theorem abundances_sum_to_one :
    ∀ k ∈ [keyC, keyH, keyN, keyO, keyS, keyP, keySe, keyCl, keyBr, keyFe], abSumOk k = true := by decide +kernel

/-- the first (most abundant = "monoisotopic") isotope is the lightest one -/
def lightestFirst (k : Key) : Bool :=
  match lookupEntry k with
  | some e => (match e.2.2 with
    | i0 :: _ => i0.2.1 == e.2.1 && e.2.2.all (fun i => decide (e.2.1 ≤ i.2.1) && decide (i0.1 ≤ i.1))
    | [] => false)
  | none => false

/-- **lightest_is_monoisotopic_CHNOSP**: for C,H,N,O,S,P the monoisotopic (most abundant) isotope is the lightest, in mass
and in mass number; for Se, Cl(!), Br, Fe it is checked to be so only for Cl and Br -/
theorem lightest_is_monoisotopic_CHNOSP :
    (∀ k ∈ [keyC, keyH, keyN, keyO, keyS, keyP, keyCl, keyBr], lightestFirst k = true) ∧
    lightestFirst keySe = false ∧ lightestFirst keyFe = false := by decide +kernel

/-- every isotope abundance in the table is positive and every element's isotope keys (mass numbers) are distinct -/
theorem table_wellformed :
    (∀ e ∈ table, ∀ i ∈ e.2.2, 0 < i.2.2) ∧ (∀ e ∈ table, (e.2.2.map (·.1)).Nodup) := by decide +kernel

/-! ## tying the abstract hypotheses to the table -/

/-- **normalised_elements**: in the mass view the isotope abundances of C,H,N,O,S,P,Se,Cl,Br,Fe sum to 1 as rationals — the
hypothesis of `weighted_mean_raw` / `weighted_mean_eq_average` holds for every composition over these elements. -/
theorem normalised_elements (k : Key) (hk : k ∈ [keyC, keyH, keyN, keyO, keyS, keyP, keySe, keyCl, keyBr, keyFe])
    (e : Entry) (he : lookupEntry k = some e) : total (massIsotopes e) = 1 := by
  have h := abundances_sum_to_one k hk
  unfold abSumOk at h
  rw [he] at h
  simp only [beq_iff_eq] at h
  rw [total_massIsotopes, h]
  unfold abScale; norm_num

/-- **mean_is_average_mass**: for every composition over C,H,N,O,S,P,Se,Cl,Br,Fe (any counts, integer or fractional, any
e/p/n entries), un-pruned and un-rounded, the abundance-weighted mean of the returned mass-view pattern is
`Σ count·(average atomic mass) + delta_mass + particle_mass_offset`. -/
theorem mean_is_average_mass (f : Formula) (o : Opts) (t : Dist Rat) (p d m : Rat) (out : Dist Rat)
    (hraw : rawDistribution f o = .ok (t, p, d, m)) (hfin : finishDistribution o t p d m = .ok out)
    (hfl : o.floor = none) (hmi : o.maxIsotopes = none) (hct : o.convMinAbundanceThreshold = none)
    (hmt : o.minAbundanceThreshold = none) (hres : o.resolution = none) (hneu : o.useNeutronCount = false)
    (hp : o.precision = none)
    (hel : ∀ q ∈ cleanFormula f, q.1 ∈ [keyC, keyH, keyN, keyO, keyS, keyP, keySe, keyCl, keyBr, keyFe]) :
    ∃ L, resolve o (cleanFormula f) = some L ∧ moment out = sumAb out * (momentSum L + d + p) := by
  obtain ⟨L, hL, h⟩ := weighted_mean_eq_average f o t p d m out hraw hfin hfl hmi hct hmt hres hneu hp
  refine ⟨L, hL, h ?_⟩
  intro x hx
  obtain ⟨q, hq, e, he, hxe⟩ := resolve_mem o _ L hL x hx
  rw [hxe]
  unfold isosOf
  simp only [hneu]
  exact normalised_elements q.1 (hel q hq) e he

/-- key of the first entry of an isotope list: the monoisotopic (most abundant) isotope -/
def headKey (isos : Dist Rat) : Rat := (isos.head?.map (·.1)).getD 0

theorem massOf_mono (a b : Nat) (h : a ≤ b) : massOf a ≤ massOf b := by
  unfold massOf
  apply div_le_div_of_nonneg_right
  · exact_mod_cast h
  · unfold massScale; norm_num

/-- **lightest_mass_is_monoisotopic**: for C,H,N,O,S,P (and Cl, Br) the smallest key of the element's mass-view isotope list is
its first key, the monoisotopic mass `constants.ISOTOPIC_ATOMIC_MASSES[element]`. -/
theorem lightest_mass_is_monoisotopic (k : Key) (hk : k ∈ [keyC, keyH, keyN, keyO, keyS, keyP, keyCl, keyBr])
    (e : Entry) (he : lookupEntry k = some e) :
    IsMin (massIsotopes e) (headKey (massIsotopes e)) ∧ headKey (massIsotopes e) = monoMass e := by
  have h := lightest_is_monoisotopic_CHNOSP.1 k hk
  unfold lightestFirst at h
  rw [he] at h
  simp only [] at h
  split at h
  · next i0 t heq =>
    simp only [Bool.and_eq_true, beq_iff_eq, List.all_eq_true, decide_eq_true_eq] at h
    obtain ⟨h0, hall⟩ := h
    have hhead : headKey (massIsotopes e) = monoMass e := by
      unfold headKey massIsotopes monoMass
      rw [heq]; simp [h0]
    refine ⟨⟨⟨(massOf i0.2.1, abOf i0.2.2), ?_, ?_⟩, ?_⟩, hhead⟩
    · unfold massIsotopes; rw [heq]; simp
    · rw [hhead]; unfold monoMass; rw [h0]
    · intro q hq
      unfold massIsotopes at hq
      simp only [List.mem_map] at hq
      obtain ⟨i, hi, rfl⟩ := hq
      rw [hhead]
      exact massOf_mono _ _ (hall i (heq ▸ hi)).1
  · cases h

/-- **lightest_peak_is_monoisotopic_mass**: for every composition over C,H,N,O,S,P (Cl, Br), any counts and e/p/n entries,
un-pruned and un-rounded, the lightest peak of the returned mass-view pattern is
`Σ count·(monoisotopic mass) + delta_mass + particle_mass_offset` — the monoisotopic mass of the composition including its
electrons, protons and neutrons. -/
theorem lightest_peak_is_monoisotopic_mass (f : Formula) (o : Opts) (t : Dist Rat) (p d m : Rat) (out : Dist Rat)
    (hraw : rawDistribution f o = .ok (t, p, d, m)) (hfin : finishDistribution o t p d m = .ok out)
    (hfl : o.floor = none) (hmi : o.maxIsotopes = none) (hct : o.convMinAbundanceThreshold = none)
    (hmt : o.minAbundanceThreshold = none) (hres : o.resolution = none) (hneu : o.useNeutronCount = false)
    (hp : o.precision = none)
    (hel : ∀ q ∈ cleanFormula f, q.1 ∈ [keyC, keyH, keyN, keyO, keyS, keyP, keyCl, keyBr]) :
    ∃ L, resolve o (cleanFormula f) = some L ∧ IsMin out (lightSum L headKey + d + p) := by
  obtain ⟨L, hL, h⟩ := lightest_peak f o t p d m out hraw hfin hfl hmi hct hmt hres hneu hp
  refine ⟨L, hL, h headKey ?_⟩
  intro x hx
  obtain ⟨q, hq, e, he, hxe⟩ := resolve_mem o _ L hL x hx
  rw [hxe]
  unfold isosOf
  simp only [hneu]
  exact (lightest_mass_is_monoisotopic q.1 (hel q hq) e he).1


/-- **conv_binned**: if each factor is the binned (push-forward along an additive `φ`) image of a finer factor, the convolution
is the binned image of the finer convolution. -/
theorem conv_binned {κ κ₂ : Type} [DecidableEq κ] [Add κ] [DecidableEq κ₂] [Add κ₂] (φ : κ → κ₂)
    (hφ : ∀ a b, φ (a + b) = φ a + φ b) (d1 d2 : Dist κ) (e1 e2 : Dist κ₂)
    (h1 : ∀ g, integral e1 g = integral d1 (fun k => g (φ k))) (h2 : ∀ g, integral e2 g = integral d2 (fun k => g (φ k)))
    (g : κ₂ → Rat) :
    integral (convolve id none none e1 e2) g = integral (convolve id none none d1 d2) (fun k => g (φ k)) := by
  rw [integral_convolve id none e1 e2 g (allKept_none _ _), integral_convolve id none d1 d2 _ (allKept_none _ _), h1]
  apply integral_congr
  intro q _
  rw [h2]
  simp only [id, hφ]

/-- **elemental_binned**: the same for `count` atoms of one element (`_calculate_elemental_distribution`, floor off) -/
theorem elemental_binned {κ κ₂ : Type} [DecidableEq κ] [Add κ] [DecidableEq κ₂] [Add κ₂] (φ : κ → κ₂)
    (hφ : ∀ a b, φ (a + b) = φ a + φ b) (isos d : Dist κ) (isos' d' : Dist κ₂)
    (hi : ∀ g, integral isos' g = integral isos (fun k => g (φ k))) (n : Nat)
    (hd : ∀ g, integral d' g = integral d (fun k => g (φ k))) (g : κ₂ → Rat) :
    integral (elementalFrom none isos' n d') g = integral (elementalFrom none isos n d) (fun k => g (φ k)) := by
  induction n generalizing d d' g with
  | zero => exact hd g
  | succ n ih =>
    simp only [elementalFrom]
    exact ih _ _ (fun g => conv_binned φ hφ d isos d' isos' hd hi g) g

/-- joint (mass, nominal neutron offset) isotope list of a table entry -/
def jointIsotopes (e : Entry) : Dist (Rat × Rat) :=
  match e.2.2 with
  | [] => []
  | i0 :: t => (i0 :: t).map (fun i => ((massOf i.2.1, (((i.1 : Int) - (i0.1 : Int) : Int) : Rat)), abOf i.2.2))

/-- **neutron_view_is_binned_mass_view**: for every element of the table and every count, both the mass view and the
neutron-offset view of `_calculate_elemental_distribution` (floor off) are marginals of one joint distribution over
(mass, nominal offset): the neutron-offset view is the joint — hence the mass — view binned by nominal mass offset. -/
theorem neutron_view_is_binned_mass_view (e : Entry) (n : Nat) (g : Rat → Rat) :
    integral (elemental none (offsetIsotopes e) n) g =
      integral (elementalFrom none (jointIsotopes e) n [(((0 : Rat), (0 : Rat)), 1)]) (fun k => g k.2) ∧
    integral (elemental none (massIsotopes e) n) g =
      integral (elementalFrom none (jointIsotopes e) n [(((0 : Rat), (0 : Rat)), 1)]) (fun k => g k.1) := by
  have hadd1 : ∀ a b : Rat × Rat, (a + b).1 = a.1 + b.1 := fun a b => rfl
  have hadd2 : ∀ a b : Rat × Rat, (a + b).2 = a.2 + b.2 := fun a b => rfl
  constructor
  · unfold elemental
    apply elemental_binned (fun k : Rat × Rat => k.2) hadd2
    · intro g
      unfold offsetIsotopes jointIsotopes
      cases e.2.2 with
      | nil => rfl
      | cons i0 t =>
        simp only []
        generalize (i0 :: t) = l
        induction l with
        | nil => rfl
        | cons i r ih => simp only [List.map_cons, integral_cons, ih]
    · intro g; simp [integral]
  · unfold elemental
    apply elemental_binned (fun k : Rat × Rat => k.1) hadd1
    · intro g
      unfold massIsotopes jointIsotopes
      cases e.2.2 with
      | nil => rfl
      | cons i0 t =>
        simp only []
        generalize (i0 :: t) = l
        induction l with
        | nil => rfl
        | cons i r ih => simp only [List.map_cons, integral_cons, ih]
    · intro g; simp [integral]


/-- `conv_binned` with threshold tests that remove nothing (e.g. the code's `>= 0.0` on positive abundances) -/
theorem conv_binned_kept {κ κ₂ : Type} [DecidableEq κ] [Add κ] [DecidableEq κ₂] [Add κ₂] (φ : κ → κ₂)
    (hφ : ∀ a b, φ (a + b) = φ a + φ b) (thr thr' : Option Rat) (d1 d2 : Dist κ) (e1 e2 : Dist κ₂)
    (hk : AllKept thr e1 e2) (hk' : AllKept thr' d1 d2)
    (h1 : ∀ g, integral e1 g = integral d1 (fun k => g (φ k))) (h2 : ∀ g, integral e2 g = integral d2 (fun k => g (φ k)))
    (g : κ₂ → Rat) :
    integral (convolve id thr none e1 e2) g = integral (convolve id thr' none d1 d2) (fun k => g (φ k)) := by
  rw [integral_convolve id thr e1 e2 g hk, integral_convolve id thr' d1 d2 _ hk', h1]
  apply integral_congr
  intro q _
  rw [h2]
  simp only [id, hφ]

/-- the element loop on joint (mass, nominal offset) keys -/
def jointList : List (Entry × Nat) → Dist (Rat × Rat) → Dist (Rat × Rat)
  | [], d => d
  | (e, n) :: t, d =>
    jointList t (convolve id none none d (elementalFrom none (jointIsotopes e) n [(((0 : Rat), (0 : Rat)), 1)]))

/-- **neutron_view_is_binned_pattern**: for every list of (element, count) the un-pruned, un-rounded element loop in the
neutron-offset view and in the mass view are the two marginals of the same joint (mass, nominal offset) pattern: the
neutron-offset view is the mass view binned by nominal mass offset. -/
theorem neutron_view_is_binned_pattern (Es : List (Entry × Nat)) (hEs : ∀ x ∈ Es, x.1 ∈ table) (g : Rat → Rat) :
    integral (convolveList id (some 0) none none (Es.map (fun x => (offsetIsotopes x.1, x.2))) [((0 : Rat), 1)]) g =
      integral (jointList Es [(((0 : Rat), (0 : Rat)), 1)]) (fun k => g k.2) ∧
    integral (convolveList id (some 0) none none (Es.map (fun x => (massIsotopes x.1, x.2))) [((0 : Rat), 1)]) g =
      integral (jointList Es [(((0 : Rat), (0 : Rat)), 1)]) (fun k => g k.1) := by
  have hadd1 : ∀ a b : Rat × Rat, (a + b).1 = a.1 + b.1 := fun a b => rfl
  have hadd2 : ∀ a b : Rat × Rat, (a + b).2 = a.2 + b.2 := fun a b => rfl
  have key : ∀ (neu : Bool) (φ : Rat × Rat → Rat) (hφ : ∀ a b, φ (a + b) = φ a + φ b)
      (hbase : ∀ e n g, integral (elemental none (isosOf { useNeutronCount := neu } e) n) g =
        integral (elementalFrom none (jointIsotopes e) n [(((0 : Rat), (0 : Rat)), 1)]) (fun k => g (φ k)))
      (Es : List (Entry × Nat)) (hEs : ∀ x ∈ Es, x.1 ∈ table) (d : Dist Rat) (dj : Dist (Rat × Rat)) (hpos : AllPos d)
      (hd : ∀ g, integral d g = integral dj (fun k => g (φ k))) (g : Rat → Rat),
      integral (convolveList id (some 0) none none (Es.map (fun x => (isosOf { useNeutronCount := neu } x.1, x.2))) d) g =
        integral (jointList Es dj) (fun k => g (φ k)) := by
    intro neu φ hφ hbase Es
    induction Es with
    | nil => intro _ d dj _ hd g; exact hd g
    | cons x t ih =>
      obtain ⟨e, n⟩ := x
      intro hEs d dj hpos hd g
      simp only [List.map_cons, convolveList, jointList]
      have he : AllPos (elemental none (isosOf { useNeutronCount := neu } e) n) :=
        allPos_elementalFrom none _ n _ (allPos_isosOf _ e (hEs (e, n) (List.mem_cons_self ..))) allPos_start
      apply ih (fun y hy => hEs y (List.mem_cons_of_mem _ hy)) _ _ (allPos_convolve _ _ _ _ _ hpos he)
      intro g'
      exact conv_binned_kept φ hφ (some 0) none dj _ d _ (allKept_zero _ _ hpos he) (allKept_none _ _) hd
        (fun g'' => hbase e n g'') g'
  constructor
  · have := key true (fun k => k.2) hadd2 (fun e n g => (neutron_view_is_binned_mass_view e n g).1) Es hEs
      [((0 : Rat), 1)] [(((0 : Rat), (0 : Rat)), 1)] allPos_start (fun g => by simp [integral]) g
    simpa [isosOf] using this
  · have := key false (fun k => k.1) hadd1 (fun e n g => (neutron_view_is_binned_mass_view e n g).2) Es hEs
      [((0 : Rat), 1)] [(((0 : Rat), (0 : Rat)), 1)] allPos_start (fun g => by simp [integral]) g
    simpa [isosOf] using this


/-! ## pruning options: exact statements (no tolerance) -/

/-- **pruned_is_sublist**: the reporting threshold only removes peaks.  For every composition and every other option value, the
pattern returned with `min_abundance_threshold = thr` is a sub-list (same order) of the pattern returned with no threshold after
multiplying the latter's abundances by one common factor `c` (`c = 1` when the largest peak is scaled to
`distribution_abundance`; `c = Σ unpruned / Σ kept` with `is_abundance_sum`): every returned peak is a peak of the un-thresholded
pattern with the same mass and the same relative abundance.  No tolerance. -/
theorem pruned_is_sublist (f : Formula) (o : Opts) (out out0 : Dist Rat)
    (h : isotopicDistribution f o = .ok out)
    (h0 : isotopicDistribution f { o with minAbundanceThreshold := none } = .ok out0)
    (hp : o.precision = none) :
    ∃ c : Rat, out.Sublist (out0.map (fun q => (q.1, q.2 * c))) := by
  unfold isotopicDistribution at h h0
  rw [rawDistribution_threshold_irrelevant] at h0
  split at h
  · cases h
  · next t p d m hraw =>
    rw [hraw] at h0
    simp only [] at h0
    obtain ⟨L, hL, ht, _⟩ := rawDistribution_ok f o t p d m hraw
    have hpos : AllPos t := ht ▸ allPos_convolveList _ _ _ _ L _ (listPos_of_resolve o _ L hL) allPos_start
    obtain ⟨mx, hmx, hmx0, hsc⟩ := finish_ok o t p d m out h
    obtain ⟨mx', hmx', _, hsc0⟩ := finish_ok { o with minAbundanceThreshold := none } t p d m out0 h0
    have : mx' = mx := by rw [hmx] at hmx'; exact (Option.some.inj hmx').symm
    subst this
    obtain ⟨⟨q, hq, hqm⟩, _⟩ := maxAb_spec _ mx' hmx
    have hmxpos : 0 < mx' := hqm ▸ hpos q hq
    -- the two normalised lists
    have hsub : (normalized o t mx').Sublist (normalized { o with minAbundanceThreshold := none } t mx') := by
      unfold normalized
      apply List.Sublist.map
      have hall : List.filter (fun p => decide (({ o with minAbundanceThreshold := none } : Opts).minAbundanceThreshold.getD 0 ≤ p.2 / mx'))
          (sortByKey t) = sortByKey t := by
        rw [List.filter_eq_self]
        intro a ha
        simp only [Option.getD_none, decide_eq_true_eq]
        exact le_of_lt (div_pos (hpos a ((sortByKey_perm t).mem_iff.1 ha)) hmxpos)
      rw [hall]
      exact List.filter_sublist
    have hshift : ∀ x, shiftFn { o with minAbundanceThreshold := none } p d m x = shiftFn o p d m x := fun _ => rfl
    generalize hW : (normalized o t mx').map (fun q => (shiftFn o p d m q.1, q.2)) = W at hsc
    generalize hW0 : (normalized { o with minAbundanceThreshold := none } t mx').map
      (fun q => (shiftFn { o with minAbundanceThreshold := none } p d m q.1, q.2)) = W0 at hsc0
    have hWsub : W.Sublist W0 := by
      subst hW hW0
      simp only [hshift]
      exact hsub.map _
    have hW0pos : AllPos W0 := by
      subst hW0
      intro r hr
      simp only [List.mem_map, normalized, List.mem_filter, Prod.exists] at hr
      obtain ⟨k1, a1, ⟨k2, a2, ⟨⟨hmem, _⟩, rfl, rfl⟩⟩, rfl⟩ := hr
      exact div_pos (hpos _ ((sortByKey_perm t).mem_iff.1 hmem)) hmxpos
    have hWpos : AllPos W := allPos_of_sublist hWsub hW0pos
    rw [hp] at hsc
    have hp0 : ({ o with minAbundanceThreshold := none } : Opts).precision = none := hp
    rw [hp0] at hsc0
    change scaleAbundances W0 o.distributionAbundance o.isAbundanceSum none = .ok out0 at hsc0
    cases hs : o.isAbundanceSum with
    | false =>
      rw [hs] at hsc hsc0
      have e1 := scaleAbundances_max W out _ hsc
      have e0 := scaleAbundances_max W0 out0 _ hsc0
      refine ⟨1, ?_⟩
      subst e1 e0
      simp only [List.map_map, Function.comp_def, mul_one]
      exact hWsub.map _
    | true =>
      rw [hs] at hsc hsc0
      by_cases hWe : W = []
      · subst hWe
        unfold scaleAbundances at hsc
        simp [sumAb, Except.map] at hsc
        subst hsc
        exact ⟨1, List.nil_sublist _⟩
      · have hW0e : W0 ≠ [] := by
          intro h0'; subst h0'; exact hWe (List.sublist_nil.1 hWsub)
        have hT := sumAb_pos W hWpos hWe
        have hT0 := sumAb_pos W0 hW0pos hW0e
        unfold scaleAbundances at hsc hsc0
        simp only [if_true, ne_of_gt hT, ne_of_gt hT0, if_false, Except.map, Except.ok.injEq] at hsc hsc0
        subst hsc hsc0
        refine ⟨sumAb W0 / sumAb W, ?_⟩
        simp only [List.map_map, Function.comp_def]
        have : (fun x : Rat × Rat => (x.1, x.2 / sumAb W0 * o.distributionAbundance * (sumAb W0 / sumAb W))) =
            (fun x : Rat × Rat => (x.1, x.2 / sumAb W * o.distributionAbundance)) := by
          funext x
          congr 1
          field_simp
        rw [this]
        exact hWsub.map _


/-- **max_isotopes_takes_top_k**: with `max_isotopes = n` the convolution step returns exactly `min n (number of peaks)` peaks of
the un-truncated result, sorted by abundance (descending), and every peak it drops is no more abundant than every peak it keeps:
kept ++ dropped is a permutation of the un-truncated result.  For every rounding function, threshold and pair of inputs. -/
theorem max_isotopes_takes_top_k {κ : Type} [DecidableEq κ] [Add κ] (rnd : κ → κ) (thr : Option Rat) (n : Nat) (d1 d2 : Dist κ) :
    ∃ dropped : Dist κ,
      (convolve rnd thr (some n) d1 d2 ++ dropped).Perm (convolve rnd thr none d1 d2) ∧
      (convolve rnd thr (some n) d1 d2).length = min n (convolve rnd thr none d1 d2).length ∧
      (convolve rnd thr (some n) d1 d2).Pairwise (fun a b => b.2 ≤ a.2) ∧
      ∀ x ∈ convolve rnd thr (some n) d1 d2, ∀ y ∈ dropped, y.2 ≤ x.2 := by
  refine ⟨(sortDesc (convolve rnd thr none d1 d2)).drop n, ?_, ?_, ?_, ?_⟩
  · show ((sortDesc (convLoop rnd thr d1 d2 [])).take n ++ (sortDesc (convLoop rnd thr d1 d2 [])).drop n).Perm _
    rw [List.take_append_drop]
    exact sortDesc_perm _
  · show ((sortDesc (convLoop rnd thr d1 d2 [])).take n).length = _
    rw [List.length_take, (sortDesc_perm _).length_eq]; rfl
  · exact (sortDesc_sorted _).sublist (List.take_sublist n _)
  · intro x hx y hy
    have hs := sortDesc_sorted (convolve rnd thr none d1 d2)
    rw [← List.take_append_drop n (sortDesc (convolve rnd thr none d1 d2)), List.pairwise_append] at hs
    exact hs.2.2 x hx y hy


/-- **nfold_conv_eq_multinomial**: for every isotope list, every count `n` and every function `g` of the mass, the `n`-fold
self-convolution computed by `_calculate_elemental_distribution` (floor off) integrates `g` to the multinomial expansion
`multi` (iterated binomial form: `Σ_j C(n,j)·a₁^j·(expansion of the other isotopes with n−j atoms, shifted by j·m₁)`); with
`g` an indicator: the abundance at every mass is the sum of the multinomial terms with that mass. -/
theorem nfold_conv_eq_multinomial (isos : Dist Rat) (n : Nat) (g : Rat → Rat) :
    integral (elemental none isos n) g = multi isos n g := by
  induction n generalizing g with
  | zero =>
    cases isos with
    | nil => simp [elemental, elementalFrom, multi, integral]
    | cons q t => rw [multi_zero]; simp [elemental, elementalFrom, integral]
  | succ n ih =>
    rw [integral_elemental_succ, multi_succ]
    apply integral_congr
    intro q _
    exact ih _

/-- two carbon atoms: the peak at 12 + 13.00335483507 has abundance 2·0.9893·0.0107 -/
example : multi [((12 : Rat), 9893 / 10000), (1300335483507 / 100000000000, 107 / 10000)] 2
    (fun k => if k = 2500335483507 / 100000000000 then 1 else 0) = 2 * (9893 / 10000) * (107 / 10000) := by
  decide +kernel

/-- **integer_formula_no_shift**: for a composition whose counts are all Python ints, `delta_mass = 0`: the shift in
`weighted_mean_eq_average` / `lightest_peak` is the particle offset alone and the bracket is the average / monoisotopic mass
of the composition itself. -/
theorem integer_formula_no_shift (f : Formula) (o : Opts) (t : Dist Rat) (p d m : Rat)
    (hraw : rawDistribution f o = .ok (t, p, d, m)) (hint : ∀ q ∈ f, q.2.isInt = true) : d = 0 := by
  unfold rawDistribution at hraw
  simp only [] at hraw
  split at hraw
  · cases hraw
  · split at hraw
    · cases hraw
    · cases hraw
    · split at hraw
      · cases hraw
      · simp only [Except.ok.injEq, Prod.mk.injEq] at hraw
        rw [← hraw.2.2.1]
        have hall : (List.filter (fun p => decide (p.2.val ≠ 0)) (popCount (popCount (popCount f eKey).2 pKey).2 nKey).2).all
            (fun p => p.2.isInt) = true := by
          rw [List.all_eq_true]
          intro q hq
          have h1 := (List.mem_filter.1 hq).1
          simp only [popCount] at h1
          exact hint q (List.mem_filter.1 (List.mem_filter.1 (List.mem_filter.1 h1).1).1).1
        simp only [hall, if_true]


/-- **no_error_after_element_loop**: once the element loop has produced a non-empty distribution, normalisation, shifting and
scaling never fail (no `max()` of an empty dict, no division by zero), for every option value. -/
theorem no_error_after_element_loop (f : Formula) (o : Opts) (t : Dist Rat) (p d m : Rat)
    (hraw : rawDistribution f o = .ok (t, p, d, m)) (hne : t ≠ []) :
    ∃ out, isotopicDistribution f o = .ok out := by
  obtain ⟨L, hL, ht, _⟩ := rawDistribution_ok f o t p d m hraw
  have hpos : AllPos t := ht ▸ allPos_convolveList _ _ _ _ L _ (listPos_of_resolve o _ L hL) allPos_start
  unfold isotopicDistribution
  rw [hraw]
  simp only []
  rw [finishDistribution_eq]
  cases hm : maxAb t with
  | none => exact absurd (maxAb_eq_none t hm) hne
  | some mx =>
    obtain ⟨⟨q, hq, hqm⟩, _⟩ := maxAb_spec _ mx hm
    have hmxpos : 0 < mx := hqm ▸ hpos q hq
    simp only [ne_of_gt hmxpos, if_false]
    generalize hW : (normalized o t mx).map (fun q => (shiftFn o p d m q.1, q.2)) = W
    have hWpos : AllPos W := by
      subst hW
      intro r hr
      simp only [List.mem_map, normalized, List.mem_filter, Prod.exists] at hr
      obtain ⟨k1, a1, ⟨k2, a2, ⟨⟨hmem, _⟩, rfl, rfl⟩⟩, rfl⟩ := hr
      exact div_pos (hpos _ ((sortByKey_perm t).mem_iff.1 hmem)) hmxpos
    unfold scaleAbundances
    cases o.isAbundanceSum with
    | false => exact ⟨_, rfl⟩
    | true =>
      simp only [if_true]
      by_cases hWe : W = []
      · subst hWe; simp [sumAb, Except.map]
      · have := sumAb_pos W hWpos hWe
        simp only [ne_of_gt this, if_false]
        exact ⟨_, rfl⟩

/-! ## non-vacuity: concrete inputs satisfying the hypotheses -/

/-- C2 H4 e-1 (the witness of the repaired particle-offset defect) and C2.5 H4 S1 p1 -/
def exF1 : Formula := [(keyC, .int 2), (keyH, .int 4), (eKey, .int (-1))]
def exF2 : Formula := [(keyC, .flt (5 / 2)), (keyH, .int 4), (keyS, .int 1), (pKey, .int 1)]
def exO : Opts := { floor := none, resolution := none }

def rawOk (f : Formula) (o : Opts) : Bool :=
  match rawDistribution f o with
  | .ok (t, _, _, _) => !t.isEmpty
  | .error _ => false

example : rawOk exF1 exO = true ∧ rawOk exF2 exO = true ∧ rawOk exF1 {} = true := by decide +kernel
example : ∀ q ∈ exF1, q.2.isInt = true := by decide
example : ∀ q ∈ cleanFormula exF2, q.1 ∈ [keyC, keyH, keyN, keyO, keyS, keyP, keySe, keyCl, keyBr, keyFe] := by decide +kernel
example : (cleanFormula exF2, particleOf exF1) = ([(keyC, 2), (keyH, 4), (keyS, 1)], -electronMass) := by decide +kernel
/-- the un-normalised distribution of C2 has the three peaks 24, 25.00335483507, 26.00670967014 with total abundance 1 -/
example : (match rawDistribution [(keyC, .int 2)] exO with
    | .ok (t, _, _, _) => t.map (·.1) == [24, 2500335483507 / 100000000000, 1300335483507 / 50000000000] && sumAb t == 1
    | .error _ => false) = true := by decide +kernel
example : integral (convolve id none none [((1 : Rat), 1 / 2), (2, 1 / 2)] [((1 : Rat), 1 / 2), (2, 1 / 2)]) (fun k => if k = 3 then 1 else 0) = 1 / 2 := by
  decide +kernel

/-- the hypotheses `isotopicDistribution f o = .ok out` of the theorems above are satisfiable -/
example : ∃ out, isotopicDistribution exF1 exO = .ok out := by
  have h : rawOk exF1 exO = true := by decide +kernel
  unfold rawOk at h
  split at h
  · next t p d m hraw =>
    exact no_error_after_element_loop exF1 exO t p d m hraw (by intro h0; subst h0; simp at h)
  · cases h


/-- the algebraic hypotheses of `conv_comm`, `conv_assoc`, `conv_pushforward` hold for masses and for (mass, offset) pairs -/
example : ∀ a b : Rat, a + b = b + a := Rat.add_comm
example : ∀ a b c : Rat, a + b + c = a + (b + c) := Rat.add_assoc
example : ∀ a b : Rat × Rat, (a + b).2 = a.2 + b.2 := fun _ _ => rfl
/-- sulfur is in the table with four isotopes (hypothesis `x.1 ∈ table` of `neutron_view_is_binned_pattern`, via `lookupEntry_mem`) -/
example : (lookupEntry keyS).map (fun e => (massIsotopes e).length) = some 4 := by decide +kernel

/-- hypotheses of `pruned_is_sublist`: a thresholded and an un-thresholded run of the same composition both succeed -/
example : (∃ out, isotopicDistribution exF2 { exO with minAbundanceThreshold := some (1 / 1000) } = .ok out) ∧
    (∃ out0, isotopicDistribution exF2 { { exO with minAbundanceThreshold := some (1 / 1000) } with minAbundanceThreshold := none } = .ok out0) := by
  have h : rawOk exF2 { exO with minAbundanceThreshold := some (1 / 1000) } = true ∧
      rawOk exF2 { { exO with minAbundanceThreshold := some (1 / 1000) } with minAbundanceThreshold := none } = true := by decide +kernel
  constructor
  · have h1 := h.1
    unfold rawOk at h1
    split at h1
    · next t p d m hraw => exact no_error_after_element_loop _ _ t p d m hraw (by intro h0; subst h0; simp at h1)
    · cases h1
  · have h1 := h.2
    unfold rawOk at h1
    split at h1
    · next t p d m hraw => exact no_error_after_element_loop _ _ t p d m hraw (by intro h0; subst h0; simp at h1)
    · cases h1

end C14
