import PeptVerif.Lemmas.Isotope
/-!
# C14 — isotopic distributions are normalised, centred on the right masses and complete

Property theorems about the model `PeptVerif/Model/Isotope.lean` of `peptacular/isotope.py`.
Every statement is for all compositions and (unless a hypothesis says otherwise) all option values.
"Un-pruned" = `floor = none`, `max_isotopes = None`, `conv_min_abundance_threshold = None`,
`min_abundance_threshold = None`; "un-rounded" = `distribution_resolution = None`.
-/
namespace C14
open Isotope PeptVerif.Gen.C14

/-- **sorted by mass**: the returned pattern is strictly increasing in mass (no two peaks share a mass), for every
composition and every option value, when no final `precision` rounding is requested and the neutron mass is positive. -/
theorem sorted_by_mass (f : Formula) (o : Opts) (out : Dist Rat)
    (h : isotopicDistribution f o = .ok out) (hp : o.precision = none) (hn : 0 < o.neutronMass) :
    out.Pairwise (fun a b => a.1 < b.1) := by
  obtain ⟨L, p, d, m, _, hfin⟩ := run_ok f o out h
  obtain ⟨mx, _, _, hsc⟩ := finish_ok o _ p d m out hfin
  rw [hp] at hsc
  have hkeys := scaleAbundances_keys _ out _ _ hsc
  have hnd : NodupKeys (convolveList (roundOpt o.resolution) (some (o.convMinAbundanceThreshold.getD 0))
      o.maxIsotopes o.floor L [((0 : Rat), 1)]) :=
    nodupKeys_convolveList _ _ _ _ L _ (by simp [NodupKeys])
  have hs := sortByKey_strict _ hnd
  have h1 : (normalized o (convolveList (roundOpt o.resolution) (some (o.convMinAbundanceThreshold.getD 0))
      o.maxIsotopes o.floor L [((0 : Rat), 1)]) mx).Pairwise (fun a b => a.1 < b.1) := by
    unfold normalized
    rw [List.pairwise_map]
    exact List.Pairwise.sublist List.filter_sublist hs
  have h2 : (out.map (·.1)).Pairwise (· < ·) := by
    rw [hkeys, List.map_map, List.pairwise_map]
    exact h1.imp (fun hab => shiftFn_strictMono o p d m hn _ _ hab)
  exact List.pairwise_map.1 h2

/-- **scale_sum**: with `is_abundance_sum=True` the abundances of a non-empty pattern sum to `distribution_abundance`
(every composition, every pruning / rounding option). -/
theorem scale_sum (f : Formula) (o : Opts) (out : Dist Rat)
    (h : isotopicDistribution f o = .ok out) (hs : o.isAbundanceSum = true) (hp : o.precision = none)
    (hne : out ≠ []) : sumAb out = o.distributionAbundance := by
  obtain ⟨L, p, d, m, _, hfin⟩ := run_ok f o out h
  obtain ⟨mx, _, _, hsc⟩ := finish_ok o _ p d m out hfin
  rw [hp, hs] at hsc
  exact scaleAbundances_sum _ out _ hsc hne

/-- **scale_max**: with `is_abundance_sum=False` the largest peak equals `distribution_abundance` exactly and no peak
exceeds it — for every composition and every pruning / rounding option, provided the reporting threshold does not
exceed 1 and the requested abundance is not negative. -/
theorem scale_max (f : Formula) (o : Opts) (out : Dist Rat)
    (h : isotopicDistribution f o = .ok out) (hs : o.isAbundanceSum = false) (hp : o.precision = none)
    (hthr : o.minAbundanceThreshold.getD 0 ≤ 1) (hA : 0 ≤ o.distributionAbundance) :
    (∃ q ∈ out, q.2 = o.distributionAbundance) ∧ ∀ q ∈ out, q.2 ≤ o.distributionAbundance := by
  obtain ⟨L, p, d, m, hL, hfin⟩ := run_ok f o out h
  obtain ⟨mx, hmx, hmx0, hsc⟩ := finish_ok o _ p d m out hfin
  rw [hp, hs] at hsc
  have hout := scaleAbundances_max _ out _ hsc
  have hpos : AllPos (convolveList (roundOpt o.resolution) (some (o.convMinAbundanceThreshold.getD 0))
      o.maxIsotopes o.floor L [((0 : Rat), 1)]) :=
    allPos_convolveList _ _ _ _ L _ (listPos_of_resolve o _ L hL) allPos_start
  obtain ⟨⟨q, hq, hqm⟩, hall⟩ := maxAb_spec _ mx hmx
  have hmxpos : 0 < mx := hqm ▸ hpos q hq
  subst hout
  constructor
  · refine ⟨(shiftFn o p d m q.1, q.2 / mx * o.distributionAbundance), ?_, ?_⟩
    · simp only [List.mem_map, normalized, List.mem_filter, decide_eq_true_eq, Prod.exists, Prod.mk.injEq]
      refine ⟨shiftFn o p d m q.1, q.2 / mx, ⟨q.1, q.2 / mx, ⟨q.1, q.2, ⟨(sortByKey_perm _).mem_iff.2 hq, ?_⟩, rfl, rfl⟩, rfl, rfl⟩, rfl, rfl⟩
      rw [hqm, div_self hmx0]; exact hthr
    · show q.2 / mx * o.distributionAbundance = o.distributionAbundance
      rw [hqm, div_self hmx0, one_mul]
  · intro r hr
    simp only [List.mem_map, normalized, List.mem_filter, decide_eq_true_eq, Prod.exists, Prod.mk.injEq] at hr
    obtain ⟨k1, a1, ⟨k2, a2, ⟨k3, a3, ⟨hmem, _⟩, _, ha2⟩, _, ha1⟩, rfl⟩ := hr
    have hle : a3 ≤ mx := hall (k3, a3) ((sortByKey_perm _).mem_iff.1 hmem)
    show a1 * o.distributionAbundance ≤ o.distributionAbundance
    have : a1 ≤ 1 := by rw [← ha1, ← ha2, div_le_iff₀ hmxpos]; linarith
    nlinarith

/-- **total_abundance**: un-pruned, the un-normalised total abundance after the element loop is the product over the
elements of `(Σ_iso abundance)^count` — whatever the rounding resolution. -/
theorem total_abundance (f : Formula) (o : Opts) (t : Dist Rat) (p d m : Rat)
    (hraw : rawDistribution f o = .ok (t, p, d, m))
    (hfl : o.floor = none) (hmi : o.maxIsotopes = none) (hct : o.convMinAbundanceThreshold = none) :
    ∃ L, resolve o (cleanFormula f) = some L ∧ total t = totalProd L := by
  obtain ⟨L, hL, ht, _⟩ := rawDistribution_ok f o t p d m hraw
  refine ⟨L, hL, ?_⟩
  rw [ht, hfl, hmi, hct]
  have := total_convolveList (roundOpt o.resolution) L [((0 : Rat), 1)] (listPos_of_resolve o _ L hL) allPos_start
  simpa [total] using this

/-- **weighted_mean (element loop)**: un-pruned and un-rounded, if every element's isotope abundances sum to 1 then the
total abundance is 1 and the first moment `Σ mass·abundance` is `Σ count · Σ_iso mass·abundance`, i.e. the average
mass of the (rounded) composition. -/
theorem weighted_mean_raw (f : Formula) (o : Opts) (t : Dist Rat) (p d m : Rat)
    (hraw : rawDistribution f o = .ok (t, p, d, m))
    (hfl : o.floor = none) (hmi : o.maxIsotopes = none) (hct : o.convMinAbundanceThreshold = none)
    (hres : o.resolution = none) :
    ∃ L, resolve o (cleanFormula f) = some L ∧
      ((∀ x ∈ L, total x.1 = 1) → total t = 1 ∧ moment t = momentSum L) := by
  obtain ⟨L, hL, ht, _⟩ := rawDistribution_ok f o t p d m hraw
  refine ⟨L, hL, fun h1 => ?_⟩
  have hpos := listPos_of_resolve o _ L hL
  rw [ht, hfl, hmi, hct, hres]
  have hT := total_convolveList (roundOpt none) L [((0 : Rat), 1)] hpos allPos_start
  have hM := moment_convolveList L [((0 : Rat), 1)] hpos allPos_start h1
  have hprod : totalProd L = 1 := by
    clear hT hM hL ht hpos
    induction L with
    | nil => rfl
    | cons x r ih =>
      obtain ⟨isos, n⟩ := x
      simp only [totalProd, h1 (isos, n) (List.mem_cons_self ..), one_pow, one_mul]
      exact ih (fun y hy => h1 y (List.mem_cons_of_mem _ hy))
  constructor
  · have : (fun x => x) = roundOpt none := rfl
    simpa [total, hprod, roundOpt] using hT
  · have e : roundOpt none = id := rfl
    simp only [Option.getD_none] at hM ⊢
    rw [e]
    simpa [total, moment] using hM

/-- the scaling step multiplies every integral by one constant -/
theorem scale_const (d out : Dist Rat) (a : Rat) (s : Bool) (h : scaleAbundances d a s none = .ok out) :
    ∃ c : Rat, ∀ g : Rat → Rat, integral out g = c * integral d g := by
  cases s with
  | false =>
    have := scaleAbundances_max d out a h
    subst this
    exact ⟨a, fun g => integral_scale d a g⟩
  | true =>
    unfold scaleAbundances at h
    simp only [if_true] at h
    by_cases ht : sumAb d = 0
    · simp only [ht, if_true] at h
      cases d with
      | nil => simp [Except.map] at h; subst h; exact ⟨0, fun g => by simp⟩
      | cons q r => simp [Except.map] at h
    · simp only [ht, if_false, Except.map, Except.ok.injEq] at h
      subst h
      refine ⟨a / sumAb d, fun g => ?_⟩
      rw [integral_scale, integral_div]; ring

/-- **weighted mean = average mass** (mass view): un-pruned, un-rounded, for elements whose isotope abundances sum to 1,
`Σ mass·abundance = (Σ abundance) · (Σ count·Σ_iso mass·abundance + delta_mass + particle_mass_offset)` for the
returned pattern, whatever `distribution_abundance` / `is_abundance_sum`.  For integer compositions `delta_mass = 0`
and the bracket is the average mass of the composition including its e/p/n entries. -/
theorem weighted_mean_eq_average (f : Formula) (o : Opts) (t : Dist Rat) (p d m : Rat) (out : Dist Rat)
    (hraw : rawDistribution f o = .ok (t, p, d, m)) (hfin : finishDistribution o t p d m = .ok out)
    (hfl : o.floor = none) (hmi : o.maxIsotopes = none) (hct : o.convMinAbundanceThreshold = none)
    (hmt : o.minAbundanceThreshold = none) (hres : o.resolution = none) (hneu : o.useNeutronCount = false)
    (hp : o.precision = none) :
    ∃ L, resolve o (cleanFormula f) = some L ∧
      ((∀ x ∈ L, total x.1 = 1) → moment out = sumAb out * (momentSum L + d + p)) := by
  obtain ⟨L, hL, h1⟩ := weighted_mean_raw f o t p d m hraw hfl hmi hct hres
  refine ⟨L, hL, fun hone => ?_⟩
  obtain ⟨hT, hM⟩ := h1 hone
  obtain ⟨L', hL', ht, _⟩ := rawDistribution_ok f o t p d m hraw
  have hpos : AllPos t := ht ▸ allPos_convolveList _ _ _ _ L' _ (listPos_of_resolve o _ L' hL') allPos_start
  obtain ⟨mx, hmx, hmx0, hsc⟩ := finish_ok o t p d m out hfin
  rw [hp] at hsc
  obtain ⟨c, hc⟩ := scale_const _ out _ _ hsc
  obtain ⟨⟨q, hq, hqm⟩, _⟩ := maxAb_spec _ mx hmx
  have hmxpos : 0 < mx := hqm ▸ hpos q hq
  have hshift : ∀ x, shiftFn o p d m x = x + d + p := by
    intro x
    unfold shiftFn
    by_cases h1 : d = 0 <;> by_cases h2 : p = 0 <;> simp [hneu, h1, h2]
  have hnorm : normalized o t mx = (sortByKey t).map (fun q => (q.1, q.2 / mx)) := by
    unfold normalized
    rw [List.filter_eq_self.2]
    intro a ha
    simp only [hmt, Option.getD_none, decide_eq_true_eq]
    exact le_of_lt (div_pos (hpos a ((sortByKey_perm t).mem_iff.1 ha)) hmxpos)
  have hW : ∀ g : Rat → Rat, integral ((normalized o t mx).map (fun q => (shiftFn o p d m q.1, q.2))) g =
      integral t (fun k => g (k + d + p)) / mx := by
    intro g
    rw [integral_map_key, hnorm, integral_div, integral_perm (sortByKey_perm t)]
    congr 1
    exact integral_congr t _ _ (fun q _ => by rw [hshift])
  have hmom : moment out = c * ((moment t + (d + p) * total t) / mx) := by
    unfold moment
    rw [hc, hW]
    congr 2
    have : (fun k : Rat => k + d + p) = (fun k => k + (d + p) * 1) := by funext k; ring
    rw [this, integral_add, integral_const]
    unfold total; ring
  have hsum : sumAb out = c * (total t / mx) := by
    rw [← total_eq_sumAb]
    unfold total
    rw [hc, hW]
  rw [hmom, hsum, hT, hM]
  ring

end C14
