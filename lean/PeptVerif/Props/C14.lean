import PeptVerif.Model.Isotope
namespace C14
open Isotope

/-- placeholder while the model is being tied to the code -/
theorem addKey_nil (k : Rat) (v : Rat) : addKey ([] : Dist Rat) k v = [(k, v)] := rfl

end C14
