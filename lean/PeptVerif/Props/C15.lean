import PeptVerif.Model.ModDbGen
/-! C15 property theorems (being filled in) -/
namespace C15
open ModDb Formula

theorem split_plain_example : splitChem false [] (str% "[13C6]H12") = .ok [str% "[13C6]", str% "H12"] := by
  decide

end C15
