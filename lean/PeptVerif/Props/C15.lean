import PeptVerif.Lemmas.FormulaRT
import PeptVerif.Generated.ElementsC15
/-!
# C15 — chemical formulas: write → parse round trip, additivity, mass   (chem part; glycans: `Props/C15Glycan.lean`)

Model: `PeptVerif/Model/Formula.lean` (`writeChem` = `write_chem_formula`, `parseChem` = `parse_chem_formula`,
`chemMassStr` / `chemMassComp` = `chem_mass` on a string / a dict).  Helper lemmas: `Lemmas/FormulaRT.lean`,
number texts: `Lemmas/NumText.lean`.

Domain (definitions in `Lemmas/FormulaRT.lean`, all decidable except the float clause of `NumWF`):
* `PlainKey k` : `k = Upper lower*` other than `D`, `T` (every element symbol of the table), or a particle `e`, `p`, `n`;
* `IsoKey k`   : `k = D`, `T` or `digit+ letter+` (isotope-prefixed element) — the writer puts these in brackets;
* `NumWF v`    : `v` is a Python int, or a float that is a finite decimal (≤ 399 fractional digits);
* `DomTok (k, v)` : `(PlainKey k ∨ IsoKey k) ∧ NumWF v`;  `DomComp c` : pairwise distinct keys (a dict) of `DomTok`s;
* `render ts` : what the writer emits (sep = '') for the entry list `ts` (every token carries its count);
* `addAll d ts` : the dict `d` after `d[k] = d.get(k, 0) + v` for every `(k, v)` of `ts`, in order (dict addition).

All statements are for every length / every input of the domain; counts may be negative, zero, fractional.
-/
namespace C15
open ModDb Formula

/-! example data (`exToks`, `exComp`, `exTable`, …) and their domain proofs: end of `Lemmas/FormulaRT.lean` -/

/-! ### token level: the tokenizer and the component splitter -/

/-- The condensed tokenizer (`finditer` of `([A-Z][a-z]*|e|p|n)(-?\d*\.?\d*)`) reads a run of written plain tokens back
token by token: element boundaries (`Ce` vs `C`+`e`, `e` as electron, negative and decimal counts) are recovered
exactly. -/
theorem tokenizer_run (ps : List Tok) (h : ∀ t ∈ ps, PlainKey t.1 ∧ NumWF t.2) :
    finditerCondensed 0 (render ps) = ps.map (fun t => (t.1, t.2.show)) :=
  finditer_run (fun t ht => ⟨(h t ht).1, numOK_of_wf _ (h t ht).2⟩)

example : finditerCondensed 0 (str% "C2Ce1e-1H-1.5") =
    [(str% "C", str% "2"), (str% "Ce", str% "1"), (str% "e", str% "-1"), (str% "H", str% "-1.5")] := by decide +kernel

/-- `_split_chem_formula` cuts the written text into the maximal runs of plain tokens and the single bracketed tokens. -/
theorem splitter_render (ts : List Tok) (h : ∀ t ∈ ts, DomTok t) :
    splitChem false [] (render ts) = .ok ((groups [] ts).map render) := by
  have := splitChem_render (ps := []) (by simp) (fun t ht => (h t ht).wf)
  simpa using this

example : splitChem false [] (render exToks) =
    .ok [str% "[13C6]", str% "C2H-1.5e-1C3", str% "[D2]", str% "Ce1"] := by decide +kernel

/-! ### write → parse -/

/-- **General round trip** for arbitrary token lists (repeated keys allowed, zero counts allowed): parsing the written
tokens gives the left-to-right accumulation of the tokens into an empty dict. -/
theorem parse_render (ts : List Tok) (h : ∀ t ∈ ts, DomTok t) :
    parseChem (render ts) [] = .ok (addAll [] ts) :=
  parseChem_render (fun t ht => (h t ht).wf)

example : parseChem (render exToks) [] = .ok (addAll [] exToks) := parse_render exToks exToks_dom
example : render exToks = str% "[13C6]C2H-1.5e-1C3[D2]Ce1" := by decide +kernel
example : addAll [] exToks =
    [(k13C, Num.ofInt 6), (kC, Num.ofInt 5), (kH, numNeg15), (kE, Num.ofInt (-1)), (kD, Num.ofInt 2),
     (kCe, Num.ofInt 1)] := by decide +kernel

/-- **C15 round trip, sep = ''**: writing a dict (plain or Hill order) and parsing it back returns the same dict, in
the order written, with the zero-count entries dropped. -/
theorem parse_write (E : List Elem) (c : Comp) (hill : Bool) (h : DomComp c) :
    parseChem (writeChem E c [] hill) [] =
      .ok ((if hill then sortBy (fun kv => hillIndex E kv.1) c else c).filter (fun kv => !kv.2.isZero)) :=
  parseChem_write E hill h.wf

example (E : List Elem) (hill : Bool) : parseChem (writeChem E exComp [] hill) [] =
    .ok ((if hill then sortBy (fun kv => hillIndex E kv.1) exComp else exComp).filter (fun kv => !kv.2.isZero)) :=
  parse_write E exComp hill exComp_dom
example : writeChem [] exComp [] false = str% "H-1.5[13C6]C2e-1[D2]" := by decide +kernel

/-- as a set of entries (order-free reading): the result has exactly the non-zero entries of the dict -/
theorem parse_write_perm (E : List Elem) (c : Comp) (hill : Bool) (h : DomComp c) :
    ∃ r, parseChem (writeChem E c [] hill) [] = .ok r ∧ r.Perm (c.filter (fun kv => !kv.2.isZero)) :=
  ⟨_, parseChem_write E hill h.wf, (hillSort_perm E hill c).filter _⟩

example (E : List Elem) : ∃ r, parseChem (writeChem E exComp [] true) [] = .ok r ∧
    r.Perm (exComp.filter (fun kv => !kv.2.isZero)) := parse_write_perm E exComp true exComp_dom

/-! ### additivity -/

/-- **Parsing is additive**: the composition of the concatenation of two written formulas is the dict sum of the two
compositions. -/
theorem parse_append (ts₁ ts₂ : List Tok) (h₁ : ∀ t ∈ ts₁, DomTok t) (h₂ : ∀ t ∈ ts₂, DomTok t) :
    ∃ c₁ c₂, parseChem (render ts₁) [] = .ok c₁ ∧ parseChem (render ts₂) [] = .ok c₂ ∧
      parseChem (render ts₁ ++ render ts₂) [] = .ok (addAll c₁ c₂) := by
  refine ⟨_, _, parse_render ts₁ h₁, parse_render ts₂ h₂, ?_⟩
  have h : ∀ t ∈ ts₁ ++ ts₂, DomTok t := by
    intro t ht
    rcases List.mem_append.1 ht with ht | ht
    · exact h₁ t ht
    · exact h₂ t ht
  rw [← render_append, parse_render _ h, addAll_append, addAll_addAll_nil]

example : ∃ c₁ c₂, parseChem (render exToks) [] = .ok c₁ ∧ parseChem (render exComp) [] = .ok c₂ ∧
    parseChem (render exToks ++ render exComp) [] = .ok (addAll c₁ c₂) :=
  parse_append exToks exComp exToks_dom exComp_dom.2

/-- **Parsing is additive on arbitrary formula strings** (not only written ones: implicit counts `CH4`, any valid
bracket structure, …): if both parts parse and the second part starts a new token — an upper-case letter or a
bracket — then the composition of the concatenation is the dict sum of the two compositions. -/
theorem parse_concat (s₁ s₂ : Str) (c₁ c₂ : Comp) (h₁ : parseChem s₁ [] = .ok c₁) (h₂ : parseChem s₂ [] = .ok c₂)
    (hb : ∀ c r, s₂ = c :: r → isUpper c = true ∨ c = 91) :
    parseChem (s₁ ++ s₂) [] = .ok (addAll c₁ c₂) :=
  parseChem_append h₁ h₂ hb

example : ∃ c₁ c₂, parseChem (str% "CH3[13C]C-1.5") [] = .ok c₁ ∧ parseChem (str% "OHC2") [] = .ok c₂ ∧
    parseChem (str% "CH3[13C]C-1.5" ++ str% "OHC2") [] = .ok (addAll c₁ c₂) := by
  have h₁ : parseChem (str% "CH3[13C]C-1.5") [] = .ok
      [(kC, ⟨-1/2, true⟩), (kH, Num.ofInt 3), (k13C, Num.ofInt 1)] := by decide +kernel
  have h₂ : parseChem (str% "OHC2") [] = .ok [(str% "O", Num.ofInt 1), (kH, Num.ofInt 1), (kC, Num.ofInt 2)] := by
    decide +kernel
  exact ⟨_, _, h₁, h₂, parse_concat _ _ _ _ h₁ h₂ (by intro c r h; simp at h; left; rw [← h.1]; decide)⟩

/-- why the boundary condition is needed: a second part starting with a lower-case letter (here the electron `e`)
fuses with the preceding element symbol — `C` + `e2` reads as cerium. -/
theorem concat_boundary_counterexample :
    parseChem (str% "C") [] = .ok [(kC, Num.ofInt 1)] ∧ parseChem (str% "e2") [] = .ok [(kE, Num.ofInt 2)] ∧
    parseChem (str% "C" ++ str% "e2") [] = .ok [(kCe, Num.ofInt 2)] := by decide +kernel

/-- additivity for the writer's outputs -/
theorem parse_write_append (E : List Elem) (c₁ c₂ : Comp) (hill₁ hill₂ : Bool) (h₁ : DomComp c₁) (h₂ : DomComp c₂) :
    parseChem (writeChem E c₁ [] hill₁ ++ writeChem E c₂ [] hill₂) [] =
      .ok (addAll (dropZeros (hillSort E hill₁ c₁)) (dropZeros (hillSort E hill₂ c₂))) := by
  have w₁ := (h₁.wf.perm (hillSort_perm E hill₁ c₁)).dropZeros
  have w₂ := (h₂.wf.perm (hillSort_perm E hill₂ c₂)).dropZeros
  have hw : ∀ t ∈ dropZeros (hillSort E hill₁ c₁) ++ dropZeros (hillSort E hill₂ c₂), WFTok t := by
    intro t ht
    rcases List.mem_append.1 ht with ht | ht
    · exact w₁.2 t ht
    · exact w₂.2 t ht
  rw [writeChem_nosep E c₁ hill₁ (fun kv hkv => wfTok_key_ne (h₁.wf.2 kv hkv)),
    writeChem_nosep E c₂ hill₂ (fun kv hkv => wfTok_key_ne (h₂.wf.2 kv hkv)), ← render_append,
    parseChem_render hw, addAll_append, addAll_distinct w₁.1 (by simp [keys])]
  rfl

example (E : List Elem) : parseChem (writeChem E exComp [] false ++ writeChem E exComp [] true) [] =
    .ok (addAll (dropZeros (hillSort E false exComp)) (dropZeros (hillSort E true exComp))) :=
  parse_write_append E exComp exComp false true exComp_dom exComp_dom

/-- dict addition is associative (so "the sum of the compositions" does not depend on bracketing) -/
theorem addAll_associative (a b c : Comp) : addAll a (addAll b c) = addAll (addAll a b) c :=
  addAll_assoc a b c

example : addAll exComp (addAll exToks exComp) = addAll (addAll exComp exToks) exComp :=
  addAll_associative exComp exToks exComp

/-- **The count at a key**: the parse result has key `k` iff some written token has exactly the key `k`, and the count
is the sum of the counts of exactly those tokens (repeated elements accumulate; nothing else contributes). -/
theorem count_at (ts : List Tok) (h : ∀ t ∈ ts, DomTok t) :
    ∃ c, parseChem (render ts) [] = .ok c ∧
      ∀ k, c.get? k = if ts.any (fun t => t.1 == k) then some (sumAt k ts Num.zero) else none :=
  ⟨_, parse_render ts h, get?_addAll_nil ts⟩

example : (addAll [] exToks).get? kC = some (Num.ofInt 5) := by decide +kernel

/-- **Repeated elements accumulate**: `k v₁ k v₂` parses to `k ↦ v₁ + v₂`. -/
theorem repeat_accumulates (k : Str) (v₁ v₂ : Num) (h₁ : DomTok (k, v₁)) (h₂ : DomTok (k, v₂)) :
    parseChem (render [(k, v₁), (k, v₂)]) [] = .ok [(k, Num.add v₁ v₂)] := by
  rw [parse_render _ (by intro t ht; simp at ht; rcases ht with rfl | rfl <;> assumption)]
  simp [addAll, addTo, Num.zero_add]

example : parseChem (str% "C2C-3") [] = .ok [(kC, Num.ofInt (-1))] := by decide +kernel
example : parseChem (render [(kC, Num.ofInt 2), (kC, Num.ofInt (-3))]) [] = .ok [(kC, Num.add (Num.ofInt 2) (Num.ofInt (-3)))] :=
  repeat_accumulates kC _ _ ⟨.inl (by decide), numWF_int 2⟩ ⟨.inl (by decide), numWF_int (-3)⟩

/-- **Isotopes in brackets stay distinct from their element** (and, generally, tokens with a different key never
contribute): writing one more token `t` in front changes nothing at any key `k ≠ t.1` — in particular `[13C6]`
adds nothing to `C`, although its text contains the letter `C`. -/
theorem isotope_distinct (t : Tok) (ts : List Tok) (k : Str) (ht : DomTok t) (h : ∀ t ∈ ts, DomTok t)
    (hk : t.1 ≠ k) :
    ∃ c c', parseChem (render (t :: ts)) [] = .ok c' ∧ parseChem (render ts) [] = .ok c ∧ c'.get? k = c.get? k := by
  have h' : ∀ x ∈ t :: ts, DomTok x := by
    intro x hx
    rcases List.mem_cons.1 hx with rfl | hx
    · exact ht
    · exact h x hx
  refine ⟨_, _, parse_render _ h', parse_render _ h, ?_⟩
  have hb : (t.1 == k) = false := by simpa using hk
  rw [get?_addAll_nil, get?_addAll_nil]
  simp only [List.any_cons, hb, Bool.false_or, sumAt, List.filter_cons, Bool.false_eq_true, if_false]

example : ∃ c c', parseChem (render ((k13C, Num.ofInt 6) :: exToks)) [] = .ok c' ∧
    parseChem (render exToks) [] = .ok c ∧ c'.get? kC = c.get? kC :=
  isotope_distinct (k13C, Num.ofInt 6) exToks kC ⟨.inr (by decide), numWF_int 6⟩ exToks_dom (by decide)

/-- the bracketed token itself is filed under its full key -/
theorem isotope_own_key (k : Str) (v : Num) (hk : IsoKey k) (hv : NumWF v) :
    parseChem ([91] ++ k ++ v.show ++ [93]) [] = .ok [(k, v)] := by
  have h : DomTok (k, v) := ⟨.inr hk, hv⟩
  have := parse_render [(k, v)] (by intro t ht; simp at ht; subst ht; exact h)
  simpa [render, tokStr, isoKey_iso hk, addAll, addTo, Num.zero_add] using this

example : parseChem (str% "[13C6]") [] = .ok [(k13C, Num.ofInt 6)] := by decide +kernel

/-! ### mass -/

/-- **Mass of the written string = mass of the dict** (`chem_mass(str)` vs `chem_mass(dict)`, monoisotopic or average),
whenever `chem_mass` knows every key of the dict (zero-count entries included: on the dict side they are looked up
too).  The hypothesis is exactly "`chem_mass` does not raise on any key". -/
theorem mass_write (T : MassTable) (mono : Bool) (E : List Elem) (c : Comp) (hill : Bool) (h : DomComp c)
    (hk : ∀ kv ∈ c, ∃ m, elemMass T mono kv.1 = .ok m) :
    chemMassStr T mono (writeChem E c [] hill) [] = chemMassComp T mono c :=
  chemMassStr_write E hill h.wf hk

example (mono hill : Bool) :
    chemMassStr exTable mono (writeChem exTable.elems exComp [] hill) [] = chemMassComp exTable mono exComp := by
  apply mass_write _ _ _ _ _ exComp_dom
  cases mono <;> exact known_of_all (by decide +kernel)

/-- **Mass of any written token list** (repeated keys allowed): `chem_mass` of the text is the count-weighted sum over
the tokens, i.e. `chem_mass` of the token list read as a dict-with-repetitions. -/
theorem mass_render (T : MassTable) (mono : Bool) (ts : List Tok) (h : ∀ t ∈ ts, DomTok t)
    (hk : ∀ t ∈ ts, ∃ m, elemMass T mono t.1 = .ok m) :
    chemMassStr T mono (render ts) [] = chemMassComp T mono ts := by
  have hk' : ∀ kv ∈ addAll [] ts, Known T mono kv.1 := by
    apply known_of_keys
    intro k hk1
    rcases mem_keys_addAll hk1 with hk1 | hk1
    · simp [keys] at hk1
    · exact keys_known hk k hk1
  simp only [chemMassStr, parse_render ts h, chemMassComp_known hk', chemMassComp_known hk, msum_addAll, msum]
  simp

example (mono : Bool) : chemMassStr exTable mono (render exToks) [] = chemMassComp exTable mono exToks := by
  apply mass_render _ _ _ exToks_dom
  cases mono <;> exact known_of_all (by decide +kernel)

/-- **Mass is additive over concatenation** (arbitrary formula strings, same boundary condition as `parse_concat`). -/
theorem mass_concat (T : MassTable) (mono : Bool) (s₁ s₂ : Str) (m₁ m₂ : Rat)
    (h₁ : chemMassStr T mono s₁ [] = .ok m₁) (h₂ : chemMassStr T mono s₂ [] = .ok m₂)
    (hb : ∀ c r, s₂ = c :: r → isUpper c = true ∨ c = 91) :
    chemMassStr T mono (s₁ ++ s₂) [] = .ok (m₁ + m₂) := by
  unfold chemMassStr at h₁ h₂ ⊢
  cases hp1 : parseChem s₁ [] with
  | error e => rw [hp1] at h₁; cases h₁
  | ok c₁ =>
    cases hp2 : parseChem s₂ [] with
    | error e => rw [hp2] at h₂; cases h₂
    | ok c₂ =>
      rw [hp1] at h₁
      rw [hp2] at h₂
      rw [parseChem_append hp1 hp2 hb]
      exact chemMassComp_addAll h₁ h₂

example : ∃ m₁ m₂, chemMassStr exTable true (str% "CH3[13C]C-1.5") [] = .ok m₁ ∧
    chemMassStr exTable true (str% "HC2") [] = .ok m₂ ∧
    chemMassStr exTable true (str% "CH3[13C]C-1.5" ++ str% "HC2") [] = .ok (m₁ + m₂) := by
  have h₁ : chemMassStr exTable true (str% "CH3[13C]C-1.5") [] =
      .ok ((12 : Rat) * (-1/2) + (1007825 : Rat) / 1000000 * 3 + (13003355 : Rat) / 1000000 * 1) := by
    decide +kernel
  have h₂ : chemMassStr exTable true (str% "HC2") [] = .ok ((1007825 : Rat) / 1000000 * 1 + 12 * 2) := by
    decide +kernel
  exact ⟨_, _, h₁, h₂, mass_concat _ _ _ _ _ _ h₁ h₂ (by intro c r h; simp at h; left; rw [← h.1]; decide)⟩

/-! ### the bundled table -/

/-- the element table of the repo under test (generated from `peptacular.constants`; `Gen.massTable` of
`Model/ModDbGen.lean` is this same term) -/
def repoTable : MassTable :=
  ⟨Gen.ElementsC15.elems, Gen.ElementsC15.electron, Gen.ElementsC15.proton, Gen.ElementsC15.neutron⟩

/-- **Every one of the 476 keys of the bundled table is in the domain** of the theorems above: it is a `PlainKey`
(118 element symbols) or an `IsoKey` (isotope-prefixed symbols, `D`, `T`). -/
theorem table_keys_in_domain : ∀ e ∈ repoTable.elems, PlainKey e.sym ∨ IsoKey e.sym := by
  have h : repoTable.elems.all (fun e => plainKeyB e.sym || isoKeyB e.sym) = true := by decide +kernel
  intro e he
  have := List.all_eq_true.1 h e he
  simpa [PlainKey, IsoKey] using this

example : (⟨k13C, ⟨1300335483507, 11⟩, none, some 2⟩ : Elem) ∈ repoTable.elems := by decide +kernel

/-- **Mass round trip on the bundled table**: for every dict over the table's keys and the particles, monoisotopic or
average, plain or Hill order, `chem_mass(write_chem_formula(c)) = chem_mass(c)` (exactly, in ℚ). -/
theorem mass_write_table (mono hill : Bool) (c : Comp) (h : DomComp c)
    (hk : ∀ kv ∈ c, kv.1 ∈ repoTable.elems.map (·.sym) ∨ kv.1 = [101] ∨ kv.1 = [112] ∨ kv.1 = [110]) :
    chemMassStr repoTable mono (writeChem repoTable.elems c [] hill) [] = chemMassComp repoTable mono c := by
  have hall : repoTable.elems.all (fun e => isIsoKey e.sym || e.avg.isSome) = true := by decide +kernel
  exact chemMassStr_write _ hill h.wf (fun kv hkv => known_of_table mono hall (hk kv hkv))

example (mono hill : Bool) :
    chemMassStr repoTable mono (writeChem repoTable.elems exComp [] hill) [] = chemMassComp repoTable mono exComp :=
  mass_write_table mono hill exComp exComp_dom (by decide +kernel)

/-! ### separated form (sep = ' ' or '|') -/

/-- **C15 round trip, separated form**: for a dict with at least one non-zero entry. -/
theorem parse_write_sep (E : List Elem) (c : Comp) (sep : Str) (hill : Bool) (hs : sep = [32] ∨ sep = [124])
    (h : DomComp c) (hne : c.filter (fun kv => !kv.2.isZero) ≠ []) :
    parseChem (writeChem E c sep hill) sep =
      .ok ((if hill then sortBy (fun kv => hillIndex E kv.1) c else c).filter (fun kv => !kv.2.isZero)) :=
  parseChem_write_sep E hill hs h.wf hne

example (E : List Elem) (hill : Bool) : parseChem (writeChem E exComp [124] hill) [124] =
    .ok ((if hill then sortBy (fun kv => hillIndex E kv.1) exComp else exComp).filter (fun kv => !kv.2.isZero)) :=
  parse_write_sep E exComp [124] hill (.inr rfl) exComp_dom (by decide +kernel)
example : writeChem [] exComp [32] false = str% "H -1.5 13C 6 C 2 e -1 D 2" := by decide +kernel

/-- mass in the separated form -/
theorem mass_write_sep (T : MassTable) (mono : Bool) (E : List Elem) (c : Comp) (sep : Str) (hill : Bool)
    (hs : sep = [32] ∨ sep = [124]) (h : DomComp c) (hne : c.filter (fun kv => !kv.2.isZero) ≠ [])
    (hk : ∀ kv ∈ c, ∃ m, elemMass T mono kv.1 = .ok m) :
    chemMassStr T mono (writeChem E c sep hill) sep = chemMassComp T mono c := by
  have hk' : ∀ kv ∈ dropZeros (hillSort E hill c), Known T mono kv.1 := by
    intro kv hkv
    exact hk kv ((hillSort_perm E hill c).mem_iff.1 (List.mem_filter.1 hkv).1)
  simp only [chemMassStr, parseChem_write_sep E hill hs h.wf hne, chemMassComp_known hk', chemMassComp_known hk,
    msum_dropZeros, msum_hillSort]

example (mono hill : Bool) :
    chemMassStr exTable mono (writeChem exTable.elems exComp [32] hill) [32] = chemMassComp exTable mono exComp := by
  apply mass_write_sep _ _ _ _ _ _ (.inl rfl) exComp_dom (by decide +kernel)
  cases mono <;> exact known_of_all (by decide +kernel)

/-- **Why the separated form needs a non-zero entry** (the property's quantifier says "non-empty compositions for the
separated forms"): an all-zero dict is written as the empty string, and `parse_chem_formula('', ' ')` is `{'': 1}`,
not `{}`.  (With sep = '' the empty string parses to `{}` and `parse_write` holds without the restriction.) -/
theorem sep_all_zero_counterexample (E : List Elem) :
    writeChem E [(kC, Num.zero)] [32] false = [] ∧ parseChem [] [32] = .ok [([], Num.one)]
      ∧ parseChem (writeChem E [(kC, Num.zero)] [] false) [] = .ok [] := by
  refine ⟨by simp [writeChem, Num.isZero, Num.zero, Num.ofInt, intercalate], by decide, ?_⟩
  simp [writeChem, Num.isZero, Num.zero, Num.ofInt]
  decide

end C15
