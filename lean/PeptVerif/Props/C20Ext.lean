import PeptVerif.Props.C20
/-!
# C20 extension (round 5) - the modification dictionary is a faithful description of the modifications

`Props/C20.lean` proves the round trip `add_mod_dict(strip(a), mod_dict(a)) = a`. Here the converse direction of the
clause "taking the modification dictionary and adding it to the stripped sequence reproduces the original": the pair
(stripped sequence, `mod_dict()`) *determines* the annotation - two annotations with the same residues and the same
dictionary are the same annotation (field by field when neither has an empty internal dict `{}`, `==` and text-equal
without any side condition), hence every difference between two annotations on the same residues shows in their
dictionaries. Plus: adding an empty dictionary changes nothing (either append mode).
Every `theorem` below is a proof obligation.
-/
namespace Pept.C20Ext
open Pept Pept.C20

/-- same residues and same `mod_dict()` => the same annotation, field by field. Side condition as in
`add_get_inverse`: an empty internal dict `{}` is not represented in the dictionary. -/
theorem mod_dict_determines (a b : Annotation) (hs : a.seq = b.seq) (hd : modDict a = modDict b)
    (ha : a.internal ≠ some []) (hb : b.internal ≠ some []) : a = b := by
  have h1 := add_get_inverse a false ha
  have h2 := add_get_inverse b false hb
  have hst : strip a = strip b := by simp [strip, hs]
  rw [← h1, ← h2, hst, hd]

/-- without the side condition the two annotations are still `==` (in both directions) -/
theorem mod_dict_determines_eq (a b : Annotation) (hs : a.seq = b.seq) (hd : modDict a = modDict b) :
    annEq a b = true ∧ annEq b a = true := by
  have h1 := add_get_inverse_eq a false
  have h2 := add_get_inverse_eq b false
  have hst : strip a = strip b := by simp [strip, hs]
  rw [hst, hd] at h1
  have hab : annEq a b = true := eq_trans a _ b (by rw [eq_symm]; exact h1) h2
  exact ⟨hab, by rw [eq_symm]; exact hab⟩

/-- ... and are written as the same string, in every `include_plus` convention -/
theorem mod_dict_determines_text (plus : Plus) (a b : Annotation) (hs : a.seq = b.seq) (hd : modDict a = modDict b) :
    serialize plus a = serialize plus b := by
  have h1 := add_get_inverse_text plus a false
  have h2 := add_get_inverse_text plus b false
  have hst : strip a = strip b := by simp [strip, hs]
  rw [← h1, ← h2, hst, hd]

/-- sensitivity of the dictionary: two annotations on the same residues that are not `==` (they differ in a value, a
multiplier, a position, an interval, the charge, ...) have different modification dictionaries -/
theorem mod_dict_sensitive (a b : Annotation) (hs : a.seq = b.seq) (hne : annEq a b = false) : modDict a ≠ modDict b := by
  intro hd
  have := (mod_dict_determines_eq a b hs hd).1
  rw [hne] at this
  exact Bool.noConfusion this

example : exA.seq = exB.seq ∧ annEq exA { exA with charge := some 3 } = false ∧
    modDict exA ≠ modDict { exA with charge := some 3 } ∧
    modDict exA ≠ modDict { exA with nterm := some [⟨.str "Acetyl".toList, 2⟩] } := by decide

example : exA.internal ≠ some [] ∧ modDict exA = modDict { exA with seq := exA.seq } := by decide

/-- `add_mod_dict({})` changes nothing, in either append mode -/
theorem add_empty_dict (a : Annotation) (app : Bool) : addModDict a [] app = a := by
  simp [addModDict, onKey, intEntries]

example : addModDict exA [] true = exA ∧ addModDict exA [] false = exA ∧ modDict exA ≠ [] := by decide

end Pept.C20Ext
