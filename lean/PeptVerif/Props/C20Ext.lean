import PeptVerif.Props.C20
/-!
# C20 extension (round 5) - the modification dictionary is a faithful description of the modifications

`Props/C20.lean` proves the round trip `add_mod_dict(strip(a), mod_dict(a)) = a`. Here the converse direction of the
clause "taking the modification dictionary and adding it to the stripped sequence reproduces the original": the pair
(stripped sequence, `mod_dict()`) *determines* the annotation - two annotations with the same residues and the same
dictionary are the same annotation (field by field when neither has an empty internal dict `{}`, `==` and text-equal
without any side condition), hence every difference between two annotations on the same residues shows in their
dictionaries. Plus: adding an empty dictionary changes nothing (either append mode).
Every `theorem` below is a proof obligation.
-/
namespace Pept.C20Ext
open Pept Pept.C20

/-- same residues and same `mod_dict()` => the same annotation, field by field. Side condition as in
`add_get_inverse`: an empty internal dict `{}` is not represented in the dictionary. -/
theorem mod_dict_determines (a b : Annotation) (hs : a.seq = b.seq) (hd : modDict a = modDict b)
    (ha : a.internal ≠ some []) (hb : b.internal ≠ some []) : a = b := by
  have h1 := add_get_inverse a false ha
  have h2 := add_get_inverse b false hb
  have hst : strip a = strip b := by simp [strip, hs]
  rw [← h1, ← h2, hst, hd]

/-- without the side condition the two annotations are still `==` (in both directions) -/
theorem mod_dict_determines_eq (a b : Annotation) (hs : a.seq = b.seq) (hd : modDict a = modDict b) :
    annEq a b = true ∧ annEq b a = true := by
  have h1 := add_get_inverse_eq a false
  have h2 := add_get_inverse_eq b false
  have hst : strip a = strip b := by simp [strip, hs]
  rw [hst, hd] at h1
  have hab : annEq a b = true := eq_trans a _ b (by rw [eq_symm]; exact h1) h2
  exact ⟨hab, by rw [eq_symm]; exact hab⟩

/-- ... and are written as the same string, in every `include_plus` convention -/
theorem mod_dict_determines_text (plus : Plus) (a b : Annotation) (hs : a.seq = b.seq) (hd : modDict a = modDict b) :
    serialize plus a = serialize plus b := by
  have h1 := add_get_inverse_text plus a false
  have h2 := add_get_inverse_text plus b false
  have hst : strip a = strip b := by simp [strip, hs]
  rw [← h1, ← h2, hst, hd]

/-- sensitivity of the dictionary: two annotations on the same residues that are not `==` (they differ in a value, a
multiplier, a position, an interval, the charge, ...) have different modification dictionaries -/
theorem mod_dict_sensitive (a b : Annotation) (hs : a.seq = b.seq) (hne : annEq a b = false) : modDict a ≠ modDict b := by
  intro hd
  have := (mod_dict_determines_eq a b hs hd).1
  rw [hne] at this
  exact Bool.noConfusion this

example : exA.seq = exB.seq ∧ annEq exA { exA with charge := some 3 } = false ∧
    modDict exA ≠ modDict { exA with charge := some 3 } ∧
    modDict exA ≠ modDict { exA with nterm := some [⟨.str "Acetyl".toList, 2⟩] } := by decide

example : exA.internal ≠ some [] ∧ modDict exA = modDict { exA with seq := exA.seq } := by decide

/-- `add_mod_dict({})` changes nothing, in either append mode -/
theorem add_empty_dict (a : Annotation) (app : Bool) : addModDict a [] app = a := by
  simp [addModDict, onKey, intEntries]

example : addModDict exA [] true = exA ∧ addModDict exA [] false = exA ∧ modDict exA ≠ [] := by decide


/-! ## the method-level `pop_mods()` dictionary is not accepted back in full

`ProFormaAnnotation.pop_mods()` files the residue modifications under the string key `'internal'`, which `add_mod_dict`
does not read (it collects integer keys). Exact statement of what comes back (notes/C20.md, Observations): every named
field, the intervals and the charge are restored; the residue modifications are lost. The property's dictionary is
`mod_dict()` / `pt.get_mods` / `pt.pop_mods`, for which `add_get_inverse` holds. -/

theorem lookup_popMods (a : Annotation) :
    (popMods a).1.lookup .isotope = a.isotope.map .mods ∧ (popMods a).1.lookup .static = a.static.map .mods ∧
    (popMods a).1.lookup .labile = a.labile.map .mods ∧ (popMods a).1.lookup .unknown = a.unknown.map .mods ∧
    (popMods a).1.lookup .nterm = a.nterm.map .mods ∧ (popMods a).1.lookup .cterm = a.cterm.map .mods ∧
    (popMods a).1.lookup .intervals = a.intervals.map .ivs ∧ (popMods a).1.lookup .charge = a.charge.map .charge ∧
    (popMods a).1.lookup .adducts = a.adducts.map .mods := by
  have hnil : ∀ k : DKey, List.lookup k ([] : ModDict) = none := fun _ => rfl
  rw [show (popMods a).1 = _ ++ [] from (List.append_nil _).symm]
  simp only [popMods, List.append_assoc, lookup_optSeg_append, reduceCtorEq, if_false, if_true, hnil]
  refine ⟨?_, ?_, ?_, ?_, ?_, ?_, ?_, ?_, ?_⟩
  · cases a.isotope <;> rfl
  · cases a.static <;> rfl
  · cases a.labile <;> rfl
  · cases a.unknown <;> rfl
  · cases a.nterm <;> rfl
  · cases a.cterm <;> rfl
  · cases a.intervals <;> rfl
  · cases a.charge <;> rfl
  · cases a.adducts <;> rfl

theorem intEntries_popMods (a : Annotation) : intEntries (popMods a).1 = [] := by
  rw [show (popMods a).1 = _ ++ [] from (List.append_nil _).symm]
  simp only [popMods, List.append_assoc]
  repeat rw [intEntries_optSeg_append _ _ _ _ (by intro i h; cases h)]
  rfl

/-- `d = a.pop_mods(); a.add_mod_dict(d, append)` (the object is stripped by `pop_mods`): everything except the residue
modifications comes back, in either append mode -/
theorem pop_mods_add_back (a : Annotation) (app : Bool) :
    addModDict (popMods a).2 (popMods a).1 app = { a with internal := none } := by
  obtain ⟨h1, h2, h3, h4, h5, h6, h7, h8, h9⟩ := lookup_popMods a
  unfold addModDict
  rw [intEntries_popMods]
  have hs : (popMods a).2 = { seq := a.seq } := rfl
  simp only [hs]
  rw [onKey_mods _ _ _ h1, onKey_mods _ _ _ h2, onKey_mods _ _ _ h3, onKey_mods _ _ _ h4, onKey_mods _ _ _ h5,
    onKey_mods _ _ _ h6, onKey_mods _ _ _ h9]
  have e7 : onKey (popMods a).1 .intervals (addIvs none · app) none = a.intervals := by
    unfold onKey; rw [h7]; cases a.intervals <;> cases app <;> rfl
  have e8 : ∀ f : DVal → Option Int, (∀ c, f (.charge c) = some c) → onKey (popMods a).1 .charge f none = a.charge := by
    intro f hf; unfold onKey; rw [h8]; cases a.charge <;> simp [hf]
  rw [e7, e8 _ (fun c => rfl)]
  cases a; simp

/-- hence the method-level round trip is exact precisely when there are no residue modifications -/
theorem pop_mods_add_back_iff (a : Annotation) (app : Bool) :
    addModDict (popMods a).2 (popMods a).1 app = a ↔ a.internal = none := by
  rw [pop_mods_add_back]
  constructor
  · intro h; rw [← h]
  · intro h; cases a; simp_all

example : addModDict (popMods exA).2 (popMods exA).1 = { exA with internal := none } ∧ exA.internal ≠ none ∧
    addModDict (popMods exA).2 (popMods exA).1 ≠ exA := by decide

end Pept.C20Ext
