import PeptVerif.Model.ModDbGen
import PeptVerif.Model.ModDbFacts
/-! C10 table facts about the generated Unimod vocabulary, by kernel evaluation (re-checked whenever /repo's table changes) -/
namespace C10TabU
open ModDb

set_option maxRecDepth 100000

/-- Unimod accessions and names are pairwise distinct, and no name is another entry's accession
(n log n: kernel merge sort of the 3044 keys, then a linear strictness scan) -/
theorem unimod_keys_distinct : keysDistinct Gen.Unimod.entries = true := by decide +kernel

/-- no Unimod accession or name contains `#` or `|`, starts with `+`/`-`, or starts with a reserved prefix in any letter case -/
theorem unimod_keys_clean : Gen.Unimod.entries.all entryClean = true := by decide +kernel

/-- no Unimod name is read as a number by `convert_type` -/
theorem unimod_names_not_numeric : Gen.Unimod.entries.all nameNotNumeric = true := by decide +kernel

example : Gen.Unimod.entries.length = 1522 := by decide +kernel

end C10TabU
