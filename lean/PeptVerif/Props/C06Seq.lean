import PeptVerif.Lemmas.SpansSeqText
import PeptVerif.Generated.Proteases
/-!
# C06 — sequential digest = simultaneous digest

`seqDigestSpans` / `seqDigestText` (`Model/SeqDigest.lean`) model `digestion.sequential_digest` as coded;
`simDigestText` is the simultaneous `digest` with all rules. Property theorems only.
-/
namespace Spans

/-- C06, sequential clause at the level of spans (non-empty sequence; `sequential_eq_simultaneous` below
removes `0 < n`): a sequential digest whose stages all have zero missed
cleavages, are not semi-specific and digest completely, with rules that are local (inside a fragment they
cut exactly where they cut in the whole protein), equals the simultaneous digest with all rules — provided
neither a stage on a fragment nor the union of all rules cuts at *every* position (the shortcut of
`build_spans`, known finding KF-C06-nonspecific-shortcut). -/
theorem sequential_eq_simultaneous_pos (n : Int) (stages : List Stage) (lo hi : Option Int) (hn : 0 < n)
    (hne : stages ≠ []) (hst : ∀ st ∈ stages, LocalStage n st)
    (hunion : ((sortDedup (stages.flatMap (fun st => st.sites 0 n))).length : Int) ≠ n + 1) (x : Span) :
    x ∈ seqDigestSpans n stages lo hi ↔
      x ∈ digestSpans n (stages.flatMap (fun st => st.sites 0 n)) 0 lo hi false true := by
  cases stages with
  | nil => exact absurd rfl hne
  | cons st rest =>
    have hst0 := hst st (by simp)
    obtain ⟨hmc, hsemi, hcomp⟩ := hst0.plain
    have hU : ∀ y ∈ st.sites 0 n, 0 ≤ y ∧ y ≤ n := by
      intro y hy; have := hst0.bounds 0 n (by omega) (by omega) (by omega) y hy; omega
    have hall : ∀ y ∈ (st :: rest).flatMap (fun st => st.sites 0 n), 0 ≤ y ∧ y ≤ n := by
      intro y hy
      obtain ⟨s, hs, hy⟩ := List.mem_flatMap.mp hy
      have := (hst s hs).bounds 0 n (by omega) (by omega) (by omega) y hy; omega
    have hacc0 : ∀ x, x ∈ digestSpans n (st.sites 0 n) st.mc lo none st.semi st.complete ↔
        Cons n (st.sites 0 n) x ∧ lo.getD 1 ≤ spanLen x := by
      intro x
      rw [hmc, hsemi, hcomp, mem_digest_enz0 _ _ _ (by simpa using hst0.noShortcut 0 n (by omega) hn (by omega))]
      constructor
      · rintro ⟨h1, h2, _⟩; exact ⟨h1, h2⟩
      · rintro ⟨h1, h2⟩
        have hb := plus_bounds n _ (by omega) hU
        have := hb _ h1.1; have := hb _ h1.2.1
        exact ⟨h1, h2, by simp only [spanLen]; omega⟩
    have hout := seqFold_inv n lo (by omega) rest (fun s hs => hst s (by simp [hs])) (st.sites 0 n) hU _ hacc0
    have hrhs : x ∈ digestSpans n ((st :: rest).flatMap (fun st => st.sites 0 n)) 0 lo hi false true ↔
        Cons n ((st :: rest).flatMap (fun st => st.sites 0 n)) x ∧ lo.getD 1 ≤ spanLen x ∧
          spanLen x ≤ hi.getD n := by
      unfold digestSpans
      rw [mem_sortDedupSpans]
      simp only [if_true, List.nil_append]
      obtain ⟨s, e, v⟩ := x
      rw [mem_buildSpans_enz' n _ 0 lo hi hunion, isEnz_zero_iff]
      simp [spanLen]
    rw [hrhs]
    unfold seqDigestSpans
    simp only [List.flatMap_cons] at hout ⊢
    cases hi with
    | none =>
      simp only [hout, Option.getD_none]
      constructor
      · rintro ⟨h1, h2⟩
        have hb := plus_bounds n (st.sites 0 n ++ rest.flatMap (fun st => st.sites 0 n)) (by omega)
          (by simpa only [List.flatMap_cons] using hall)
        have := hb _ h1.1; have := hb _ h1.2.1
        exact ⟨h1, h2, by simp only [spanLen]; omega⟩
      · rintro ⟨h1, h2, _⟩; exact ⟨h1, h2⟩
    | some m =>
      simp only [List.mem_filter, hout, Option.getD_some, decide_eq_true_eq, spanLen]
      constructor
      · rintro ⟨⟨h1, h2⟩, h3⟩; exact ⟨h1, h2, h3⟩
      · rintro ⟨h1, h2, h3⟩; exact ⟨⟨h1, h2⟩, h3⟩


/-- C06, sequential clause, every sequence length (an empty sequence has no spans either way) -/
theorem sequential_eq_simultaneous (n : Int) (stages : List Stage) (lo hi : Option Int) (hn : 0 ≤ n)
    (hne : stages ≠ []) (hst : ∀ st ∈ stages, LocalStage n st)
    (hunion : ((sortDedup (stages.flatMap (fun st => st.sites 0 n))).length : Int) ≠ n + 1) (x : Span) :
    x ∈ seqDigestSpans n stages lo hi ↔
      x ∈ digestSpans n (stages.flatMap (fun st => st.sites 0 n)) 0 lo hi false true := by
  by_cases hpos : 0 < n
  · exact sequential_eq_simultaneous_pos n stages lo hi hpos hne hst hunion x
  · have h0 : n = 0 := by omega
    subst h0
    have hb : ∀ st ∈ stages, ∀ y ∈ st.sites 0 0, 0 ≤ y ∧ y ≤ 0 := by
      intro st hs y hy; have := (hst st hs).bounds 0 0 (by omega) (by omega) (by omega) y hy; omega
    constructor
    · intro hx
      exfalso
      cases stages with
      | nil => exact hne rfl
      | cons st rest =>
        obtain ⟨hmc, hsemi, hcomp⟩ := (hst st (by simp)).plain
        have hfirst : digestSpans 0 (st.sites 0 0) st.mc lo none st.semi st.complete = [] := by
          rw [hsemi, hcomp]
          exact List.eq_nil_iff_forall_not_mem.mpr
            (fun y => not_mem_digestSpans_zero _ (hb st (by simp)) _ _ _ y)
        unfold seqDigestSpans at hx
        simp only [hfirst, seqFold_nil] at hx
        cases hi <;> simp at hx
    · intro hx
      exfalso
      refine not_mem_digestSpans_zero _ ?_ _ _ _ x hx
      intro y hy
      obtain ⟨st, hs, hy⟩ := List.mem_flatMap.mp hy
      exact hb st hs y hy

/-- under the same hypotheses the sequential digest returns no span twice (in general it can: with partial
digestion the doctest of `sequential_digest` lists `XXX` twice) -/
theorem nodup_seqDigestSpans (n : Int) (stages : List Stage) (lo hi : Option Int) (hn : 0 ≤ n)
    (hst : ∀ st ∈ stages, LocalStage n st) : (seqDigestSpans n stages lo hi).Nodup := by
  have hout : (match stages with
      | [] => []
      | st :: rest =>
        rest.foldl (fun acc st => if acc.isEmpty then acc else seqStep st lo acc)
          (digestSpans n (st.sites 0 n) st.mc lo none st.semi st.complete)).Nodup := by
    cases stages with
    | nil => simp
    | cons st rest =>
      simp only
      have hst0 := hst st (by simp)
      obtain ⟨hmc, hsemi, hcomp⟩ := hst0.plain
      have hU : ∀ y ∈ st.sites 0 n, 0 ≤ y ∧ y ≤ n := by
        intro y hy; have := hst0.bounds 0 n (by omega) (by omega) (by omega) y hy; omega
      by_cases hpos : 0 < n
      · have hacc0 : ∀ x, x ∈ digestSpans n (st.sites 0 n) st.mc lo none st.semi st.complete ↔
            Cons n (st.sites 0 n) x ∧ lo.getD 1 ≤ spanLen x := by
          intro x
          rw [hmc, hsemi, hcomp,
            mem_digest_enz0 _ _ _ (by simpa using hst0.noShortcut 0 n (by omega) hpos (by omega))]
          constructor
          · rintro ⟨h1, h2, _⟩; exact ⟨h1, h2⟩
          · rintro ⟨h1, h2⟩
            have hb := plus_bounds n _ (by omega) hU
            have := hb _ h1.1; have := hb _ h1.2.1
            exact ⟨h1, h2, by simp only [spanLen]; omega⟩
        exact nodup_seqFold n lo hn rest (fun s hs => hst s (by simp [hs])) (st.sites 0 n) hU _ hacc0
          (nodup_of_pairwise_spanLT (pairwise_sortDedupSpans _))
      · have h0 : n = 0 := by omega
        subst h0
        have hfirst : digestSpans 0 (st.sites 0 0) st.mc lo none st.semi st.complete = [] := by
          rw [hsemi, hcomp]
          exact List.eq_nil_iff_forall_not_mem.mpr (fun y => not_mem_digestSpans_zero _ hU _ _ _ y)
        rw [hfirst, seqFold_nil]; simp
  unfold seqDigestSpans
  cases hi with
  | none => exact hout
  | some m => exact List.Nodup.sublist List.filter_sublist hout

/-! ## the same at the level of text and regular expressions -/

open RegexLite

/-- C06, sequential clause as the code computes it — sites recomputed by the regular expressions on the text of
every piece. For every text, every list of configs with zero missed cleavages, non-semi, complete digestion
whose rules are local rules (`localRule`: look-around only — every named protease — or one consumed residue
followed by look-around, the two documented styles of user rules), and every
`min_len`/`max_len`: if no piece is cut at every position by one config alone (`StageShortcutFree`, decidable)
and the union of all rules does not cut the text at every position (`UnionShortcutFree`, decidable; its
negation is the pattern of known finding KF-C06-nonspecific-shortcut), then `sequential_digest` and the
simultaneous `digest` return the same set of spans. `min_len` is applied at every stage: a piece shorter than
`min_len` is dropped early, which is harmless because its sub-pieces are shorter still — the statement needs no
exception for it. -/
theorem sequential_eq_simultaneous_text (text : List Char) (configs : List EnzymeConfig) (lo hi : Option Int)
    (hne : configs ≠ [])
    (hplain : ∀ c ∈ configs, c.mc = 0 ∧ c.semi = false ∧ c.complete = true)
    (hzw : ∀ c ∈ configs, ∀ p ∈ c.regex, localRule p = true)
    (hstage : ∀ c ∈ configs, StageShortcutFree text c)
    (hunion : UnionShortcutFree text (configs.flatMap (fun c => c.regex))) (x : Span) :
    x ∈ seqDigestText text configs lo hi ↔
      x ∈ simDigestText text (configs.flatMap (fun c => c.regex)) lo hi := by
  have hsites : (configs.map (EnzymeConfig.toStage text)).flatMap (fun st => st.sites 0 ((text.length : Nat) : Int)) =
      ruleSites (configs.flatMap (fun c => c.regex)) text := by
    rw [ruleSites_flatMap, List.flatMap_map]
    congr 1
    funext c
    simp only [EnzymeConfig.toStage]
    rw [pieceText_full]
  unfold seqDigestText simDigestText
  rw [← hsites]
  apply sequential_eq_simultaneous _ _ lo hi (by omega) (by simpa using hne)
  · intro st hs
    obtain ⟨c, hc, rfl⟩ := List.mem_map.mp hs
    exact localStage_toStage text c (hplain c hc) (hzw c hc) (hstage c hc)
  · rw [hsites]; exact hunion

/-- … and then the sequential digest has no duplicate either -/
theorem nodup_seqDigestText (text : List Char) (configs : List EnzymeConfig) (lo hi : Option Int)
    (hplain : ∀ c ∈ configs, c.mc = 0 ∧ c.semi = false ∧ c.complete = true)
    (hzw : ∀ c ∈ configs, ∀ p ∈ c.regex, localRule p = true)
    (hstage : ∀ c ∈ configs, StageShortcutFree text c) :
    (seqDigestText text configs lo hi).Nodup := by
  unfold seqDigestText
  apply nodup_seqDigestSpans _ _ lo hi (by omega)
  intro st hs
  obtain ⟨c, hc, rfl⟩ := List.mem_map.mp hs
  exact localStage_toStage text c (hplain c hc) (hzw c hc) (hstage c hc)

/-- a config all of whose rules look behind, or all of whose rules look ahead positively, can never hit the
shortcut on a piece: such rules never cut at the start (resp. the end) of a text -/
theorem stageShortcutFree_of_lookaround (text : List Char) (c : EnzymeConfig)
    (hzw : ∀ p ∈ c.regex, localRule p = true)
    (hsafe : (∀ p ∈ c.regex, startSafe p = true) ∨ (∀ p ∈ c.regex, endSafe p = true)) :
    StageShortcutFree text c :=
  stageShortcutFree_of_safe text c hzw hsafe

/-- every rule of the generated protease table is a local rule, and every one except `non-specific` never cuts
at the start or never cuts at the end of a text: used alone in a stage it satisfies `StageShortcutFree` on
every text, so for named proteases, one per stage, the only remaining hypothesis is `UnionShortcutFree` -/
theorem named_rules_local :
    ∀ e ∈ Gen.proteases, ∃ p, e.2 = some p ∧ localRule p = true ∧
      (e.1 ≠ "non-specific".toList → startSafe p = true ∨ endSafe p = true) := by
  decide +kernel

/-- a local rule cuts at `x` iff `cutsAt` holds for the two residues adjacent to `x` (locality), for every
local rule and every text -/
theorem local_rule_semantics (p : Pattern) (h : localRule p = true) (s : List Char) (x : Nat) :
    x ∈ sites p s ↔ x ≤ s.length ∧ cutsAt p (if x = 0 then none else s[x - 1]?) s[x]? = true :=
  mem_sites_local p h s x

/-- non-vacuity: the doctest `sequential_digest('XXXKXXXDXXX', [([KR]) then ([D])])` in look-behind form, all
hypotheses of `sequential_eq_simultaneous_text` included -/
example :
    let text := "XXXKXXXDXXX".toList
    let cfgs : List EnzymeConfig := [⟨[[.consume ['K', 'R']]], 0, false, true⟩, ⟨[[.behind ['D']]], 0, false, true⟩]
    (∀ c ∈ cfgs, ∀ p ∈ c.regex, localRule p = true) ∧
    seqDigestText text cfgs none none = [(0, 4, 0), (4, 8, 0), (8, 11, 0)] ∧
      simDigestText text (cfgs.flatMap (fun c => c.regex)) none none = [(0, 4, 0), (4, 8, 0), (8, 11, 0)] ∧
      (∀ c ∈ cfgs, StageShortcutFree text c) ∧ UnionShortcutFree text (cfgs.flatMap (fun c => c.regex)) := by
  decide

/-- the known finding in Lean: on `K`, lys-c then lys-n, the union cuts everywhere, the simultaneous digest
(shortcut) returns nothing while the sequential one returns the whole `K` -/
theorem sequential_ne_simultaneous_when_union_cuts_everywhere :
    let text := "K".toList
    let cfgs : List EnzymeConfig := [⟨[[.behind ['K']]], 0, false, true⟩, ⟨[[.ahead ['K']]], 0, false, true⟩]
    ¬ UnionShortcutFree text (cfgs.flatMap (fun c => c.regex)) ∧
      seqDigestText text cfgs none none = [(0, 1, 0)] ∧
      simDigestText text (cfgs.flatMap (fun c => c.regex)) none none = [] := by
  decide

end Spans
