import PeptVerif.Lemmas.C09Dispatch
/-!
# C09 extension — the deferred-validation clause inside Lean: which fields reach the resolver, and what then happens

Setting: the model of `mass_calc.mass` of property C02 (`Model/Mass.lean`, fast path = no isotope label in force), in which
the modification resolver is a PARAMETER (`env.res v` = what `mod_mass(v, mono)` returns or raises; the resolver itself
is property C10) and `env.parseStatic` is what `parse_static_mods` returns or raises.  `Dispatch.reachedPlaced` /
`Dispatch.reachedStatic` (Model/C09Dispatch.lean) list the fields `mass` hands to the resolver, in call order; the
harness compares exactly these lists with the recorded `mod_mass` calls of the real `mass`.

The theorems hold for EVERY annotation, EVERY resolver, every ion type / mass mode / charge: the accept/reject decision
of `mass` is "every reached field resolves" — an unresolvable reached field always raises (its own error: never a silent
number), and the error raised is always the error of a reached field (or of one of the other named stages).
-/
namespace Pept
namespace Dispatch
open Chem Mass

/-- **Placed modifications: accept iff every reached field resolves.** For every annotation, resolver, mass mode and ion
type, the block of `mass` that adds the placed modifications returns a number iff `mod_mass` succeeds on every field of
`reachedPlaced` (labile only for the precursor ion type). -/
theorem placedMods_ok_iff (env : Env) (mono : Bool) (a : Annotation) (ion : Key) :
    (∃ v, placedModsMass env mono a ion = .ok v) ↔ AllResolve env mono (reachedPlaced (ion == ionP) a) := by
  unfold reachedPlaced
  rw [labile_if]
  simp only [allResolve_append]
  rw [← labileMass_ok_iff, ← sumOptMods_ok_iff, ← sumOptMods_ok_iff, ← intervalsMass_ok_iff, ← internalMass_ok_iff,
    ← sumOptMods_ok_iff]
  unfold placedModsMass
  generalize labileMass env mono a ion = A
  generalize sumOptMods env mono a.unknown = B
  generalize sumOptMods env mono a.nterm = C
  generalize intervalsMass env mono a.intervals = D
  generalize internalMass env mono a.internal = E
  generalize sumOptMods env mono a.cterm = F
  cases A <;> cases B <;> cases C <;> cases D <;> cases E <;> cases F <;> simp [bind, Except.bind, pure, Except.pure]

/-- **Never another error.** Whatever the placed-modification block raises is exactly what the resolver raised on a
reached field: if the resolver raises only ValueError-family errors, so does this block. -/
theorem placedMods_error_is_reached_error (env : Env) (mono : Bool) (a : Annotation) (ion : Key) (e : Err)
    (h : placedModsMass env mono a ion = .error e) :
    ∃ m ∈ reachedPlaced (ion == ionP) a, resolve env mono m.val = .error e := by
  have key : labileMass env mono a ion = .error e ∨ sumOptMods env mono a.unknown = .error e ∨
      sumOptMods env mono a.nterm = .error e ∨ intervalsMass env mono a.intervals = .error e ∨
      internalMass env mono a.internal = .error e ∨ sumOptMods env mono a.cterm = .error e := by
    unfold placedModsMass at h
    revert h
    generalize labileMass env mono a ion = A
    generalize sumOptMods env mono a.unknown = B
    generalize sumOptMods env mono a.nterm = C
    generalize intervalsMass env mono a.intervals = D
    generalize internalMass env mono a.internal = E
    generalize sumOptMods env mono a.cterm = F
    cases A <;> cases B <;> cases C <;> cases D <;> cases E <;> cases F <;>
      simp [bind, Except.bind, pure, Except.pure] <;> (intro h; simp [h])
  unfold reachedPlaced
  rw [labile_if]
  rcases key with h | h | h | h | h | h
  · obtain ⟨m, hm, hr⟩ := labileMass_error _ _ _ _ _ h; exact ⟨m, by simp [hm], hr⟩
  · obtain ⟨m, hm, hr⟩ := sumOptMods_error _ _ _ _ h; exact ⟨m, by simp [hm], hr⟩
  · obtain ⟨m, hm, hr⟩ := sumOptMods_error _ _ _ _ h; exact ⟨m, by simp [hm], hr⟩
  · obtain ⟨m, hm, hr⟩ := intervalsMass_error _ _ _ _ h; exact ⟨m, by simp [hm], hr⟩
  · obtain ⟨m, hm, hr⟩ := internalMass_error _ _ _ _ h; exact ⟨m, by simp [hm], hr⟩
  · obtain ⟨m, hm, hr⟩ := sumOptMods_error _ _ _ _ h; exact ⟨m, by simp [hm], hr⟩

/-- **Never a silent number (placed modifications).** If ANY reached field is unresolvable, the fast path of `mass` raises
— for every annotation, every other field, every charge / ion type / adduct / precision. -/
theorem fastMass_unresolvable_placed_raises (env : Env) (a : Annotation) (o : Opts) (r : Resolved) (m : Mod) (e : Err)
    (hm : m ∈ reachedPlaced (o.ion == ionP) a) (hr : resolve env o.mono m.val = .error e) :
    ∃ e', fastMass env a o r = .error e' := by
  have hno : ¬ ∃ v, placedModsMass env o.mono a o.ion = .ok v := by
    rw [placedMods_ok_iff]
    intro hall
    obtain ⟨v, hv⟩ := hall m hm
    rw [hr] at hv; cases hv
  unfold fastMass
  cases staticMass env o.mono a.seq a.static with
  | error e1 => exact ⟨e1, rfl⟩
  | ok s =>
    cases residueMass o.mono a.seq with
    | error e2 => exact ⟨e2, rfl⟩
    | ok rs =>
      cases hp : placedModsMass env o.mono a o.ion with
      | error e3 => exact ⟨e3, rfl⟩
      | ok v => exact absurd ⟨v, hp⟩ hno


/-- the unresolvable labile `{Foo}` is reached for the precursor ion type … -/
example : reachedPlaced true exLabileBad = [exFoo, exNum, exNum, exNum] := by decide
/-- … and NOT reached for a fragment ion type (labile modifications are not part of fragment ions) -/
example : reachedPlaced false exLabileBad = [exNum, exNum, exNum] := by decide
example : ∃ e', fastMass exEnv exLabileBad {} ⟨none, none, none⟩ = .error e' :=
  fastMass_unresolvable_placed_raises exEnv exLabileBad {} _ exFoo .valueError (by decide) exEnv_foo
example : AllResolve exEnv true (reachedPlaced false exLabileBad) := by
  intro m hm
  have : m = exNum := by revert hm; simp [reachedPlaced, optMods, intervalMods, internalMods, exLabileBad]
  subst this; exact ⟨16, exEnv_num⟩

/-- **Static rules: accept iff every rule modification resolves** — the `N-Term` entry, the `C-Term` entry and every other
entry of the dict `parse_static_mods` returned, whether or not its target occurs in the sequence. -/
theorem staticMap_ok_iff (env : Env) (mono : Bool) (seq : List Char) (map : List (List Char × List Mod)) :
    (∃ v, staticMapMass env mono seq map = .ok v) ↔ AllResolve env mono (reachedStatic map) := by
  unfold reachedStatic
  simp only [allResolve_append]
  have hn : Dispatch.nTerm = Mass.nTerm := rfl
  have hc : Dispatch.cTerm = Mass.cTerm := rfl
  rw [hn, hc, ← lookupMods_ok_iff, ← lookupMods_ok_iff, ← rules_ok_iff env mono seq]
  unfold staticMapMass
  generalize lookupMods env mono map Mass.nTerm = A
  generalize lookupMods env mono map Mass.cTerm = B
  generalize sumM (ruleMass env mono seq) map = C
  cases A <;> cases B <;> cases C <;> simp [bind, Except.bind, pure, Except.pure]

/-- whatever the static-rule block raises is what the resolver raised on a reached rule modification -/
theorem staticMap_error_is_reached_error (env : Env) (mono : Bool) (seq : List Char)
    (map : List (List Char × List Mod)) (e : Err) (h : staticMapMass env mono seq map = .error e) :
    ∃ m ∈ reachedStatic map, resolve env mono m.val = .error e := by
  have key : lookupMods env mono map Mass.nTerm = .error e ∨ lookupMods env mono map Mass.cTerm = .error e ∨
      sumM (ruleMass env mono seq) map = .error e := by
    unfold staticMapMass at h
    revert h
    generalize lookupMods env mono map Mass.nTerm = A
    generalize lookupMods env mono map Mass.cTerm = B
    generalize sumM (ruleMass env mono seq) map = C
    cases A <;> cases B <;> cases C <;> simp [bind, Except.bind, pure, Except.pure] <;> (intro h; simp [h])
  unfold reachedStatic
  have hn : Dispatch.nTerm = Mass.nTerm := rfl
  have hc : Dispatch.cTerm = Mass.cTerm := rfl
  rw [hn, hc]
  rcases key with h | h | h
  · obtain ⟨m, hm, hr⟩ := lookupMods_error _ _ _ _ _ h; exact ⟨m, by simp [hm], hr⟩
  · obtain ⟨m, hm, hr⟩ := lookupMods_error _ _ _ _ _ h; exact ⟨m, by simp [hm], hr⟩
  · obtain ⟨m, hm, hr⟩ := rules_error _ _ _ _ _ h; exact ⟨m, by simp [hm], hr⟩

example : reachedStatic [(['M'], [exNum]), (Dispatch.nTerm, [exFoo])] = [exFoo, exNum] := by decide

/-- **Never a silent number (static rules).** If the rule dict contains an unresolvable modification — even for a target
that does not occur in the sequence — the fast path of `mass` raises. -/
theorem fastMass_unresolvable_static_raises (env : Env) (a : Annotation) (o : Opts) (r : Resolved) (st : List Mod)
    (map : List (List Char × List Mod)) (m : Mod) (e : Err) (hst : a.static = some st)
    (hmap : env.parseStatic st = .ok map) (hm : m ∈ reachedStatic map) (hr : resolve env o.mono m.val = .error e) :
    ∃ e', fastMass env a o r = .error e' := by
  have hno : ¬ ∃ v, staticMapMass env o.mono a.seq map = .ok v := by
    rw [staticMap_ok_iff]
    intro hall
    obtain ⟨v, hv⟩ := hall m hm
    rw [hr] at hv; cases hv
  unfold fastMass staticMass
  rw [hst]
  simp only [hmap, bind, Except.bind]
  cases hs : staticMapMass env o.mono a.seq map with
  | error e1 => exact ⟨e1, rfl⟩
  | ok v => exact absurd ⟨v, hs⟩ hno

example : ∃ e', fastMass exEnv { seq := "PEPTIDE".toList, static := some [] } {} ⟨none, none, none⟩ = .error e' :=
  fastMass_unresolvable_static_raises exEnv _ {} _ [] _ exFoo .valueError rfl rfl (by decide) exEnv_foo

/-- **Every reached field resolves ⇒ a number.** If the static rules parse, every reached static and placed modification
resolves, every residue has a mass, and the charge-carrier stage (`adjust_mass`: ion type, adduct text) accepts its
arguments, then the fast path of `mass` returns a number — for every annotation. -/
theorem fastMass_ok_of_all_resolve (env : Env) (a : Annotation) (o : Opts) (r : Resolved)
    (hstatic : ∀ st, a.static = some st → ∃ map, env.parseStatic st = .ok map ∧ AllResolve env o.mono (reachedStatic map))
    (hres : ∃ v, residueMass o.mono a.seq = .ok v)
    (hplaced : AllResolve env o.mono (reachedPlaced (o.ion == ionP) a))
    (hadj : ∀ b, ∃ v, adjustMass b r.charge o.ion o.mono o.isotope o.loss r.adducts o.precision = .ok v) :
    ∃ v, fastMass env a o r = .ok v := by
  obtain ⟨rs, hrs⟩ := hres
  obtain ⟨pm, hpm⟩ := (placedMods_ok_iff env o.mono a o.ion).2 hplaced
  have hs : ∃ s, staticMass env o.mono a.seq a.static = .ok s := by
    unfold staticMass
    cases hst : a.static with
    | none => exact ⟨0, rfl⟩
    | some st =>
      obtain ⟨map, hmap, hall⟩ := hstatic st hst
      obtain ⟨v, hv⟩ := (staticMap_ok_iff env o.mono a.seq map).2 hall
      exact ⟨v, by simp [hmap, hv, bind, Except.bind]⟩
  obtain ⟨s, hs⟩ := hs
  obtain ⟨v, hv⟩ := hadj (s + rs + pm)
  exact ⟨v, by simp [fastMass, hs, hrs, hpm, hv, bind, Except.bind]⟩

/-- **The complete accept/reject decision of the fast path.** Every error of `mass` (no isotope label in force) is: what
`parse_static_mods` raised, what the resolver raised on a reached static or placed modification, the unknown-residue
error, or what the charge-carrier stage `adjust_mass` raised. Nothing else can come out. -/
theorem fastMass_error_cases (env : Env) (a : Annotation) (o : Opts) (r : Resolved) (e : Err)
    (h : fastMass env a o r = .error e) :
    (∃ st, a.static = some st ∧ env.parseStatic st = .error e) ∨
    (∃ st map, a.static = some st ∧ env.parseStatic st = .ok map ∧
        ∃ m ∈ reachedStatic map, resolve env o.mono m.val = .error e) ∨
    residueMass o.mono a.seq = .error e ∨
    (∃ m ∈ reachedPlaced (o.ion == ionP) a, resolve env o.mono m.val = .error e) ∨
    (∃ b, adjustMass b r.charge o.ion o.mono o.isotope o.loss r.adducts o.precision = .error e) := by
  unfold fastMass at h
  cases hs : staticMass env o.mono a.seq a.static with
  | error e1 =>
    simp [hs, bind, Except.bind] at h; subst h
    unfold staticMass at hs
    cases hst : a.static with
    | none => simp [hst, pure, Except.pure] at hs
    | some st =>
      rw [hst] at hs
      cases hmap : env.parseStatic st with
      | error e2 =>
        simp [hmap, bind, Except.bind] at hs; subst hs
        exact Or.inl ⟨st, rfl, hmap⟩
      | ok map =>
        simp [hmap, bind, Except.bind] at hs
        exact Or.inr (Or.inl ⟨st, map, rfl, hmap, staticMap_error_is_reached_error _ _ _ _ _ hs⟩)
  | ok s =>
    cases hrs : residueMass o.mono a.seq with
    | error e2 =>
      simp [hs, hrs, bind, Except.bind] at h; subst h
      exact Or.inr (Or.inr (Or.inl rfl))
    | ok rs =>
      cases hp : placedModsMass env o.mono a o.ion with
      | error e3 =>
        simp [hs, hrs, hp, bind, Except.bind] at h; subst h
        exact Or.inr (Or.inr (Or.inr (Or.inl (placedMods_error_is_reached_error _ _ _ _ _ hp))))
      | ok pm =>
        simp [hs, hrs, hp, bind, Except.bind] at h
        exact Or.inr (Or.inr (Or.inr (Or.inr ⟨_, h⟩)))

end Dispatch
end Pept
