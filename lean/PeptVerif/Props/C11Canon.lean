import PeptVerif.Lemmas.ReorderCanon
import PeptVerif.Props.C01
/-!
# C11 — the re-parse clause as theorems (uses C01's `canon` / `parse_serialize`, imported read-only)

`canon a` (Spec/ProForma.lean) is the decidable predicate "a is an object the grammar denotes"; `parse_serialize` (Props/C01)
says such an object is the parse of its own string, for both `include_plus` settings.

Where `canon` does not fit the editors literally, and what is proved instead:
* `canon` fixes the *list order* of the residue-modification dict (keys increasing, as the parser inserts them) and forbids
  the empty dict `{}`. `slice` can return `{}`; `reverse` / `shift` / `shuffle` / `sort_residues` return the entries in the
  old insertion order. Neither is observable (the serializer and `==` look entries up by key and treat `{}` like `None`).
  The theorems therefore speak about `normalize x` (`{}` ↦ `None`, entries in key order): `canon (normalize (op a))`,
  `serialize (normalize x) = serialize x`, `annEq (normalize x) x` (the library's `==`, Model/AnnotEq.lean).
  For `slice` the dict stays in key order, so `normalize` only removes `{}` (`slice_reparse_exact`).
* intervals: `slice` needs "no cut strictly inside an interval" (`CutsOK`), `shift` needs `NoWrap`; `reverse` and `shift`
  return the interval list in sequence order only since fixes 2f3e2c2 / d7e4e20 (before them the strings did not parse).
-/
namespace Pept.Reorder.C11
open Pept

/-- the generic step: if the normal form of `x` is canonical, the string of `x` parses to that normal form, which the
library's `==` identifies with `x` -/
theorem reparse_of_canon_normalize (plus : Plus) (x : Annotation) (h : canon (normalize x) = true) :
    parse true (serialize plus x) = .ok (.single (normalize x)) ∧ annEq (normalize x) x = true := by
  have hnd := nodup_of_canon_normalize x h
  refine ⟨?_, annEq_normalize x hnd⟩
  rw [← serialize_normalize plus x hnd]
  exact parse_serialize plus _ h

/-- a non-empty slice whose ends do not fall strictly inside an interval is canonical -/
theorem slice_canon (a : Annotation) (s e : Nat) (hs : s < e) (he : e ≤ a.seq.length) (hca : canon a = true)
    (hc : CutsOK a.intervals a.seq.length [s, e]) : canon (normalize (slice a (s : Int) (e : Int))) = true :=
  slice_canon' a s e hs he hca hc

/-- **re-parse clause for non-empty slices**: the string of the slice parses (both `include_plus` settings, any mixed
spelling) to the slice — literally to its normal form, which `==` identifies with it -/
theorem slice_reparse (plus : Plus) (a : Annotation) (s e : Nat) (hs : s < e) (he : e ≤ a.seq.length)
    (hca : canon a = true) (hc : CutsOK a.intervals a.seq.length [s, e]) :
    parse true (serialize plus (slice a (s : Int) (e : Int))) = .ok (.single (normalize (slice a (s : Int) (e : Int)))) ∧
    annEq (normalize (slice a (s : Int) (e : Int))) (slice a (s : Int) (e : Int)) = true :=
  reparse_of_canon_normalize plus _ (slice_canon a s e hs he hca hc)

/-- when the slice keeps at least one residue modification (or the parent has none) the parse is the slice itself -/
theorem slice_reparse_exact (plus : Plus) (a : Annotation) (s e : Nat) (hs : s < e) (he : e ≤ a.seq.length)
    (hca : canon a = true) (hc : CutsOK a.intervals a.seq.length [s, e])
    (hne : (slice a (s : Int) (e : Int)).internal ≠ some []) :
    parse true (serialize plus (slice a (s : Int) (e : Int))) = .ok (.single (slice a (s : Int) (e : Int))) := by
  have h := (slice_reparse plus a s e hs he hca hc).1
  have hn : normalize (slice a (s : Int) (e : Int)) = slice a (s : Int) (e : Int) := by
    apply normalize_of_sorted
    intro l hl
    refine ⟨?_, fun h0 => hne (by rw [hl, h0]), ?_⟩
    · rw [slice_eq_general] at hl
      simp only [sliceGeneral] at hl
      cases hd : a.internal with
      | none => rw [hd] at hl; cases hl
      | some d =>
        rw [hd] at hl
        simp only [Option.map_some, Option.some.injEq] at hl
        subst hl
        have c8 := ((canon_iff a).1 hca).2.2.2.2.2.2.2.1
        rw [hd] at c8
        obtain ⟨_, hstrict, _⟩ := canonInternal_some _ d c8
        refine List.Pairwise.filterMap _ ?_ hstrict
        intro p q hpq p' hp' q' hq'
        unfold sliceEntry at hp' hq'
        split at hp' <;> split at hq'
        · cases hp'; cases hq'; simp only; omega
        · cases hq'
        · cases hp'
        · cases hp'
    · intro p hp
      rw [slice_eq_general] at hl
      simp only [sliceGeneral] at hl
      cases hd : a.internal with
      | none => rw [hd] at hl; cases hl
      | some d =>
        rw [hd] at hl
        simp only [Option.map_some, Option.some.injEq] at hl
        subst hl
        obtain ⟨q, _, hq⟩ := List.mem_filterMap.1 hp
        unfold sliceEntry at hq
        split at hq
        · cases hq; simp only; omega
        · cases hq
  rw [hn] at h
  exact h

/-- reversal (with or without swapping the termini) of a canonical annotation re-parses -/
theorem reverse_canon (a : Annotation) (sw : Bool) (hca : canon a = true) : canon (normalize (reverse a sw)) = true :=
  reverse_canon' a sw hca

theorem reverse_reparse (plus : Plus) (a : Annotation) (sw : Bool) (hca : canon a = true) :
    parse true (serialize plus (reverse a sw)) = .ok (.single (normalize (reverse a sw))) ∧
    annEq (normalize (reverse a sw)) (reverse a sw) = true :=
  reparse_of_canon_normalize plus _ (reverse_canon a sw hca)

/-- a shifted canonical annotation re-parses when no interval wraps around -/
theorem shift_canon (a : Annotation) (k : Int) (hca : canon a = true) (hnw : NoWrap a k) :
    ∃ b, shift a k = .ok b ∧ canon (normalize b) = true :=
  shift_canon' a k hca hnw

theorem shift_reparse (plus : Plus) (a : Annotation) (k : Int) (hca : canon a = true) (hnw : NoWrap a k) :
    ∃ b, shift a k = .ok b ∧ parse true (serialize plus b) = .ok (.single (normalize b)) ∧
      annEq (normalize b) b = true := by
  obtain ⟨b, hb, hc⟩ := shift_canon a k hca hnw
  exact ⟨b, hb, reparse_of_canon_normalize plus b hc⟩

/-- a shuffled canonical annotation re-parses (its intervals are untouched and stay well-formed) -/
theorem shuffle_reparse (plus : Plus) (a : Annotation) (perm : List Nat) (hca : canon a = true)
    (hp : perm.Perm (List.range a.seq.length)) :
    ∃ b, shuffle a perm = .ok b ∧ canon (normalize b) = true ∧
      parse true (serialize plus b) = .ok (.single (normalize b)) ∧ annEq (normalize b) b = true := by
  have hk := keysOK_of_canon a hca
  obtain ⟨b, hb, hseq, hint, g1, g2, g3, g4, g5, g6, g7, g8, g9⟩ :=
    permuteWith_fields a perm (perm.filterMap (a.seq[·]?)) hp hk
  have hne : a.seq.isEmpty = false := ((canon_iff a).1 hca).1
  have hperm : b.seq.Perm a.seq := by rw [hseq]; exact filterMap_getElem?_perm a.seq perm hp
  have hc := permuted_canon a b perm hca hp hperm hint g1 g2 g3 g4 g5 g6 g7 g8 g9
  exact ⟨b, by simp [shuffle, hne, hb], hc, reparse_of_canon_normalize plus b hc⟩

/-- a sorted canonical annotation re-parses -/
theorem sort_reparse (plus : Plus) (a : Annotation) (hca : canon a = true) :
    ∃ b, sortResidues a = .ok b ∧ canon (normalize b) = true ∧
      parse true (serialize plus b) = .ok (.single (normalize b)) ∧ annEq (normalize b) b = true := by
  have hk := keysOK_of_canon a hca
  have hp := sortOrder_perm a.seq
  obtain ⟨b, hb, hseq, hint, g1, g2, g3, g4, g5, g6, g7, g8, g9⟩ :=
    permuteWith_fields a (sortOrder a.seq) (sortBy (fun (c : Char) => c.toNat) a.seq) hp hk
  have hperm : b.seq.Perm a.seq := by rw [hseq]; exact sortBy_perm _ _
  have hc := permuted_canon a b _ hca hp hperm hint g1 g2 g3 g4 g5 g6 g7 g8 g9
  exact ⟨b, hb, hc, reparse_of_canon_normalize plus b hc⟩

/-- the pieces of `split` are one-residue slices (up to their labile mods): piece `i` re-parses when position `i` and `i+1`
are not strictly inside an interval -/
theorem split_piece_reparse (plus : Plus) (a : Annotation) (i : Nat) (hi : i < a.seq.length) (hca : canon a = true)
    (hc : CutsOK a.intervals a.seq.length [i, i + 1]) :
    parse true (serialize plus (slice a (i : Int) ((i + 1 : Nat) : Int))) =
      .ok (.single (normalize (slice a (i : Int) ((i + 1 : Nat) : Int)))) :=
  (slice_reparse plus a i (i + 1) (by omega) (by omega) hca hc).1

/-! ## non-vacuity -/

/-- `[Ac]-P[Ph]E(PT)[1]ID(E)[+16]^2-[Am]`-like: termini, two residue mods, two intervals -/
def cdemo : Annotation :=
  { seq := "PEPTIDE".toList,
    nterm := some [⟨.str "Acetyl".toList, 1⟩], cterm := some [⟨.str "Amidated".toList, 1⟩],
    internal := some [(0, [⟨.str "Phospho".toList, 1⟩]), (3, [⟨.int 16, 2⟩])],
    intervals := some [⟨1, 3, false, some [⟨.int 1, 1⟩]⟩, ⟨3, 5, true, none⟩] }

example : canon cdemo = true := by decide +kernel
example : CutsOK cdemo.intervals cdemo.seq.length [1, 5] := by
  intro L hL
  have : L = [⟨1, 3, false, some [⟨.int 1, 1⟩]⟩, ⟨3, 5, true, none⟩] := by simp [cdemo] at hL; exact hL.symm
  subst this
  decide
example : serialize (constPlus false) (slice cdemo 1 5) = "(EP)[1](?T[16]^2I)".toList := by decide +kernel
example : serialize (constPlus false) (reverse cdemo true) = "[Amidated]-ED(?IT[16]^2)(PE)[1]P[Phospho]-[Acetyl]".toList := by
  decide +kernel
example : (shift cdemo 3).toOption.map (serialize (constPlus false)) =
    some "[Acetyl]-(?T[16]^2I)DEP[Phospho](EP)[1]-[Amidated]".toList := by decide +kernel

end Pept.Reorder.C11
