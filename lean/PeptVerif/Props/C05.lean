import PeptVerif.Props.C02
/-!
C05 — fragment ion series obey the chemistry of peptide backbone cleavage.  Property theorems only.

All relations are exact identities over ℚ between values of the executable model of `mass(ion_type=…)` (tied to
`fragment()` by correspondence: every fragment's mass is re-computed by the model from the fragment's own sequence).
`h⁺ := m(H) − mₑ` in the mode's hydrogen mass is the carrier of the first charge that the ion tables encode
(`particles_ok` of C02: |PROTON_MASS − h⁺| ≤ 2·10⁻⁸ in monoisotopic mode); every further charge adds `PROTON_MASS`.
-/
namespace Pept.C05
open Pept Pept.Chem Pept.Mass Pept.Spec

/-- every entry of the library's +1 ion table (`MONOISOTOPIC_ION_ADJUSTMENTS` / `AVERAGE_ION_ADJUSTMENTS`, recomputed
from the generated compositions) is the backbone-chemistry offset built from CO, NH3, H2, H2O and h⁺ = H − e:
a = b − CO, c = b + NH3, x = y + CO − H2, z = y − NH3, immonium = −CO, internal = pair of terminal offsets -/
theorem ion_offsets_ok :
    [true, false].all (fun mono => ionAdj.all (fun p =>
      match ionOffset lib mono p.1 with
      | some v => decide (constMass mono p.2 = v)
      | none => false)) = true := by decide +kernel

/-- what `adjust_mass` adds for a singly charged fragment (neutral adjustment + ion adjustment) is the same offset,
for each of the 18 ion types and both modes -/
theorem adjust_tables_ok :
    [true, false].all (fun mono => Gen.ionComp.all (fun p =>
      match fragmentAdjMass mono p.1, fragmentIonAdjMass mono p.1, ionOffset lib mono p.1 with
      | some a, some b, some v => decide (a + b = v)
      | _, _, _ => false)) = true := by decide +kernel

local notation "tR" => Pept.C02.residue_table_ok
local notation "tA" => Pept.C02.adjust_tables_ok

/-- **a = b − CO, c = b + NH3** for the same peptide, charge, isotope offset and loss -/
theorem forward_series_offsets (env : Env) (a : Annotation) (mono : Bool) (hd : fragDomain env a mono)
    (z iso : Int) (loss : Rat) :
    ∃ mb, mass env a (ionQuery (k "b") z mono iso loss) = .ok mb ∧
      mass env a (ionQuery (k "a") z mono iso loss) = .ok (mb - lib.compMass mono fCO) ∧
      mass env a (ionQuery (k "c") z mono iso loss) = .ok (mb + lib.compMass mono fNH3) := by
  obtain ⟨oa, ob, oc, _, _, _, _⟩ := offsets mono
  refine ⟨_, fragMass tR tA env a mono hd (k "b") (by decide) (by decide) 0 ob z iso loss, ?_, ?_⟩
  · rw [fragMass tR tA env a mono hd (k "a") (by decide) (by decide) _ oa z iso loss]
    apply congrArg Except.ok; ring
  · rw [fragMass tR tA env a mono hd (k "c") (by decide) (by decide) _ oc z iso loss]
    apply congrArg Except.ok; ring

/-- **x = y + CO − H2, z = y − NH3** -/
theorem backward_series_offsets (env : Env) (a : Annotation) (mono : Bool) (hd : fragDomain env a mono)
    (z iso : Int) (loss : Rat) :
    ∃ my, mass env a (ionQuery (k "y") z mono iso loss) = .ok my ∧
      mass env a (ionQuery (k "x") z mono iso loss) = .ok (my + lib.compMass mono fCO - lib.compMass mono fH2) ∧
      mass env a (ionQuery (k "z") z mono iso loss) = .ok (my - lib.compMass mono fNH3) := by
  obtain ⟨_, _, _, ox, oy, oz, _⟩ := offsets mono
  refine ⟨_, fragMass tR tA env a mono hd (k "y") (by decide) (by decide) _ oy z iso loss, ?_, ?_⟩
  · rw [fragMass tR tA env a mono hd (k "x") (by decide) (by decide) _ ox z iso loss]
    apply congrArg Except.ok; ring
  · rw [fragMass tR tA env a mono hd (k "z") (by decide) (by decide) _ oz z iso loss]
    apply congrArg Except.ok; ring

/-- **each internal ion `fb` = `by` + off(f) + off(b)** with off(a) = −CO, off(b) = 0, off(c) = +NH3,
off(x) = +CO − H2, off(y) = 0, off(z) = −NH3 (`seriesOffset`), for all nine internal series -/
theorem internal_offsets (env : Env) (a : Annotation) (mono : Bool) (hd : fragDomain env a mono)
    (f b : Key) (hf : f ∈ [k "a", k "b", k "c"]) (hb : b ∈ [k "x", k "y", k "z"]) (z iso : Int) (loss : Rat) :
    ∃ mby, mass env a (ionQuery (k "by") z mono iso loss) = .ok mby ∧
      mass env a (ionQuery (f * 256 + b) z mono iso loss)
        = .ok (mby + (seriesOffset lib mono f).getD 0 + (seriesOffset lib mono b).getD 0) := by
  have hby := offset_internal mono (k "b") (k "y") (by decide) (by decide)
  have hfb := offset_internal mono f b hf hb
  have hne : f * 256 + b ≠ ionP ∧ f * 256 + b ≠ ionN := by
    simp only [List.mem_cons, List.mem_nil_iff, or_false] at hf hb
    rcases hf with rfl | rfl | rfl <;> rcases hb with rfl | rfl | rfl <;> decide
  refine ⟨_, fragMass tR tA env a mono hd (k "by") (by decide) (by decide) _ hby z iso loss, ?_⟩
  rw [fragMass tR tA env a mono hd (f * 256 + b) hne.1 hne.2 _ hfb z iso loss]
  apply congrArg Except.ok
  have h0 : (seriesOffset lib mono (k "b")).getD 0 = 0 := rfl
  have h1 : (seriesOffset lib mono (k "y")).getD 0 = 0 := rfl
  rw [h0, h1]; ring

/-- **immonium = residue − CO + h⁺** (singly charged, unmodified residue) -/
theorem immonium_mass (env : Env) (c : Char) (f : Comp) (mono : Bool) (hc : lookup c.toNat residueFormula = some f) :
    mass env { seq := [c] } (ionQuery (k "i") 1 mono 0 0)
      = .ok (lib.compMass mono f - lib.compMass mono fCO + lib.hplus mono) := by
  obtain ⟨_, _, _, _, _, _, oi⟩ := offsets mono
  have hd : fragDomain env { seq := [c] } mono := by
    refine ⟨rfl, rfl, ?_⟩
    unfold inDomain
    simp [hc, placedMods, neutralOffset]
    rfl
  rw [fragMass tR tA env _ mono hd (k "i") (by decide) (by decide) _ oi 1 0 0]
  apply congrArg Except.ok
  unfold ionBase residueSum staticValue modsValue placedMods
  simp [hc, sumR]
  ring

/-- **higher charge states add one proton each** (`PROTON_MASS`), for every ion type (precursor included) and every
charge, also negative -/
theorem charge_step (env : Env) (a : Annotation) (t : Key) (mono : Bool) (hl : a.isotope = none) (had : a.adducts = none)
    (hdom : inDomain env a t mono none = true) (z iso : Int) (loss : Rat) :
    ∃ m, mass env a (ionQuery t z mono iso loss) = .ok m ∧
      mass env a (ionQuery t (z + 1) mono iso loss) = .ok (m + Gen.protonMass) := by
  refine ⟨_, mass_eq_spec_of_tables tR tA env a (ionQuery t z mono iso loss) rfl hl rfl had hdom, ?_⟩
  rw [mass_eq_spec_of_tables tR tA env a (ionQuery t (z + 1) mono iso loss) rfl hl rfl had hdom]
  apply congrArg Except.ok
  show specMassT lib env a t (z + 1) mono iso loss none = specMassT lib env a t z mono iso loss none + Gen.protonMass
  unfold specMassT Spec.chargeTerm
  have hp : lib.proton = Gen.protonMass := rfl
  split_ifs <;> push_cast <;> rw [hp] <;> ring


/-- the N-terminal piece, the C-terminal piece and the whole peptide of one cleavage: residues `s₁ ++ s₂`, N-terminal
mods `nt`, C-terminal mods `ct`, residue mods `I₁` (keys into `s₁`) and `I₂` (keys into `s₂`, shifted in the whole) -/
def prefixAnn (s₁ : List Char) (nt : Option (List Mod)) (I₁ : List (Int × List Mod)) : Annotation :=
  { seq := s₁, nterm := nt, internal := some I₁ }
def suffixAnn (s₂ : List Char) (ct : Option (List Mod)) (I₂ : List (Int × List Mod)) : Annotation :=
  { seq := s₂, cterm := ct, internal := some I₂ }
def wholeAnn (s₁ s₂ : List Char) (nt ct : Option (List Mod)) (I₁ I₂ : List (Int × List Mod)) : Annotation :=
  { seq := s₁ ++ s₂, nterm := nt, cterm := ct, internal := some (I₁ ++ I₂.map (fun p => (p.1 + (s₁.length : Int), p.2))) }

/-- **b_i + y_(n−i) = M + 2·h⁺** (singly charged ions, neutral peptide mass `M`), for every cleavage position of
every peptide with numeric / formula / named modifications on residues and termini, both modes -/
theorem b_plus_y (env : Env) (mono : Bool) (s₁ s₂ : List Char) (nt ct : Option (List Mod)) (I₁ I₂ : List (Int × List Mod))
    (hb : fragDomain env (prefixAnn s₁ nt I₁) mono) (hy : fragDomain env (suffixAnn s₂ ct I₂) mono)
    (hM : inDomain env (wholeAnn s₁ s₂ nt ct I₁ I₂) ionP mono none = true) :
    ∃ b y M, mass env (prefixAnn s₁ nt I₁) (ionQuery (k "b") 1 mono 0 0) = .ok b ∧
      mass env (suffixAnn s₂ ct I₂) (ionQuery (k "y") 1 mono 0 0) = .ok y ∧
      mass env (wholeAnn s₁ s₂ nt ct I₁ I₂) (ionQuery ionP 0 mono 0 0) = .ok M ∧
      b + y = M + 2 * lib.hplus mono := by
  obtain ⟨_, ob, _, _, oy, _, _⟩ := offsets mono
  refine ⟨_, _, _, fragMass tR tA env _ mono hb (k "b") (by decide) (by decide) _ ob 1 0 0,
    fragMass tR tA env _ mono hy (k "y") (by decide) (by decide) _ oy 1 0 0,
    precursorMass tR tA env _ mono rfl rfl hM 0 0 0, ?_⟩
  have hfm : (I₂.map (fun p => (p.1 + (s₁.length : Int), p.2))).flatMap (·.2) = I₂.flatMap (·.2) := by
    rw [List.flatMap_map]
  unfold ionBase residueSum staticValue placedMods prefixAnn suffixAnn wholeAnn
  simp only [Option.getD_none, Option.getD_some, List.flatMap_nil, List.append_nil, List.nil_append,
    List.map_append, sumR_append, modsValue_append, List.flatMap_append, hfm, if_true]
  have h98 : (98 : Key) = ionP ↔ False := by decide
  simp only [h98, if_false, modsValue, List.map_nil, sumR_nil]
  push_cast
  ring


/-- **a modification shifts exactly the ions that contain it**: if two annotations of the same residues and global
rules differ by one written modification `m` (on a residue, a terminus, an interval, of unknown position, or labile for
the precursor), every ion type / charge / isotope / loss computed from the one containing `m` is heavier by exactly
`mult·μ(m)`; an ion whose annotation does not contain `m` is computed from the same data and is not shifted at all.
(Which fragment annotations contain the residue is slicing, C07/C11; checked on `fragment()` by the oracle.) -/
theorem mod_locality (env : Env) (a₀ a₁ : Annotation) (t : Key) (mono : Bool) (m : Mod) (pre post : List Mod)
    (hseq : a₁.seq = a₀.seq) (hstat : a₁.static = a₀.static)
    (h₁ : placedMods a₁ t = pre ++ m :: post) (h₀ : placedMods a₀ t = pre ++ post)
    (hl₀ : a₀.isotope = none) (had₀ : a₀.adducts = none) (hl₁ : a₁.isotope = none) (had₁ : a₁.adducts = none)
    (hd₀ : inDomain env a₀ t mono none = true) (hd₁ : inDomain env a₁ t mono none = true) (z iso : Int) (loss : Rat) :
    ∃ m₀, mass env a₀ (ionQuery t z mono iso loss) = .ok m₀ ∧
      mass env a₁ (ionQuery t z mono iso loss) = .ok (m₀ + modValue env mono m) := by
  refine ⟨_, mass_eq_spec_of_tables tR tA env a₀ (ionQuery t z mono iso loss) rfl hl₀ rfl had₀ hd₀, ?_⟩
  rw [mass_eq_spec_of_tables tR tA env a₁ (ionQuery t z mono iso loss) rfl hl₁ rfl had₁ hd₁]
  apply congrArg Except.ok
  show specMassT lib env a₁ t _ mono iso loss none = specMassT lib env a₀ t _ mono iso loss none + modValue env mono m
  have hs : staticValue env mono a₁ = staticValue env mono a₀ := by unfold staticValue; rw [hstat, hseq]
  have hc : effCharge a₁ (ionQuery t z mono iso loss) = effCharge a₀ (ionQuery t z mono iso loss) := rfl
  unfold specMassT
  rw [hseq, hs, h₁, h₀, hc]
  simp only [modsValue, List.map_append, List.map_cons, sumR_append, sumR_cons]
  ring


/-! ### non-vacuity: concrete inputs satisfying the hypotheses above -/

def exEnv : Env := ⟨fun _ => ⟨.ok 15, .ok 16, .ok none, .ok [(kO, 1)]⟩, fun _ => .ok []⟩
def exAnn : Annotation :=
  { seq := "PEPTIDE".toList, nterm := some [⟨.str "Acetyl".toList, 1⟩], internal := some [(2, [⟨.int 7, 2⟩])] }

-- series / internal / charge-step hypotheses (both modes)
example : fragDomain exEnv exAnn true := ⟨rfl, rfl, by decide +kernel⟩
example : fragDomain exEnv exAnn false := ⟨rfl, rfl, by decide +kernel⟩
example : inDomain exEnv exAnn (k "cz") false none = true := by decide +kernel
-- b_plus_y: PEP | TIDE with an N-terminal mod, a residue mod in each piece and a C-terminal mod
example : fragDomain exEnv (prefixAnn "PEP".toList (some [⟨.int 42, 1⟩]) [(1, [⟨.int 7, 2⟩])]) true ∧
    fragDomain exEnv (suffixAnn "TIDE".toList (some [⟨.int 1, 1⟩]) [(0, [⟨.int 80, 1⟩])]) true ∧
    inDomain exEnv (wholeAnn "PEP".toList "TIDE".toList (some [⟨.int 42, 1⟩]) (some [⟨.int 1, 1⟩])
      [(1, [⟨.int 7, 2⟩])] [(0, [⟨.int 80, 1⟩])]) ionP true none = true :=
  ⟨⟨rfl, rfl, by decide +kernel⟩, ⟨rfl, rfl, by decide +kernel⟩, by decide +kernel⟩
-- mod_locality: the residue mod of exAnn against the same peptide without it, y-type ions
example : placedMods exAnn (k "y") = [⟨.str "Acetyl".toList, 1⟩] ++ ⟨.int 7, 2⟩ :: [] ∧
    placedMods { exAnn with internal := some [(2, [])] } (k "y") = [⟨.str "Acetyl".toList, 1⟩] ++ [] := by
  constructor <;> decide +kernel
-- immonium: tryptophan
example : lookup 'W'.toNat residueFormula = some [(kC, 11), (kH, 10), (kN, 2), (kO, 1)] := by decide +kernel

end Pept.C05
