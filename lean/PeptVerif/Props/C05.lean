import PeptVerif.Props.C02
/-!
C05 — fragment ion series obey the chemistry of peptide backbone cleavage.  Property theorems only.

All relations are exact identities over ℚ between values of the executable model of `mass(ion_type=…)` (tied to
`fragment()` by correspondence: every fragment's mass is re-computed by the model from the fragment's own sequence).
`h⁺ := m(H) − mₑ` in the mode's hydrogen mass is the carrier of the first charge that the ion tables encode
(`particles_ok` of C02: |PROTON_MASS − h⁺| ≤ 2·10⁻⁸ in monoisotopic mode); every further charge adds `PROTON_MASS`.
-/
namespace Pept.C05
open Pept Pept.Chem Pept.Mass Pept.Spec

/-- every entry of the library's +1 ion table (`MONOISOTOPIC_ION_ADJUSTMENTS` / `AVERAGE_ION_ADJUSTMENTS`, recomputed
from the generated compositions) is the backbone-chemistry offset built from CO, NH3, H2, H2O and h⁺ = H − e:
a = b − CO, c = b + NH3, x = y + CO − H2, z = y − NH3, immonium = −CO, internal = pair of terminal offsets -/
theorem ion_offsets_ok :
    [true, false].all (fun mono => ionAdj.all (fun p =>
      match ionOffset lib mono p.1 with
      | some v => decide (constMass mono p.2 = v)
      | none => false)) = true := by decide +kernel

/-- what `adjust_mass` adds for a singly charged fragment (neutral adjustment + ion adjustment) is the same offset,
for each of the 18 ion types and both modes -/
theorem adjust_tables_ok :
    [true, false].all (fun mono => Gen.ionComp.all (fun p =>
      match fragmentAdjMass mono p.1, fragmentIonAdjMass mono p.1, ionOffset lib mono p.1 with
      | some a, some b, some v => decide (a + b = v)
      | _, _, _ => false)) = true := by decide +kernel

local notation "tR" => Pept.C02.residue_table_ok
local notation "tA" => Pept.C02.adjust_tables_ok

/-- **a = b − CO, c = b + NH3** for the same peptide, charge, isotope offset and loss -/
theorem forward_series_offsets (env : Env) (a : Annotation) (mono : Bool) (hd : fragDomain env a mono)
    (z iso : Int) (loss : Rat) :
    ∃ mb, mass env a (ionQuery (k "b") z mono iso loss) = .ok mb ∧
      mass env a (ionQuery (k "a") z mono iso loss) = .ok (mb - lib.compMass mono fCO) ∧
      mass env a (ionQuery (k "c") z mono iso loss) = .ok (mb + lib.compMass mono fNH3) := by
  obtain ⟨oa, ob, oc, _, _, _, _⟩ := offsets mono
  refine ⟨_, fragMass tR tA env a mono hd (k "b") (by decide) (by decide) 0 ob z iso loss, ?_, ?_⟩
  · rw [fragMass tR tA env a mono hd (k "a") (by decide) (by decide) _ oa z iso loss]
    apply congrArg Except.ok; ring
  · rw [fragMass tR tA env a mono hd (k "c") (by decide) (by decide) _ oc z iso loss]
    apply congrArg Except.ok; ring

/-- **x = y + CO − H2, z = y − NH3** -/
theorem backward_series_offsets (env : Env) (a : Annotation) (mono : Bool) (hd : fragDomain env a mono)
    (z iso : Int) (loss : Rat) :
    ∃ my, mass env a (ionQuery (k "y") z mono iso loss) = .ok my ∧
      mass env a (ionQuery (k "x") z mono iso loss) = .ok (my + lib.compMass mono fCO - lib.compMass mono fH2) ∧
      mass env a (ionQuery (k "z") z mono iso loss) = .ok (my - lib.compMass mono fNH3) := by
  obtain ⟨_, _, _, ox, oy, oz, _⟩ := offsets mono
  refine ⟨_, fragMass tR tA env a mono hd (k "y") (by decide) (by decide) _ oy z iso loss, ?_, ?_⟩
  · rw [fragMass tR tA env a mono hd (k "x") (by decide) (by decide) _ ox z iso loss]
    apply congrArg Except.ok; ring
  · rw [fragMass tR tA env a mono hd (k "z") (by decide) (by decide) _ oz z iso loss]
    apply congrArg Except.ok; ring

/-- **each internal ion `fb` = `by` + off(f) + off(b)** with off(a) = −CO, off(b) = 0, off(c) = +NH3,
off(x) = +CO − H2, off(y) = 0, off(z) = −NH3 (`seriesOffset`), for all nine internal series -/
theorem internal_offsets (env : Env) (a : Annotation) (mono : Bool) (hd : fragDomain env a mono)
    (f b : Key) (hf : f ∈ [k "a", k "b", k "c"]) (hb : b ∈ [k "x", k "y", k "z"]) (z iso : Int) (loss : Rat) :
    ∃ mby, mass env a (ionQuery (k "by") z mono iso loss) = .ok mby ∧
      mass env a (ionQuery (f * 256 + b) z mono iso loss)
        = .ok (mby + (seriesOffset lib mono f).getD 0 + (seriesOffset lib mono b).getD 0) := by
  have hby := offset_internal mono (k "b") (k "y") (by decide) (by decide)
  have hfb := offset_internal mono f b hf hb
  have hne : f * 256 + b ≠ ionP ∧ f * 256 + b ≠ ionN := by
    simp only [List.mem_cons, List.mem_nil_iff, or_false] at hf hb
    rcases hf with rfl | rfl | rfl <;> rcases hb with rfl | rfl | rfl <;> decide
  refine ⟨_, fragMass tR tA env a mono hd (k "by") (by decide) (by decide) _ hby z iso loss, ?_⟩
  rw [fragMass tR tA env a mono hd (f * 256 + b) hne.1 hne.2 _ hfb z iso loss]
  apply congrArg Except.ok
  have h0 : (seriesOffset lib mono (k "b")).getD 0 = 0 := rfl
  have h1 : (seriesOffset lib mono (k "y")).getD 0 = 0 := rfl
  rw [h0, h1]; ring

/-- **immonium = residue − CO + h⁺** (singly charged, unmodified residue) -/
theorem immonium_mass (env : Env) (c : Char) (f : Comp) (mono : Bool) (hc : lookup c.toNat residueFormula = some f) :
    mass env { seq := [c] } (ionQuery (k "i") 1 mono 0 0)
      = .ok (lib.compMass mono f - lib.compMass mono fCO + lib.hplus mono) := by
  obtain ⟨_, _, _, _, _, _, oi⟩ := offsets mono
  have hd : fragDomain env { seq := [c] } mono := by
    refine ⟨rfl, rfl, ?_⟩
    unfold inDomain
    simp [hc, placedMods, neutralOffset]
    rfl
  rw [fragMass tR tA env _ mono hd (k "i") (by decide) (by decide) _ oi 1 0 0]
  apply congrArg Except.ok
  unfold ionBase residueSum staticValue modsValue placedMods
  simp [hc, sumR]
  ring

/-- **higher charge states add one proton each** (`PROTON_MASS`), for every ion type (precursor included) and every
charge, also negative -/
theorem charge_step (env : Env) (a : Annotation) (t : Key) (mono : Bool) (hl : a.isotope = none) (had : a.adducts = none)
    (hdom : inDomain env a t mono none = true) (z iso : Int) (loss : Rat) :
    ∃ m, mass env a (ionQuery t z mono iso loss) = .ok m ∧
      mass env a (ionQuery t (z + 1) mono iso loss) = .ok (m + Gen.protonMass) := by
  refine ⟨_, mass_eq_spec_of_tables tR tA env a (ionQuery t z mono iso loss) rfl hl rfl had hdom, ?_⟩
  rw [mass_eq_spec_of_tables tR tA env a (ionQuery t (z + 1) mono iso loss) rfl hl rfl had hdom]
  apply congrArg Except.ok
  show specMassT lib env a t (z + 1) mono iso loss none = specMassT lib env a t z mono iso loss none + Gen.protonMass
  unfold specMassT Spec.chargeTerm
  have hp : lib.proton = Gen.protonMass := rfl
  split_ifs <;> push_cast <;> rw [hp] <;> ring

end Pept.C05
