import PeptVerif.Spec.Mass
/-!
C05 — fragment ion series obey the chemistry of peptide backbone cleavage.  Property theorems only.
-/
namespace Pept.C05
open Pept Pept.Chem Pept.Mass Pept.Spec

/-- every entry of the library's +1 ion table (`MONOISOTOPIC_ION_ADJUSTMENTS` / `AVERAGE_ION_ADJUSTMENTS`, recomputed
from the generated compositions) is the backbone-chemistry offset built from CO, NH3, H2, H2O and h⁺ = H − e:
a = b − CO, c = b + NH3, x = y + CO − H2, z = y − NH3, immonium = −CO, internal = pair of terminal offsets -/
theorem ion_offsets_ok :
    [true, false].all (fun mono => ionAdj.all (fun p =>
      match ionOffset lib mono p.1 with
      | some v => decide (constMass mono p.2 = v)
      | none => false)) = true := by decide +kernel

/-- what `adjust_mass` adds for a singly charged fragment (neutral adjustment + ion adjustment) is the same offset,
for each of the 18 ion types and both modes -/
theorem adjust_tables_ok :
    [true, false].all (fun mono => Gen.ionComp.all (fun p =>
      match fragmentAdjMass mono p.1, fragmentIonAdjMass mono p.1, ionOffset lib mono p.1 with
      | some a, some b, some v => decide (a + b = v)
      | _, _, _ => false)) = true := by decide +kernel

end Pept.C05
