import PeptVerif.Model.ModDbGen
/-! C15, glycan half: property theorems (being filled in) -/
namespace C15Glycan
open ModDb Formula

/-- every monosaccharide name and synonym of the generated table is non-empty (the tokenizer loop advances) -/
theorem names_nonempty : ∀ nm ∈ namesSorted Gen.Mono.entries, nm ≠ [] := by
  decide +kernel

end C15Glycan
