import PeptVerif.Model.ModDbGen
import PeptVerif.Lemmas.GlycanRT
import PeptVerif.Lemmas.NumText
/-!
C15, glycan half: property theorems.

"A glycan formula parses to the monosaccharide counts it was written from whenever the written form is unambiguous,
its composition and mass being the count-weighted sums over those monosaccharides, identically for names and
synonyms."

Table-independent statements are over an arbitrary vocabulary `names : List Str` / table `mono : List Entry`;
facts about the generated monosaccharide table `Gen.Mono.entries` (27 entries, 20 synonyms) are kernel-evaluated.
-/
namespace C15Glycan
open ModDb Formula

local notation "MONO" => Gen.Mono.entries

/-! ## the generated table -/

/-- every monosaccharide name and synonym of the generated table is non-empty (the tokenizer loop advances) -/
theorem names_nonempty : ∀ nm ∈ namesSorted Gen.Mono.entries, nm ≠ [] := by
  decide +kernel

/-- every name and every synonym of an entry resolves to that entry: names and synonyms are interchangeable keys -/
theorem synonym_eq_name : ∀ e ∈ MONO,
    monoEntry MONO e.name = some e ∧ ∀ s ∈ e.syns, monoEntry MONO s = some e := by
  decide +kernel

example : monoEntry MONO (str% "Fucose") = monoEntry MONO (str% "Fuc") := by decide +kernel

/-- the 27 names and 20 synonyms are 47 different strings (no synonym is another entry's name or synonym) -/
theorem names_synonyms_distinct : ((MONO).map (·.name) ++ ((MONO).map (·.syns)).flatten).Nodup := by
  decide +kernel

/-- every entry has a composition, a monoisotopic and an average mass -/
theorem entries_complete : ∀ e ∈ MONO, e.comp.isSome = true ∧ e.mono.isSome = true ∧ e.avg.isSome = true := by
  decide +kernel

/-- every stored composition is a well-formed chemical formula -/
theorem compositions_parse : ∀ e ∈ MONO, ∀ f, e.comp = some f → ∃ c, parseChem f [] = .ok c := by
  intro e he f hf
  have : ∀ e ∈ MONO, (match e.comp with
      | some f => (match parseChem f [] with | .ok _ => true | .error _ => false)
      | none => true) = true := by decide +kernel
  have h := this e he
  rw [hf] at h
  cases hp : parseChem f [] with
  | ok c => exact ⟨c, rfl⟩
  | error er => simp only [hp] at h; cases h

example : parseChem (str% "C8H13N1O5") [] =
    .ok [(str% "C", Num.ofInt 8), (str% "H", Num.ofInt 13), (str% "N", Num.ofInt 1), (str% "O", Num.ofInt 5)] := by
  decide +kernel

/-- every vocabulary string (name or synonym) has a composition and both masses -/
theorem vocabulary_known : ∀ nm ∈ namesSorted MONO,
    (monoComp MONO nm).isSome = true ∧ (monoMass MONO true nm).isSome = true ∧
      (monoMass MONO false nm).isSome = true := by
  decide +kernel

/-- no vocabulary string starts with a character that can be part of a count -/
theorem names_start_no_count_char : ∀ nm ∈ namesSorted MONO, ∀ c r, nm = c :: r → isCountChar c = false := by
  have : ∀ nm ∈ namesSorted MONO, (match nm with | c :: _ => isCountChar c | [] => false) = false := by
    decide +kernel
  intro nm h c r e
  have := this nm h
  subst e
  exact this

/-! ## 1. the vocabulary is searched longest first -/

/-- the vocabulary consists of exactly the names and synonyms of the table -/
theorem namesSorted_mem (db : List Entry) (nm : Str) :
    nm ∈ namesSorted db ↔ ∃ e ∈ db, nm = e.name ∨ nm ∈ e.syns :=
  mem_namesSorted db nm

/-- `namesSorted` is ordered by length, longest first (names of 10^6 characters and more would be mis-sorted by the
model's sort key `1000000 - length`, hence the bound) -/
theorem namesSorted_sorted (db : List Entry) (hlen : ∀ nm ∈ namesSorted db, nm.length ≤ 1000000) :
    (namesSorted db).Pairwise (fun a b => b.length ≤ a.length) :=
  namesSorted_lenDesc db hlen

theorem namesSorted_sorted_gen : (namesSorted MONO).Pairwise (fun a b => b.length ≤ a.length) := by
  apply namesSorted_lenDesc
  decide +kernel

/-- in a longest-first vocabulary, the name the tokenizer takes (the first that is a prefix of the remaining text) is a
longest vocabulary name that is a prefix of the text -/
theorem longest_first (names : List Str) (text nm : Str)
    (hs : names.Pairwise (fun a b => b.length ≤ a.length))
    (h : names.find? (fun n => n.isPrefixOf text) = some nm) :
    nm ∈ names ∧ nm.isPrefixOf text = true ∧
      ∀ nm' ∈ names, nm'.isPrefixOf text = true → nm'.length ≤ nm.length :=
  find_longest names text hs nm h

/-- … and it is the only such name: whatever vocabulary name is a prefix of the text and has no longer competitor is
the one taken -/
theorem longest_first_unique (names : List Str) (text nm : Str)
    (hs : names.Pairwise (fun a b => b.length ≤ a.length)) (hmem : nm ∈ names)
    (hp : nm.isPrefixOf text = true)
    (hmax : ∀ nm' ∈ names, nm'.isPrefixOf text = true → nm'.length ≤ nm.length) :
    names.find? (fun n => n.isPrefixOf text) = some nm :=
  find_eq_of_longest names text hs nm hmem hp hmax

example : (namesSorted MONO).find? (fun n => n.isPrefixOf (str% "HexNAc2Hex3")) = some (str% "HexNAc") := by
  decide +kernel
example : (namesSorted MONO).find? (fun n => n.isPrefixOf (str% "Neu5Ac1")) = some (str% "Neu5Ac") := by
  decide +kernel

/-! ## 4. mass = count-weighted sum -/

/-- `glycan_mass` of a dict whose keys all have a mass is `Σ mass(k) · v` -/
theorem glycan_mass_linear (mono : List Entry) (isMono : Bool) (g : Comp)
    (h : ∀ kv ∈ g, (monoMass mono isMono kv.1).isSome = true) :
    glycanMassDict mono isMono g = .ok (massSum mono isMono g) :=
  glycanMassDict_eq_sum mono isMono g h

/-- for the generated table: any dict over names and synonyms, any counts -/
theorem glycan_mass_linear_gen (isMono : Bool) (g : Comp) (h : ∀ kv ∈ g, kv.1 ∈ namesSorted MONO) :
    glycanMassDict MONO isMono g = .ok (massSum MONO isMono g) := by
  apply glycanMassDict_eq_sum
  intro kv hkv
  have := vocabulary_known kv.1 (h kv hkv)
  cases isMono
  · exact this.2.2
  · exact this.2.1

example : ∀ kv ∈ [(str% "HexNAc", Num.ofInt 2), (str% "Hex", Num.ofInt 3), (str% "NeuAc", (⟨3/2, true⟩ : Num))],
    kv.1 ∈ namesSorted MONO := by decide +kernel

/-- the mass of a concatenated dict is the sum of the masses; when either part fails so does the whole, an error of
`g₁` taking precedence (a modelling choice: Python raises the first error in item order) -/
theorem glycan_mass_append (mono : List Entry) (isMono : Bool) (g₁ g₂ : Comp) :
    glycanMassDict mono isMono (g₁ ++ g₂) =
      (match glycanMassDict mono isMono g₁, glycanMassDict mono isMono g₂ with
       | .ok a, .ok b => .ok (a + b)
       | .error e, _ => .error e
       | .ok _, .error e => .error e) :=
  glycanMassDict_append mono isMono g₂ g₁

theorem glycan_mass_sum_append (mono : List Entry) (isMono : Bool) (g₁ g₂ : Comp) :
    massSum mono isMono (g₁ ++ g₂) = massSum mono isMono g₁ + massSum mono isMono g₂ :=
  massSum_append mono isMono g₁ g₂

/-! ## 3. composition = count-weighted sum -/

/-- `_glycan_comp` of a dict whose keys all have a composition: the fold that adds `n · v` for every element `(el, n)`
of every item `(k, v)` -/
theorem glycan_comp_fold (mono : List Entry) (g acc : Comp)
    (h : ∀ kv ∈ g, (monoComp mono kv.1).isSome = true) :
    glycanCompDict mono g acc = .ok (compFold mono g acc) :=
  glycanCompDict_eq_fold mono g acc h

/-- linearity: the result has every element once, and the count stored under every element `el` (0 when absent) is
`Σ n_k(el) · v` over the items `(k, v)` -/
theorem glycan_comp_linear (mono : List Entry) (g : Comp)
    (h : ∀ kv ∈ g, (monoComp mono kv.1).isSome = true) :
    ∃ c, glycanCompDict mono g [] = .ok c ∧ (c.map (·.1)).Nodup ∧
      ∀ el, countAt c el = compSum mono g el := by
  have hnd := nodup_compFold mono g [] List.nodup_nil
  refine ⟨compFold mono g [], glycanCompDict_eq_fold mono g [] h, hnd, ?_⟩
  intro el
  rw [← compVal_eq_get el _ hnd, compVal_compFold, compVal_nil]
  ring

theorem glycan_comp_linear_gen (g : Comp) (h : ∀ kv ∈ g, kv.1 ∈ namesSorted MONO) :
    ∃ c, glycanCompDict MONO g [] = .ok c ∧ (c.map (·.1)).Nodup ∧
      ∀ el, countAt c el = compSum MONO g el :=
  glycan_comp_linear MONO g (fun kv hkv => (vocabulary_known kv.1 (h kv hkv)).1)

example : glycanCompDict MONO [(str% "HexNAc", Num.ofInt 2), (str% "Fucose", Num.ofInt 1)] [] =
    .ok [(str% "C", Num.ofInt 22), (str% "H", Num.ofInt 36), (str% "N", Num.ofInt 2), (str% "O", Num.ofInt 14)] := by
  decide +kernel

/-- the composition of a concatenated dict continues the fold -/
theorem glycan_comp_append (mono : List Entry) (g₁ g₂ acc : Comp) :
    glycanCompDict mono (g₁ ++ g₂) acc =
      (match glycanCompDict mono g₁ acc with
       | .ok a => glycanCompDict mono g₂ a
       | .error e => .error e) :=
  glycanCompDict_append mono g₂ g₁ acc

theorem glycan_comp_sum_append (mono : List Entry) (g₁ g₂ : Comp) (el : Str) :
    compSum mono (g₁ ++ g₂) el = compSum mono g₁ el + compSum mono g₂ el :=
  compSum_append mono g₁ g₂ el

/-! ## 5. names and synonyms give identical results -/

/-- rewriting keys without changing the entry they resolve to changes neither composition nor mass -/
theorem synonym_invariant (mono : List Entry) (f : Str → Str) (g acc : Comp) (isMono : Bool)
    (h : ∀ kv ∈ g, monoEntry mono (f kv.1) = monoEntry mono kv.1) :
    glycanCompDict mono (mapKeys f g) acc = glycanCompDict mono g acc ∧
      glycanMassDict mono isMono (mapKeys f g) = glycanMassDict mono isMono g :=
  ⟨glycanCompDict_congr mono f g acc h, glycanMassDict_congr mono isMono f g h⟩

/-- for the generated table: replacing every key by the name of its entry (`canon`) changes nothing -/
theorem synonym_invariant_gen (g acc : Comp) (isMono : Bool) :
    glycanCompDict MONO (mapKeys (canon MONO) g) acc = glycanCompDict MONO g acc ∧
      glycanMassDict MONO isMono (mapKeys (canon MONO) g) = glycanMassDict MONO isMono g :=
  synonym_invariant MONO (canon MONO) g acc isMono
    (fun kv _ => monoEntry_canon MONO (fun e he => (synonym_eq_name e he).1) kv.1)

example : mapKeys (canon MONO) [(str% "Fucose", Num.ofInt 1), (str% "S", Num.ofInt 2), (str% "Hex", Num.ofInt 3)] =
    [(str% "Fuc", Num.ofInt 1), (str% "sulfate", Num.ofInt 2), (str% "Hex", Num.ofInt 3)] := by
  decide +kernel

/-! ## 2. write → parse round trip (sep = '') -/

/-- the tokenizer on a written token list (repeated names allowed): every item is read back as written and *added* to
the dict (`addAll`, the same merge as for chemical formulas; since fix 4cd4abe — before, a repeated name was
overwritten), whenever the written form is unambiguous (`Unambig`, a decidable predicate) in a longest-first
vocabulary without empty names -/
theorem glycan_parse_write_fold (names : List Str) (g d : Comp)
    (hne : ∀ nm ∈ names, nm ≠ []) (hs : names.Pairwise (fun a b => b.length ≤ a.length))
    (hu : Unambig names g = true) (hv : ∀ kv ∈ g, NumOK kv.2) :
    parseGlycanAux names 0 (writeGlycan g []) d = .ok (addAll d g) :=
  parseGlycanAux_write names hne hs g d hu hv

/-- round trip: with pairwise different keys the parsed dict is the written one -/
theorem glycan_parse_write (names : List Str) (g : Comp)
    (hne : ∀ nm ∈ names, nm ≠ []) (hs : names.Pairwise (fun a b => b.length ≤ a.length))
    (hu : Unambig names g = true) (hv : ∀ kv ∈ g, NumOK kv.2) (hk : (g.map (·.1)).Nodup) :
    parseGlycanAux names 0 (writeGlycan g []) [] = .ok g := by
  rw [parseGlycanAux_write names hne hs g [] hu hv, addAll_nil_distinct g (by simpa [gkeys] using hk)]

/-- the same through `parse_glycan_formula` for the generated table, counts being Python ints or finite decimals -/
theorem glycan_parse_write_gen (g : Comp) (hu : Unambig (namesSorted MONO) g = true)
    (hv : ∀ kv ∈ g, NumWF kv.2) (hk : (g.map (·.1)).Nodup) :
    parseGlycan MONO (writeGlycan g []) [] = .ok g := by
  have h := glycan_parse_write (namesSorted MONO) g names_nonempty namesSorted_sorted_gen hu
    (fun kv hkv => numOK_of_wf kv.2 (hv kv hkv)) hk
  unfold parseGlycan
  cases g with
  | nil => rfl
  | cons kv r =>
    obtain ⟨nm, v⟩ := kv
    have hmem : nm ∈ namesSorted MONO := by
      simp only [Unambig, Bool.and_eq_true, List.contains_iff_mem] at hu
      exact hu.1.1.1
    have hne := names_nonempty nm hmem
    have : (writeGlycan ((nm, v) :: r) []).isEmpty = false := by
      rw [writeGlycan_cons]
      cases nm with
      | nil => exact absurd rfl hne
      | cons c t => rfl
    rw [this]
    exact h

example : Unambig (namesSorted MONO)
    [(str% "HexNAc", Num.ofInt 2), (str% "Hex", Num.ofInt 3), (str% "Neu", Num.ofInt 1)] = true := by
  decide +kernel
example : Unambig (namesSorted MONO)
    [(str% "HexNAc", Num.ofInt 2), (str% "Hex", ⟨5/2, true⟩), (str% "Neu", Num.ofInt (-1))] = true := by
  decide +kernel
example : writeGlycan [(str% "HexNAc", Num.ofInt 2), (str% "Hex", ⟨5/2, true⟩), (str% "Neu", Num.ofInt (-1))] [] =
    str% "HexNAc2Hex2.5Neu-1" := by decide +kernel
/-- `{Neu: 5, Ac: 1}` is written `Neu5Ac1`, which is not unambiguous … -/
example : Unambig (namesSorted MONO) [(str% "Neu", Num.ofInt 5), (str% "Ac", Num.ofInt 1)] = false := by
  decide +kernel

/-- … and indeed does not survive: it reads back as `{Neu5Ac: 1}` (so the hypothesis `Unambig` cannot be dropped) -/
theorem glycan_parse_write_ambiguous_counterexample :
    parseGlycan MONO (writeGlycan [(str% "Neu", Num.ofInt 5), (str% "Ac", Num.ofInt 1)] []) [] =
      .ok [(str% "Neu5Ac", Num.ofInt 1)] := by
  decide +kernel

/-- a repeated name is accumulated: `Hex2Fuc1Hex3` reads as `{Hex: 5, Fuc: 1}` (fix 4cd4abe; before the fix the
second `Hex` overwrote the first) -/
theorem glycan_parse_repeated_key_accumulates :
    parseGlycan MONO (str% "Hex2Fuc1Hex3") [] = .ok [(str% "Hex", Num.ofInt 5), (str% "Fuc", Num.ofInt 1)] := by
  decide +kernel

/-- composition and mass of the written text are those of the dict it was written from -/
theorem glycan_str_eq_dict (g : Comp) (isMono : Bool) (hu : Unambig (namesSorted MONO) g = true)
    (hv : ∀ kv ∈ g, NumWF kv.2) (hk : (g.map (·.1)).Nodup) :
    glycanCompStr MONO (writeGlycan g []) = glycanCompDict MONO g [] ∧
      glycanMassStr MONO isMono (writeGlycan g []) = glycanMassDict MONO isMono g := by
  unfold glycanCompStr glycanMassStr
  rw [glycan_parse_write_gen g hu hv hk]
  exact ⟨rfl, rfl⟩

/-! ## which written forms are unambiguous -/

/-- sufficient condition, any vocabulary: the written form is unambiguous when no written name, extended by the first
character of its count, is the beginning of another vocabulary name (and no vocabulary name starts with a count
character) -/
theorem unambig_of_no_clash (names : List Str) (g : Comp) (hne : ∀ nm ∈ names, nm ≠ [])
    (hstart : ∀ nm ∈ names, startsCount nm = false)
    (hk : ∀ kv ∈ g, kv.1 ∈ names) (hv : ∀ kv ∈ g, NumOK kv.2) (hc : NoClash names g = true) :
    Unambig names g = true :=
  unambig_of_noClash names hne hstart g hk hv hc

/-- in the generated vocabulary the only name continued by a count character to another name is `Neu` (by `5`, to
`Neu5Ac` / `Neu5Gc`) -/
theorem only_clash_is_Neu5 : ∀ nm ∈ namesSorted MONO, ∀ c, (isDigit c || c == 45 || c == 46) = true →
    clash (namesSorted MONO) nm c = true → nm = str% "Neu" ∧ c = 53 := by
  have key : ∀ nm ∈ namesSorted MONO, ∀ n ∈ namesSorted MONO,
      (match n.drop nm.length with
        | c :: _ => nm.isPrefixOf n && (isDigit c || c == 45 || c == 46) && !(nm == str% "Neu" && c == 53)
        | [] => false) = false := by decide +kernel
  intro nm hnm c hc hcl
  simp only [clash, List.any_eq_true] at hcl
  obtain ⟨n, hn, hp⟩ := hcl
  obtain ⟨r, hr⟩ := isPrefixOf_iff.1 hp
  have h := key nm hnm n hn
  have hd : n.drop nm.length = c :: r := by
    rw [hr, List.append_assoc, List.drop_left]; rfl
  have hpre : nm.isPrefixOf n = true := isPrefixOf_iff.2 ⟨c :: r, by rw [hr]; simp⟩
  rw [hd] at h
  simp only [hpre, hc, Bool.true_and, Bool.not_eq_false', Bool.and_eq_true, beq_iff_eq] at h
  exact h

/-- hence, for the generated table: every dict over names and synonyms with pairwise different keys and int / finite
decimal counts survives write → parse, provided the count of `Neu` (if present) is not printed with a leading `5`
(the only ambiguous written forms are `Neu5Ac…` / `Neu5Gc…`) -/
theorem glycan_parse_write_gen_all (g : Comp) (hk : ∀ kv ∈ g, kv.1 ∈ namesSorted MONO)
    (hv : ∀ kv ∈ g, NumWF kv.2) (hd : (g.map (·.1)).Nodup)
    (hneu : ∀ kv ∈ g, kv.1 = str% "Neu" → ∀ s, kv.2.show ≠ 53 :: s) :
    parseGlycan MONO (writeGlycan g []) [] = .ok g := by
  have hok : ∀ kv ∈ g, NumOK kv.2 := fun kv hkv => numOK_of_wf kv.2 (hv kv hkv)
  refine glycan_parse_write_gen g ?_ hv hd
  apply unambig_of_noClash (namesSorted MONO) names_nonempty ?_ g hk hok
  · simp only [NoClash, List.all_eq_true]
    intro kv hkv
    cases hsh : kv.2.show with
    | nil => rfl
    | cons c s =>
      simp only [Bool.not_eq_true']
      cases hcl : clash (namesSorted MONO) kv.1 c with
      | false => rfl
      | true =>
        exfalso
        have hc : (isDigit c || c == 45 || c == 46) = true := (hok kv hkv).chars c (by rw [hsh]; simp)
        obtain ⟨h1, h2⟩ := only_clash_is_Neu5 kv.1 (hk kv hkv) c hc hcl
        subst h2
        exact hneu kv hkv h1 s hsh
  · intro nm hnm
    cases hn : nm with
    | nil => rfl
    | cons c r => exact names_start_no_count_char nm hnm c r hn

example : ∀ kv ∈ [(str% "HexNAc", Num.ofInt 4), (str% "Hex", Num.ofInt 5), (str% "Fucose", Num.ofInt 1),
    (str% "Neu", ⟨3/2, true⟩), (str% "Ac", Num.ofInt 20)],
    kv.1 ∈ namesSorted MONO ∧ (kv.1 = str% "Neu" → (match kv.2.show with | 53 :: _ => false | _ => true) = true) := by
  decide +kernel

/-- exactly which written forms are ambiguous in the generated vocabulary: a dict (keys among the 47 names and
synonyms, printable counts) is unambiguous iff it does not contain `Neu` with count text `5` immediately followed by
`Ac` or `Acetyl` (`neu5ac`; the written text then reads `…Neu5Ac…`) -/
theorem unambig_gen_iff (g : Comp) (hk : ∀ kv ∈ g, kv.1 ∈ namesSorted MONO) (hv : ∀ kv ∈ g, NumOK kv.2) :
    Unambig (namesSorted MONO) g = !neu5ac g :=
  gen_unambig_eq g hk hv

/-- the round trip for the generated table with the unambiguity hypothesis made explicit: every dict over names and
synonyms, pairwise different keys, int / finite decimal counts, except `… Neu:5, Ac|Acetyl:… …` -/
theorem glycan_parse_write_gen_exact (g : Comp) (hk : ∀ kv ∈ g, kv.1 ∈ namesSorted MONO)
    (hv : ∀ kv ∈ g, NumWF kv.2) (hd : (g.map (·.1)).Nodup) (hn : neu5ac g = false) :
    parseGlycan MONO (writeGlycan g []) [] = .ok g := by
  refine glycan_parse_write_gen g ?_ hv hd
  rw [gen_unambig_eq g hk (fun kv hkv => numOK_of_wf kv.2 (hv kv hkv)), hn]
  rfl

example : neu5ac [(str% "Neu", Num.ofInt 5), (str% "Hex", Num.ofInt 1), (str% "Ac", Num.ofInt 2)] = false := by
  decide +kernel
example : neu5ac [(str% "Hex", Num.ofInt 1), (str% "Neu", Num.ofInt 5), (str% "Acetyl", Num.ofInt 2)] = true := by
  decide +kernel

/-! ## the separated form (`sep` = one character that is not part of a number) -/

/-- with a separator the text is split at every separator and read as name, count, name, count, …; the vocabulary is
not consulted; a repeated key is accumulated (`foldSep`, equal to `addAll`: `glycan_sep_same_dict`) -/
theorem glycan_parse_write_sep_fold (mono : List Entry) (c : Nat) (g : Comp)
    (hc : (isDigit c || c == 45 || c == 46) = false) (hk : ∀ kv ∈ g, c ∉ kv.1) (hv : ∀ kv ∈ g, NumOK kv.2) :
    parseGlycan mono (writeGlycan g [c]) [c] = .ok (foldSep [] g) := by
  unfold parseGlycan
  cases g with
  | nil => rfl
  | cons kv r =>
    have hne : (writeGlycan (kv :: r) [c]).isEmpty = false := by
      cases r <;> simp [writeGlycan, intercalate]
    have hsep : ([c] != ([] : Str)) = true := by simp
    rw [hne]
    simp only [Bool.false_eq_true, if_false, hsep, if_true]
    rw [gly_splitOn_write c (kv :: r) (by simp), splitFold_tokens (kv :: r) [] hv]
    intro kv' hkv'
    refine ⟨hk kv' hkv', ?_⟩
    intro hmem
    have := (hv kv' hkv').chars c hmem
    rw [hc] at this
    cases this

/-- round trip of the separated form: any keys without the separator, pairwise different -/
theorem glycan_parse_write_sep (mono : List Entry) (c : Nat) (g : Comp)
    (hc : (isDigit c || c == 45 || c == 46) = false) (hk : ∀ kv ∈ g, c ∉ kv.1) (hv : ∀ kv ∈ g, NumOK kv.2)
    (hd : (g.map (·.1)).Nodup) :
    parseGlycan mono (writeGlycan g [c]) [c] = .ok g := by
  rw [glycan_parse_write_sep_fold mono c g hc hk hv, foldSep_distinct g [] (by simpa [gkeys] using hd)]
  rfl

example : writeGlycan [(str% "HexNAc", Num.ofInt 2), (str% "Neu", Num.ofInt 5), (str% "Ac", ⟨1/2, true⟩)] [32] =
    str% "HexNAc 2 Neu 5 Ac 0.5" := by decide +kernel

/-- a repeated key is accumulated in the separated form as well -/
theorem glycan_parse_sep_repeated_key_accumulates :
    parseGlycan MONO (str% "Hex 2 Fuc 1 Hex 3") [32] = .ok [(str% "Hex", Num.ofInt 5), (str% "Fuc", Num.ofInt 1)] := by
  decide +kernel

/-! ## the property, assembled (generated table) -/

/-- C15 for glycans: a dict over the 47 names and synonyms, pairwise different keys, int / finite-decimal counts,
written in a form that is unambiguous — then the text parses to the dict, its mass is the count-weighted sum of the
monosaccharide masses, its composition is the count-weighted sum of the monosaccharide compositions (element by
element), and both sums are unchanged when every synonym is replaced by the name of its entry -/
theorem glycan_formula_property (g : Comp) (isMono : Bool) (hu : Unambig (namesSorted MONO) g = true)
    (hv : ∀ kv ∈ g, NumWF kv.2) (hd : (g.map (·.1)).Nodup) :
    parseGlycan MONO (writeGlycan g []) [] = .ok g ∧
    glycanMassStr MONO isMono (writeGlycan g []) = .ok (massSum MONO isMono g) ∧
    (∃ c, glycanCompStr MONO (writeGlycan g []) = .ok c ∧ (c.map (·.1)).Nodup ∧
      ∀ el, countAt c el = compSum MONO g el) ∧
    massSum MONO isMono (mapKeys (canon MONO) g) = massSum MONO isMono g ∧
    ∀ el, compSum MONO (mapKeys (canon MONO) g) el = compSum MONO g el := by
  have hk := unambig_keys _ g hu
  have hstr := glycan_str_eq_dict g isMono hu hv hd
  have hcanon : ∀ kv ∈ g, monoEntry MONO (canon MONO kv.1) = monoEntry MONO kv.1 :=
    fun kv _ => monoEntry_canon MONO (fun e he => (synonym_eq_name e he).1) kv.1
  refine ⟨glycan_parse_write_gen g hu hv hd, ?_, ?_, massSum_mapKeys MONO isMono _ g hcanon,
    fun el => compSum_mapKeys MONO _ g el hcanon⟩
  · rw [hstr.2]; exact glycan_mass_linear_gen isMono g hk
  · rw [hstr.1]; exact glycan_comp_linear_gen g hk

example : Unambig (namesSorted MONO) [(str% "HexNAc", Num.ofInt 4), (str% "Hex", Num.ofInt 5),
    (str% "Fucose", Num.ofInt 1), (str% "NeuAc", ⟨3/2, true⟩), (str% "S", Num.ofInt (-2))] = true := by
  decide +kernel

/-! ## the tokenizer loop ends -/

/-- with the generated vocabulary the tokenizer never reaches the endless loop (`hang`: an empty name matching):
on every text it ends with a dict or with `InvalidGlycanFormulaError` -/
theorem glycan_parse_total (s : Str) :
    (∃ c, parseGlycan MONO s [] = .ok c) ∨ parseGlycan MONO s [] = .error .invalidGlycanFormula := by
  unfold parseGlycan
  cases s with
  | nil => exact Or.inl ⟨[], rfl⟩
  | cons c r => exact parseGlycanAux_total (namesSorted MONO) names_nonempty (c :: r) 0 []

example : parseGlycan MONO (str% "Hex2Xyz1") [] = .error .invalidGlycanFormula := by decide +kernel
example : parseGlycan MONO (str% "Hex1.2.3") [] = .error .invalidGlycanFormula := by decide +kernel

/-! ## additivity: concatenated glycan texts -/

/-- both paths build the same dict from the same token list: the separated path's fold is `addAll` -/
theorem glycan_sep_same_dict (g d : Comp) : foldSep d g = addAll d g :=
  foldSep_eq_addAll g d

/-- the text of two written token lists put one after the other (repeated names allowed, within and across the
parts) parses to the `addAll`-merge of the two parses, whenever the concatenated text is unambiguous -/
theorem glycan_parse_concat (names : List Str) (g₁ g₂ : Comp)
    (hne : ∀ nm ∈ names, nm ≠ []) (hs : names.Pairwise (fun a b => b.length ≤ a.length))
    (hu : Unambig names (g₁ ++ g₂) = true) (hv : ∀ kv ∈ g₁ ++ g₂, NumOK kv.2) :
    parseGlycanAux names 0 (writeGlycan g₁ []) [] = .ok (addAll [] g₁) ∧
    parseGlycanAux names 0 (writeGlycan g₂ []) [] = .ok (addAll [] g₂) ∧
    parseGlycanAux names 0 (writeGlycan g₁ [] ++ writeGlycan g₂ []) [] =
      .ok (addAll (addAll [] g₁) (addAll [] g₂)) := by
  obtain ⟨hu1, hu2⟩ := unambig_append names g₂ g₁ hu
  have hv1 : ∀ kv ∈ g₁, NumOK kv.2 := fun kv h => hv kv (List.mem_append_left _ h)
  have hv2 : ∀ kv ∈ g₂, NumOK kv.2 := fun kv h => hv kv (List.mem_append_right _ h)
  refine ⟨parseGlycanAux_write names hne hs g₁ [] hu1 hv1, parseGlycanAux_write names hne hs g₂ [] hu2 hv2, ?_⟩
  rw [← writeGlycan_append, parseGlycanAux_write names hne hs (g₁ ++ g₂) [] hu hv, addAll_append,
    addAll_addAll_nil]

example : Unambig (namesSorted MONO) ([(str% "Hex", Num.ofInt 2), (str% "Fuc", Num.ofInt 1)] ++
    [(str% "Hex", Num.ofInt 3), (str% "NeuAc", ⟨1/2, true⟩)]) = true := by decide +kernel
example : addAll (addAll [] [(str% "Hex", Num.ofInt 2), (str% "Fuc", Num.ofInt 1)])
    (addAll [] [(str% "Hex", Num.ofInt 3), (str% "NeuAc", ⟨1/2, true⟩)]) =
    [(str% "Hex", Num.ofInt 5), (str% "Fuc", Num.ofInt 1), (str% "NeuAc", ⟨1/2, true⟩)] := by decide +kernel

/-- mass of a written token list (repeated names allowed) = count-weighted sum over the tokens -/
theorem glycan_mass_str_tokens (g : Comp) (isMono : Bool) (hu : Unambig (namesSorted MONO) g = true)
    (hv : ∀ kv ∈ g, NumWF kv.2) :
    glycanMassStr MONO isMono (writeGlycan g []) = .ok (massSum MONO isMono g) := by
  have hk := unambig_keys _ g hu
  unfold glycanMassStr
  rw [parseGlycan_eq_aux, parseGlycanAux_write _ names_nonempty namesSorted_sorted_gen g [] hu
    (fun kv hkv => numOK_of_wf kv.2 (hv kv hkv))]
  simp only
  rw [glycan_mass_linear_gen isMono (addAll [] g), massSum_addAll]
  · simp [massSum]
  · intro kv hkv
    rcases mem_addAll_key hkv with h | h
    · cases h
    · simp only [gkeys, List.mem_map] at h
      obtain ⟨x, hx, hxk⟩ := h
      rw [← hxk]; exact hk x hx

/-- the mass of a concatenated glycan text is the sum of the masses of the parts -/
theorem glycan_mass_concat (g₁ g₂ : Comp) (isMono : Bool) (hu : Unambig (namesSorted MONO) (g₁ ++ g₂) = true)
    (hv : ∀ kv ∈ g₁ ++ g₂, NumWF kv.2) :
    ∃ m₁ m₂, glycanMassStr MONO isMono (writeGlycan g₁ []) = .ok m₁ ∧
      glycanMassStr MONO isMono (writeGlycan g₂ []) = .ok m₂ ∧
      glycanMassStr MONO isMono (writeGlycan g₁ [] ++ writeGlycan g₂ []) = .ok (m₁ + m₂) := by
  obtain ⟨hu1, hu2⟩ := unambig_append _ g₂ g₁ hu
  refine ⟨massSum MONO isMono g₁, massSum MONO isMono g₂,
    glycan_mass_str_tokens g₁ isMono hu1 (fun kv h => hv kv (List.mem_append_left _ h)),
    glycan_mass_str_tokens g₂ isMono hu2 (fun kv h => hv kv (List.mem_append_right _ h)), ?_⟩
  rw [← writeGlycan_append, glycan_mass_str_tokens (g₁ ++ g₂) isMono hu hv, massSum_append]

/-- composition of a written token list (repeated names allowed): every element once, its count the count-weighted
sum over the tokens -/
theorem glycan_comp_str_tokens (g : Comp) (hu : Unambig (namesSorted MONO) g = true)
    (hv : ∀ kv ∈ g, NumWF kv.2) :
    ∃ c, glycanCompStr MONO (writeGlycan g []) = .ok c ∧ (c.map (·.1)).Nodup ∧
      ∀ el, countAt c el = compSum MONO g el := by
  have hk := unambig_keys _ g hu
  unfold glycanCompStr
  rw [parseGlycan_eq_aux, parseGlycanAux_write _ names_nonempty namesSorted_sorted_gen g [] hu
    (fun kv hkv => numOK_of_wf kv.2 (hv kv hkv))]
  simp only
  obtain ⟨c, h1, h2, h3⟩ := glycan_comp_linear_gen (addAll [] g) (by
    intro kv hkv
    rcases mem_addAll_key hkv with h | h
    · cases h
    · simp only [gkeys, List.mem_map] at h
      obtain ⟨x, hx, hxk⟩ := h
      rw [← hxk]; exact hk x hx)
  refine ⟨c, h1, h2, ?_⟩
  intro el
  rw [h3 el, compSum_addAll]
  simp [compSum]

/-- the composition of a concatenated glycan text is, element by element, the sum of the compositions of the parts -/
theorem glycan_comp_concat (g₁ g₂ : Comp) (hu : Unambig (namesSorted MONO) (g₁ ++ g₂) = true)
    (hv : ∀ kv ∈ g₁ ++ g₂, NumWF kv.2) :
    ∃ c₁ c₂ c, glycanCompStr MONO (writeGlycan g₁ []) = .ok c₁ ∧
      glycanCompStr MONO (writeGlycan g₂ []) = .ok c₂ ∧
      glycanCompStr MONO (writeGlycan g₁ [] ++ writeGlycan g₂ []) = .ok c ∧
      ∀ el, countAt c el = countAt c₁ el + countAt c₂ el := by
  obtain ⟨hu1, hu2⟩ := unambig_append _ g₂ g₁ hu
  obtain ⟨c₁, h1, _, e1⟩ := glycan_comp_str_tokens g₁ hu1 (fun kv h => hv kv (List.mem_append_left _ h))
  obtain ⟨c₂, h2, _, e2⟩ := glycan_comp_str_tokens g₂ hu2 (fun kv h => hv kv (List.mem_append_right _ h))
  obtain ⟨c, h, _, e⟩ := glycan_comp_str_tokens (g₁ ++ g₂) hu hv
  rw [writeGlycan_append] at h
  refine ⟨c₁, c₂, c, h1, h2, h, ?_⟩
  intro el
  rw [e el, e1 el, e2 el, compSum_append]

example : glycanCompStr MONO (str% "Hex2Fuc1" ++ str% "Hex3") =
    .ok [(str% "C", Num.ofInt 36), (str% "H", Num.ofInt 60), (str% "O", Num.ofInt 29)] := by decide +kernel

end C15Glycan
