import PeptVerif.Lemmas.RegexLite
import PeptVerif.Generated.Proteases
import PeptVerif.Spec.Proteases
/-!
# C06 — the cleavage rules themselves

`Gen.proteases` is regenerated from `constants.PROTEASES` of /repo on every run; `Spec.referenceTable` is typed by
hand from the enzymes' documented specificities. The theorems about `sites` hold for every pattern of the modelled
regex subset and every text.
-/
namespace RegexLite

/-- the protease table of /repo, class order normalised, is the hand-typed reference table
(a changed, added or dropped rule breaks this obligation and names the entry by evaluation in the driver) -/
theorem proteases_match_reference :
    Gen.proteases.map (fun e => (e.1, e.2.map Spec.normalize)) =
      Spec.referenceTable.map (fun e => (e.1, e.2.map Spec.normalize)) := by decide +kernel

/-- every rule of the table except `no-cleave` is purely zero-width (look-around only) -/
theorem named_rules_zeroWidth :
    ∀ e ∈ Gen.proteases, e.1 ≠ "no-cleave".toList → ∃ p, e.2 = some p ∧ ∀ it ∈ p, it.zeroWidth = true := by
  decide +kernel

/-- every reported cleavage site lies in `[0, |s|]`, for every pattern and every text -/
theorem sites_in_range (p : Pattern) (s : List Char) : ∀ x ∈ sites p s, x ≤ s.length := sites_le p s

/-- a look-around rule cuts at `x` iff its conditions hold for the two residues adjacent to `x`
(so the sites of such a rule depend only on adjacent residue pairs: the locality used by the
sequential-digest clause); for every zero-width pattern and every text -/
theorem zeroWidth_rule_semantics (p : Pattern) (hz : ∀ it ∈ p, it.zeroWidth = true) (s : List Char) (x : Nat) :
    x ∈ sites p s ↔ x ≤ s.length ∧ holdsAt p (if x = 0 then none else s[x - 1]?) s[x]? = true :=
  mem_sites_zeroWidth p hz s x

/-- the non-specific rule `()` cuts at every position `0..|s|` -/
theorem nonspecific_cuts_everywhere (s : List Char) (x : Nat) : x ∈ sites [] s ↔ x ≤ s.length := by
  rw [mem_sites_zeroWidth [] (by simp)]
  simp [holdsAt]

/-- a consuming one-residue rule such as `([KR])` or `K` cuts after every residue of the class -/
theorem consuming_rule_semantics (cls : List Char) (s : List Char) (x : Nat) :
    x ∈ sites [.consume cls] s ↔ ∃ k, ∃ h : k < s.length, x = k + 1 ∧ cls.contains s[k] = true := by
  unfold sites
  rw [mem_sitesGo_consume1]
  simp

/-- `no-cleave` never cuts a text that does not contain an underscore -/
theorem no_cleave_never (s : List Char) (h : '_' ∉ s) : sites [.consume ['_']] s = [] := by
  apply List.eq_nil_iff_forall_not_mem.mpr
  intro x hx
  rw [consuming_rule_semantics] at hx
  obtain ⟨k, hk, _, hc⟩ := hx
  simp at hc
  exact h (hc ▸ List.getElem_mem hk)

/-- non-vacuity: trypsin on `AKPRA` cuts only after the R (the K is followed by P) -/
example : sites [.behind ['K', 'R'], .aheadNot ['P']] "AKPRA".toList = [4] := by decide

end RegexLite
