import PeptVerif.Lemmas.Search
/-!
# C16 — subsequence search and coverage find every occurrence

Property theorems only. Model: `Model/Search.lean` (the code after the `overlapped=True` repair); `slice` and `==`
are the shared models `Pept.Reorder.slice` and `Pept.annEq`. Helper lemmas: `Lemmas/Search.lean`.

Reading decisions: "the query's modifications equal those of the target on that stretch" is the library's own
slice-and-compare (`other.slice(i, i+|q|) == q`, global modifications compared whole); the unordered test is about the
residue keys that `count_residues` produces.
-/
namespace Pept
namespace Search

/-! ## 1. the scan finds every occurrence, overlapping ones included -/

/-- the model of `regex.finditer(q, t, overlapped=True)` for a literal `q`: offset `k` is reported iff `q` occurs at `k` -/
theorem occurrences_spec (q t : List Char) (k : Nat) :
    k ∈ occurrences q t ↔ k + q.length ≤ t.length ∧ (t.drop k).take q.length = q :=
  mem_occurrences q t k

/-- `find_indices`: offset `i` is returned iff the query's residues occur at `i` and the slice of the target at
that stretch compares equal to the query (`is_subsequence` of the slice: the slice is sliced once more from 0, as
the code does). All lengths, all annotations. -/
theorem findIndices_spec (q t : Annotation) (i : Nat) :
    i ∈ findIndices q t ↔
      i + q.seq.length ≤ t.seq.length ∧ (t.seq.drop i).take q.seq.length = q.seq ∧
      annEq (sliceAt (sliceAt t i q.seq.length) 0 q.seq.length) q = true :=
  mem_findIndices q t i

/-- the same in the form of DESIGN.md §C16 (`slice t i (i+|q|) ≈ q`): for a non-empty query the second slice is the
identity (`sliceAt_idem`), so offset `i` is returned iff the residues occur at `i` and the slice of the target at that
stretch `==` the query. -/
theorem findIndices_spec_slice (q t : Annotation) (hq : 0 < q.seq.length) (i : Nat) :
    i ∈ findIndices q t ↔
      i + q.seq.length ≤ t.seq.length ∧ (t.seq.drop i).take q.seq.length = q.seq ∧
      annEq (sliceAt t i q.seq.length) q = true := by
  rw [findIndices_spec]
  constructor
  · rintro ⟨h1, h2, h3⟩
    rw [sliceAt_idem t i _ hq h1] at h3
    exact ⟨h1, h2, h3⟩
  · rintro ⟨h1, h2, h3⟩
    rw [← sliceAt_idem t i _ hq h1] at h3
    exact ⟨h1, h2, h3⟩

/-- the offsets are strictly increasing: no duplicates, and together with `findIndices_spec` every occurrence —
overlapping or not — is present exactly once -/
theorem findIndices_increasing (q t : Annotation) : (findIndices q t).Pairwise (· < ·) :=
  findIndices_sorted q t

/-- overlapping occurrences are found: `AA` in `AAA` (the witness of KF-C16-overlapping-occurrences) -/
theorem overlapping_found : findIndices (Reorder.plain ['A', 'A']) (Reorder.plain ['A', 'A', 'A']) = [0, 1] := by decide

/-- … whereas the scan without `overlapped=True` (the code before the repair) skips offset 1 -/
theorem nonoverlapping_scan_misses : occNonOverlap ['A', 'A'] ['A', 'A', 'A'] = [0] := by decide

/-! ## 2. with modifications ignored it is plain substring search -/

/-- `find_subsequence_indices(…, ignore_mods=True)` = all offsets of the residue string (and `[]` if either is empty) -/
theorem ignore_mods_substring (t q : Annotation) :
    findSubsequenceIndices t q true = if t.seq = [] ∨ q.seq = [] then [] else occurrences q.seq t.seq := by
  unfold findSubsequenceIndices
  by_cases ht : t.seq = []
  · simp [ht]
  · by_cases hq : q.seq = []
    · simp [hq]
    · have h1 : t.seq.isEmpty = false := by cases h : t.seq <;> simp_all
      have h2 : q.seq.isEmpty = false := by cases h : q.seq <;> simp_all
      simp only [h1, h2, ht, hq, Bool.false_eq_true, if_false, if_true, or_self, strip]
      exact findIndices_plain q.seq t.seq

example : findSubsequenceIndices { seq := ['A', 'A', 'A'], nterm := some [⟨.str ['x'], 1⟩] } (Reorder.plain ['A', 'A']) true
    = [0, 1] := by decide

/-! ## 3. coverage -/

/-- `coverage(..., accumulate=False)`: position `j` is marked 1 iff some listed subsequence has an occurrence
containing `j`, else it is 0 -/
theorem coverage_iff (t : Annotation) (subs : List Annotation) (ign : Bool) (j : Nat) (hj : j < t.seq.length) :
    (coverage t subs false ign)[j]? =
      some (if ∃ q ∈ subs, ∃ i ∈ findSubsequenceIndices t q ign, i ≤ j ∧ j < i + q.seq.length then 1 else 0) := by
  rw [coverage_eq_applyOccs, applyOccs_set _ _ (allOccs_valid t subs ign) j (by simpa using hj)]
  congr 1
  by_cases h : ∃ q ∈ subs, ∃ i ∈ findSubsequenceIndices t q ign, i ≤ j ∧ j < i + q.seq.length
  · rw [if_pos ((allOccs_any t subs ign j).mpr h), if_pos h]
  · have : ¬ ((allOccs t subs ign).any (covers j) = true) := fun hh => h ((allOccs_any t subs ign j).mp hh)
    rw [if_neg this, if_neg h]; simp

/-- `coverage(..., accumulate=True)`: position `j` holds the number of (subsequence, occurrence) pairs containing it -/
theorem coverage_accumulate_count (t : Annotation) (subs : List Annotation) (ign : Bool) (j : Nat)
    (hj : j < t.seq.length) :
    (coverage t subs true ign)[j]? =
      some ((subs.map fun q => ((findSubsequenceIndices t q ign).filter
          (fun i => decide (i ≤ j ∧ j < i + q.seq.length))).length).sum) := by
  rw [coverage_eq_applyOccs, applyOccs_add _ _ (allOccs_valid t subs ign) j (by simpa using hj)]
  simp [allOccs_count]

/-- the coverage array has one entry per residue of the target -/
theorem coverage_length (t : Annotation) (subs : List Annotation) (acc ign : Bool) :
    (coverage t subs acc ign).length = t.seq.length := by
  rw [coverage_eq_applyOccs, applyOccs_length _ _ _ (allOccs_valid t subs ign)]; simp

/-- `percent_coverage` is the fraction of marked positions and lies in `[0, 1]` -/
theorem percent_coverage_unit (t : Annotation) (subs : List Annotation) (ign : Bool) :
    percentCoverage t subs ign
        = (((coverage t subs false ign).countP (· ≠ 0) : Nat) : Rat) / ((t.seq.length : Nat) : Rat)
      ∧ 0 ≤ percentCoverage t subs ign ∧ percentCoverage t subs ign ≤ 1 := by
  have hlen := coverage_length t subs false ign
  have hle : ∀ x ∈ coverage t subs false ign, x ≤ 1 := by
    intro x hx
    obtain ⟨j, hjl, rfl⟩ := List.getElem_of_mem hx
    have := coverage_iff t subs ign j (by rw [← hlen]; exact hjl)
    rw [List.getElem?_eq_getElem hjl] at this
    have := Option.some.inj this
    rw [this]; split <;> omega
  have hsum := sum_eq_countP_of_le_one _ hle
  have hsl := sum_le_length_of_le_one _ hle
  unfold percentCoverage
  simp only [hlen]
  by_cases hn : t.seq.length = 0
  · simp [hn]
  · simp only [hn, if_false]
    have hpos : (0 : Rat) < ((t.seq.length : Nat) : Rat) := by exact_mod_cast Nat.pos_of_ne_zero hn
    refine ⟨by rw [hsum], div_nonneg (by exact_mod_cast Nat.zero_le _) (le_of_lt hpos), ?_⟩
    rw [div_le_one hpos]
    rw [hlen] at hsl
    exact_mod_cast hsl

example : coverage (Reorder.plain ['A', 'A', 'A', 'K']) [Reorder.plain ['A', 'A']] true false = [1, 2, 1, 0] := by decide

/-! ## 4. order-insensitive containment -/

/-- the test `all(sub_counts[k] <= seq_counts[k] for k in sub_counts)` holds exactly when every key occurs in the
query at most as often as in the target -/
theorem unordered_iff_count_le {κ : Type} [DecidableEq κ] (sub seq : List κ) :
    unorderedContained sub seq = true ↔ ∀ k, sub.count k ≤ seq.count k := by
  unfold unorderedContained
  rw [List.all_eq_true]
  constructor
  · intro h k
    by_cases hk : k ∈ sub
    · simpa using h k hk
    · rw [List.count_eq_zero_of_not_mem hk]; exact Nat.zero_le _
  · intro h k _
    simpa using h k

/-- … i.e. exactly when the multiset of the query's keys is contained in that of the target's -/
theorem unordered_iff_multiset_le {κ : Type} [DecidableEq κ] (sub seq : List κ) :
    unorderedContained sub seq = true ↔ (sub : Multiset κ) ≤ (seq : Multiset κ) := by
  rw [unordered_iff_count_le, Multiset.le_iff_count]
  simp only [Multiset.coe_count]

example : unorderedContained ['T', 'E', 'P'] ['P', 'E', 'P', 'T'] = true := by decide
example : unorderedContained ['P', 'P', 'P'] ['P', 'E', 'P', 'T'] = false := by decide

/-! ## 5. order-insensitive containment on the real residue keys

`is_subsequence(q, t, order=False)` after the repair 92a74e5 (`isSubsequenceUnordered`): both annotations are condensed
and split into one-residue pieces, the pieces are counted under a key whose equality is `==` (`annEq`).
`eqCanon` (Lemmas/AnnotCanon.lean, C20) is the canonical form of an annotation modulo `==`: every modification list
as a multiset of (value, multiplier) keys. -/

open Classical in
/-- full statement, repaired code: the test holds exactly when the multiset of the query's modified residues
(pieces modulo `==`, i.e. whatever the order in which modifications are written) is contained in the target's -/
theorem unordered_iff_multiset_le_pieces (q t : Annotation) (qs ts : List Annotation)
    (hq : residuePieces q = .ok qs) (ht : residuePieces t = .ok ts) :
    isSubsequenceUnordered q t = .ok true ↔
      ((qs.map eqCanon : List EqCanon) : Multiset EqCanon) ≤ ((ts.map eqCanon : List EqCanon) : Multiset EqCanon) := by
  unfold isSubsequenceUnordered
  rw [hq, ht]
  simp only [Except.ok.injEq]
  exact piecesContained_iff_multiset qs ts


/-- the answer does not depend on how the modifications of any piece are ordered (or spelled, as long as `==` holds):
replacing pieces by `==`-equal pieces on either side changes nothing -/
theorem unordered_order_free (qs qs' ts ts' : List Annotation)
    (hq : Rel2 (fun x y => annEq x y = true) qs qs') (ht : Rel2 (fun x y => annEq x y = true) ts ts') :
    piecesContained qs ts = piecesContained qs' ts' := by
  rw [Bool.eq_iff_iff, piecesContained_iff_multiset, piecesContained_iff_multiset,
    map_eqCanon_of_rel2 _ _ hq, map_eqCanon_of_rel2 _ _ ht]

/-- the code before the repair (KF-C16-unordered-mod-order, `isSubsequenceUnorderedText`): the same multiset-inclusion
test, but on the *texts* that `count_residues` produces — `unordered_iff_multiset_le` for the real keys -/
theorem unordered_text_spec (q t : Annotation) (b : Bool) (h : isSubsequenceUnorderedText q t = .ok b) :
    ∃ cq ct, Static.condenseStatic q = .ok cq ∧ Static.condenseStatic t = .ok ct ∧
      b = unorderedContained ((Static.splitPieces cq).map fun p => Static.serialize p)
            ((Static.splitPieces ct).map fun p => Static.serialize p) := by
  unfold isSubsequenceUnorderedText Static.countResidues at h
  cases hq : Static.condenseStatic q with
  | error e => simp [hq] at h
  | ok cq =>
    cases ht : Static.condenseStatic t with
    | error e => simp [hq, ht] at h
    | ok ct =>
      simp only [hq, ht, Static.countResiduesRaw, Except.ok.injEq] at h
      refine ⟨cq, ct, rfl, rfl, ?_⟩
      rw [← h]
      exact counter_test_eq _ _

/-- `_partial` for the code before the repair. The full statement (`… = piecesContained qs ts`, i.e. multiset inclusion
of modified residues) holds for the text keys exactly under the extra hypothesis `H`: two pieces are spelled alike
iff they are `==`. Its `←` half is "every residue's modifications are written in one canonical order" — the half the
old code violated; its `→` half is injectivity of the serialiser on the pieces (C01). -/
theorem unordered_text_partial (qs ts : List Annotation) (ser : Annotation → List Char)
    (H : ∀ p ∈ qs ++ ts, ∀ p' ∈ qs ++ ts, ser p = ser p' ↔ annEq p p' = true) :
    unorderedContained (qs.map ser) (ts.map ser) = piecesContained qs ts := by
  have hc : ∀ p ∈ qs ++ ts, ∀ l : List Annotation, (∀ a ∈ l, a ∈ qs ++ ts) →
      @List.count _ instBEqOfDecidableEq (ser p) (l.map ser) = l.countP (annEq p) := by
    intro p hp l hl
    rw [count_inst_irrel instBEqOfDecidableEq List.instBEq, List.count, List.countP_map]
    apply List.countP_congr
    intro a ha
    simp only [Function.comp, beq_iff_eq]
    rw [← H p hp a (hl a ha)]
    exact eq_comm
  rw [Bool.eq_iff_iff]
  unfold unorderedContained piecesContained
  rw [List.all_eq_true, List.all_eq_true]
  constructor
  · intro h p hp
    have := h (ser p) (List.mem_map.mpr ⟨p, hp, rfl⟩)
    rw [hc p (by simp [hp]) qs (fun a ha => by simp [ha]), hc p (by simp [hp]) ts (fun a ha => by simp [ha])] at this
    exact this
  · intro h k hk
    obtain ⟨p, hp, rfl⟩ := List.mem_map.mp hk
    rw [hc p (by simp [hp]) qs (fun a ha => by simp [ha]), hc p (by simp [hp]) ts (fun a ha => by simp [ha])]
    exact h p hp

/-- the full statement is false for the text-keyed test: `A[15.995][Oxidation]` in `A[Oxidation][15.995]`
(the witness of KF-C16-unordered-mod-order) is rejected by it and accepted by the repaired test -/
theorem unordered_text_full_false_on_old_code :
    isSubsequenceUnorderedText
        { seq := ['A'], internal := some [(0, [⟨.flt "15.995".toList, 1⟩, ⟨.str "Oxidation".toList, 1⟩])] }
        { seq := ['A'], internal := some [(0, [⟨.str "Oxidation".toList, 1⟩, ⟨.flt "15.995".toList, 1⟩])] } = .ok false ∧
    isSubsequenceUnordered
        { seq := ['A'], internal := some [(0, [⟨.flt "15.995".toList, 1⟩, ⟨.str "Oxidation".toList, 1⟩])] }
        { seq := ['A'], internal := some [(0, [⟨.str "Oxidation".toList, 1⟩, ⟨.flt "15.995".toList, 1⟩])] } = .ok true := by
  decide

example : residuePieces { seq := ['A', 'K'], static := some [⟨.str "[Oxidation]@K".toList, 1⟩] }
    = .ok [{ seq := ['A'], internal := some [] }, { seq := ['K'], internal := some [(0, [⟨.str "Oxidation".toList, 1⟩])] }] := by decide

end Search
end Pept
