import PeptVerif.Lemmas.Search
/-!
# C16 — subsequence search and coverage find every occurrence

Property theorems only. Model: `Model/Search.lean` (the code after the `overlapped=True` repair); `slice` and `==`
are the shared models `Pept.Reorder.slice` and `Pept.annEq`. Helper lemmas: `Lemmas/Search.lean`.

Reading decisions: "the query's modifications equal those of the target on that stretch" is the library's own
slice-and-compare (`other.slice(i, i+|q|) == q`, global modifications compared whole); the unordered test is about the
residue keys that `count_residues` produces.
-/
namespace Pept
namespace Search

/-! ## 1. the scan finds every occurrence, overlapping ones included -/

/-- the model of `regex.finditer(q, t, overlapped=True)` for a literal `q`: offset `k` is reported iff `q` occurs at `k` -/
theorem occurrences_spec (q t : List Char) (k : Nat) :
    k ∈ occurrences q t ↔ k + q.length ≤ t.length ∧ (t.drop k).take q.length = q :=
  mem_occurrences q t k

/-- `find_indices`: offset `i` is returned iff the query's residues occur at `i` and the slice of the target at
that stretch compares equal to the query (`is_subsequence` of the slice: the slice is sliced once more from 0, as
the code does). All lengths, all annotations. -/
theorem findIndices_spec (q t : Annotation) (i : Nat) :
    i ∈ findIndices q t ↔
      i + q.seq.length ≤ t.seq.length ∧ (t.seq.drop i).take q.seq.length = q.seq ∧
      annEq (sliceAt (sliceAt t i q.seq.length) 0 q.seq.length) q = true :=
  mem_findIndices q t i

/-- the same in the form of DESIGN.md §C16 (`slice t i (i+|q|) ≈ q`): for a non-empty query the second slice is the
identity (`sliceAt_idem`), so offset `i` is returned iff the residues occur at `i` and the slice of the target at that
stretch `==` the query. -/
theorem findIndices_spec_slice (q t : Annotation) (hq : 0 < q.seq.length) (i : Nat) :
    i ∈ findIndices q t ↔
      i + q.seq.length ≤ t.seq.length ∧ (t.seq.drop i).take q.seq.length = q.seq ∧
      annEq (sliceAt t i q.seq.length) q = true := by
  rw [findIndices_spec]
  constructor
  · rintro ⟨h1, h2, h3⟩
    rw [sliceAt_idem t i _ hq h1] at h3
    exact ⟨h1, h2, h3⟩
  · rintro ⟨h1, h2, h3⟩
    rw [← sliceAt_idem t i _ hq h1] at h3
    exact ⟨h1, h2, h3⟩

/-- the offsets are strictly increasing: no duplicates, and together with `findIndices_spec` every occurrence —
overlapping or not — is present exactly once -/
theorem findIndices_increasing (q t : Annotation) : (findIndices q t).Pairwise (· < ·) :=
  findIndices_sorted q t

/-- overlapping occurrences are found: `AA` in `AAA` (the witness of KF-C16-overlapping-occurrences) -/
theorem overlapping_found : findIndices (Reorder.plain ['A', 'A']) (Reorder.plain ['A', 'A', 'A']) = [0, 1] := by decide

/-- … whereas the scan without `overlapped=True` (the code before the repair) skips offset 1 -/
theorem nonoverlapping_scan_misses : occNonOverlap ['A', 'A'] ['A', 'A', 'A'] = [0] := by decide

/-! ## 2. with modifications ignored it is plain substring search -/

/-- `find_subsequence_indices(…, ignore_mods=True)` = all offsets of the residue string (and `[]` if either is empty) -/
theorem ignore_mods_substring (t q : Annotation) :
    findSubsequenceIndices t q true = if t.seq = [] ∨ q.seq = [] then [] else occurrences q.seq t.seq := by
  unfold findSubsequenceIndices
  by_cases ht : t.seq = []
  · simp [ht]
  · by_cases hq : q.seq = []
    · simp [hq]
    · have h1 : t.seq.isEmpty = false := by cases h : t.seq <;> simp_all
      have h2 : q.seq.isEmpty = false := by cases h : q.seq <;> simp_all
      simp only [h1, h2, ht, hq, Bool.false_eq_true, if_false, if_true, or_self, strip]
      exact findIndices_plain q.seq t.seq

example : findSubsequenceIndices { seq := ['A', 'A', 'A'], nterm := some [⟨.str ['x'], 1⟩] } (Reorder.plain ['A', 'A']) true
    = [0, 1] := by decide

/-! ## 3. coverage -/

/-- `coverage(..., accumulate=False)`: position `j` is marked 1 iff some listed subsequence has an occurrence
containing `j`, else it is 0 -/
theorem coverage_iff (t : Annotation) (subs : List Annotation) (ign : Bool) (j : Nat) (hj : j < t.seq.length) :
    (coverage t subs false ign)[j]? =
      some (if ∃ q ∈ subs, ∃ i ∈ findSubsequenceIndices t q ign, i ≤ j ∧ j < i + q.seq.length then 1 else 0) := by
  rw [coverage_eq_applyOccs, applyOccs_set _ _ (allOccs_valid t subs ign) j (by simpa using hj)]
  congr 1
  by_cases h : ∃ q ∈ subs, ∃ i ∈ findSubsequenceIndices t q ign, i ≤ j ∧ j < i + q.seq.length
  · rw [if_pos ((allOccs_any t subs ign j).mpr h), if_pos h]
  · have : ¬ ((allOccs t subs ign).any (covers j) = true) := fun hh => h ((allOccs_any t subs ign j).mp hh)
    rw [if_neg this, if_neg h]; simp

/-- `coverage(..., accumulate=True)`: position `j` holds the number of (subsequence, occurrence) pairs containing it -/
theorem coverage_accumulate_count (t : Annotation) (subs : List Annotation) (ign : Bool) (j : Nat)
    (hj : j < t.seq.length) :
    (coverage t subs true ign)[j]? =
      some ((subs.map fun q => ((findSubsequenceIndices t q ign).filter
          (fun i => decide (i ≤ j ∧ j < i + q.seq.length))).length).sum) := by
  rw [coverage_eq_applyOccs, applyOccs_add _ _ (allOccs_valid t subs ign) j (by simpa using hj)]
  simp [allOccs_count]

/-- the coverage array has one entry per residue of the target -/
theorem coverage_length (t : Annotation) (subs : List Annotation) (acc ign : Bool) :
    (coverage t subs acc ign).length = t.seq.length := by
  rw [coverage_eq_applyOccs, applyOccs_length _ _ _ (allOccs_valid t subs ign)]; simp

/-- `percent_coverage` is the fraction of marked positions and lies in `[0, 1]` -/
theorem percent_coverage_unit (t : Annotation) (subs : List Annotation) (ign : Bool) :
    percentCoverage t subs ign
        = (((coverage t subs false ign).countP (· ≠ 0) : Nat) : Rat) / ((t.seq.length : Nat) : Rat)
      ∧ 0 ≤ percentCoverage t subs ign ∧ percentCoverage t subs ign ≤ 1 := by
  have hlen := coverage_length t subs false ign
  have hle : ∀ x ∈ coverage t subs false ign, x ≤ 1 := by
    intro x hx
    obtain ⟨j, hjl, rfl⟩ := List.getElem_of_mem hx
    have := coverage_iff t subs ign j (by rw [← hlen]; exact hjl)
    rw [List.getElem?_eq_getElem hjl] at this
    have := Option.some.inj this
    rw [this]; split <;> omega
  have hsum := sum_eq_countP_of_le_one _ hle
  have hsl := sum_le_length_of_le_one _ hle
  unfold percentCoverage
  simp only [hlen]
  by_cases hn : t.seq.length = 0
  · simp [hn]
  · simp only [hn, if_false]
    have hpos : (0 : Rat) < ((t.seq.length : Nat) : Rat) := by exact_mod_cast Nat.pos_of_ne_zero hn
    refine ⟨by rw [hsum], div_nonneg (by exact_mod_cast Nat.zero_le _) (le_of_lt hpos), ?_⟩
    rw [div_le_one hpos]
    rw [hlen] at hsl
    exact_mod_cast hsl

example : coverage (Reorder.plain ['A', 'A', 'A', 'K']) [Reorder.plain ['A', 'A']] true false = [1, 2, 1, 0] := by decide

/-! ## 4. order-insensitive containment -/

/-- the test `all(sub_counts[k] <= seq_counts[k] for k in sub_counts)` holds exactly when every key occurs in the
query at most as often as in the target -/
theorem unordered_iff_count_le {κ : Type} [DecidableEq κ] (sub seq : List κ) :
    unorderedContained sub seq = true ↔ ∀ k, sub.count k ≤ seq.count k := by
  unfold unorderedContained
  rw [List.all_eq_true]
  constructor
  · intro h k
    by_cases hk : k ∈ sub
    · simpa using h k hk
    · rw [List.count_eq_zero_of_not_mem hk]; exact Nat.zero_le _
  · intro h k _
    simpa using h k

/-- … i.e. exactly when the multiset of the query's keys is contained in that of the target's -/
theorem unordered_iff_multiset_le {κ : Type} [DecidableEq κ] (sub seq : List κ) :
    unorderedContained sub seq = true ↔ (sub : Multiset κ) ≤ (seq : Multiset κ) := by
  rw [unordered_iff_count_le, Multiset.le_iff_count]
  simp only [Multiset.coe_count]

example : unorderedContained ['T', 'E', 'P'] ['P', 'E', 'P', 'T'] = true := by decide
example : unorderedContained ['P', 'P', 'P'] ['P', 'E', 'P', 'T'] = false := by decide

end Search
end Pept
