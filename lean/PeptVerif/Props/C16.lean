import PeptVerif.Model.Search
/-!
# C16 — subsequence search and coverage find every occurrence

Property theorems only. Model: `Model/Search.lean`.
-/
namespace Pept
namespace Search

/-- C16, order-insensitive containment: the test `all(sub_counts[k] <= seq_counts[k] for k in sub_counts)` holds
exactly when every key occurs in the query at most as often as in the target (multiset inclusion). -/
theorem unordered_iff_count_le {κ : Type} [DecidableEq κ] (sub seq : List κ) :
    unorderedContained sub seq = true ↔ ∀ k, sub.count k ≤ seq.count k := by
  unfold unorderedContained
  rw [List.all_eq_true]
  constructor
  · intro h k
    by_cases hk : k ∈ sub
    · simpa using h k hk
    · rw [List.count_eq_zero_of_not_mem hk]; exact Nat.zero_le _
  · intro h k _
    simpa using h k

example : unorderedContained ['T', 'E', 'P'] ['P', 'E', 'P', 'T'] = true := by decide
example : unorderedContained ['P', 'P', 'P'] ['P', 'E', 'P', 'T'] = false := by decide

end Search
end Pept
