import Mathlib.Tactic.Tauto
import PeptVerif.Lemmas.ConcreteEnv
import PeptVerif.Lemmas.ConcreteBridge
import PeptVerif.Lemmas.ConcreteKeys
import PeptVerif.Lemmas.DecText
import PeptVerif.Props.C18
/-!
# C18 over the concrete tables of /repo

`Props/C18.lean` proves the theorems about `condense_to_mass_mods` for ANY weights, and with a label in force under the
hypothesis `Coherent`. Here the environment is the concrete one (`Model/ConcreteEnv.lean`: tables regenerated from /repo on
every run + a modification resolver), for which `Coherent` is a theorem (`Lemmas/ConcreteEnv.lean`), and the no-label
statement is carried over to the concrete mass model of C02 (`Mass.mass`, `Model/Mass.lean`) through the fast-path bridge.
-/
namespace Pept
namespace C18Concrete
open Chem AbsMass Static CondenseMass Concrete

/-- the resolver weighs a written number by its value (what `mod_mass` does for an int and for a float) -/
structure ResolverNumeric (env : Pept.Env) : Prop where
  int : ∀ i : ℤ, (env.res (.int i)).mono = .ok (i : ℚ)
  flt : ∀ t : List Char, (env.res (.flt t)).mono = .ok (valOfText t)

theorem mu_int (env : Pept.Env) (h : ResolverNumeric env) (ion : Key) (ch iso : Int) (loss : ℚ) (i : ℤ) :
    (envFor env ion true ch iso loss).mu (.int i) = i := by
  show muOf env true (.int i) = i
  unfold muOf; simp only [if_true, h.int i]

theorem mu_flt (env : Pept.Env) (h : ResolverNumeric env) (ion : Key) (ch iso : Int) (loss : ℚ) (t : List Char) :
    (envFor env ion true ch iso loss).mu (.flt t) = valOfText t := by
  show muOf env true (.flt t) = valOfText t
  unfold muOf; simp only [if_true, h.flt t]

/-- a numeric modification resolves -/
theorem numeric_resolves (env : Pept.Env) (h : ResolverNumeric env) (m : Mod) (hm : C18.NumericMod m) :
    Spec.modResolves env true m = true := by
  unfold Spec.modResolves
  rcases hm.2 with ⟨i, hi⟩ | ⟨r, hr⟩
  · simp only [if_true, hi, h.int i]
  · simp only [if_true, hr, h.flt r]

theorem placedMods_subset_allMods (b : Annotation) (ion : Key) : ∀ x ∈ Spec.placedMods b ion, x ∈ allMods b := by
  intro x hx
  unfold Spec.placedMods at hx
  unfold allMods
  simp only [List.mem_append] at hx ⊢
  by_cases hi : ion = Mass.ionP
  · simp only [hi, if_true] at hx; tauto
  · simp only [hi, if_false, List.not_mem_nil, false_or] at hx; tauto

/-- **C18's mass clause in the concrete mass model of C02** (no isotope label): `condense_to_mass_mods` computed with the
masses of the generated tables returns an annotation `n`; `Mass.mass` of the input and `Mass.mass` of `n` both succeed and
differ by at most ½·10⁻ᵖ per number written plus 10⁻⁶ per nonzero residue total under the cut-off. -/
theorem condense_mass_concrete (env : Pept.Env) (hnum : ResolverNumeric env) (a n : Annotation) (p : ℕ)
    (hiso : a.isotope = none) (hadd : a.adducts = none) (hr : InRange a)
    (hdom : Spec.inDomain env a Mass.ionP true none = true) (hparse : ParseAgrees env a)
    (h : condenseToMassAnn (envFor env Mass.ionP true (a.charge.getD 0) 0 0) a p = .ok n) :
    ∃ c s x y, condenseStatic a = .ok c ∧ shiftsOf (envFor env Mass.ionP true (a.charge.getD 0) 0 0) c p = .ok s ∧
      n = render c s p ∧ Mass.mass env a {} = .ok x ∧ Mass.mass env n {} = .ok y ∧
      |y - x| ≤ (written c s : ℚ) * halfUlp p +
        (droppedNonzero (diffsOf (envFor env Mass.ionP true (a.charge.getD 0) 0 0) c) : ℚ) * threshold := by
  have hint := mu_int env hnum Mass.ionP (a.charge.getD 0) 0 0
  have hflt := mu_flt env hnum Mass.ionP (a.charge.getD 0) 0 0
  obtain ⟨c, s, x, hc, hs, hn', hx, hb⟩ :=
    C18.condense_mass (envFor env Mass.ionP true (a.charge.getD 0) 0 0) a n p hiso hr hint rfl h
  have hout := C18.condense_mass_output (envFor env Mass.ionP true (a.charge.getD 0) 0 0) c s p
    (C18.numericMu_satisfiable _ p hint hflt) rfl
  -- fields of the condensed annotation
  have hfields : c.adducts = a.adducts ∧ c.charge = a.charge ∧ c.seq = a.seq := by
    refine ⟨?_, ?_, condenseStatic_seq a c hc⟩
    all_goals
      unfold condenseStatic at hc
      cases hs' : a.static with
      | none => simp only [hs'] at hc; have := (Except.ok.inj hc).symm; subst this; rfl
      | some st =>
        obtain ⟨m, _, hm2, _⟩ := hparse st hs'
        simp only [hs', hm2] at hc
        have := (Except.ok.inj hc).symm; subst this; rfl
  obtain ⟨hca, hcc, hcseq⟩ := hfields
  -- the input, through the bridge
  obtain ⟨x', hx1, hx2⟩ := mass_bridge env a {} rfl hiso rfl hadd rfl hdom hparse
  have hxe : x' = x := by
    have : AbsMass.massOf (envFor env Mass.ionP true ((Mass.effCharge a {}).getD 0) 0 0) a = .ok x := hx
    rw [hx2] at this; exact Except.ok.inj this
  subst hxe
  -- the output, through the bridge
  have hnum_n := C18.condense_numeric_only _ a n p h
  have hdom_n : Spec.inDomain env n Mass.ionP true none = true := by
    unfold Spec.inDomain at hdom ⊢
    simp only [Bool.and_eq_true] at hdom ⊢
    obtain ⟨⟨⟨⟨hres, hoff⟩, _⟩, _⟩, _⟩ := hdom
    have hseq : n.seq = a.seq := by rw [hn']; exact hcseq
    refine ⟨⟨⟨⟨by rw [hseq]; exact hres, hoff⟩, ?_⟩, by rw [hnum_n.1]⟩, trivial⟩
    rw [List.all_eq_true]
    intro m hm
    exact numeric_resolves env hnum m (hnum_n.2.2 m (placedMods_subset_allMods n _ m hm))
  have hparse_n : ParseAgrees env n := by intro st hst; rw [hnum_n.1] at hst; cases hst
  have hn_add : n.adducts = none := by rw [hn']; show c.adducts = none; rw [hca, hadd]
  obtain ⟨y, hy1, hy2⟩ := mass_bridge env n {} rfl hnum_n.2.1 rfl hn_add rfl hdom_n hparse_n
  have hch : (Mass.effCharge n {}).getD 0 = a.charge.getD 0 := by
    have : n.charge = a.charge := by rw [hn']; show c.charge = a.charge; exact hcc
    show n.charge.getD 0 = a.charge.getD 0
    rw [this]
  rw [hch] at hy2
  have hye : y = outMass (envFor env Mass.ionP true (a.charge.getD 0) 0 0) c s p := by
    rw [hn'] at hy2
    rw [hout] at hy2
    exact (Except.ok.inj hy2).symm
  subst hye
  exact ⟨c, s, _, _, hc, hs, hn', hx1, hy1, hb⟩

/-- **C18's mass clause with an isotope label, over the concrete tables**: `Coherent` is no longer a hypothesis — it is
`coherent_envOf`, kernel-checked on the regenerated tables. What remains assumed is about the RESOLVED modification masses
only: every modification resolves, ints weigh themselves, and each modification written outside a residue position has a
tabulated mass within `δ` of the mass of its composition. Bound: `k·½·10⁻ᵖ + z·10⁻⁶ + j·δ`. -/
theorem condense_mass_label_concrete (env : Pept.Env) (mono : Bool) (a n : Annotation) (p : ℕ) (m0 : Mod) (L : List Mod)
    (lm : LabelMap) (δ : ℚ)
    (hiso : a.isotope = some (m0 :: L)) (hl : parseIsotopeMods (envOf env mono).knownLabel (m0 :: L) = .ok lm)
    (hr : InRange a) (hint : ∀ i : ℤ, (envOf env mono).mu (.int i) = i)
    (hres : ∀ c, condenseStatic a = .ok c → ∀ m ∈ allMods c, isBad (envOf env mono) m = false)
    (hrule : absentRuleBad (envOf env mono) a = false)
    (h : condenseToMassAnn (envOf env mono) a p = .ok n)
    (hδ : ∀ c, condenseStatic a = .ok c → ∀ m ∈ outsideMods c,
      |AbsMass.modMass (envOf env mono) m - AbsMass.modMass (envC (envOf env mono)) m| ≤ δ) :
    ∃ c s x, condenseStatic a = .ok c ∧ shiftsOf (envOf env mono) c p = .ok s ∧ n = render c s p ∧
      massOf (envOf env mono) a = .ok x ∧
      |outMass (envOf env mono) c s p - x| ≤ (writtenL c s : ℚ) * halfUlp p +
        (droppedL (envOf env mono) lm c : ℚ) * threshold + δ * ((outsideMods c).length : ℚ) :=
  C18.condense_mass_label_delta (envOf env mono) (coherent_envOf env mono) a n p m0 L lm δ hiso hl hr hint hres hrule h hδ

/-- what is assumed about the RESOLVED modification masses, in terms of the resolver alone: a plain shift is weighed as that
shift; a value with a composition has a tabulated mass within `δ` of the mass of that composition under the generated
element table (C03 / C10's subject; ≈ 1e-6 for Unimod / PSI-MOD names on /repo), and its element keys fit in 8 bytes -/
structure ResolverClose (env : Pept.Env) (mono : Bool) (δ : ℚ) : Prop where
  nonneg : 0 ≤ δ
  delta : ∀ v d, (env.res v).delta = .ok (some d) → muOf env mono v = d
  comp : ∀ v c, (env.res v).delta = .ok none → (env.res v).comp = .ok c →
    SmallKeys c ∧ |muOf env mono v - chemMassL (fun e => (elemMass mono e).getD 0) c| ≤ δ

/-- from the resolver-level hypothesis to the per-modification tolerance of the abstract theorem -/
theorem modMass_close (env : Pept.Env) (mono : Bool) (δ : ℚ) (h : ResolverClose env mono δ) (m : Mod)
    (hres : isBad (envOf env mono) m = false) :
    |AbsMass.modMass (envOf env mono) m - AbsMass.modMass (envC (envOf env mono)) m| ≤ δ * |(m.mult : ℚ)| := by
  have hmu : (envOf env mono).mu = muOf env mono := rfl
  have hmr : (envOf env mono).modRes = modResOf env := rfl
  have hem : (envOf env mono).em = emOf mono := rfl
  unfold AbsMass.modMass envC
  simp only [hmu, hmr, hem]
  unfold isBad at hres
  rw [hmr] at hres
  unfold modResOf at hres ⊢
  cases hd : (env.res m.val).delta with
  | error e => rw [hd] at hres; simp at hres
  | ok od =>
    cases od with
    | some d =>
      simp only [h.delta m.val d hd, sub_self, abs_zero]
      exact mul_nonneg h.nonneg (abs_nonneg _)
    | none =>
      rw [hd] at hres
      cases hc : (env.res m.val).comp with
      | error e => rw [hc] at hres; simp at hres
      | ok c =>
        obtain ⟨hk, hb⟩ := h.comp m.val c hd hc
        simp only [chemMass_decodeComp mono c hk]
        rw [← sub_mul, abs_mul]
        exact mul_le_mul_of_nonneg_right hb (abs_nonneg _)

/-- **C18's mass clause with an isotope label over the concrete tables, hypotheses on the resolver only**: every modification
of the condensed annotation resolves, ints weigh themselves, the resolved masses are `δ`-close to their compositions
(`ResolverClose`). Bound: `k·½·10⁻ᵖ + z·10⁻⁶ + δ·Σ|multiplier|` over the modifications written outside residue positions. -/
theorem condense_mass_label_resolved (env : Pept.Env) (mono : Bool) (a n : Annotation) (p : ℕ) (m0 : Mod) (L : List Mod)
    (lm : LabelMap) (δ : ℚ) (hclose : ResolverClose env mono δ)
    (hiso : a.isotope = some (m0 :: L)) (hl : parseIsotopeMods (envOf env mono).knownLabel (m0 :: L) = .ok lm)
    (hr : InRange a) (hint : ∀ i : ℤ, (envOf env mono).mu (.int i) = i)
    (hres : ∀ c, condenseStatic a = .ok c → ∀ m ∈ allMods c, isBad (envOf env mono) m = false)
    (hrule : absentRuleBad (envOf env mono) a = false)
    (h : condenseToMassAnn (envOf env mono) a p = .ok n) :
    ∃ c s x, condenseStatic a = .ok c ∧ shiftsOf (envOf env mono) c p = .ok s ∧ n = render c s p ∧
      massOf (envOf env mono) a = .ok x ∧
      |outMass (envOf env mono) c s p - x| ≤ (writtenL c s : ℚ) * halfUlp p +
        (droppedL (envOf env mono) lm c : ℚ) * threshold + δ * multSum (outsideMods c) := by
  obtain ⟨c, s, x, hcd, hs, hn', hx, hb⟩ :=
    C18.condense_mass_label (envOf env mono) (coherent_envOf env mono) a n p m0 L lm hiso hl hr hint hres hrule h
  refine ⟨c, s, x, hcd, hs, hn', hx, ?_⟩
  have hsl := slack_leW (envOf env mono) c δ (fun m hm => by
    apply modMass_close env mono δ hclose m
    apply hres c hcd
    unfold outsideMods at hm
    unfold allMods
    simp only [List.mem_append] at hm ⊢
    tauto)
  linarith

end C18Concrete
end Pept
