import PeptVerif.Spec.ProForma
/-!
# C01 — ProForma text ⇄ annotation are faithful inverses (property theorems)
-/
namespace Pept

theorem scan_append (o c : Char) (w t : List Char) (d d' : Nat)
    (h : depthAfter o c d w = some d') :
    scan o c d (w ++ t) = (scan o c d' t).map (fun r => (w ++ r.1, r.2)) := by
  induction w generalizing d with
  | nil =>
    simp [depthAfter] at h; subst h
    simp only [List.nil_append]
    cases hs : scan o c d t <;> simp
  | cons x xs ih =>
    simp only [depthAfter] at h
    simp only [List.cons_append, scan]
    split
    · rename_i hx; rw [if_pos hx] at h; rw [ih _ h]; cases scan o c d' t <;> simp
    · rename_i hx; rw [if_neg hx] at h
      split
      · rename_i hxc; rw [if_pos hxc] at h
        split
        · rename_i hd; simp [hd] at h
        · rename_i hd; rw [if_neg hd] at h; rw [ih _ h]; cases scan o c d' t <;> simp
      · rename_i hxc; rw [if_neg hxc] at h; rw [ih _ h]; cases scan o c d' t <;> simp

/-- the bracket-depth scan of `_parse_modification` returns exactly a balanced body and what follows the
closing bracket — for every body, every continuation, every bracket pair -/
theorem scan_roundtrip (o c : Char) (hoc : o ≠ c) (w rest : List Char) (hb : balanced o c w = true) :
    scan o c 1 (w ++ c :: rest) = some (w, rest) := by
  have hb' : depthAfter o c 1 w = some 1 := by simpa [balanced] using hb
  rw [scan_append o c w (c :: rest) 1 1 hb']
  simp [scan]
  intro h; exact absurd h.symm hoc

example : balanced '[' ']' "Formula:[13C2]H4".toList = true := by decide

end Pept
