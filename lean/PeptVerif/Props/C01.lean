import PeptVerif.Lemmas.ParserAst
/-!
# C01 — ProForma text ⇄ annotation are faithful inverses (property theorems)

Objects: `Pept.parse true` (the parser of the current `/repo`, Model/Parser.lean), `Pept.serialize` /
`Pept.serializeMulti` (Model/Serialize.lean), the decidable well-formedness predicate `Pept.canon`
(Spec/ProForma.lean: the image of the documented grammar). All statements are for every annotation, every
sequence length, every list of modifications, and every `plus : Plus = Mod → Bool`, i.e. any choice, modification
by modification, of writing a positive number with or without `+` (Python's `include_plus=b` is `constPlus b`; mixed
spellings inside one string are covered as well). "Equal" is structural equality of the
model objects, which implies the library's multiset `==`.

Outside these theorems (rest on correspondence only): float values whose text is not Python's `repr`
(more than 15 significant digits, |decimal exponent| beyond 290) are not `canon`; non-ASCII text.

Known finding (not provable, stated below as `_partial` + counter-example): chains joined by a crosslink.
-/
namespace Pept

/-! ## 1. one modification -/

/-- The bracket-depth scan of `_parse_modification` returns exactly a balanced body and what follows the
closing bracket — for every body, every continuation, every bracket pair. -/
theorem scan_roundtrip (o c : Char) (hoc : o ≠ c) (w rest : List Char) (hb : balanced o c w = true) :
    scan o c 1 (w ++ c :: rest) = some (w, rest) :=
  scan_balanced o c hoc w rest hb

example : balanced '[' ']' "Formula:[13C2]H4".toList = true := by decide

/-- `_parse_modification` is a left inverse of `Mod.serialize`: for every canonical modification (any value kind,
any multiplier ≥ 1), both spellings of positive numbers, every continuation that does not start with `^` or a digit.
Covers `+1.0 ↦ 1.0`, `^n`, nested brackets as in `Formula:[13C2]H4`. -/
theorem parseMod_serialize (o c : Char) (hoc : o ≠ c) (hpo : '+' ≠ o) (hpc : '+' ≠ c) (plus : Bool) (m : Mod)
    (hm : canonMod o c m = true) (rest : List Char) (hrest : ModStop rest) :
    parseModBody o c ((Mod.serialize o c plus m).tail ++ rest) = .ok (m, rest) ∧
      (Mod.serialize o c plus m).head? = some o :=
  ⟨parseModBody_serialize o c hoc hpo hpc plus m hm rest hrest, by rw [Mod.serialize_eq_cons]; rfl⟩

example : canonMod '[' ']' ⟨.flt "1.5".toList, 3⟩ = true := by decide +kernel
example : canonMod '[' ']' ⟨.str "Formula:[13C2]H4".toList, 1⟩ = true := by decide +kernel
example : Mod.serialize '[' ']' true ⟨.flt "1.0".toList, 2⟩ = "[+1.0]^2".toList := by decide +kernel

/-- every Python `int` is a canonical value: `convert_type(str(i)) == i`, for all `i` -/
theorem int_value_roundtrip (i : Int) : convertType (ModVal.int i).text = .int i :=
  convertType_intText i

/-- a run of modifications (`_parse_modifications`) -/
theorem parseMods_roundtrip (o c : Char) (hoc : o ≠ c) (hpo : '+' ≠ o) (hpc : '+' ≠ c) (ho1 : o ≠ '^')
    (ho2 : o.isDigit = false) (plus : Plus) (l : List Mod) (hl : l.all (canonMod o c) = true)
    (rest : List Char) (hrest : ModStop rest) (hro : rest.head? ≠ some o) :
    parseMods o c (serializeMods o c plus l ++ rest) = .ok (l, rest) :=
  parseMods_serialize o c hoc hpo hpc ho1 ho2 plus l hl rest hrest hro

/-! ## 2. the three sections -/

/-- `_parse_sequence_start` reads back what `_serialize_annotation_start` wrote: labile, static, isotope,
unknown-position and N-terminal modifications, followed by anything that starts with a residue or `(`. -/
theorem parseStart_serializeStart (plus : Plus) (a : Annotation) (hc : canon a = true) (rest : List Char)
    (hrest : StartStop rest) :
    parseStart true { seq := [] } (serializeStart plus a ++ rest) =
      .ok ({ seq := [], labile := a.labile, static := a.static, isotope := a.isotope, unknown := a.unknown,
             nterm := a.nterm }, rest) := by
  simp only [canon, Bool.and_eq_true] at hc
  obtain ⟨⟨⟨⟨⟨⟨⟨⟨⟨⟨_, _⟩, hlab⟩, hst⟩, hiso⟩, hunk⟩, hnt⟩, _⟩, _⟩, _⟩, _⟩ := hc
  rw [serializeStart_eq]
  simp only [List.append_assoc]
  exact parseStart_sections plus a.labile a.static a.isotope a.unknown a.nterm hlab hst hiso hunk hnt rest hrest

/-- `_parse_sequence_middle` reads back what `_serialize_annotation_middle` wrote — induction over the residues with
the interval-open/close bookkeeping, including an interval opening at residue 0 and one closing after the last
residue, modifications on residues and on intervals. -/
theorem parseMiddle_serializeMiddle (plus : Plus) (a acc : Annotation) (hc : canon a = true)
    (h1 : acc.seq = []) (h2 : acc.internal = none) (h3 : acc.intervals = none)
    (tail : List Char) (htail : MidStop tail) :
    parseMiddle acc none (serializeMiddle plus a ++ tail) =
      parseMiddle { acc with seq := a.seq, internal := a.internal, intervals := a.intervals } none tail := by
  simp only [canon, Bool.and_eq_true] at hc
  obtain ⟨⟨⟨⟨⟨⟨⟨⟨⟨⟨_, hAA⟩, _⟩, _⟩, _⟩, _⟩, _⟩, hD⟩, hL⟩, _⟩, _⟩ := hc
  exact parseMiddle_serializeMiddle' plus a acc hAA hD hL h1 h2 h3 tail htail

/-- `_parse_sequence_end` reads back charge and adducts, up to the end of the input or the `+` / `//` that starts the next
chain (`stopConn` = the connection flag set by the joiner, `stopRest` = the input after it) -/
theorem parseEnd_serializeEnd (plus : Plus) (a : Annotation) (ha0 : a.adducts = none) (conn : Option Bool) (ch : Int)
    (ad : Option (List Mod)) (had : canonAdducts (some ch) ad = true) (rest : List Char) (hrest : ChainStop rest) :
    parseEnd a conn ('/' :: (intText ch ++ (optMods '[' ']' plus ad ++ rest))) =
      .ok ({ a with charge := some ch, adducts := ad }, stopConn conn rest, stopRest rest) := by
  rw [parseEnd_charge plus a ha0 conn ch ad had rest hrest, parseEnd_stop _ _ _ hrest]

/-! ## 3. whole annotations -/

/-- **Round trip, single chain.** For every canonical annotation and both `include_plus` settings the serialized text
parses back to the same annotation. -/
theorem parse_serialize (plus : Plus) (a : Annotation) (hc : canon a = true) :
    parse true (serialize plus a) = .ok (.single a) := by
  have hne : a.seq ≠ [] := by
    simp only [canon, Bool.and_eq_true, Bool.not_eq_eq_eq_not, Bool.not_true] at hc
    intro h; rw [h] at hc; simp at hc
  have hchain := parseChains_chain plus a hc none [] (Or.inl rfl)
  simp only [List.append_nil, stopConn, stopRest] at hchain
  have hnil : parseChains true none [] = .ok [] := by rw [parseChains.eq_def]
  rw [hnil] at hchain
  unfold parse
  split
  · -- the `_is_unmodified` shortcut: the chain parser returns the same object
    rename_i hun
    have := parseChains_allAA none (serialize plus a) hun (serialize_ne_nil plus a hne)
    rw [hchain] at this
    simp only [Except.ok.injEq, List.cons.injEq, Prod.mk.injEq, and_true] at this
    rw [← this]
  · rw [hchain]

/-- non-vacuity: the object denoted by `[1]?[2]-(PEP)[3]^2TIDE/2[+2Na+,+H+]` -/
def exampleAnnotation : Annotation :=
  { seq := "PEPTIDE".toList, unknown := some [⟨.int 1, 1⟩], nterm := some [⟨.int 2, 1⟩],
    intervals := some [⟨0, 3, false, some [⟨.int 3, 2⟩]⟩], charge := some 2,
    adducts := some [⟨.str "+2Na+,+H+".toList, 1⟩] }

example : canon exampleAnnotation = true := by decide +kernel
example : serialize (constPlus false) exampleAnnotation = "[1]?[2]-(PEP)[3]^2TIDE/2[+2Na+,+H+]".toList := by decide +kernel
example : canon { seq := "PEP".toList, labile := some [⟨.flt "15.995".toList, 1⟩],
                  static := some [⟨.str "[+57.02]@C".toList, 1⟩], isotope := some [⟨.str "13C".toList, 1⟩],
                  internal := some [(0, [⟨.str "Formula:[13C2]H4".toList, 2⟩]), (2, [⟨.int (-1), 1⟩])],
                  intervals := some [⟨0, 1, true, none⟩, ⟨1, 3, false, some [⟨.str "Oxidation|INFO:x".toList, 1⟩]⟩],
                  cterm := some [⟨.str "Glycan:Hex".toList, 1⟩], charge := some (-2) } = true := by decide +kernel

/-- the two Python settings `include_plus ∈ {False, True}` are instances -/
theorem parse_serialize_include_plus (b : Bool) (a : Annotation) (hc : canon a = true) :
    parse true (serialize (constPlus b) a) = .ok (.single a) :=
  parse_serialize (constPlus b) a hc

/-- mixed spellings in one string: `+` on the first modification only -/
def exampleMixed : Annotation := { seq := "PEP".toList, internal := some [(1, [⟨.int 5, 1⟩, ⟨.int 5, 2⟩])] }

example : serialize (fun m => decide (m.mult = 1)) exampleMixed = "PE[+5][5]^2P".toList := by decide +kernel

/-- **The notation denotes the same object whatever the order of the leading sections.** The text may carry the labile
`{…}`, global `<…>` (static rules and isotope labels interleaved inside a run), unknown-position `[…]?` and N-terminal
`[…]-` sections in ANY order and any number of times (the serializer only ever writes one fixed order); the parser
accumulates them in order of appearance (`surfaceDenote`). Middle and end sections are those of any canonical `b`. -/
theorem parse_any_section_order (plus : Plus) (items : List StartItem) (hok : ∀ it ∈ items, it.ok = true)
    (hadj : noAdjacentGlobals items = true) (b : Annotation) (hb : canon b = true) :
    parse true (surfaceText plus items b) = .ok (.single (surfaceDenote items b)) := by
  have hne : b.seq ≠ [] := by
    simp only [canon, Bool.and_eq_true, Bool.not_eq_eq_eq_not, Bool.not_true] at hb
    intro h; rw [h] at hb; simp at hb
  have hchain := parseChains_surface plus items hok hadj b hb none [] (Or.inl rfl)
  simp only [List.append_nil, stopConn, stopRest] at hchain
  have hnil : parseChains true none [] = .ok [] := by rw [parseChains.eq_def]
  rw [hnil] at hchain
  have htne : surfaceText plus items b ≠ [] := by
    unfold surfaceText
    have := serializeMiddle_ne_nil plus b hne
    intro h; simp at h; exact this h.2.1
  unfold parse
  split
  · rename_i hun
    have := parseChains_allAA none (surfaceText plus items b) hun htne
    rw [hchain] at this
    simp only [Except.ok.injEq, List.cons.injEq, Prod.mk.injEq, and_true] at this
    rw [← this]
  · rw [hchain]

/-- non-vacuity: N-terminal section first, then a `<…>` run mixing an isotope label and a static rule, a labile group,
an unknown-position group and a second N-terminal section -/
def exampleItems : List StartItem :=
  [.nterm [⟨.int 2, 1⟩], .globals [⟨.str "13C".toList, 1⟩, ⟨.str "[+57.02]@C".toList, 1⟩],
   .labile ⟨.str "Glycan:Hex".toList, 2⟩, .unknown [⟨.flt "1.5".toList, 1⟩], .nterm [⟨.int 7, 3⟩]]

example : (exampleItems.all StartItem.ok && noAdjacentGlobals exampleItems) = true := by decide +kernel
example : surfaceText (constPlus true) exampleItems { seq := "PEP".toList, charge := some 2 } =
    "[+2]-<13C><[+57.02]@C>{Glycan:Hex}^2[+1.5]?[+7]^3-PEP/2".toList := by decide +kernel
example : surfaceDenote exampleItems { seq := "PEP".toList, charge := some 2 } =
    { seq := "PEP".toList, charge := some 2, nterm := some [⟨.int 2, 1⟩, ⟨.int 7, 3⟩],
      isotope := some [⟨.str "13C".toList, 1⟩], static := some [⟨.str "[+57.02]@C".toList, 1⟩],
      labile := some [⟨.str "Glycan:Hex".toList, 2⟩], unknown := some [⟨.flt "1.5".toList, 1⟩] } := by decide +kernel

/-! ## 4. every grammar-derivable string: surface syntax tree ↦ text ↦ parse = denotation -/

/-- **Parsing a ProForma string yields exactly what the notation denotes.** For every well-formed surface-syntax tree
`t` (Spec/ProForma.lean: leading sections in any order and multiplicity, residues with modifications, ambiguity
intervals with modifications, C-terminal block, charge with optional explicit `+` and adduct list, 1 or more chains joined
by `+` or `//`, every modification written with ANY text between its brackets and an optional `^n`), parsing the text of
`t` gives `denote t`: modification values `convert_type(text)` with their multipliers at the position the tree says, the
interval bounds counted in residues, the connection flags of the joiners. -/
theorem parse_render (t : SText) (hw : t.wf = true) : parse true t.render = .ok t.denote := by
  obtain ⟨c, l⟩ := t
  simp only [SText.wf, Bool.and_eq_true] at hw
  have hchain := parseChains_stext c l hw.1 hw.2 none
  have htext : SText.render ⟨c, l⟩ = c.render ++ restText l := rfl
  rw [htext]
  cases l with
  | nil =>
    simp only [stextResult] at hchain
    have hr : c.render ++ restText [] = c.render := by simp [restText]
    rw [hr] at hchain ⊢
    simp only [SText.denote]
    unfold parse
    split
    · rename_i hun
      have := parseChains_allAA none c.render hun (schain_render_ne_nil c hw.1)
      rw [hchain] at this
      simp only [Except.ok.injEq, List.cons.injEq, Prod.mk.injEq, and_true] at this
      rw [← this]
    · rw [hchain]
  | cons p t' =>
    unfold parse
    rw [stext_not_unmodified]
    simp only [Bool.false_eq_true, ↓reduceIte]
    rw [hchain]
    have h1 := stextResult_fst none c (p :: t')
    have h2 := stextResult_snd none c (p :: t')
    cases hr : stextResult none c (p :: t') with
    | nil => exact absurd hr (stextResult_ne_nil _ _ _)
    | cons a b =>
      cases b with
      | nil =>
        rw [hr] at h1
        simp at h1
      | cons a2 b2 =>
        rw [hr] at h1 h2
        simp only [SText.denote]
        rw [h1, h2]

/-- non-vacuity: `[+2]-<13C><[+57.02]@C>{Glycan:Hex}^2[1.50]?(?P[Formula:[13C2]H4]E)[+1.0]^3P-[Oxidation]/+2[+2Na+,+H+]//K[-1]` -/
def exampleTree : SText :=
  { first :=
      { start := [.nterm [⟨"+2".toList, none⟩], .globals [⟨"13C".toList, none⟩, ⟨"[+57.02]@C".toList, none⟩],
                  .labile ⟨"Glycan:Hex".toList, some 2⟩, .unknown [⟨"1.50".toList, none⟩]],
        segs := [.group true [⟨'P', [⟨"Formula:[13C2]H4".toList, none⟩]⟩, ⟨'E', []⟩] [⟨"+1.0".toList, some 3⟩],
                 .res ⟨'P', []⟩],
        cterm := [⟨"Oxidation".toList, none⟩],
        charge := some ⟨2, true, [⟨"+2Na+,+H+".toList, none⟩]⟩ },
    rest := [(true, { start := [], segs := [.res ⟨'K', [⟨"-1".toList, none⟩]⟩], cterm := [], charge := none })] }

example : exampleTree.wf = true := by decide +kernel
example : exampleTree.render =
    "[+2]-<13C><[+57.02]@C>{Glycan:Hex}^2[1.50]?(?P[Formula:[13C2]H4]E)[+1.0]^3P-[Oxidation]/+2[+2Na+,+H+]//K[-1]".toList := by
  decide +kernel
example : exampleTree.denote = .multi
    [{ seq := "PEP".toList, nterm := some [⟨.int 2, 1⟩], isotope := some [⟨.str "13C".toList, 1⟩],
       static := some [⟨.str "[+57.02]@C".toList, 1⟩], labile := some [⟨.str "Glycan:Hex".toList, 2⟩],
       unknown := some [⟨.flt "1.5".toList, 1⟩], internal := some [(0, [⟨.str "Formula:[13C2]H4".toList, 1⟩])],
       intervals := some [⟨0, 2, true, some [⟨.flt "1.0".toList, 3⟩]⟩], cterm := some [⟨.str "Oxidation".toList, 1⟩],
       charge := some 2, adducts := some [⟨.str "+2Na+,+H+".toList, 1⟩] },
     { seq := "K".toList, internal := some [(0, [⟨.int (-1), 1⟩])] }] [some true] := by decide +kernel

/-- **Serializing is a fixpoint after one round trip** (corollary): `serialize(parse(serialize(a))) == serialize(a)`. -/
theorem serialize_fixpoint (plus : Plus) (a : Annotation) (hc : canon a = true) :
    (parse true (serialize plus a)).bind (serializeParsed plus) = .ok (serialize plus a) := by
  rw [parse_serialize plus a hc]; rfl

/-- **Round trip, several chains joined by `+`** (every connection `False`): the serialized text parses back to the
same chains with the same connection flags — for any number ≥ 2 of canonical chains. -/
theorem parse_serialize_multi_partial (plus : Plus) (as : List Annotation) (h2 : as.length ≥ 2)
    (hc : as.all canon = true) :
    serializeMulti plus as (List.replicate (as.length - 1) (some false)) = .ok (chainsText plus as) ∧
    parse true (chainsText plus as) = .ok (.multi as (List.replicate (as.length - 1) (some false))) := by
  refine ⟨serializeMulti_plus _ plus as, ?_⟩
  match as, h2 with
  | a :: b :: t, _ =>
    unfold parse
    rw [chainsText_not_unmodified]
    simp only [Bool.false_eq_true, ↓reduceIte]
    rw [parseChains_chainsText plus (a :: b :: t) (by simp) hc none]
    have h1 := chainsResult_fst none (a :: b :: t)
    have h2 := chainsResult_snd none (a :: b :: t)
    cases hr : chainsResult none (a :: b :: t) with
    | nil => simp [chainsResult] at hr
    | cons p q =>
      cases q with
      | nil => cases t <;> simp [chainsResult] at hr
      | cons p2 q2 =>
        rw [hr] at h1 h2
        simp only
        rw [h1, h2]

/-- **Reading side, any joiners.** For any number ≥ 2 of canonical chains and any connection flags, the text with `+` for
`False` and `//` for `True` parses to exactly these chains and flags: the parser treats crosslinks correctly, so the
known finding below is confined to the serializer's joiner. -/
theorem parse_joined (plus : Plus) (as : List Annotation) (h2 : as.length ≥ 2) (hc : as.all canon = true)
    (flags : List Bool) (hl : flags.length + 1 = as.length) :
    parse true (joinedText plus as flags) = .ok (.multi as (flags.map some)) := by
  match as, h2 with
  | a :: b :: t, _ =>
    unfold parse
    rw [joinedText_not_unmodified]
    simp only [Bool.false_eq_true, ↓reduceIte]
    rw [parseChains_joined plus (a :: b :: t) (by simp) hc flags none]
    have h1 := joinedResult_fst none (a :: b :: t) flags
    have h3 := joinedResult_snd none (a :: b :: t) flags hl
    cases hr : joinedResult none (a :: b :: t) flags with
    | nil => exact absurd hr (joinedResult_ne_nil _ _ _ _)
    | cons p q =>
      cases q with
      | nil =>
        rw [hr] at h1
        simp at h1
      | cons p2 q2 =>
        rw [hr] at h1 h3
        simp only
        rw [h1, h3]

example : joinedText (constPlus false) [{ seq := "PEP".toList }, { seq := "TIDE".toList, charge := some 2 }, { seq := "K".toList }]
    [true, false] = "PEP//TIDE/2+K".toList := by decide +kernel

/-- **Round trip of multi-chain annotations relative to the corrected joiner.** With `serializeMultiFixed` (the coded
serializer with the single constant `crosslinkJoinerAsCoded` replaced by `//`) every multi-chain annotation with ≥ 2
canonical chains and any connection flags round-trips. The code as it is satisfies this only for flags that are all
`False` (`parse_serialize_multi_partial`); the counter-example for the rest follows. -/
theorem parse_serializeMultiFixed (plus : Plus) (as : List Annotation) (h2 : as.length ≥ 2) (hc : as.all canon = true)
    (flags : List Bool) (hl : flags.length + 1 = as.length) :
    (serializeMultiFixed plus as (flags.map some)).bind (parse true) = .ok (.multi as (flags.map some)) := by
  rw [serializeMultiFixed_joined plus as flags hl]
  exact parse_joined plus as h2 hc flags hl

/-- The full statement (any connection flags) is FALSE for the current code: `MultiProFormaAnnotation.serialize` writes a
crosslink as two backslashes, which the parser rejects, while it reads `//` (KF-C01-crosslink-backslash; pinned by
tests/test_proforma.py::test_multi_annotation_crosslink and a doctest). Witness `PEPTIDE//PEPTIDE`. -/
theorem parse_serialize_crosslink_false :
    parse true "PEPTIDE//PEPTIDE".toList =
      .ok (.multi [{ seq := "PEPTIDE".toList }, { seq := "PEPTIDE".toList }] [some true]) ∧
    serializeMulti (constPlus false) [{ seq := "PEPTIDE".toList }, { seq := "PEPTIDE".toList }] [some true] =
      .ok "PEPTIDE\\\\PEPTIDE".toList ∧
    parse true "PEPTIDE\\\\PEPTIDE".toList = .error .format := by decide +kernel

/-! ## 5. the round trip for every accepted grammatical string -/

/-- a chain without residues that carries leading sections only (`{a}`, `[a]-`, `<13C>`) round-trips as well -/
theorem parse_serialize_startOnly (plus : Plus) (a : Annotation) (hc : canonStartOnly a = true) :
    parse true (serialize plus a) = .ok (.single a) :=
  parse_serialize_startOnly' plus a hc

/-- the text of every grammatical tree is a grammatical string -/
theorem render_grammatical (t : SText) (h : t.grammatical = true) : grammaticalString t.render = true := by
  simp only [SText.grammatical, Bool.and_eq_true] at h
  simp only [grammaticalString, parse_render t h.1, h.2]

theorem conns_eq_flags (conns : List (Option Bool)) (h : conns.all (fun c => c.isSome) = true) :
    conns = (conns.map fun c => c.getD false).map some := by
  induction conns with
  | nil => rfl
  | cons c t ih =>
    simp only [List.all_cons, Bool.and_eq_true] at h
    cases c with
    | none => simp at h
    | some b => simp only [List.map_cons, Option.getD_some]; rw [← ih h.2]

/-- **Round trip for accepted strings.** If the parser accepts `s` and the result is canonical — in particular for the
text of every grammatical tree — then serializing the result (any per-modification choice of the `+` spelling; crosslink
joiner as repaired) and parsing again gives the same object. -/
theorem accepted_roundtrip (plus : Plus) (s : List Char) (p : Parsed) (_hp : parse true s = .ok p)
    (hc : canonParsed p = true) : (serializeParsedFixed plus p).bind (parse true) = .ok p := by
  cases p with
  | single a =>
    show parse true (serialize plus a) = _
    simp only [canonParsed, Bool.or_eq_true] at hc
    rcases hc with hc | hc
    · exact parse_serialize plus a hc
    · exact parse_serialize_startOnly plus a hc
  | multi as conns =>
    simp only [canonParsed, Bool.and_eq_true, decide_eq_true_eq] at hc
    obtain ⟨⟨⟨h2, hcan⟩, hlen⟩, hsome⟩ := hc
    have hfl := conns_eq_flags conns hsome
    rw [hfl]
    exact parse_serializeMultiFixed plus as h2 hcan _ (by simpa using hlen)

/-- … and for the code as it is (two-backslash joiner) whenever no chain is crosslinked -/
theorem accepted_roundtrip_as_coded (plus : Plus) (s : List Char) (p : Parsed) (_hp : parse true s = .ok p)
    (hc : canonParsed p = true) (hx : noCrosslink p = true) : (serializeParsed plus p).bind (parse true) = .ok p := by
  cases p with
  | single a =>
    show parse true (serialize plus a) = _
    simp only [canonParsed, Bool.or_eq_true] at hc
    rcases hc with hc | hc
    · exact parse_serialize plus a hc
    · exact parse_serialize_startOnly plus a hc
  | multi as conns =>
    simp only [canonParsed, Bool.and_eq_true, decide_eq_true_eq] at hc
    obtain ⟨⟨⟨h2, hcan⟩, hlen⟩, _⟩ := hc
    have hrep : conns = List.replicate (as.length - 1) (some false) := by
      simp only [noCrosslink, List.all_eq_true, beq_iff_eq] at hx
      apply List.eq_replicate_iff.mpr
      exact ⟨by omega, hx⟩
    obtain ⟨h3, h4⟩ := parse_serialize_multi_partial plus as h2 hcan
    rw [hrep]
    simp only [serializeParsed, serializeMulti] at h3 ⊢
    rw [h3]
    exact h4

/-- serialization is a fixpoint after one round trip, for every accepted grammatical string -/
theorem accepted_serialize_fixpoint (plus : Plus) (s : List Char) (p : Parsed) (hp : parse true s = .ok p)
    (hc : canonParsed p = true) :
    ((serializeParsedFixed plus p).bind (parse true)).bind (serializeParsedFixed plus) = serializeParsedFixed plus p := by
  rw [accepted_roundtrip plus s p hp hc]; rfl

example : grammaticalString "[a]?(?PE)[+1.0]^3P-[Formula:[13C2]H4]/-2+K//AC[Oxidation]".toList = true := by decide +kernel

/-- Accepted text whose result is NOT grammatical: the parser takes it, the round-trip theorems do not cover it.
(1) a multi-chain text with a residue-free chain (`P+{a}`; a single residue-free chain such as `{a}` IS covered, see
`parse_serialize_startOnly`): on the real code it does round-trip; (2) numbers outside the `repr` model (`PEP[1e400]` is
`inf` in Python and round-trips there; the model carries it opaquely). -/
theorem accepted_not_grammatical :
    accepted "P+{a}".toList = true ∧ grammaticalString "P+{a}".toList = false ∧
    accepted "PEP[1e400]".toList = true ∧ grammaticalString "PEP[1e400]".toList = false ∧
    grammaticalString "{a}".toList = true ∧ grammaticalString "[a]-".toList = true := by decide +kernel

/-- Text that used to be accepted although its result did not survive serialize/parse is rejected since fix 0b351bb:
a dangling `-`, an unclosed or empty interval, a modification before the first residue, a multiplier `^0`. -/
theorem ungrammatical_rejected :
    parse true "PEP-".toList = .error .format ∧ parse true "(PEP".toList = .error .format ∧
    parse true "PEP()".toList = .error .format ∧ parse true "([a]P)".toList = .error .format ∧
    parse true "PEP[a]^0".toList = .error .format ∧ parse true "(PEP-[a]".toList = .error .format ∧
    parse true "(PEP/2".toList = .error .format := by decide +kernel

end Pept
