import PeptVerif.Props.C05Ext
#print axioms Pept.C05.complementary_pairs
#print axioms Pept.C05.complementary_ax_cz
#print axioms Pept.C05.loss_isotope_shift
#print axioms Pept.C05.charge_difference
#print axioms Pept.C05.mz_charge_relation
#print axioms Pept.C05.internal_prefix_difference
#print axioms Pept.C05.residues_positive
#print axioms Pept.C05.forward_series_monotone
#print axioms Pept.C05.x_residue_massless
#print axioms Pept.C05.terminal_mod_locality
