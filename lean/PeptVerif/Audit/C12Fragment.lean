import PeptVerif.Props.C12Fragment
#print axioms Pept.C12Fragment.condense_popLabile
#print axioms Pept.C12Fragment.prepared_eq
#print axioms Pept.C12Fragment.fragments_condense
#print axioms Pept.C12Fragment.fragments_condense_explicit
#print axioms Pept.C12Fragment.fragmenter_components_condense
