import PeptVerif.Props.C16Gen
#print axioms GenCov.coverage_mark_eq
#print axioms GenCov.coverage_init_eq
#print axioms GenCov.coverage_eq_gen
#print axioms GenCov.gen_coverage_iff
#print axioms GenCov.gen_coverage_accumulate_count
#print axioms GenCov.percent_coverage_eq_gen
#print axioms GenCov.gen_percent_unit
