import PeptVerif.Props.C15Ext
#print axioms C15Ext.hill_sorted
#print axioms C15Ext.hill_written_sorted
#print axioms C15Ext.hill_stable
#print axioms C15Ext.plain_order
#print axioms C15Ext.hill_order_unique
#print axioms C15Ext.parse_write_hill_characterised
#print axioms C15Ext.hill_carbon_first_table
