import PeptVerif.Props.C03
#print axioms Pept.C03.ion_tables_agree
#print axioms Pept.C03.protons_text_roundtrip
#print axioms Pept.C03.chemMass_add
#print axioms Pept.C03.chemMass_smul
#print axioms Pept.C03.chemMass_merge
#print axioms Pept.C03.chemMass_dropZeros
#print axioms Pept.C03.chemMass_eq_linear
#print axioms Pept.C03.estimate_comp_mass
#print axioms Pept.C03.comp_estimate_mass
#print axioms Pept.C03.mass_eq_compMass_partial
#print axioms Pept.C03.mass_eq_compMass_static
#print axioms Pept.C03.epsilon_bound
#print axioms Pept.C03.mass_label_path
