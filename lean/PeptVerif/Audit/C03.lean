import PeptVerif.Props.C03
#print axioms Pept.C03.ion_tables_agree
#print axioms Pept.C03.protons_text_roundtrip
