import PeptVerif.Props.C05
#print axioms Pept.C05.ion_offsets_ok
#print axioms Pept.C05.adjust_tables_ok
