import PeptVerif.Props.C05
#print axioms Pept.C05.ion_offsets_ok
#print axioms Pept.C05.adjust_tables_ok
#print axioms Pept.C05.forward_series_offsets
#print axioms Pept.C05.backward_series_offsets
#print axioms Pept.C05.internal_offsets
#print axioms Pept.C05.immonium_mass
#print axioms Pept.C05.charge_step
#print axioms Pept.C05.b_plus_y
#print axioms Pept.C05.mod_locality
