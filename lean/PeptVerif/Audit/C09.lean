import PeptVerif.Props.C09
#print axioms Pept.parseChains_never_hangs
#print axioms Pept.parseChains_vf
#print axioms Pept.parse_total
#print axioms Pept.parse_total_false_before_fix_index
#print axioms Pept.parse_total_false_before_fix_index2
#print axioms Pept.parse_total_false_before_fix_type
#print axioms Pept.serializeMulti_ok
#print axioms Pept.serialize_total
