import PeptVerif.Props.C12
