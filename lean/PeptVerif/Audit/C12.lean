import PeptVerif.Props.C12
#print axioms Pept.C12.condense_spec
#print axioms Pept.C12.condense_single_letter
#print axioms Pept.C12.mass_condense
#print axioms Pept.C12.comp_condense
#print axioms Pept.C12.mass_condense_any
#print axioms Pept.C12.count_condense
#print axioms Pept.C12.label_shift
#print axioms Pept.C12.label_shift_single
#print axioms Pept.C12.label_shift_pair
#print axioms Pept.C12.label_spares_mods
#print axioms Pept.C12.label_reaches_mods
#print axioms Pept.C12.label_absent_element
