import PeptVerif.Props.C06Regex
#print axioms RegexLite.proteases_match_reference
#print axioms RegexLite.named_rules_zeroWidth
#print axioms RegexLite.sites_in_range
#print axioms RegexLite.zeroWidth_rule_semantics
#print axioms RegexLite.nonspecific_cuts_everywhere
#print axioms RegexLite.consuming_rule_semantics
#print axioms RegexLite.no_cleave_never
