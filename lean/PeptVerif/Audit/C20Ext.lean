import PeptVerif.Props.C20Ext
#print axioms Pept.C20Ext.mod_dict_determines
#print axioms Pept.C20Ext.mod_dict_determines_eq
#print axioms Pept.C20Ext.mod_dict_determines_text
#print axioms Pept.C20Ext.mod_dict_sensitive
#print axioms Pept.C20Ext.add_empty_dict
#print axioms Pept.C20Ext.lookup_popMods
#print axioms Pept.C20Ext.intEntries_popMods
#print axioms Pept.C20Ext.pop_mods_add_back
#print axioms Pept.C20Ext.pop_mods_add_back_iff
