import PeptVerif.Props.C20Ext
#print axioms Pept.C20Ext.mod_dict_determines
#print axioms Pept.C20Ext.mod_dict_determines_eq
#print axioms Pept.C20Ext.mod_dict_determines_text
#print axioms Pept.C20Ext.mod_dict_sensitive
#print axioms Pept.C20Ext.add_empty_dict
