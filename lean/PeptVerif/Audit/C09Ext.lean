import PeptVerif.Props.C09Ext
#print axioms Pept.Dispatch.placedMods_ok_iff
#print axioms Pept.Dispatch.placedMods_error_is_reached_error
#print axioms Pept.Dispatch.fastMass_unresolvable_placed_raises
#print axioms Pept.Dispatch.staticMap_ok_iff
#print axioms Pept.Dispatch.staticMap_error_is_reached_error
#print axioms Pept.Dispatch.fastMass_unresolvable_static_raises
#print axioms Pept.Dispatch.fastMass_ok_of_all_resolve
#print axioms Pept.Dispatch.fastMass_error_cases
