import PeptVerif.Props.C17
#print axioms Score.sweep_eq_windowTW
