import PeptVerif.Props.C17
#print axioms Score.sweep_eq_windowTW
#print axioms Score.windowTW_eq_bruteforce
#print axioms Score.sweep_correct
#print axioms Score.th_monotone
#print axioms Score.ppm_monotone
#print axioms Score.ppm_not_monotone_above_million
#print axioms Score.getMatchedIndices_correct_th
#print axioms Score.getMatchedIndices_correct_ppm
#print axioms Score.none_iff_window_empty
#print axioms Score.match_none_iff
#print axioms Score.all_mode_eq_window
#print axioms Score.closest_mem_argmin
#print axioms Score.largest_mem_argmax
#print axioms Score.intensity_fraction_eq
#print axioms Score.intensity_fraction_unit_interval
