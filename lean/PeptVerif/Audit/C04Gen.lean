import PeptVerif.Props.C04Gen
#print axioms GenFrag.get_number_eq
#print axioms GenFrag.get_label_eq
#print axioms GenFrag.fragment_number_eq
#print axioms GenFrag.fragment_label_eq
#print axioms GenFrag.label_shift_eq
#print axioms GenFrag.get_losses_eq
#print axioms GenFrag.get_forward_fragments_eq
#print axioms GenFrag.get_backward_fragments_eq
#print axioms GenFrag.get_internal_fragments_eq
#print axioms GenFrag.get_immonium_fragments_eq
#print axioms GenFrag.get_terminal_fragments_eq
#print axioms GenFrag.loop_keys_eq
#print axioms GenFrag.emit_eq
