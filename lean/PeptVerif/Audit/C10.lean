import PeptVerif.Props.C10
#print axioms C10.table_sizes
