import PeptVerif.Props.C10
#print axioms C10.table_sizes
#print axioms C10.strip_prefix_key
#print axioms C10.strip_old_code_cut_at_second_colon
#print axioms C10.all_clean
#print axioms C10.all_notNumeric
#print axioms C10.vocab_facts
#print axioms C10.spelling_invariant_unimod_prefixed
#print axioms C10.spelling_invariant_unimod_bare_partial
#print axioms C10.spelling_invariant_psimod
#print axioms C10.spelling_invariant_xlmod
#print axioms C10.entry_without_mass
