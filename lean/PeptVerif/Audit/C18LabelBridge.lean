import PeptVerif.Props.C18LabelBridge
#print axioms Pept.C18LabelBridge.condense_mass_label_plain
