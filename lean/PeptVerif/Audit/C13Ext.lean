import PeptVerif.Props.C13Ext
#print axioms Pept.ModBuilder.varRec_count_le
#print axioms Pept.ModBuilder.variable_max_mods_bound
#print axioms Pept.ModBuilder.variable_max_mods_zero
