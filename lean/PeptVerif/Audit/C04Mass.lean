import PeptVerif.Props.C04Mass
#print axioms C04.neutral_adjustment_is_zero
#print axioms C04.tables_agree
#print axioms C04.frag_mass_eq_mass
