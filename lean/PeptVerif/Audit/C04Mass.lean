import PeptVerif.Props.C04Mass
#print axioms C04.neutral_adjustment_is_zero
#print axioms C04.tables_agree
#print axioms C04.frag_mass_eq_mass
#print axioms C04.label_tables_ok
#print axioms C04.isotope_substitution_linear
#print axioms C04.label_path_decomposes
#print axioms C04.frag_mass_eq_mass_labelled
#print axioms C04.label_shift_needs_charge
#print axioms C04.label_offset_charge_step_ne_proton
