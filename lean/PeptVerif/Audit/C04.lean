import PeptVerif.Props.C04
#print axioms C04.fragmenter_eq_fragment
