import PeptVerif.Props.C06Seq
#print axioms Spans.sequential_eq_simultaneous_pos
#print axioms Spans.sequential_eq_simultaneous
#print axioms Spans.nodup_seqDigestSpans
#print axioms Spans.sequential_eq_simultaneous_text
#print axioms Spans.nodup_seqDigestText
#print axioms Spans.stageShortcutFree_of_lookaround
#print axioms Spans.named_rules_local
#print axioms Spans.local_rule_semantics
#print axioms Spans.sequential_ne_simultaneous_when_union_cuts_everywhere
