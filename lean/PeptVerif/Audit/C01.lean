import PeptVerif.Props.C01
#print axioms Pept.scan_append
#print axioms Pept.scan_roundtrip
