import PeptVerif.Props.C01
#print axioms Pept.scan_roundtrip
#print axioms Pept.parseMod_serialize
#print axioms Pept.int_value_roundtrip
#print axioms Pept.parseMods_roundtrip
#print axioms Pept.parseStart_serializeStart
#print axioms Pept.parseMiddle_serializeMiddle
#print axioms Pept.parseEnd_serializeEnd
#print axioms Pept.parse_serialize
#print axioms Pept.parse_serialize_include_plus
#print axioms Pept.parse_any_section_order
#print axioms Pept.parse_render
#print axioms Pept.serialize_fixpoint
#print axioms Pept.parse_serialize_multi_partial
#print axioms Pept.parse_joined
#print axioms Pept.parse_serializeMultiFixed
#print axioms Pept.parse_serialize_crosslink_false
