import PeptVerif.Props.C10TabU
#print axioms C10TabU.unimod_keys_distinct
#print axioms C10TabU.unimod_keys_clean
#print axioms C10TabU.unimod_names_not_numeric
