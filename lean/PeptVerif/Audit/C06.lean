import PeptVerif.Props.C06
#print axioms Spans.mem_buildEnzymatic
