import PeptVerif.Props.C02Gen
#print axioms GenMass.adjust_mz_eq
#print axioms GenMass.adjust_mass_eq
#print axioms GenMass._parse_adduct_mass_eq
#print axioms GenMass.chem_mass_loop1_eq
#print axioms GenMass.chem_mass_eq
#print axioms GenMass.merge_dicts_eq
