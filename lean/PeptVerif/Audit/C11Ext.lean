import PeptVerif.Props.C11Ext
#print axioms Pept.Reorder.C11Ext.sortOrder_stable
#print axioms Pept.Reorder.C11Ext.sort_residues_stable
#print axioms Pept.Reorder.C11Ext.sortOrder_equal_letters_keep_order
#print axioms Pept.Reorder.C11Ext.shift_globals_terminals
