import PeptVerif.Props.C14
#print axioms C14.sorted_by_mass
#print axioms C14.scale_sum
#print axioms C14.scale_max
#print axioms C14.total_abundance
#print axioms C14.weighted_mean_raw
#print axioms C14.weighted_mean_eq_average
#print axioms C14.lightest_peak_raw
#print axioms C14.lightest_peak
#print axioms C14.conv_comm
#print axioms C14.conv_assoc
#print axioms C14.conv_pushforward
#print axioms C14.merge_adds
#print axioms C14.abundances_sum_to_one
#print axioms C14.lightest_is_monoisotopic_CHNOSP
#print axioms C14.table_wellformed
#print axioms C14.normalised_elements
#print axioms C14.mean_is_average_mass
