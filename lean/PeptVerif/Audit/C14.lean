import PeptVerif.Props.C14
#print axioms C14.addKey_nil
