import PeptVerif.Props.C13
#print axioms Pept.ModBuilder.static_spec
#print axioms Pept.ModBuilder.static_unmatched_untouched
#print axioms Pept.ModBuilder.static_matched_unmodified
#print axioms Pept.ModBuilder.static_skip_idempotent
#print axioms Pept.ModBuilder.applyVariable_eq
#print axioms Pept.ModBuilder.variable_skip_exact
#print axioms Pept.ModBuilder.variable_skip_nodup
#print axioms Pept.ModBuilder.variable_input_included
#print axioms Pept.ModBuilder.variable_changes_confined
#print axioms Pept.ModBuilder.variable_no_form_twice
#print axioms Pept.ModBuilder.siteOK_append_of_nodup
#print axioms Pept.ModBuilder.siteOK_overwrite_of_nodup
#print axioms Pept.ModBuilder.variable_skip_nodup_false_before_repair
#print axioms Pept.ModBuilder.variable_skip_exact_false_before_repair
