import PeptVerif.Props.C13
