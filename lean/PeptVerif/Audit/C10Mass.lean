import PeptVerif.Props.C10Mass
#print axioms C10Mass.unimod_mono_matches_comp
#print axioms C10Mass.mono_table_matches_comp
#print axioms C10Mass.collisions_agree_mono_comp
#print axioms C10Mass.collisions_avg_differ
#print axioms C10Mass.bare_name_full_false_on_current_tables
#print axioms C10Mass.label_13C6_resolves
#print axioms C10Mass.psimod_root_same_error
