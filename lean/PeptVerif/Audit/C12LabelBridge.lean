import PeptVerif.Props.C12LabelBridge
#print axioms Pept.C12LabelBridge.mass_bridge_label
