import PeptVerif.Props.C10Glycan
#print axioms C10Glycan.mono_keys_resolve
#print axioms C10Glycan.filter_noColon
#print axioms C10Glycan.spelling_invariant_mono
#print axioms C10Glycan.glycan_synonym_resolves
