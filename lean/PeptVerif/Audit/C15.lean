import PeptVerif.Props.C15
#print axioms C15.split_plain_example
