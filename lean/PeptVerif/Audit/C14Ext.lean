import PeptVerif.Props.C14Ext
#print axioms C14Ext.convolve_normal_form
#print axioms C14Ext.conv_prune_loss_bound
#print axioms C14Ext.conv_prune_loss_bound_sharp
#print axioms C14Ext.conv_round_preserves_total
#print axioms C14Ext.conv_round_moment_shift
#print axioms C14Ext.conv_round_mean_shift
#print axioms C14Ext.round_error_half_ulp
#print axioms C14Ext.elemental_prune_loss_bound
#print axioms C14Ext.elemental_total_with_floor
#print axioms C14Ext.final_threshold_loss_bound
#print axioms C14Ext.final_threshold_keeps_max
#print axioms C14Ext.weighted_mean_raw_rounded
