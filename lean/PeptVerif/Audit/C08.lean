import PeptVerif.Props.C08
#print axioms C08.postfix_bounds_every_trace
#print axioms C08.closedness_checks_sound
#print axioms C08.dedup_eq_nil
#print axioms C08.mayWriteIn_sound
#print axioms C08.mayWrite_sound
#print axioms C08.mayWrite_flags_alias_and_element_writes
#print axioms C08.mayWriteGlobalIn_sound
#print axioms C08.pure_call_frame
#print axioms C08.history_independent
#print axioms C08.later_query_same_result
#print axioms C08.summaries_closed
#print axioms C08.generated_queries_pure
#print axioms C08.generated_editors_write_only_target
#print axioms C08.generated_random_only_rng
#print axioms C08.getters_pure
#print axioms C08.api_covered
#print axioms C08.generated_query_is_pure_call
