import PeptVerif.Props.C16Ext
#print axioms Pept.Search.isSubsequenceM_iff
#print axioms Pept.Search.isSubsequenceOrdered_iff
#print axioms Pept.Search.ordered_empty_query
#print axioms Pept.Search.ordered_eq_method
#print axioms Pept.Search.coverage_ignore_mods_iff
