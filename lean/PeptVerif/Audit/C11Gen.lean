import PeptVerif.Props.C11Gen
#print axioms GenReorder.sliceKey_eq
#print axioms GenReorder.sliceInterval_eq
#print axioms GenReorder.sliceDropsNterm_eq
#print axioms GenReorder.sliceDropsCterm_eq
#print axioms GenReorder.sliceDropsNtermInplace_eq
#print axioms GenReorder.sliceDropsCtermInplace_eq
#print axioms GenReorder.slice_from_source
#print axioms GenReorder.reverseKey_eq
#print axioms GenReorder.reverseInterval_eq
#print axioms GenReorder.reverseInterval_cover_from_source
#print axioms GenReorder.reverse_from_source
#print axioms GenReorder.shiftAmount_eq
#print axioms GenReorder.shiftKey_eq
#print axioms GenReorder.shiftInterval_eq
#print axioms GenReorder.shiftInterval_cover_from_source
#print axioms GenReorder.splitBounds_eq
#print axioms GenReorder.splitPopsLabile_eq
