import PeptVerif.Props.C09Ion
#print axioms Pept.Ion.parseIon_total
#print axioms Pept.Ion.parseIon_total_false_before_fix
#print axioms Pept.Ion.parseIon_symbol_known
