import PeptVerif.Props.C16
#print axioms Pept.Search.occurrences_spec
#print axioms Pept.Search.findIndices_spec
#print axioms Pept.Search.findIndices_spec_slice
#print axioms Pept.Search.findIndices_increasing
#print axioms Pept.Search.overlapping_found
#print axioms Pept.Search.nonoverlapping_scan_misses
#print axioms Pept.Search.ignore_mods_substring
#print axioms Pept.Search.coverage_iff
#print axioms Pept.Search.coverage_accumulate_count
#print axioms Pept.Search.coverage_length
#print axioms Pept.Search.percent_coverage_unit
#print axioms Pept.Search.unordered_iff_count_le
#print axioms Pept.Search.unordered_iff_multiset_le
