import PeptVerif.Props.C16
#print axioms Pept.Search.unordered_iff_count_le
