import PeptVerif.Props.C07Canon
#print axioms Pept.Reorder.C07.piece_reparse
#print axioms Pept.Reorder.C07.strings_eq_map_serialize
#print axioms Pept.Reorder.C07.stringSpans_eq
#print axioms Pept.Reorder.C07.return_types_agree
#print axioms Pept.Reorder.C07.relocate_annotation
#print axioms Pept.Reorder.C07.relocate
