import PeptVerif.Props.C15Glycan
#print axioms C15Glycan.names_nonempty
