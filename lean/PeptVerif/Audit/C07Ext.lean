import PeptVerif.Props.C07Ext
#print axioms Pept.Reorder.C07.pieceSpans_mem
#print axioms Pept.Reorder.C07.genSpans_bounds
#print axioms Pept.Reorder.C07.generator_piece
#print axioms Pept.Reorder.C07.generator_terminals
