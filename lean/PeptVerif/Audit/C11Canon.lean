import PeptVerif.Props.C11Canon
#print axioms Pept.Reorder.C11.reparse_of_canon_normalize
#print axioms Pept.Reorder.C11.slice_canon
#print axioms Pept.Reorder.C11.slice_reparse
#print axioms Pept.Reorder.C11.slice_reparse_exact
#print axioms Pept.Reorder.C11.reverse_canon
#print axioms Pept.Reorder.C11.reverse_reparse
#print axioms Pept.Reorder.C11.shift_canon
#print axioms Pept.Reorder.C11.shift_reparse
#print axioms Pept.Reorder.C11.shuffle_reparse
#print axioms Pept.Reorder.C11.sort_reparse
#print axioms Pept.Reorder.C11.split_piece_reparse
