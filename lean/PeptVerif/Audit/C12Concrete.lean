import PeptVerif.Props.C12Concrete
#print axioms Pept.C12Concrete.concrete_env_coherent
#print axioms Pept.C12Concrete.mass_bridge_fast
#print axioms Pept.C12Concrete.mass_condense_concrete
#print axioms Pept.C12Concrete.labels_resolve
#print axioms Pept.C12Concrete.label_shift_concrete
