import PeptVerif.Props.C17Ext
#print axioms Score.rounded_bounds_unfold
#print axioms Score.rounded_sweep_correct
#print axioms Score.rounded_th_lower_monotone
#print axioms Score.rounded_ppm_lower_monotone_of_gap
#print axioms Score.th_window_sandwich
#print axioms Score.ppm_window_sandwich
#print axioms Score.window_sandwich
#print axioms Score.getMatchedIndices_rounded_th
#print axioms Score.getMatchedIndices_rounded_ppm
#print axioms Score.filter_missing_mono_spec
#print axioms Score.filter_missing_mono_sublist
#print axioms Score.filter_missing_mono_closed
#print axioms Score.filter_skipped_isotopes_spec
#print axioms Score.filter_skipped_isotopes_sublist
