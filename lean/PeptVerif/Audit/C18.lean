import PeptVerif.Props.C18
