import PeptVerif.Props.C18
#print axioms Pept.C18.condenseToMassAnn_eq
#print axioms Pept.C18.condense_residues
#print axioms Pept.C18.numeric_toMods
#print axioms Pept.C18.condense_numeric_only
#print axioms Pept.C18.condense_unmodified_id
#print axioms Pept.C18.shiftsFrom_mem
#print axioms Pept.C18.condense_positions
#print axioms Pept.C18.condense_mass
#print axioms Pept.C18.condense_mass_output
#print axioms Pept.C18.written_text_value
#print axioms Pept.C18.numericMu_satisfiable
#print axioms Pept.C18.condense_mass_k
#print axioms Pept.C18.condense_mass_label
#print axioms Pept.C18.exCoh_coherent
#print axioms Pept.C18.condense_mass_cutoff_witness
