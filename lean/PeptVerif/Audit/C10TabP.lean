import PeptVerif.Props.C10TabP
#print axioms C10TabP.psimod_cross_distinct
#print axioms C10TabP.psimod_keys_clean
#print axioms C10TabP.psimod_names_not_numeric
