import PeptVerif.Props.C18Concrete
#print axioms Pept.C18Concrete.mu_int
#print axioms Pept.C18Concrete.mu_flt
#print axioms Pept.C18Concrete.numeric_resolves
#print axioms Pept.C18Concrete.placedMods_subset_allMods
#print axioms Pept.C18Concrete.condense_mass_concrete
#print axioms Pept.C18Concrete.condense_mass_label_concrete
#print axioms Pept.C18Concrete.modMass_close
#print axioms Pept.C18Concrete.condense_mass_label_resolved
