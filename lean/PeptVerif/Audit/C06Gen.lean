import PeptVerif.Props.C06Gen
#print axioms GenSpans.build_non_enzymatic_spans_eq
#print axioms GenSpans.build_left_semi_spans_eq
#print axioms GenSpans.build_right_semi_spans_eq
#print axioms GenSpans.build_enzymatic_spans_eq
#print axioms GenSpans.build_semi_spans_eq
#print axioms GenSpans.build_spans_eq
