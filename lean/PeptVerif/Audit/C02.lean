import PeptVerif.Props.C02
#print axioms Pept.C02.residue_table_ok
#print axioms Pept.C02.nuclide_table_ok
#print axioms Pept.C02.average_table_ok
#print axioms Pept.C02.particles_ok
