import PeptVerif.Props.C02
#print axioms Pept.C02.residue_table_ok
#print axioms Pept.C02.nuclide_table_ok
#print axioms Pept.C02.average_table_ok
#print axioms Pept.C02.particles_ok
#print axioms Pept.C02.adjust_tables_ok
#print axioms Pept.C02.mass_eq_spec_partial
#print axioms Pept.C02.mz_eq_spec_partial
#print axioms Pept.C02.adjustMz_pos
#print axioms Pept.C02.precision_bound
#print axioms Pept.C02.adductMass_discrepancy
#print axioms Pept.C02.adductMass_count_one
#print axioms Pept.C02.mass_eq_spec_full_false_on_current_code
#print axioms Pept.C02.avg_keys_ok
#print axioms Pept.C02.mass_eq_spec_adducts
#print axioms Pept.C02.adductDefect_counts_one
#print axioms Pept.C02.nuclide_keys_close
#print axioms Pept.C02.reference_closeness
