import PeptVerif.Props.C20
