import PeptVerif.Props.C07
#print axioms Pept.Reorder.C07.slice_residues
#print axioms Pept.Reorder.C07.slice_nterm
#print axioms Pept.Reorder.C07.slice_cterm
#print axioms Pept.Reorder.C07.slice_globals
#print axioms Pept.Reorder.C07.fastpath_eq
#print axioms Pept.Reorder.C07.slice_general
#print axioms Pept.Reorder.C07.dispatcher_eq_slices
#print axioms Pept.Reorder.C07.relocate_at_offset
#print axioms Pept.Reorder.C07.partition_weight
#print axioms Pept.Reorder.C07.mass_partition_exact
#print axioms Pept.Reorder.C07.mass_conservation_partial
#print axioms Pept.Reorder.C07.mass_conservation_full_false_on_current_code
