import PeptVerif.Props.C07
#print axioms Pept.Reorder.C07.fastpath_eq
