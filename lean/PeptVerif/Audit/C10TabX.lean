import PeptVerif.Props.C10TabX
#print axioms C10TabX.xlmod_keys_distinct
#print axioms C10TabX.xlmod_keys_clean
