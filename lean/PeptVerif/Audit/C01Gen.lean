import PeptVerif.Props.C01Gen
#print axioms GenSer.mod_serialize_eq
#print axioms GenSer.serialize_annotation_start_eq
#print axioms GenSer.serialize_annotation_middle_eq
#print axioms GenSer.serialize_annotation_end_eq
#print axioms GenSer.serialize_annotation_eq
#print axioms GenSer.parse_serialize_gen
#print axioms GenSer.serialize_fixpoint_gen
#print axioms GenSer.multi_serialize_eq
#print axioms GenSer.serialize_total_gen
#print axioms GenSer.parse_serialize_multi_gen
