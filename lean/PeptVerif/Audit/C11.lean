import PeptVerif.Props.C11
#print axioms Pept.Reorder.C11.slice_inplace_eq
