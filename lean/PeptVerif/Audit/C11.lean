import PeptVerif.Props.C11
#print axioms Pept.Reorder.C11.slice_inplace_eq
#print axioms Pept.Reorder.C11.slice_residues
#print axioms Pept.Reorder.C11.reverse_residues
#print axioms Pept.Reorder.C11.reverse_reverse
#print axioms Pept.Reorder.C11.shift_residues
#print axioms Pept.Reorder.C11.shift_shift_neg_partial
#print axioms Pept.Reorder.C11.shift_multiple_partial
#print axioms Pept.Reorder.C11.shift_length_partial
#print axioms Pept.Reorder.C11.shuffle_residues
#print axioms Pept.Reorder.C11.sort_residues
#print axioms Pept.Reorder.C11.reverse_globals_terminals
#print axioms Pept.Reorder.C11.reverse_intervals
#print axioms Pept.Reorder.C11.reverseInterval_cover
#print axioms Pept.Reorder.C11.shift_identity_full_false_on_current_code
#print axioms Pept.Reorder.C11.split_concat
#print axioms Pept.Reorder.C11.split_getElem?
#print axioms Pept.Reorder.C11.slice_slice
