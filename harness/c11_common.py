"""helpers shared by the C11 and C07 checks: generators, the residue abstraction on the Python side, comparisons"""
import copy

from . import annot


def _types():
    from peptacular.proforma.proforma_parser import ProFormaAnnotation
    from peptacular.proforma.proforma_dataclasses import Interval, Mod
    return ProFormaAnnotation, Interval, Mod


# ------------------------------------------------------------------------------------------ generators

def add_intervals(rng, a, pool=None, p_mods=0.75):
    """place 1..3 disjoint intervals: at the start, in the middle, at the end, adjacent pairs, single residue, whole"""
    _, Interval, Mod = _types()
    n = len(a._sequence)
    if n < 1:
        return None
    pool = pool or (annot.NAMED + annot.FORMULAS + annot.NUMS + annot.NUMS + annot.GLYCANS)

    def mods():
        if rng.random() > p_mods:
            return None
        return [annot._mod(rng, pool) for _ in range(rng.randint(1, 2))]

    pat = rng.choice(['start', 'end', 'middle', 'adjacent', 'single', 'whole', 'start+end', 'random'])
    ivs = []
    if pat == 'start':
        ivs = [(0, rng.randint(1, n))]
    elif pat == 'end':
        ivs = [(rng.randint(0, n - 1), n)]
    elif pat == 'middle' and n >= 3:
        s = rng.randint(1, n - 2)
        ivs = [(s, rng.randint(s + 1, n - 1))]
    elif pat == 'adjacent' and n >= 2:
        s = rng.randint(0, n - 2)
        m = rng.randint(s + 1, n - 1)
        e = rng.randint(m + 1, n)
        ivs = [(s, m), (m, e)]
        if rng.random() < 0.3 and e < n:
            ivs.append((e, rng.randint(e + 1, n)))
    elif pat == 'single':
        s = rng.randint(0, n - 1)
        ivs = [(s, s + 1)]
    elif pat == 'whole':
        ivs = [(0, n)]
    elif pat == 'start+end' and n >= 2:
        k = rng.randint(1, n - 1)
        ivs = [(0, k), (rng.randint(k, n - 1), n)]
    else:
        pos = 0
        while pos < n and len(ivs) < 3:
            s = rng.randint(pos, n - 1)
            e = rng.randint(s + 1, n)
            ivs.append((s, e))
            pos = e if rng.random() < 0.5 else e + 1
    if not ivs:
        return None
    a._intervals = [Interval(s, e, rng.random() < 0.3, mods()) for s, e in ivs]
    return pat


# float modification values with 7..15 significant decimals (a serializer that rounds, a parser that truncates or a comparison
# through text would change them); used at every position: residue, terminal, labile, unknown, interval, static rule values
LONG_FLOATS = [15.9949146, 79.96633052, 0.984015583, 1234.56789012, -18.010564684, -17.026549101, 42.0105646837,
               57.021463735, 1.00727646688, -0.984015583, 229.162932141, 0.0000012345, 100.00000001]
LONG_STATIC = ['[+15.9949146]@M', '[+79.96633052]@S,T', '[+57.021463735]@C', '[-17.026549101]@Q,N-Term', '[+0.984015583]@N',
               '[+42.0105646837]@N-Term', '[-0.984015583]@C-Term']


def default_pool():
    return annot.NAMED + annot.FORMULAS + annot.GLYCANS + annot.OTHER + annot.NUMS + annot.NUMS + LONG_FLOATS + LONG_FLOATS


def gen(rng, min_len=1, max_len=25, kinds=None, p_iv=0.5, odd=0.0, value_pool=None, p=None):
    """annotation of C11/C07: every modification kind, intervals placed by pattern; `odd` = probability of the
    falsy-but-not-None containers ({} / []) that only the correspondence uses"""
    a = annot.gen_annotation(rng, min_len, max_len, p=rng.choice([0.15, 0.35, 0.6]) if p is None else p, kinds=kinds,
                             intervals=False, value_pool=value_pool or default_pool())
    if a._static_mods is not None and rng.random() < 0.5:
        _, _, Mod = _types()
        a._static_mods[rng.randrange(len(a._static_mods))] = Mod(rng.choice(LONG_STATIC), 1)
    pat = None
    if (kinds is None or 'intervals' in kinds) and rng.random() < p_iv:
        pat = add_intervals(rng, a, pool=value_pool or default_pool())
    if odd and rng.random() < odd:
        k = rng.choice(['internal', 'labile', 'intervals'])
        if k == 'internal' and a._internal_mods is None:
            a._internal_mods = {}
        elif k == 'labile' and a._labile_mods is None:
            a._labile_mods = []
        elif k == 'intervals' and a._intervals is None:
            a._intervals = []
    return a, pat


def is_odd(a):
    return (a._internal_mods is not None and len(a._internal_mods) == 0) or \
        (a._intervals is not None and len(a._intervals) == 0) or \
        any(x is not None and len(x) == 0 for x in (a._labile_mods, a._unknown_mods, a._nterm_mods, a._cterm_mods,
                                                    a._static_mods, a._isotope_mods, a._charge_adducts))


# ------------------------------------------------------------------------------------------ abstraction

def res(a):
    """list of (residue, its modifications in order)"""
    d = a._internal_mods or {}
    return [(c, tuple(annot.show_mod(m) for m in d.get(i, []))) for i, c in enumerate(a._sequence)]


def out_of_range_keys(a):
    n = len(a._sequence)
    return [k for k in (a._internal_mods or {}) if not 0 <= k < n]


def glob(a):
    """global annotations: isotope, static, labile, unknown, charge, adducts"""
    return (annot.show_opt_mods(a._isotope_mods), annot.show_opt_mods(a._static_mods), annot.show_opt_mods(a._labile_mods),
            annot.show_opt_mods(a._unknown_mods), str(a._charge), annot.show_opt_mods(a._charge_adducts))


def term(a):
    return annot.show_opt_mods(a._nterm_mods), annot.show_opt_mods(a._cterm_mods)


def ivs(a):
    """intervals as (start, end, ambiguous, mods)"""
    return [(iv.start, iv.end, bool(iv.ambiguous), annot.show_opt_mods(iv.mods, '&')) for iv in (a._intervals or [])]


def norm_dump(a):
    """field dump with empty containers written like None (`{}` and None are not distinguishable through the API)"""
    f = annot.dump(a).split('|')
    for i in (1, 2, 3, 4, 5, 6, 10):
        if f[i] == 'L':
            f[i] = 'N'
    if f[7] == 'D':
        f[7] = 'N'
    if f[8] == 'V':
        f[8] = 'N'
    return '|'.join(f)


def cut_ok(a, c):
    """position c does not fall strictly inside an interval"""
    return not any(iv.start < c < iv.end for iv in (a._intervals or []))


def mass_of(a, **kw):
    import peptacular as pt
    try:
        return 'ok', pt.mass(a, **kw)
    except Exception as e:  # noqa
        return 'err', type(e).__name__


def same_mass(m1, m2, tol=1e-6):
    if m1[0] != m2[0]:
        return False
    if m1[0] == 'err':
        return m1[1] == m2[1]
    return abs(m1[1] - m2[1]) <= tol * max(1.0, abs(m1[1]))


def apply(a, name, *args, inplace=False, **kw):
    """call an editor on a private copy; returns the resulting annotation (inplace: the mutated copy)"""
    b = copy.deepcopy(a)
    r = getattr(b, name)(*args, inplace=inplace, **kw)
    if inplace:
        if r is not None:
            raise AssertionError(f'{name}(inplace=True) returned {r!r}')
        return b
    return r


def read_perm(a, seed):
    """the permutation `random.shuffle` produces inside ProFormaAnnotation.shuffle(seed), read from the implementation
    through a twin annotation whose residue i carries the tag i"""
    PA, _, Mod = _types()
    n = len(a._sequence)
    twin = PA(_sequence=a._sequence, _internal_mods={i: [Mod(i, 1)] for i in range(n)})
    t = twin.shuffle(seed)
    return [t._internal_mods[j][0].val for j in range(n)]


def in_reparse_domain(a):
    """the annotation is one the grammar denotes, judged WITHOUT calling the parser or the serializer: non-empty letter
    sequence, no empty containers, residue-mod keys inside the sequence, intervals non-empty, in sequence order, not
    overlapping, adducts only with a charge. (The generators only use modification values that are valid ProForma.)"""
    n = len(a._sequence)
    if n == 0 or not a._sequence.isalpha() or is_odd(a) or out_of_range_keys(a):
        return False
    pos = 0
    for iv in (a._intervals or []):
        if not (pos <= iv.start < iv.end <= n) or (iv.mods is not None and len(iv.mods) == 0):
            return False
        pos = iv.end
    if a._charge_adducts is not None and a._charge is None:
        return False
    if a._charge == 0:
        return False
    return True


def roundtrips(a):
    from peptacular.proforma.proforma_parser import parse
    try:
        return parse(a.serialize()) == a
    except Exception:  # noqa
        return False


def ranked_oracle(chk, name, cases, fn, classify, key_fn=None, nontrivial_fn=None):
    """evaluate `fn` on every case first, then hand the cases to chk.oracle ordered so that failures outside every known
    finding come first and the known findings alternate (core keeps only the first few failures of an oracle)"""
    res = {}
    for idx, c in enumerate(cases):
        try:
            res[idx] = fn(c)
        except Exception as e:  # noqa
            res[idx] = f'unexpected {type(e).__name__}: {e}'
    groups = {}
    okc = []
    for idx, c in enumerate(cases):
        r = res[idx]
        if r is None:
            okc.append(idx)
        else:
            kid = classify({'oracle': name, 'case': core_jsonable(c), 'detail': r})
            groups.setdefault(kid or '', []).append(idx)
    order = list(groups.pop('', []))
    rest = [list(v) for _, v in sorted(groups.items())]
    while any(rest):
        for g in rest:
            if g:
                order.append(g.pop(0))
    order += okc
    it = iter(order)
    cur = {}

    def prop(c):
        return res[cur['i']]

    class _Seq:
        def __iter__(self_inner):
            for i in order:
                cur['i'] = i
                yield cases[i]

    return chk.oracle(name, _Seq(), prop, nontrivial_fn=nontrivial_fn, key_fn=key_fn)


def core_jsonable(c):
    import json
    try:
        return json.loads(json.dumps(c))
    except TypeError:
        return repr(c)


class LineCover:
    """which lines of the modelled functions the correspondence inputs execute (sys.monitoring, Python 3.12)"""

    def __init__(self, funcs, tool_id=4):
        import sys
        self.mon = getattr(sys, 'monitoring', None)
        self.tool = tool_id
        self.codes = {}
        for f in funcs:
            c = getattr(f, '__code__', None)
            if c is not None:
                self.codes[c] = set()

    def __enter__(self):
        if self.mon is None:
            return self
        try:
            self.mon.use_tool_id(self.tool, 'c11cover')
        except ValueError:
            self.mon = None
            return self
        ev = self.mon.events.LINE

        def cb(code, line):
            s = self.codes.get(code)
            if s is not None:
                s.add(line)
            return self.mon.DISABLE

        self.mon.register_callback(self.tool, ev, cb)
        for c in self.codes:
            self.mon.set_local_events(self.tool, c, ev)
        return self

    def __exit__(self, *a):
        if self.mon is None:
            return False
        for c in self.codes:
            self.mon.set_local_events(self.tool, c, 0)
        self.mon.register_callback(self.tool, self.mon.events.LINE, None)
        self.mon.free_tool_id(self.tool)
        return False

    def report(self):
        """{function: [uncovered line numbers]} (docstring lines are not code lines and never listed)"""
        out = {}
        for c, seen in self.codes.items():
            lines = {ln for (_s, _e, ln) in c.co_lines() if ln is not None and ln != c.co_firstlineno}
            # nested code objects (generators, lambdas) are not tracked separately: drop their lines
            for k in c.co_consts:
                if hasattr(k, 'co_lines'):
                    lines -= {ln for (_s, _e, ln) in k.co_lines() if ln is not None}
            out[c.co_qualname] = sorted(lines - seen)
        return out


# ------------------------------------------------------------------------------------------ results must not share mutable state

def mutate_everywhere(r, tag='ZZ'):
    """edit an annotation in place at every container level: every global / terminal list, every residue list, every
    interval (bounds, flag, list), the dict itself, the interval list itself, the Mod objects, charge and sequence"""
    _, Interval, Mod = _types()
    for name in ('_isotope_mods', '_static_mods', '_labile_mods', '_unknown_mods', '_nterm_mods', '_cterm_mods',
                 '_charge_adducts'):
        lst = getattr(r, name)
        if lst is not None:
            if lst:
                lst[0].mult += 5
                lst[0].val = tag + str(lst[0].val)
            lst.append(Mod(tag, 3))
    if r._internal_mods is not None:
        for k in list(r._internal_mods):
            lst = r._internal_mods[k]
            if lst:
                lst[0].mult += 5
            lst.append(Mod(tag, 3))
        r._internal_mods[len(r._sequence) + 7] = [Mod(tag, 1)]
    if r._intervals is not None:
        for iv in r._intervals:
            iv.start += 1
            iv.end += 2
            iv.ambiguous = not iv.ambiguous
            if iv.mods is not None:
                if iv.mods:
                    iv.mods[0].mult += 5
                iv.mods.append(Mod(tag, 3))
        r._intervals.append(Interval(0, 1, False, [Mod(tag, 1)]))
    r._charge = 9
    r._sequence = r._sequence + 'W'


def sharing_failure(d, produce, label):
    """`produce(source)` -> list of result annotations. After editing one result in place at every container level the
    source, the sibling results and a repeated call must be unchanged; likewise the results after editing the source"""
    src = annot.undump(d)
    before = annot.dump(src, sort_internal=False)
    results = list(produce(src))
    if annot.dump(src, sort_internal=False) != before:
        return f'{label}: the call changed its argument'
    dumps = [annot.dump(x, sort_internal=False) for x in results]
    if not results:
        return None
    picks = sorted({0, len(results) - 1, len(results) // 2})
    for idx in picks:
        res = list(produce(src))
        base = [annot.dump(x, sort_internal=False) for x in res]
        if base != dumps:
            return f'{label}: a repeated call gives different results'
        if any(res[i] is res[j] for i in range(len(res)) for j in range(i)):
            return f'{label}: the same object is returned twice'
        if any(x is src for x in res):
            return f'{label}: the argument itself is returned'
        mutate_everywhere(res[idx])
        if annot.dump(src, sort_internal=False) != before:
            return (f'{label}: editing result {idx} in place changed the source: {annot.dump(src, sort_internal=False)} '
                    f'(was {before})')
        for j, x in enumerate(res):
            if j != idx and annot.dump(x, sort_internal=False) != dumps[j]:
                return f'{label}: editing result {idx} in place changed sibling result {j}: {annot.dump(x)} (was {dumps[j]})'
        again = [annot.dump(x, sort_internal=False) for x in produce(src)]
        if again != dumps:
            return f'{label}: after editing result {idx} in place a repeated call gives {again[:2]} instead of {dumps[:2]}'
    res = list(produce(src))
    mutate_everywhere(src, tag='SRC')
    now = [annot.dump(x, sort_internal=False) for x in res]
    if now != dumps:
        return f'{label}: editing the source in place changed results already returned'
    return None
