"""C05 - fragment ion series obey the chemistry of peptide backbone cleavage."""
import json

from .. import core, annot, translate_tables, translate_masscore
from . import c02_common as cm
from . import c02 as c02h

PID = 'C05'
DRV = 'drv_c05'

REGISTRY = {
    'id': 'C05',
    'text': 'Mechanical tie for the arithmetic core: harness/translate_masscore.py reads the CURRENT source with ast and emits Generated/MassCorePy.lean (adjust_mass, adjust_mz, _parse_adduct_mass from mass_calc.py; chem_mass (dict argument) with its loop body from chem_util.py; merge_dicts with its two loops from util.py); Props/C02Gen (6 theorems) proves each equal to the hand model (GenMass.adjust_mass = Mass.adjustMass, adjust_mz = Mass.adjustMz, _parse_adduct_mass = Mass.adductMassP, chem_mass_loop1 = Chem.chemStep, chem_mass = Chem.chemMass, merge_dicts = Chem.merge for a first dict with distinct keys), so the theorems below hold for the definitions read off the source; hand-modelled only (tied by correspondence): mass, mz, comp_mass and the label path, _parse_charge_adducts_mass (isinstance dispatch), parse_ion_elements, parse_static_mods, the text branch of chem_mass; a function outside the translator subset is reported as untranslated and falls back to correspondence. '
            'Lean (9 theorems): every generated ion-offset table entry (18 ion types, both modes) equals the offset built from CO, NH3, H2, '
            'H2O and the H-minus-electron charge carrier (ion_offsets_ok, adjust_tables_ok: kernel evaluation over the generated tables), '
            'and for the executable model of mass(ion_type=...), exactly over Q, for all sequences, positions, modifications, charges, '
            'isotope offsets, losses and both modes: b_plus_y (b_i + y_(n-i) = M + 2h), forward_series_offsets (a = b - CO, c = b + NH3), '
            'backward_series_offsets (x = y + CO - H2, z = y - NH3), internal_offsets (nine series = by + pair of terminal offsets), '
            'immonium_mass, charge_step (+PROTON_MASS per charge), mod_locality. The same relations are evaluated on the real '
            'fragment() / mass() output against a hand-typed atomic-mass table at 1e-5 Da. '
            'Round-5 extension (Props/C05Ext, 10 theorems, same model functions mass / mz): complementary_pairs (all nine forward/backward '
            'pairs at any charges, isotope offsets, losses: f + g = M + 2h + off(f) + off(g) + (z1+z2-2) protons + ...), complementary_ax_cz '
            '(a + x = M + 2h - H2, c + z = M + 2h), loss_isotope_shift (every ion shifts by exactly loss + isotope x NEUTRON_MASS), '
            'charge_difference ((z - z0) x PROTON_MASS for any two charges, negative included), mz_charge_relation (mz = (m1 + (z-1)p)/z for '
            'every z != 0), internal_prefix_difference (fg[s2] = b[s1+s2] - b[s1] + h + off(f) + off(g)), residues_positive (kernel evaluation: '
            'every residue mass >= 0, > 0 except X), forward_series_monotone (a longer prefix is never lighter, strictly heavier unless the run '
            'contains X), x_residue_massless (the counter-example to strictness in the code as it is), terminal_mod_locality (N-terminal mods '
            'sit on every prefix ion, C-terminal mods on every suffix ion, by exactly their value); the signed-charge mass / mz of every ion type '
            'is run against the model (correspondence mass_mz_signed) and the new relations are evaluated on real fragment() / mass() / mz() '
            'output (oracle ext_relations); both entry points - fragment() and Fragmenter(...).fragment() - are evaluated on the ProForma text with '
            'and without a precursor charge suffix /z and compared with each other (oracle entry_points)',
    'note': 'trusted: Lean kernel; the Python subset reader harness/translate_masscore.py (its output Generated/MassCorePy.lean is committed and readable next to the source; round(x, p) is read as round-half-even on the exact rational, floats as exact rationals); translator; hand-typed NIST/CODATA data; fragment() itself is not modelled here (C04) - every fragment '
            'it returns is re-computed by the model of mass() from the fragment\'s own sequence text (correspondence) and checked '
            'directly by the oracle; which fragment annotations contain a residue (slicing) is C07/C11',
    'technique': 'Lean 4 proof about executable model + generated tables checked by kernel evaluation + differential correspondence '
                 '+ independent reference oracle',
}

TOL = 1e-5
OFF_TERM = {'a': ('-CO',), 'b': (), 'c': ('+NH3',), 'x': ('+CO', '-H2'), 'y': (), 'z': ('-NH3',)}


def gen_peptide(rng, mods=True):
    """length 2..15 over the 20 standard letters + U, O; numeric / formula mods on residues and termini"""
    from peptacular.proforma.proforma_parser import ProFormaAnnotation
    from peptacular.proforma.proforma_dataclasses import Mod
    n = rng.randint(2, 15)
    seq = ''.join(rng.choice(cm.RES22) for _ in range(n))
    a = ProFormaAnnotation(_sequence=seq)
    if not mods:
        return a

    def mod():
        v = cm.gen_value(rng, ['num', 'formula'])
        return Mod(v, rng.choice([1, 1, 1, 2]))

    d = {}
    for i in range(n):
        if rng.random() < 0.15:
            d[i] = [mod() for _ in range(rng.choice([1, 1, 2]))]
    if d:
        a._internal_mods = d
    if rng.random() < 0.25:
        a._nterm_mods = [mod()]
    if rng.random() < 0.25:
        a._cterm_mods = [mod()]
    return a


def ref_mod_mass(m, mono, nuc, avg):
    """reference mass of a numeric / formula Mod from the hand-typed element table"""
    v = m.val
    if isinstance(v, (int, float)):
        return v * m.mult
    el = dict(nuc)
    el['2H'] = nuc['D']
    el['3H'] = nuc['T']
    if not mono:
        el.update(avg)
    r = cm.formula_mass_ref(v, el)
    if r is None:
        raise ValueError('no reference mass for ' + repr(v))
    return r * m.mult


def run(chk):
    import peptacular as pt
    rng = chk.rng
    tier = chk.tier
    translate_tables.translate(chk)
    # adjust_mass / adjust_mz (where the ion offsets enter) read mechanically from the source
    gen_done, gen_unt = translate_masscore.translate(chk)
    chk.lean_build(['PeptVerif.Props.C05', 'PeptVerif.Props.C05Ext', 'PeptVerif.Props.C02Gen'], DRV)
    chk.trusted += [
        'harness/translate_masscore.py: the reading of the Python subset (None defaults, = += -=, d[k] = v, if/elif/else on == != in-tuple '
        'in-TABLE is-True is-None and Python truthiness, or, + - * /, conditional expressions, TABLE[key] as KeyError, round -> '
        'round-half-even on the exact rational, x[0].isdigit(), d.get(k, 0), for k, v in d.items() with continue, dict comprehension '
        'filter, return, raise) into the combinators of the hand model; translated on this run: %s; hand-modelled only: '
        '_parse_charge_adducts_mass (isinstance dispatch), parse_ion_elements, mass, mz, comp_mass and the label path%s'
        % (', '.join(gen_done) or 'none', ''.join(', ' + k for k in gen_unt)),
    ]
    chk.trusted += [
        'modelled: mass/adjust_mass with the ion-type tables (Model/Mass.lean, Model/Chem.lean); fragment() is not modelled here: every '
        'fragment it returns is re-computed by the model from the fragment\'s own sequence text (correspondence) and checked by the oracle',
        'hand-typed reference: CO, NH3, H2, H2O from NIST masses of H, C, N, O (monoisotopic) and their isotopic compositions (average); '
        'CODATA proton',
        'modification masses in the oracle: numeric value, or the formula read by an independent reader over the hand-typed element table',
    ]
    chk.rule = ('peptides of length 2..15 over the 20 standard letters + U, O with numeric or formula modifications (multiplier 1..2) on '
                'residues and termini; 6 terminal + 9 internal series + immonium; charges 1..4; both modes; non-trivial = the peptide '
                'carries at least one modification or has length >= 3; distinct = distinct protocol line / distinct peptide x mode')

    nuc, avg, part = c02h.ref_tables(chk)
    from peptacular import mass_calc as _mc
    reach = cm.Reach([_mc.mass, _mc.adjust_mass])
    reach.start()

    def off(mono):
        t = nuc if mono else {**nuc, **avg}
        # 'h': the carrier of the FIRST charge = hydrogen cation of the mode (H - e; in average mode the natural-abundance
        # hydrogen, 1.16e-4 above the proton; in monoisotopic mode within 1.5e-8 of the proton); 'p': the CODATA proton
        return {'CO': t['C'] + t['O'], 'NH3': t['N'] + 3 * t['H'], 'H2': 2 * t['H'], 'H2O': 2 * t['H'] + t['O'], 'p': part['p'],
                'h': t['H'] - part['e']}

    def series_off(t, o):
        return {'a': -o['CO'], 'b': 0.0, 'c': o['NH3'], 'x': o['CO'] - o['H2'], 'y': 0.0, 'z': -o['NH3']}[t]

    # ------------------------------------------------------------------ correspondence: mass(ion_type=...) and fragment masses
    n_pep = 120 if tier == 'quick' else 2500
    peps = [(gen_peptide(rng), rng.random() < 0.5) for _ in range(n_pep)]
    for o in c02h.load_corpus(PID):
        a, kw = c02h.case_of(o)
        peps.insert(0, (a, kw.get('monoisotopic', True)))
    mcases = []
    for a, mono in peps:
        for _ in range(6):
            mcases.append((a, {'ion_type': rng.choice(cm.ION_TYPES), 'charge': rng.randint(1, 4), 'monoisotopic': mono}))
    lines = [cm.line('mass', a, kw) for a, kw in mcases]
    outs = chk.driver(DRV, lines)
    st = chk.corr.setdefault('mass_ion_type', {'evaluations': 0, 'disagreements': 0, 'samples': []})
    for (a, kw), l, m in zip(mcases, lines, outs):
        im = cm.call(pt.mass, a, kw)
        st['evaluations'] += 1
        chk.evaluations += 1
        chk.count('ion=' + kw['ion_type'])
        if cm.has_mods(a) or len(a._sequence) >= 3:
            chk.nontrivial.add('mass|' + l)
            if len(st['samples']) < 2:
                st['samples'].append({'line': l[:300], 'impl': im, 'model': m})
        if not cm.cmp_float(im, m, 1e-7):
            st['disagreements'] += 1
            if len([d for d in chk.disagreements if d['op'] == 'mass_ion_type']) < 5:
                chk.disagreements.append({'op': 'mass_ion_type', 'line': l, 'impl': im, 'model': m})

    fl, fexp = [], []
    for a, mono in peps[:: (3 if tier == 'quick' else 2)]:
        frs = pt.fragment(a.copy(), ion_types=cm.FRAGMENT_TYPES, charges=[1, 2, 3, 4], monoisotopic=mono)
        for f in rng.sample(frs, min(len(frs), 40)):
            fa = pt.parse(f.sequence)
            fl.append(cm.line('mass', fa, {'ion_type': f.ion_type, 'charge': f.charge, 'monoisotopic': mono}))
            fexp.append('ok ' + repr(f.mass))
    fout = chk.driver(DRV, fl)
    st = chk.corr.setdefault('fragment_mass_vs_model', {'evaluations': 0, 'disagreements': 0, 'samples': []})
    for l, im, m in zip(fl, fexp, fout):
        st['evaluations'] += 1
        chk.evaluations += 1
        chk.nontrivial.add('frag|' + l)
        if len(st['samples']) < 2:
            st['samples'].append({'line': l[:300], 'impl': im, 'model': m})
        if not cm.cmp_float(im, m, 1e-7):
            st['disagreements'] += 1
            if len([d for d in chk.disagreements if d['op'] == 'fragment_mass_vs_model']) < 5:
                chk.disagreements.append({'op': 'fragment_mass_vs_model', 'line': l, 'impl': im, 'model': m})

    # ------------------------------------------------------------------ oracle: the relations on real fragment() / mass() output
    def relations(c):
        a, mono = c
        o = off(mono)
        n = len(a._sequence)
        M = pt.mass(a.copy(), charge=0, ion_type='p', monoisotopic=mono)
        frs = pt.fragment(a.copy(), ion_types=cm.FRAGMENT_TYPES, charges=[1, 2, 3, 4], monoisotopic=mono)
        ix = {}
        for f in frs:
            ix[(f.ion_type, f.start, f.end, f.charge)] = f.mass
        bad = []

        def need(k):
            if k not in ix:
                bad.append(f'fragment {k} missing from fragment() output')
                return None
            return ix[k]

        def close(x, y, what):
            if x is None or y is None:
                return
            if abs(x - y) > TOL:
                bad.append(f'{what}: {x!r} vs {y!r} (diff {x - y:.6g})')

        for i in range(1, n):
            b, y = need(('b', 0, i, 1)), need(('y', i, n, 1))
            if b is not None and y is not None:
                close(b + y, M + 2 * o['h'], f'b{i} + y{n - i} = M + 2 protons')
        for z in (1, 2, 3, 4):
            for i in range(1, n + 1):
                b = need(('b', 0, i, z))
                for t in 'ac':
                    close(need((t, 0, i, z)), None if b is None else b + series_off(t, o), f'{t}{i} (z={z}) = b{i} {"".join(OFF_TERM[t])}')
            for s in range(0, n):
                y = need(('y', s, n, z))
                for t in 'xz':
                    close(need((t, s, n, z)), None if y is None else y + series_off(t, o), f'{t}{n - s} (z={z}) = y{n - s} {"".join(OFF_TERM[t])}')
            for s in range(1, n):
                for e in range(s + 1, n):
                    by = need(('by', s, e, z))
                    for t in cm.INTERNAL:
                        if t == 'by':
                            continue
                        close(need((t, s, e, z)), None if by is None else by + series_off(t[0], o) + series_off(t[1], o),
                              f'internal {t}[{s},{e}) (z={z}) = by + off({t[0]}) + off({t[1]})')
        # by(s,e) itself and immonium from the reference residue table
        res = _ref_residues(chk, nuc, avg)

        def span_mass(s, e):
            tot = 0.0
            for k in range(s, e):
                tot += res[(a._sequence[k], mono)]
                for m in (a._internal_mods or {}).get(k, []):
                    tot += ref_mod_mass(m, mono, nuc, avg)
            return tot

        for s in range(1, n):
            for e in range(s + 1, n):
                close(need(('by', s, e, 1)), span_mass(s, e) + o['h'], f'by[{s},{e}) = residues + proton')
        for k in range(n):
            if (k == 0 and a._nterm_mods) or (k == n - 1 and a._cterm_mods):
                continue   # whether a terminal modification belongs to the immonium ion of the end residue is left open
            close(need(('i', k, k + 1, 1)), span_mass(k, k + 1) - o['CO'] + o['h'], f'immonium {k} = residue - CO + proton')
        # the other return types carry the same numbers as the Fragment objects, in the same order (every charge)
        for rt, pick in (('mass', lambda f: f.mass), ('mz', lambda f: f.mz), ('mass-label', lambda f: (f.mass, f.label)),
                         ('mz-label', lambda f: (f.mz, f.label)), ('label', lambda f: f.label)):
            got = pt.fragment(a.copy(), ion_types=cm.FRAGMENT_TYPES, charges=[1, 2, 3, 4], monoisotopic=mono, return_type=rt)
            exp = [pick(f) for f in frs]
            if len(got) != len(exp):
                bad.append(f'return_type={rt}: {len(got)} values for {len(exp)} fragments')
                continue
            for g, x, f in zip(got, exp, frs):
                gv, xv = (g[0], x[0]) if isinstance(g, tuple) else (g, x)
                if (isinstance(gv, float) and abs(gv - xv) > TOL) or (not isinstance(gv, float) and gv != xv) \
                        or (isinstance(g, tuple) and g[1] != x[1]):
                    bad.append(f'return_type={rt}: {f.ion_type}[{f.start},{f.end}) z={f.charge} gives {g!r}, the fragment says {x!r}')
                    break
        # charge steps
        for (t, s, e, z), m in ix.items():
            if z < 4 and (t, s, e, z + 1) in ix:
                close(ix[(t, s, e, z + 1)], m + o['p'], f'{t}[{s},{e}) charge {z}->{z + 1} adds one proton')
        # the same terminal relations on mass(ion_type=...) of the whole peptide
        for z in (1, 3):
            mm = {t: pt.mass(a.copy(), charge=z, ion_type=t, monoisotopic=mono) for t in cm.TERMINAL}
            close(mm['a'], mm['b'] + series_off('a', o), f'mass(ion_type=a, z={z}) = b - CO')
            close(mm['c'], mm['b'] + series_off('c', o), f'mass(ion_type=c, z={z}) = b + NH3')
            close(mm['x'], mm['y'] + series_off('x', o), f'mass(ion_type=x, z={z}) = y + CO - H2')
            close(mm['z'], mm['y'] + series_off('z', o), f'mass(ion_type=z, z={z}) = y - NH3')
            close(mm['y'], M + o['h'] + (z - 1) * o['p'], f'mass(ion_type=y, z={z}) = M + z protons')
            close(mm['b'], M - o['H2O'] + o['h'] + (z - 1) * o['p'], f'mass(ion_type=b, z={z}) = M - H2O + z protons')
        return '; '.join(bad[:4]) if bad else None

    def locality(c):
        """removing one modification shifts exactly the ions whose span contains its residue / terminus"""
        a, mono = c
        n = len(a._sequence)
        sites = []
        for k, l in (a._internal_mods or {}).items():
            sites.append(('res', k))
        if a._nterm_mods:
            sites.append(('nterm', None))
        if a._cterm_mods:
            sites.append(('cterm', None))
        if not sites:
            return None
        kind, k = rng.choice(sites)
        b = a.copy()
        if kind == 'res':
            removed = b._internal_mods.pop(k)
            if not b._internal_mods:
                b._internal_mods = None
        elif kind == 'nterm':
            removed, b._nterm_mods = b._nterm_mods, None
        else:
            removed, b._cterm_mods = b._cterm_mods, None
        delta = sum(ref_mod_mass(m, mono, nuc, avg) for m in removed)
        types = cm.FRAGMENT_TYPES
        f1 = {(f.ion_type, f.start, f.end, f.charge): f.mass for f in pt.fragment(a.copy(), ion_types=types, charges=[1, 2], monoisotopic=mono)}
        f0 = {(f.ion_type, f.start, f.end, f.charge): f.mass for f in pt.fragment(b.copy(), ion_types=types, charges=[1, 2], monoisotopic=mono)}
        if set(f1) != set(f0):
            return 'removing a modification changed the set of fragment keys'
        bad = []
        for key, m in f1.items():
            t, s, e, z = key
            if kind == 'res':
                inside = s <= k < e
            elif kind == 'nterm':
                if t == 'i' and s == 0:
                    continue
                inside = s == 0      # every forward ion, and the full-length backward ion
            else:
                if t == 'i' and e == n:
                    continue
                inside = e == n      # every backward ion, and the full-length forward ion
            exp = delta if inside else 0.0
            if abs((m - f0[key]) - exp) > TOL:
                bad.append(f'{t}[{s},{e}) z={z}: removing the {kind} modification{"" if k is None else " at " + str(k)} changed the mass by '
                           f'{m - f0[key]!r}, expected {exp!r}')
        return '; '.join(bad[:3]) if bad else None

    budget = (60 if tier == 'quick' else 1500) * (3 if chk.broken() else 1)
    ocases = list(peps[:budget])
    while len(ocases) < budget:
        ocases.append((gen_peptide(rng), rng.random() < 0.5))
    # the same peptide in BOTH modes within one process, in either order (results must not depend on what was asked before)
    both = []
    for a, mono in ocases[: max(10, budget // 3)]:
        both += [(a, mono), (a, not mono), (a, mono)]
    ocases = both + ocases[max(10, budget // 3):]
    keyf = lambda c: annot.dump(c[0]) + '|' + str(c[1])
    chk.oracle('series_relations', ocases, relations, nontrivial_fn=lambda c: cm.has_mods(c[0]) or len(c[0]._sequence) >= 3, key_fn=keyf)
    _attach(chk, 'series_relations', ocases, relations)
    lcases = [c for c in ocases if cm.has_mods(c[0])]
    chk.oracle('mod_locality', lcases, locality, key_fn=keyf)
    _attach(chk, 'mod_locality', lcases, locality, shrink=False)

    # ------------------------------------------------------------------ round-5 extension: signed charges, isotope / loss, mz
    scases = []
    for a, mono in peps[:: (2 if tier == 'quick' else 1)]:
        for _ in range(3):
            kw = {'ion_type': rng.choice(cm.ION_TYPES), 'charge': rng.choice([-4, -3, -2, -1, 0, 1, 2, 3, 4]), 'monoisotopic': mono,
                  'isotope': rng.choice([0, 0, 1, 2, -1]), 'loss': rng.choice([0.0, -18.010565, -17.026549, 79.96633, 1.5])}
            scases.append(('mass', a, kw))
            scases.append(('mz', a, kw))
    slines = [cm.line(op, a, kw) for op, a, kw in scases]
    souts = chk.driver(DRV, slines)
    st = chk.corr.setdefault('mass_mz_signed', {'evaluations': 0, 'disagreements': 0, 'samples': []})
    for (op, a, kw), l, m in zip(scases, slines, souts):
        im = cm.call(pt.mass if op == 'mass' else pt.mz, a, kw)
        st['evaluations'] += 1
        chk.evaluations += 1
        chk.count('signed:' + op + ':z' + ('-' if kw['charge'] < 0 else '0' if kw['charge'] == 0 else '+'))
        chk.nontrivial.add('signed|' + l)
        if len(st['samples']) < 2:
            st['samples'].append({'line': l[:300], 'impl': im, 'model': m})
        if not cm.cmp_float(im, m, 1e-7):
            st['disagreements'] += 1
            if len([d for d in chk.disagreements if d['op'] == 'mass_mz_signed']) < 5:
                chk.disagreements.append({'op': 'mass_mz_signed', 'line': l, 'impl': im, 'model': m})

    def ext_relations(c):
        """the relations of Props/C05Ext on real fragment() / mass() / mz() output, reference constants hand-typed"""
        a, mono = c
        o = off(mono)
        n = len(a._sequence)
        res = _ref_residues(chk, nuc, avg)
        M = pt.mass(a.copy(), charge=0, ion_type='p', monoisotopic=mono)
        ix = {(f.ion_type, f.start, f.end, f.charge): f.mass
              for f in pt.fragment(a.copy(), ion_types=cm.FRAGMENT_TYPES, charges=[1, 2, 3], monoisotopic=mono)}
        bad = []

        def close(x, y, what):
            if abs(x - y) > TOL:
                bad.append(f'{what}: {x!r} vs {y!r} (diff {x - y:.6g})')

        def gained(s, e):
            tot = 0.0
            for k in range(s, e):
                tot += res[(a._sequence[k], mono)]
                for m in (a._internal_mods or {}).get(k, []):
                    tot += ref_mod_mass(m, mono, nuc, avg)
            return tot

        try:
            for i in range(1, n):
                for f in 'abc':
                    for g in 'xyz':
                        for z1, z2 in ((1, 1), (2, 1), (1, 3), (2, 2)):
                            close(ix[(f, 0, i, z1)] + ix[(g, i, n, z2)],
                                  M + 2 * o['h'] + series_off(f, o) + series_off(g, o) + (z1 + z2 - 2) * o['p'],
                                  f'{f}{i}(z={z1}) + {g}{n - i}(z={z2}) = M + 2h + off({f}) + off({g}) + {z1 + z2 - 2} protons')
            for s in range(1, n):
                for e in range(s + 1, n):
                    for t in cm.INTERNAL:
                        for z in (1, 2):
                            close(ix[(t, s, e, z)], ix[('b', 0, e, z)] - ix[('b', 0, s, 1)] + o['h'] + series_off(t[0], o) + series_off(t[1], o),
                                  f'internal {t}[{s},{e}) (z={z}) = b{e}(z={z}) - b{s}(z=1) + h + off({t[0]}) + off({t[1]})')
            for t in 'abc':
                for i in range(1, n):
                    close(ix[(t, 0, i + 1, 1)] - ix[(t, 0, i, 1)], gained(i, i + 1) + (sum(ref_mod_mass(m, mono, nuc, avg) for m in a._cterm_mods or []) if i + 1 == n else 0.0),
                          f'{t}{i + 1} - {t}{i} = residue {i} with its modifications')
            for t in 'xyz':
                for s in range(1, n):
                    close(ix[(t, s - 1, n, 1)] - ix[(t, s, n, 1)], gained(s - 1, s) + (sum(ref_mod_mass(m, mono, nuc, avg) for m in a._nterm_mods or []) if s == 1 else 0.0),
                          f'{t}{n - s + 1} - {t}{n - s} = residue {s - 1} with its modifications')
        except KeyError as e:
            bad.append(f'fragment {e} missing from fragment() output')
        # loss / isotope / charge / mz on mass() and mz() of the whole peptide, signed charges
        for t in rng.sample(cm.ION_TYPES, 5):
            m0 = {z: pt.mass(a.copy(), charge=z, ion_type=t, monoisotopic=mono) for z in (-3, -1, 0, 1, 2, 4)}
            for z in (-3, -1, 0, 2, 4):
                close(m0[z], m0[1] + (z - 1) * o['p'], f'mass(ion_type={t}, z={z}) = mass(z=1) + {z - 1} protons')
                if z != 0:
                    close(pt.mz(a.copy(), charge=z, ion_type=t, monoisotopic=mono), (m0[1] + (z - 1) * o['p']) / z,
                          f'mz(ion_type={t}, z={z}) = (m1 + (z-1) protons) / z')
            for iso, loss in ((1, 0.0), (3, -18.010565), (-2, 97.9769), (0, -17.026549)):
                close(pt.mass(a.copy(), charge=2, ion_type=t, monoisotopic=mono, isotope=iso, loss=loss), m0[2] + iso * part['n'] + loss,
                      f'mass(ion_type={t}, z=2, isotope={iso}, loss={loss}) = mass + isotope x neutron + loss')
        return '; '.join(bad[:4]) if bad else None

    ecases = ocases[: (40 if tier == 'quick' else 600) * (3 if chk.broken() else 1)]
    chk.oracle('ext_relations', ecases, ext_relations, nontrivial_fn=lambda c: cm.has_mods(c[0]) or len(c[0]._sequence) >= 3, key_fn=keyf)
    _attach(chk, 'ext_relations', ecases, ext_relations)

    # ------------------------------------------------------------------ both entry points, with and without a '/z' charge suffix
    def entry_points(c):
        """fragment() and Fragmenter(...).fragment() on the ProForma text, with and without a precursor charge suffix '/z': the C05
        relations hold on each (M = neutral mass of the peptide) and the three answers are the same numbers"""
        a, mono, zs = c
        o = off(mono)
        n = len(a._sequence)
        plain = a.serialize()
        text = plain if zs is None else plain + '/' + str(zs)
        res = _ref_residues(chk, nuc, avg)
        M = pt.mass(plain, charge=0, ion_type='p', monoisotopic=mono)
        types, charges = cm.FRAGMENT_TYPES, [1, 2, 3]
        runs = {
            'fragment(text)': pt.fragment(text, ion_types=types, charges=charges, monoisotopic=mono),
            'Fragmenter(text).fragment': pt.Fragmenter(text, monoisotopic=mono).fragment(ion_types=types, charges=charges),
            'Fragmenter(annotation).fragment': pt.Fragmenter(pt.parse(text), monoisotopic=mono).fragment(ion_types=types, charges=charges),
            'fragment(text without /z)': pt.fragment(plain, ion_types=types, charges=charges, monoisotopic=mono),
        }
        ixs = {k: {(f.ion_type, f.start, f.end, f.charge): f.mass for f in v} for k, v in runs.items()}
        bad = []

        def close(x, y, what):
            if abs(x - y) > TOL:
                bad.append(f'{what}: {x!r} vs {y!r} (diff {x - y:.6g})')

        def gained(k):
            tot = res[(a._sequence[k], mono)]
            for m in (a._internal_mods or {}).get(k, []):
                tot += ref_mod_mass(m, mono, nuc, avg)
            return tot

        ref = ixs['fragment(text without /z)']
        for name, ix in ixs.items():
            if set(ix) != set(ref):
                bad.append(f'{name} on {text!r}: a different set of fragments than fragment() on {plain!r}')
                continue
            for key, m in ix.items():
                if abs(m - ref[key]) > 1e-7:
                    t, s0, e0, z = key
                    bad.append(f'{name} on {text!r}: {t}[{s0},{e0}) z={z} = {m!r}, fragment() on {plain!r} gives {ref[key]!r}')
                    break
            try:
                for i in range(1, n):
                    close(ix[('b', 0, i, 1)] + ix[('y', i, n, 1)], M + 2 * o['h'], f'{name} on {text!r}: b{i} + y{n - i} = M + 2 protons')
                for z in charges:
                    for i in range(1, n + 1):
                        for t in 'ac':
                            close(ix[(t, 0, i, z)], ix[('b', 0, i, z)] + series_off(t, o), f'{name} on {text!r}: {t}{i} (z={z}) = b{i} {"".join(OFF_TERM[t])}')
                    for s0 in range(0, n):
                        for t in 'xz':
                            close(ix[(t, s0, n, z)], ix[('y', s0, n, z)] + series_off(t, o),
                                  f'{name} on {text!r}: {t}{n - s0} (z={z}) = y{n - s0} {"".join(OFF_TERM[t])}')
                for k in range(n):
                    if (k == 0 and a._nterm_mods) or (k == n - 1 and a._cterm_mods):
                        continue
                    close(ix[('i', k, k + 1, 1)], gained(k) - o['CO'] + o['h'], f'{name} on {text!r}: immonium {k} = residue - CO + proton')
                close(ix[('a', 0, 1, 1)], gained(0) + sum(ref_mod_mass(m, mono, nuc, avg) for m in a._nterm_mods or []) - o['CO'] + o['h'],
                      f'{name} on {text!r}: a1 = first residue - CO + proton')
                for (t, s0, e0, z), m in ix.items():
                    if (t, s0, e0, z + 1) in ix:
                        close(ix[(t, s0, e0, z + 1)], m + o['p'], f'{name} on {text!r}: {t}[{s0},{e0}) charge {z}->{z + 1} adds one proton')
            except KeyError as e:
                bad.append(f'{name} on {text!r}: fragment {e} missing')
        return '; '.join(bad[:4]) if bad else None

    n_ep = (30 if tier == 'quick' else 400) * (3 if chk.broken() else 1)
    epcases = []
    for i in range(n_ep):
        a = gen_peptide(rng)
        epcases.append((a, rng.random() < 0.5, rng.randint(1, 4) if i % 2 == 0 else None))
    ep_key = lambda c: annot.dump(c[0]) + '|' + str(c[1]) + '|/' + str(c[2])
    chk.oracle('entry_points', epcases, entry_points, key_fn=ep_key)
    for f in chk.failures:
        if f['oracle'] == 'entry_points' and not isinstance(f['case'], dict):
            for c in epcases:
                if repr(c) == f['case']:
                    a, mono, zs = c
                    text = a.serialize() + ('' if zs is None else '/' + str(zs))
                    f['case'] = {'annotation': annot.dump(a), 'proforma': text, 'kw': {'monoisotopic': mono},
                                 'call': f"peptacular.Fragmenter({text!r}, monoisotopic={mono}).fragment(ion_types=[...], charges=[1, 2, 3])"}
                    f['function'] = 'peptacular.Fragmenter.fragment / peptacular.fragment'
                    break

    # ion-offset tables entry by entry (witness producer for the table theorems)
    from peptacular.chem import chem_constants

    def o_table(c):
        t, mono = c
        o = off(mono)
        lib = (chem_constants.MONOISOTOPIC_ION_ADJUSTMENTS if mono else chem_constants.AVERAGE_ION_ADJUSTMENTS)[t]
        hp = (nuc['H'] if mono else avg['H']) - part['e']
        if t == 'p':
            exp = o['H2O'] + hp
        elif t == 'n':
            exp = 0.0
        elif t == 'i':
            exp = -o['CO'] + hp
        elif len(t) == 1:
            exp = series_off(t, o) + hp + (o['H2O'] if t in 'xyz' else 0.0)
        else:
            exp = series_off(t[0], o) + series_off(t[1], o) + hp
        if abs(lib - exp) > TOL:
            return f'ION_ADJUSTMENTS[{t}] ({"mono" if mono else "avg"}) = {lib!r}, backbone chemistry gives {exp!r}'
        return None

    chk.oracle('ion_offset_tables', [(t, m) for t in cm.ION_TYPES for m in (True, False)], o_table)
    cm.attach_reach(chk, reach)
    if tier == 'thorough':
        chk.leanchecker(['PeptVerif.Props.C05', 'PeptVerif.Props.C05Ext'])
    return chk.finish(classify)


_RES = {}


def _ref_residues(chk, nuc, avg):
    if not _RES:
        lines = [cm.line('spec_mass', annot.undump(f'{aa}|N|N|N|N|N|N|N|N|None|N'), {'ion_type': 'n', 'monoisotopic': mono}, prefix=('nist',))
                 for aa in cm.RES24 for mono in (True, False)]
        out = chk.driver(DRV, lines)
        i = 0
        for aa in cm.RES24:
            for mono in (True, False):
                _RES[(aa, mono)] = float(out[i][3:])
                i += 1
    return _RES


def _attach(chk, name, cases, fn, shrink=True):
    for f in chk.failures:
        if f['oracle'] != name or isinstance(f['case'], dict):
            continue
        for c in cases:
            if repr(c) == f['case']:
                a, mono = c
                if shrink:
                    a = _shrink(a, mono, fn)
                    try:
                        f['detail'] = str(fn((a, mono)))
                    except Exception as e:  # noqa
                        f['detail'] = f'unexpected {type(e).__name__}: {e}'
                f['case'] = {'annotation': annot.dump(a), 'proforma': a.serialize(), 'kw': {'monoisotopic': mono}}
                f['function'] = 'peptacular.fragment / peptacular.mass'
                break


def _shrink(a, mono, fn):
    def fails(b):
        try:
            return fn((b, mono)) is not None
        except Exception:  # noqa
            return False

    changed = True
    while changed:
        changed = False
        for fld in ('_nterm_mods', '_cterm_mods', '_internal_mods'):
            if getattr(a, fld) is not None:
                b = a.copy()
                setattr(b, fld, None)
                if fails(b):
                    a, changed = b, True
        if len(a._sequence) > 2 and a._internal_mods is None:
            b = a.copy()
            b._sequence = a._sequence[:-1]
            if fails(b):
                a, changed = b, True
    return a


def classify(f):
    return None


def replay(chk, obj):
    import peptacular as pt
    case = obj.get('case')
    if not isinstance(case, dict) or 'annotation' not in case:
        print(json.dumps(obj, indent=1))
        return 0
    a = annot.undump(case['annotation'])
    mono = case['kw'].get('monoisotopic', True)
    print('peptide :', case.get('proforma'), 'monoisotopic =', mono)
    for f in pt.fragment(a.copy(), ion_types=cm.FRAGMENT_TYPES, charges=[1], monoisotopic=mono):
        print(f'  {f.ion_type:3s} [{f.start},{f.end}) {f.mass!r}')
    if case.get('call'):
        text = case['proforma']
        print('entry point:', case['call'])
        for f in pt.Fragmenter(text, monoisotopic=mono).fragment(ion_types=['a', 'b', 'y'], charges=[1]):
            print(f'  Fragmenter {f.ion_type:3s} [{f.start},{f.end}) {f.mass!r}')
    print('violated:', obj.get('detail'))
    return 0
