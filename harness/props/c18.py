"""C18 - condensing modifications to mass shifts preserves the peptide."""
import copy
import json
import os

from .. import annot, core, translate_tables
from . import c12_env as E

PID = 'C18'
DRV = 'drv_c18'

REGISTRY = {
    'id': 'C18',
    'text': 'Lean theorems over a hand-written model of condense_to_mass_mods as repaired in /repo (static rules condensed on a copy, '
            'charge/adducts/unknown/interval mods taken off, one-residue pieces, mass(piece)-mass(stripped) minus the terminal '
            'label shift, 1e-6 cut-off, round-half-even, sums for termini/labile/unknown/intervals) with every mass a parameter: '
            'same residues, numeric-only output, unmodified peptide unchanged, shifts only on modified positions, '
            '|mass(out)-mass(in)| <= k/2*10^-p (+1e-6 per nonzero quantity under the cut-off) for ANY weights without label and, '
            'with a label in force, + the explicit slack |tabulated - composition mass| of the modifications outside residue '
            'positions, in every table-coherent environment - which the concrete environment over the regenerated tables is '
            '(kernel-checked); the no-label clause is carried to Mass.mass of the C02 model; the text written '
            'denotes the rounded number. Model tied to /repo by differential correspondence (text, numbers within 10^-p); the '
            'property itself is evaluated on the implementation with mass as oracle and an independent per-position reference',
    'note': 'trusted: Lean kernel, axioms propext/Classical.choice/Quot.sound, the correspondence harness, numbers resolved by the '
            'implementation (mod_mass, mod_comp, tables: C02/C03/C10), round() on doubles vs round-half-even on rationals (10^-p)',
    'technique': 'Lean 4 proof about executable model + differential correspondence + relational oracle on the implementation',
}

# ('+15.995|Oxidation', a mod whose alternatives contradict each other, is C10's business and is left out here)
VALUE_POOL = E.POOL + E.NUMERIC + ['Oxidation|INFO:ok', 'Obs:+17.05', 'Phospho#g1', 'Oxidation|Obs:+15.9949']
ADDUCTS = ['+H+', '+Na+', '+2Na+', '+K+', '-H+', '+Ca+2', '+Cl-', '+Li+', '+Mg+2', '+2H+', '+Na+,+H+']


def gen_case(rng, Mod):
    a = annot.gen_annotation(rng, max_len=10, kinds={'labile', 'unknown', 'nterm', 'cterm', 'internal', 'intervals'},
                             value_pool=VALUE_POOL, mult_p=0.0 if rng.random() < 0.3 else 0.25, p=rng.choice([0.15, 0.35, 0.6]))
    rules = []
    if rng.random() < 0.45:
        rules = E.gen_rules(rng, a._sequence, pool=E.POOL)
        a._static_mods = [Mod(E.rule_text(m, t, rng), 1) for m, t in rules]
    labels = []
    if rng.random() < 0.35:
        k = rng.choice([1, 1, 2])
        while len(labels) < k:
            x = rng.choice(E.LABELS)
            if all(E.LABEL_ELEMENT[x] != E.LABEL_ELEMENT[y] for y in labels):
                labels.append(x)
        a._isotope_mods = [Mod(x, 1) for x in labels]
    if rng.random() < 0.4:
        a._charge = rng.choice([1, 2, 3, -1, -2, 4])
        if rng.random() < 0.4:
            a._charge_adducts = [Mod(rng.choice(ADDUCTS), 1)]
    return {'a': annot.dump(a, sort_internal=False), 'rules': [[list(m), list(t)] for m, t in rules],
            'plus': rng.random() < 0.5, 'p': rng.randint(3, 8)}


def _ann(c):
    return annot.undump(c['a'])


def oracles():
    """the property evaluated on the implementation: name -> function(case) -> None | description of the failure"""
    pt, mass_calc, constants, chem_calc, chem_constants, chem_util, pp, Mod, Interval = E.pt_mods()
    iso = E.REF_ISOTOPE_MASS      # hand-typed reference masses, independent of the library's element table

    def numeric_mods(l):
        return all(isinstance(m.val, (int, float)) and not isinstance(m.val, bool) and m.mult == 1 for m in l)

    def o_prop(c):
        a = _ann(c)
        p = c['p']
        before = annot.dump(a)
        out = mass_calc.condense_to_mass_mods(a, c['plus'], p)
        if annot.dump(a) != before:
            return 'the argument was changed (C08)'
        if isinstance(out, str) is False:
            return 'result is not a string'
        if c.get('src') and mass_calc.condense_to_mass_mods(c['src'], c['plus'], p) != out:
            return 'string input and annotation input give different results'
        b = pp.parse(out)
        # same residues
        if b.sequence != a.sequence:
            return f'residues changed: {a.sequence} -> {b.sequence}'
        # numeric only
        if b.static_mods is not None or b.isotope_mods is not None:
            return f'global rules or labels left in the output {out}'
        groups = [b.labile_mods or [], b.unknown_mods or [], b.nterm_mods or [], b.cterm_mods or []]
        groups += list((b.internal_mods or {}).values())
        groups += [iv.mods or [] for iv in (b.intervals or [])]
        for g in groups:
            if not numeric_mods(g):
                return f'non-numeric modification in the output {out}'
        if c['plus']:
            if any(('[' + str(m.val)) in out or ('{' + str(m.val)) in out for g in groups for m in g if m.val > 0):
                return f'include_plus=True but a positive shift is written without sign: {out}'
        k = sum(len(g) for g in groups)
        # unmodified peptide unchanged
        if not any([a._static_mods, a._isotope_mods, a._labile_mods, a._unknown_mods, a._nterm_mods, a._cterm_mods, a._internal_mods,
                    any(iv.mods for iv in (a._intervals or []))]):
            if out != a.serialize(c['plus']):
                return f'unmodified peptide {a.serialize()} returned as {out}'
        # charge state kept
        if (b.charge or None) != (a.charge or None) or annot.show_opt_mods(b.charge_adducts) != annot.show_opt_mods(a.charge_adducts):
            return f'charge / adducts changed: {out}'
        # With a label in force the implementation weighs a modification by its composition, otherwise by its tabulated
        # mass; the two agree only to the table's rounding (C03/C10: ~1e-6 per named modification). That discrepancy is
        # not this function's: it is measured per modification and added to the tolerances below.
        def table_slack(l):
            t = 0.0
            if a._isotope_mods:
                for m in (l or []):
                    try:
                        if chem_calc._parse_mod_delta_mass_only(m.val) is None:
                            t += abs(mass_calc.mod_mass(m) - chem_util.chem_mass(chem_calc.mod_comp(m)))
                    except Exception:  # noqa
                        pass
            return t

        # positions: independent per-position reference
        tol = 0.5 * 10.0 ** (-p) + 2e-6
        rules = c['rules']
        if rules is not None:
            labs = [m.val for m in (a._isotope_mods or [])]

            def lab_shift(aa):
                comp = constants.AA_COMPOSITIONS[aa]
                return sum(comp.get(E.LABEL_ELEMENT[x], 0) * (iso[x] - iso[E.LABEL_ELEMENT[x]]) for x in labs)

            def msum(l):
                return sum(mass_calc.mod_mass(m) for m in (l or []))

            def rule_sum(target):
                return sum(mass_calc.mod_mass(v) for ms, ts in rules for t in ts if t == target for v in ms)

            for i, aa in enumerate(a.sequence):
                exp = msum((a._internal_mods or {}).get(i)) + rule_sum(aa) + lab_shift(aa)
                got = msum((b.internal_mods or {}).get(i))
                here = list((a._internal_mods or {}).get(i) or []) + [Mod(v, 1) for ms, ts in rules for t in ts if t == aa for v in ms]
                if abs(got - exp) > tol + table_slack(here):
                    return f'residue {i} ({aa}): shift written {got!r}, modification mass on that residue {exp!r}: {out}'
                if len((b.internal_mods or {}).get(i, [])) > 1:
                    return f'more than one shift on residue {i}: {out}'
            def term_shift(comp):
                return sum(comp.get(E.LABEL_ELEMENT[x], 0) * (iso[x] - iso[E.LABEL_ELEMENT[x]]) for x in labs)

            for name, src, dst, target, tcomp in (
                    ('N-terminus', a._nterm_mods, b.nterm_mods, 'N-Term', {'H': 1}),
                    ('C-terminus', a._cterm_mods, b.cterm_mods, 'C-Term', {'O': 1, 'H': 1}),
                    ('labile', a._labile_mods, b.labile_mods, None, {}),
                    ('unknown position', a._unknown_mods, b.unknown_mods, None, {})):
                # a label on H / O also modifies the terminal H / OH
                exp = msum(src) + (rule_sum(target) if target else 0) + term_shift(tcomp)
                got = msum(dst)
                if abs(got - exp) > tol:
                    return f'{name}: shift written {got!r}, modification mass there {exp!r}: {out}'
                has_src = bool(src) or (target is not None and any(t == target for _, ts in rules for t in ts)) \
                    or abs(term_shift(tcomp)) > 0
                if dst and not has_src:
                    return f'{name}: a shift was written where nothing was modified: {out}'
            ia = [(iv.start, iv.end, bool(iv.ambiguous)) for iv in (a._intervals or [])]
            ib = [(iv.start, iv.end, bool(iv.ambiguous)) for iv in (b.intervals or [])]
            if ia != ib:
                return f'intervals moved: {ia} -> {ib}'
            for x, y in zip(a._intervals or [], b.intervals or []):
                if abs(msum(x.mods) - msum(y.mods)) > tol:
                    return f'interval {x.start}-{x.end}: shift {msum(y.mods)!r} for modifications of mass {msum(x.mods)!r}'
        # mass. Reading decision: a labelled input is weighed through its composition, charge carriers included (they are
        # relabelled with the rest: C12 reading note; their composition mass differs from the fast path's proton / adduct
        # term by the C02/C03 items `particles_ok` and KF-C02-adduct-electron-count), while the condensed string carries no
        # label and is weighed by the fast path. So for labelled AND charged input the clause is evaluated on the neutral
        # molecule only; otherwise on both the molecule as written and the neutral one.
        h_label = bool(a._isotope_mods)
        a0, b0 = copy.deepcopy(a), copy.deepcopy(b)
        for x in (a0, b0):
            x._charge = None
            x._charge_adducts = None
        ac = a.condense_static_mods(inplace=False)       # only to list the mods that end up outside residue positions
        outside = list(ac._nterm_mods or []) + list(ac._cterm_mods or []) + list(a._labile_mods or []) + \
            list(a._unknown_mods or []) + [m for iv in (a._intervals or []) for m in (iv.mods or [])]
        slack = table_slack(outside)
        pairs = [('neutral ', a0, b0)]
        if not (h_label and (a._charge or a._charge_adducts)):
            pairs.append(('', a, b))
        for what, x, y in pairs:
            m_in = mass_calc.mass(x)
            m_out = mass_calc.mass(y)
            if abs(m_out - m_in) > k * 10.0 ** (-p) + 1e-9 + slack:
                return (f'{what}mass {m_in!r} -> {m_out!r} (difference {m_out - m_in:.3e}) with {k} shifts at precision {p}: '
                        f'{out}')
        return None

    return {'condense_preserves_peptide': o_prop}


def run(chk):
    pt, mass_calc, constants, chem_calc, chem_constants, chem_util, pp, Mod, Interval = E.pt_mods()
    tier = chk.tier
    rng = chk.rng
    big = tier != 'quick'
    translate_tables.translate(chk)     # the concrete theorems are stated over the tables regenerated from /repo
    chk.lean_build(['PeptVerif.Props.C18', 'PeptVerif.Props.C18Concrete'], DRV)
    E.optional_module(chk, 'PeptVerif.Props.C18LabelBridge',
                      'label-path bridge to Mass.mass; rests on C04 Lemmas/FragmentLabel.lean over C03 Model/CompCalc.lean')
    quirks = E.probe_quirks()
    chk.notes.append(f'composition-path behaviours shown by the implementation (owned by C02/C03): '
                     f'deltaIgnoresMult={quirks[0]} labileDeltaAnyIon={quirks[1]}')
    chk.trusted += [
        'numbers are parameters of the model: residue / modification masses and compositions, element masses and the ion-type '
        'term are resolved by the implementation and sent as exact values (their correctness is C02/C03/C10)',
        'modelled: condense_to_mass_mods with everything it calls structurally (condense_static_mods, slice, split, strip, '
        'mass fast path and label path, add_*_mods, serialize, round as round-half-even); not modelled: repr of floats below 1e-4 '
        '(compared numerically), the parser (the oracle parses the output with the implementation)',
    ]
    chk.rule = ('annotations of length 1..10 over 20 residues with labile / unknown-position / N-term / C-term / residue / interval mods '
                '(numeric, named, formula, glycan, alternatives; multipliers), 1-3 static rules with residue, N-Term, C-Term targets, '
                '0-2 isotope labels on different elements, charge and adducts present or absent x include_plus x precision 3..8; '
                'non-trivial = the input carries at least one modification, rule or label; distinct = distinct protocol line')
    N = 2500 if not big else 30000
    cov = E.LineCoverage([mass_calc.condense_to_mass_mods, pp.ProFormaAnnotation.condense_static_mods, pp.ProFormaAnnotation.split,
                          pp.ProFormaAnnotation.slice, pp.ProFormaAnnotation.strip, pp.ProFormaAnnotation.add_internal_mod,
                          pp.parse_static_mods, pp.parse_isotope_mods, mass_calc._pop_delta_mass_mods,
                          chem_calc.apply_isotope_mods_to_composition, pp._serialize_annotation_start,
                          pp._serialize_annotation_middle, pp._serialize_annotation_end])
    cov.start()
    cases = _load_corpus() + [gen_case(rng, Mod) for _ in range(N)]
    fixed = ['PEP[Phospho]TIDE/2', 'PEP[Phospho]TIDE', '[1]?PEPTIDE', 'PE(PT)[10]IDE', '<[10]@N-Term>PEP', '<[10]@C-Term>PEP',
             '<[10]@P>PEP', '{100}PEPTIDE', '<13C>PEP', '<13C>[1]?PEP', 'PEP/2[+2Na+]', 'PEPTIDE', 'PEPTIDE/2', '[Acetyl]-PEP[1]^2T',
             'P[Oxidation|INFO:x]EP', 'PEP[Glycan:Hex]', '<13C>PEP[Formula:C2]', '<13C>PEP[1.5]', '<13C>{1.5}PEP', '(?PE)PT', '(PE)PT',
             'PEP[1][-1]T', '[1][-1]-PEPT', '<15N>PEPTIDE-[Amidated]', '<13C><15N>[Acetyl]-PEPTIDE/3', '<34S>MCMC[Carbamidomethyl]',
             '<[Oxidation]@M,N-Term><13C>MPEM/2', '{Glycan:Hex}{1.5}PEP', 'PEPTIDE-[Methyl][1]']
    for s in fixed:
        for plus in (False, True):
            cases.append({'a': annot.dump(pp.parse(s), sort_internal=False), 'rules': None, 'plus': plus, 'p': rng.choice([3, 6, 8]),
                          'src': s})
    for c in cases:
        a = _ann(c)
        for k, v in (('static', a._static_mods), ('isotope', a._isotope_mods), ('labile', a._labile_mods), ('unknown', a._unknown_mods),
                     ('nterm', a._nterm_mods), ('cterm', a._cterm_mods), ('internal', a._internal_mods), ('intervals', a._intervals),
                     ('charge', a._charge), ('adducts', a._charge_adducts)):
            if v:
                chk.count('has_' + k)
        chk.count('precision_%d' % c['p'])
        chk.count('include_plus_%d' % int(c['plus']))

    def nontrivial(c, im=None):
        a = _ann(c)
        return any([a._static_mods, a._isotope_mods, a._labile_mods, a._unknown_mods, a._nterm_mods, a._cterm_mods,
                    a._internal_mods, a._intervals])

    # ------------------------------------------------------------------ correspondence
    corr = cases
    mods_of = chk.driver(DRV, ['mods_of\t' + c['a'] for c in corr])

    def line(t):
        c, vals = t
        a = _ann(c)
        labels = [m.val for m in (a.isotope_mods or [])]
        env = E.env_fields(a.sequence, vals, ion='p', labels=labels, quirks=quirks)
        return '\t'.join(['condense_mass', c['a'], str(int(c['plus'])), str(c['p'])] + env)

    def impl(t):
        c, _ = t
        try:
            return annot.esc(mass_calc.condense_to_mass_mods(_ann(c), c['plus'], c['p']))
        except (ValueError, TypeError, KeyError) as e:
            return 'ERR:' + ('TypeError' if isinstance(e, TypeError) else 'KeyError' if isinstance(e, KeyError) else 'ValueError')

    def cmp(t_p):
        def f(im, m):
            if im.startswith(('ERR', 'EXC')) or m.startswith(('ERR', 'bad', 'unmod')):
                return im == m
            return E.same_text_numeric(annot.unesc(im), annot.unesc(m), 1.01 * 10.0 ** (-t_p))
        return f

    ct = list(zip(corr, [E.vals_from_reply(r) for r in mods_of]))
    for p in range(3, 9):
        sub = [t for t in ct if t[0]['p'] == p]
        chk.correspond('condense_to_mass_mods', DRV, sub, line, impl, compare=cmp(p), nontrivial_fn=lambda t, im: nontrivial(t[0]))
    exact = sum(1 for d in chk.disagreements)
    # rounding primitive: round(x, p) + repr against the model's round-half-even + positional text
    rc = []
    for _ in range(400 if not big else 5000):
        x = rng.choice([rng.uniform(-300, 300), rng.uniform(-2, 2), round(rng.uniform(-50, 50), rng.randint(0, 9)),
                        rng.randint(-5, 5) + 0.5 * 10 ** -rng.randint(1, 8)])
        rc.append((x, rng.randint(3, 8)))

    def r_impl(t):
        x, p = t
        return repr(round(x, p))

    def r_cmp(im, m):
        if 'e' in im:
            return abs(float(im) - float(m)) < 1e-12
        return im == m or (float(im) == 0 and float(m) == 0)

    chk.correspond('round', DRV, rc, lambda t: f'round\t{E.rat(t[0])}\t{t[1]}', r_impl, compare=r_cmp)

    # ------------------------------------------------------------------ oracle: the property on the implementation
    o_prop = oracles()['condense_preserves_peptide']
    sel = cases if (big or chk.broken()) else cases
    chk.oracle('condense_preserves_peptide', sel, o_prop, nontrivial_fn=nontrivial,
               key_fn=lambda c: f"{c['a']}|{int(c['plus'])}|{c['p']}")

    cov.stop()
    rep = cov.report()
    chk.notes.append('line reach of the modelled Python functions during this run (sys.monitoring): ' + json.dumps(rep))
    if os.environ.get('VERIF_DEBUG'):
        json.dump({'failures': chk.failures, 'disagreements': chk.disagreements, 'coverage': rep},
                  open(os.environ['VERIF_DEBUG'], 'w'), indent=1, default=str)
    if big:
        chk.leanchecker(['PeptVerif.Props.C18', 'PeptVerif.Model.CondenseMass', 'PeptVerif.Lemmas.CondenseMass',
                         'PeptVerif.Lemmas.CondenseLabel', 'PeptVerif.Lemmas.DecText', 'PeptVerif.Props.C18Concrete',
                         'PeptVerif.Lemmas.ConcreteKeys'])
    return chk.finish(classify)


def _load_corpus():
    d = os.path.join(core.VERIF, 'corpus', PID)
    out = []
    if os.path.isdir(d):
        for fn in sorted(os.listdir(d)):
            if fn.endswith('.jsonl'):
                for line in open(os.path.join(d, fn)):
                    line = line.strip()
                    if line:
                        out.append(json.loads(line))
    return out


def classify(f):
    return None


def replay(chk, obj):
    """re-evaluate a stored failure on the current implementation: exit 1 (with the VIOLATION line) if it still fails"""
    if obj.get('kind') != 'oracle':
        print(json.dumps(obj, indent=1))
        return 0
    fn = oracles()[obj['oracle']]
    try:
        r = fn(obj['case'])
    except Exception as e:  # noqa
        r = f'unexpected {type(e).__name__}: {e}'
    if r is None:
        print(f"{PID} replay: {obj['oracle']} holds on this input now")
        return 0
    print(f"VIOLATION property={PID} replay={obj.get('path', '<given file>')}")
    print('  oracle:', r)
    return 1
