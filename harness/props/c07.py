"""C07 - digested peptides keep their modifications, their mass and their place."""
import glob as _glob
import json
import os
import re

from .. import annot, core
from .. import c11_common as cc
from .c11 import check_slice, gen_chain, apply_step, fresh_of

PID = 'C07'
DRV = 'drv_c07'

REGISTRY = {
    'id': 'C07',
    'text': 'Lean theorems about a hand-written model of ProFormaAnnotation.slice and of the return-type dispatcher of digestion.py: '
            'a piece for span (s,e) has exactly the residues s..e-1 with their modifications, terminal mods only with the terminus, '
            'the global rules; unmodified fast path = general path; slicing a piece over its whole length returns the piece (what the '
            'subsequence search tests at offset s); for any additive weight the pieces of a partition sum to the whole, and the mass of '
            'a zero-missed-cleavage digest is the protein mass + (k-1) water exactly when no labile / unknown-position mod is copied '
            'into every piece; the piece string re-parses to the piece (via C01 parse_serialize), the str / str-span return types are '
            'serialize mapped over the annotation return type, and the piece is found at offset s by the search model of C16. '
            'The model is tied to /repo by differential correspondence (modified proteins of length 1..40 x every '
            'protease x missed cleavages 0..3 x semi x min/max length; semi-/non-enzymatic generators) and every clause (five return '
            'types, re-parse, found again at offset s, mass sum) is evaluated on the implementation',
    'note': 'trusted: Lean kernel, axioms propext/Classical.choice/Quot.sound, the subset reader harness/translate_reorder.py (slice fragments '
            'read mechanically from the current source, Props/C11Gen.lean), the correspondence harness and wire codec, regex -> '
            'cleavage sites (computed by the implementation, fed to the model; verified separately in C06), parse/serialize, '
            'find_subsequence_indices and mass() are black boxes of the oracle. Known findings: pieces inherit labile mods and '
            'terminal static rules, so zero-missed-cleavage masses over-count them (KF-C07-labile-inherited, '
            'KF-C07-terminal-static-inherited)',
    'technique': 'Lean 4 proof about executable model + differential correspondence',
}

TYPES = ('str', 'annotation', 'span', 'str-span', 'annotation-span')
MASS_POOL = annot.NAMED + annot.FORMULAS + annot.GLYCANS + annot.NUMS + annot.NUMS + \
    ['Oxidation|INFO:ok', 'Phospho#g1', '+15.995|Oxidation', 'Oxidation#s1(0.75)'] + cc.LONG_FLOATS + cc.LONG_FLOATS
KINDS = {'labile', 'static', 'isotope', 'nterm', 'cterm', 'internal', 'intervals'}
RES = 'ACDEFGHIKLMNPQRSTVWY' + 'KRKRDEFLP'
EXTRA_RULES = ['(?<=K)(?=A)', '([KR])', '(D)(?=E)', '[DE]']


def _pt():
    import peptacular as pt
    from peptacular import digestion
    return pt, digestion


def opt(x):
    return 'None' if x is None else str(x)


def ilist(l):
    return ','.join(str(x) for x in l)


def show_span(sp):
    return f'{sp[0]}:{sp[1]}:{sp[2]}'


def show_pieces(pairs):
    return '~'.join(f'{show_span(sp)}={annot.dump(p)}' for p, sp in pairs)


def canon_reply(m):
    if m in ('', 'bad-op'):
        return m
    out = []
    for x in m.split('~'):
        sp, d = x.split('=', 1)
        out.append(sp + '=' + annot.canon_dump(d))
    return '~'.join(out)


def annot_norm_pieces(m):
    """pieces reply with `{}` / `[]` containers written like None (a parsed protein has None where a generated one may have {})"""
    if m in ('', 'bad-op'):
        return m
    out = []
    for x in m.split('~'):
        sp, d = x.split('=', 1)
        f = d.split('|')
        if f[7] == 'D':
            f[7] = 'N'
        out.append(sp + '=' + '|'.join(f))
    return '~'.join(out)


def sites_of(a, rules):
    _, digestion = _pt()
    out = []
    for r in rules:
        out += list(digestion.get_cleavage_sites(a, r))
    return out


GENS = {'left': 'get_left_semi_enzymatic_sequences', 'right': 'get_right_semi_enzymatic_sequences',
        'semi': 'get_semi_enzymatic_sequences', 'non': 'get_non_enzymatic_sequences'}


def outputs(c, rt):
    """the implementation's output for case c with return type rt"""
    _, digestion = _pt()
    a = annot.undump(c[1])
    if c[0] == 'digest':
        _, _, rules, mc, semi, lo, hi, comp = c
        return a, list(digestion.digest(a, list(rules), mc, semi, lo, hi, comp, rt, True))
    _, _, which, lo, hi = c
    return a, list(getattr(digestion, GENS[which])(a, lo, hi, rt))


# ------------------------------------------------------------------------------------------------ oracles

def water_for(a):
    """mass of the water that joins two pieces under the protein's isotope labels: 2*m(G) - m(GG)"""
    pt, _ = _pt()
    from peptacular.proforma.proforma_parser import ProFormaAnnotation
    g1 = ProFormaAnnotation(_sequence='G', _isotope_mods=a._isotope_mods)
    g2 = ProFormaAnnotation(_sequence='GG', _isotope_mods=a._isotope_mods)
    return 2 * pt.mass(g1) - pt.mass(g2)


def o_pieces(c):
    """slice semantics, five return types, re-parse, found again at offset s"""
    pt, digestion = _pt()
    from peptacular.proforma.proforma_parser import parse
    a, spans = outputs(c, 'span')
    d = annot.dump(a, sort_internal=False)
    n = len(a._sequence)
    _, strs = outputs(c, 'str')
    _, anns = outputs(c, 'annotation')
    _, ssp = outputs(c, 'str-span')
    _, asp = outputs(c, 'annotation-span')
    if annot.dump(a, sort_internal=False) != c[1]:
        return 'the protein annotation was changed by the call'
    k = len(spans)
    if not (len(strs) == len(anns) == len(ssp) == len(asp) == k):
        return f'return types give different numbers of peptides: {k, len(strs), len(anns), len(ssp), len(asp)}'
    rt_ok = cc.in_reparse_domain(a)
    for idx, sp in enumerate(spans):
        s, e = sp[0], sp[1]
        p = anns[idx]
        if tuple(ssp[idx][1]) != tuple(sp) or tuple(asp[idx][1]) != tuple(sp):
            return f'span of peptide {idx} differs between return types'
        if annot.dump(asp[idx][0]) != annot.dump(p):
            return f'annotation-span and annotation return types differ for span {sp}'
        if strs[idx] != p.serialize() or ssp[idx][0] != strs[idx]:
            return f'string return types {strs[idx]!r}/{ssp[idx][0]!r} differ from the annotation {p.serialize()!r} for span {sp}'
        m = check_slice(a, d, s, e, p, globals_idx=(0, 1))
        if m:
            return f'span {sp}: {m}'
        if not (cc.cut_ok(a, s) and cc.cut_ok(a, e)) or s >= e:
            continue
        if rt_ok:
            try:
                back = parse(strs[idx])
            except Exception as ex:  # noqa
                return f'peptide string {strs[idx]!r} of span {sp} does not parse: {type(ex).__name__}'
            if not (back == p):
                return f'peptide string {strs[idx]!r} of span {sp} parses to a different annotation than the returned one'
            found = pt.find_subsequence_indices(a, strs[idx])
            if s not in found:
                return f'find: peptide {strs[idx]!r} of span {sp} is found at {found}, not at its offset {s}'
        found = pt.find_subsequence_indices(a, p)
        if s not in found:
            return f'find: peptide annotation of span {sp} is found at {found}, not at its offset {s}'
    return None


def o_mass(c):
    """zero missed cleavages, complete digestion, no length filter: pieces partition the protein and
    sum(mass(piece)) = mass(protein) + (k-1) * water"""
    pt, digestion = _pt()
    a, spans = outputs(c, 'span')
    n = len(a._sequence)
    _, anns = outputs(c, 'annotation')
    if a._charge is not None or a._charge_adducts is not None or a._unknown_mods is not None:
        return None     # not among the quantified modification kinds (each piece would carry its own charge carriers)
    if not is_partition(spans, n):
        return None     # every position is a site (non-specific shortcut of build_spans, see C06): no zero-missed-cleavage partition
    if not all(cc.cut_ok(a, sp[0]) for sp in spans):
        return None     # an interval straddles a cut: outside the property's domain
    k = len(spans)
    mp = cc.mass_of(a)
    if mp[0] == 'err':
        return None
    total = 0.0
    for p in anns:
        m = cc.mass_of(p)
        if m[0] == 'err':
            return f'mass of piece {p.serialize()!r} raises {m[1]} although the protein has a mass'
        total += m[1]
    exp = mp[1] + (k - 1) * water_for(a)
    if abs(total - exp) > 1e-6 * max(1.0, abs(exp)):
        return f'mass-sum: {k} pieces sum to {total!r}, protein + {k - 1} water = {exp!r} (difference {total - exp:.6f})'
    return None


def is_partition(spans, n):
    pos = 0
    for sp in spans:
        if sp[0] != pos or sp[1] <= sp[0]:
            return False
        pos = sp[1]
    return pos == n


def lineage_object(c):
    """the annotation obtained by applying the chain of editors to one object lineage"""
    x = annot.undump(c[1])
    for st in c[2]:
        x = apply_step(x, st)
    return x


def lineage_digest(x, c, rt='annotation-span'):
    _, digestion = _pt()
    _, _, _, rules, mc, semi = c
    return list(digestion.digest(x, list(rules), mc, semi, None, None, True, rt, True))


def o_lineage(c):
    """digesting an annotation that has a history (it was sorted / reversed / shifted / shuffled / cut before, in place or not)
    gives what digesting a fresh object of the same value gives"""
    from peptacular.proforma.proforma_parser import parse
    x = lineage_object(c)
    before = annot.dump(x, sort_internal=False)
    fresh = fresh_of(x)
    o1 = lineage_digest(x, c)
    o2 = lineage_digest(fresh, c)
    if show_pieces(o1) != show_pieces(o2):
        return (f'digest of the annotation with history {c[2]} gives {[p.serialize() for p, _ in o1]}, of a fresh object of the '
                f'same value {[p.serialize() for p, _ in o2]}')
    if annot.dump(x, sort_internal=False) != before:
        return 'digest changed the annotation'
    s1 = lineage_digest(x, c, 'str')
    if s1 != [p.serialize() for p, _ in o1] or s1 != lineage_digest(fresh, c, 'str'):
        return f'str return type on the annotation with history: {s1}'
    if show_pieces(lineage_digest(x, c)) != show_pieces(o1):
        return 'second digest of the same annotation differs from the first'
    if cc.in_reparse_domain(fresh):
        o3 = lineage_digest(parse(fresh.serialize()), c)
        if annot_norm_pieces(show_pieces(o3)) != annot_norm_pieces(show_pieces(o1)):
            return (f'digest of the annotation with history {c[2]} differs from the digest of its re-parse '
                    f'{fresh.serialize()!r}')
    return None


def c07_producer(spec):
    _, digestion = _pt()
    op = spec[0]

    def anns(out, rt):
        return [x[0] for x in out] if rt == 'annotation-span' else list(out)

    if op == 'digest':
        _, rules, mc, semi, rt = spec
        return lambda a: anns(list(digestion.digest(a, list(rules), mc, semi, None, None, True, rt, True)), rt)
    if op == 'gen':
        _, which, lo, hi, rt = spec
        return lambda a: anns(list(getattr(digestion, GENS[which])(a, lo, hi, rt)), rt)
    if op == 'dispatch':
        _, spans, rt = spec
        return lambda a: anns(list(digestion._return_digested_sequences(a, [tuple(x) for x in spans], rt)), rt)
    raise KeyError(op)


def o_sharing(c):
    """digested peptides must not share mutable state with the protein, with each other or with a later digest (and the mass
    sum of a later digest must not move)"""
    _, d, spec = c
    return cc.sharing_failure(d, c07_producer(spec), f'{spec}')


ORACLES = {'pieces': o_pieces, 'mass': o_mass, 'lineage': o_lineage, 'sharing': o_sharing}


def _without(c, what):
    a = annot.undump(c[1])
    if 'labile' in what:
        a._labile_mods = None
    if 'static' in what and a._static_mods is not None:
        from peptacular.proforma.proforma_dataclasses import Mod
        keep = []
        for m in a._static_mods:
            v = str(m.val)
            if '@' in v:
                mods, targets = v.rsplit('@', 1)
                ts = [t for t in targets.split(',') if t not in ('N-Term', 'C-Term')]
                if ts:
                    keep.append(Mod(mods + '@' + ','.join(ts), m.mult))
            else:
                keep.append(m)
        a._static_mods = keep or None
    return (c[0], annot.dump(a, sort_internal=False)) + tuple(c[2:])


def has_terminal_static(a):
    return any(t in ('N-Term', 'C-Term') for m in (a._static_mods or []) if '@' in str(m.val)
               for t in str(m.val).rsplit('@', 1)[1].split(','))


def classify(f):
    name = f['oracle'].replace('corpus:', '')
    c = f['case']
    if isinstance(c, str):
        return None
    c = tuple(tuple(x) if isinstance(x, list) else x for x in c)
    detail = str(f['detail'])
    if name == 'mass' and detail.startswith('mass-sum:'):
        a = annot.undump(c[1])
        if a._labile_mods and o_mass(_without(c, ('labile',))) is None:
            return 'KF-C07-labile-inherited'
        if has_terminal_static(a) and o_mass(_without(c, ('static',))) is None:
            return 'KF-C07-terminal-static-inherited'
        if a._labile_mods and has_terminal_static(a) and o_mass(_without(c, ('labile', 'static'))) is None:
            return 'KF-C07-labile-inherited'
    return None


# ------------------------------------------------------------------------------------------------ corpus

def corpus_cases():
    out = []
    for p in sorted(_glob.glob(os.path.join(core.VERIF, 'corpus', PID, '*.jsonl'))):
        for ln in open(p):
            ln = ln.strip()
            if ln and not ln.startswith('#'):
                o = json.loads(ln)
                c = o['case']
                out.append((o['oracle'], tuple(tuple(x) if isinstance(x, list) else x for x in c)))
    return out


# ------------------------------------------------------------------------------------------------ run

def gen_protein(rng, max_len=40, full_pool=False):
    a, pat = cc.gen(rng, 1, max_len, kinds=set(KINDS), value_pool=None if full_pool else MASS_POOL,
                    p=rng.choice([0.1, 0.3, 0.5]))
    # more cleavable residues
    if rng.random() < 0.7:
        seq = list(a._sequence)
        for i in range(len(seq)):
            if rng.random() < 0.3:
                seq[i] = rng.choice('KRKRDEFLPA')
        a._sequence = ''.join(seq)
    return a, pat


def unstraddle(a, cuts):
    """drop the intervals a cut falls strictly inside (the property quantifies over intervals that do not straddle a cut)"""
    if a._intervals:
        keep = [iv for iv in a._intervals if not any(iv.start < c < iv.end for c in cuts)]
        a._intervals = keep or None


def run(chk):
    pt, digestion = _pt()
    from peptacular.constants import PROTEASES
    tier = chk.tier
    rng = chk.rng
    from .. import translate_reorder
    gen_done, gen_unt = translate_reorder.translate(chk)
    chk.lean_build(['PeptVerif.Props.C07', 'PeptVerif.Props.C07Canon', 'PeptVerif.Props.C07Ext', 'PeptVerif.Props.C11Gen'], DRV)
    chk.trusted += [
        'modelled (Model/Reorder.lean, Model/Spans.lean): ProFormaAnnotation.slice, has_mods, _return_digested_sequences (annotation '
        'branch, fast and general path), digest from cleavage sites to pieces; not modelled: regex -> cleavage sites (computed by the '
        'implementation, checked in C06), serialize/parse, find_subsequence_indices (C16), mass (C02) - exercised by the oracle only',
    ]
    chk.rule = ('proteins from harness/annot.py:gen_annotation restricted to residue, terminal, labile, static, isotope-label mods and '
                'intervals placed at start/middle/end/adjacent (length 1..40, K/R/D/E/F/L/P/A enriched) x every entry of PROTEASES and four '
                'regex rules (1-2 rules per case) x missed cleavages 0..3 x semi x min/max length x complete_digestion; the four '
                'semi-/non-enzymatic generators with length bounds; random span lists for the dispatcher. Oracle: intervals straddled by a '
                'used cut are removed first (stated domain). non-trivial = at least two pieces and the protein is modified; distinct = '
                'distinct protocol line / case')

    for name, case in corpus_cases():
        chk.oracle('corpus:' + name, [case], ORACLES[name])

    rules_all = list(PROTEASES.keys()) + EXTRA_RULES
    N = 260 if tier == 'quick' else 1100
    dig, gens, pcs = [], [], []
    for idx in range(N):
        a, pat = gen_protein(rng, 40 if idx % 4 else 12, full_pool=(idx % 5 == 0))
        if idx % 11 == 0:
            a = annot.undump(annot.dump(cc.gen(rng, 1, 30, kinds=set())[0]))     # unmodified: fast path
        if idx % 17 == 3:
            a, pat = cc.gen(rng, 1, 25, odd=0.3)                                  # all kinds incl. charge / unknown
        n = len(a._sequence)
        chk.count('len<=10' if n <= 10 else 'len<=25' if n <= 25 else 'len<=40')
        if not a.has_mods():
            chk.count('unmodified protein')
        if a._intervals:
            chk.count('protein with intervals')
        d = annot.dump(a, sort_internal=False)
        rs = tuple(rng.sample(rules_all, rng.choice([1, 1, 1, 2])))
        if idx < len(rules_all):
            rs = (rules_all[idx],)
        for r in rs:
            chk.count('rule:' + r)
        mc = rng.randint(0, 3)
        semi = rng.random() < 0.4
        lo = rng.choice([None, None, 1, 2, 4])
        hi = rng.choice([None, None, 3, 8, 30])
        comp = rng.random() < 0.8
        dig.append(('digest', d, rs, mc, semi, lo, hi, comp))
        if idx % 2 == 0:
            dig.append(('digest', d, rs, 0, False, None, None, True))
        which = rng.choice(list(GENS))
        gens.append(('gen', d, which, rng.choice([None, None, 1, 3]), rng.choice([None, None, 2, 6, 50])))
        sp = []
        for _ in range(rng.randint(0, 5)):
            i = rng.randint(0, n)
            sp.append((i, rng.randint(i, n), rng.randint(0, 3)))
        pcs.append((d, sp))

    def dig_line(c):
        _, d, rs, mc, semi, lo, hi, comp = c
        a = annot.undump(d)
        return f'digest\t{d}\t{ilist(sites_of(a, rs))}\t{mc}\t{opt(lo)}\t{opt(hi)}\t{int(semi)}\t{int(comp)}'

    def dig_impl(c):
        _, out = outputs(c, 'annotation-span')
        return show_pieces(out)

    def dig_impl_str(c):
        # the same digest with the protein given as a ProForma string and a single rule given as a str (the `isinstance`
        # branches of digest); only for proteins that are the parse of their own string
        _, d, rs, mc, semi, lo, hi, comp = c
        a = annot.undump(d)
        out = list(digestion.digest(a.serialize(), rs[0] if len(rs) == 1 else list(rs), mc, semi, lo, hi, comp,
                                    'annotation-span', True))
        return show_pieces(out)

    def gen_impl_str(c):
        _, d, which, lo, hi = c
        a = annot.undump(d)
        return show_pieces(list(getattr(digestion, GENS[which])(a.serialize(), lo, hi, 'annotation-span')))

    def nontrivial(c, im):
        return im.count('~') >= 1 and annot.undump(c[1]).has_mods()

    from peptacular.proforma.proforma_parser import ProFormaAnnotation as PA
    cover = cc.LineCover([PA.slice, PA.has_mods, digestion._return_digested_sequences, digestion.digest,
                          digestion.get_left_semi_enzymatic_sequences, digestion.get_right_semi_enzymatic_sequences,
                          digestion.get_semi_enzymatic_sequences, digestion.get_non_enzymatic_sequences])
    cover.__enter__()
    chk.correspond('digest', DRV, dig, dig_line, dig_impl, compare=lambda im, m: im == canon_reply(m), nontrivial_fn=nontrivial)

    rt_dig = [c for c in dig[::4] if cc.in_reparse_domain(annot.undump(c[1]))]
    chk.correspond('digest(str input)', DRV, rt_dig, dig_line, dig_impl_str,
                   compare=lambda im, m: annot_norm_pieces(im) == annot_norm_pieces(canon_reply(m)), nontrivial_fn=nontrivial)

    def gen_line(c):
        a, spans = outputs(c, 'span')
        return f'pieces\t{c[1]}\t{";".join(show_span(s) for s in spans)}'

    chk.correspond('generators', DRV, gens, gen_line, dig_impl, compare=lambda im, m: im == canon_reply(m),
                   nontrivial_fn=nontrivial)

    # round 5: the generators end to end in the model (span (0,n,0) -> span builder -> dispatcher; Model/C07Gen.lean): nothing
    # of the case is computed by the implementation on the model side
    def gen_model_line(c):
        _, d, which, lo, hi = c
        return f'gen\t{which}\t{d}\t{opt(lo)}\t{opt(hi)}'

    chk.correspond('generators(model spans)', DRV, gens, gen_model_line, dig_impl,
                   compare=lambda im, m: im == canon_reply(m), nontrivial_fn=nontrivial)

    rt_gen = [c for c in gens[::3] if cc.in_reparse_domain(annot.undump(c[1]))]
    chk.correspond('generators(str input)', DRV, rt_gen, gen_line, gen_impl_str,
                   compare=lambda im, m: annot_norm_pieces(im) == annot_norm_pieces(canon_reply(m)), nontrivial_fn=nontrivial)

    def pcs_impl(c):
        a = annot.undump(c[0])
        pairs = list(digestion._return_digested_sequences(a, c[1], 'annotation-span'))
        anns = list(digestion._return_digested_sequences(a, c[1], 'annotation'))
        if [annot.dump(x) for x in anns] != [annot.dump(p) for p, _ in pairs]:
            return 'annotation and annotation-span return types differ'
        return show_pieces(pairs)

    chk.correspond('pieces', DRV, pcs, lambda c: f'pieces\t{c[0]}\t{";".join(show_span(s) for s in c[1])}', pcs_impl,
                   compare=lambda im, m: im == canon_reply(m), nontrivial_fn=lambda c, im: bool(c[1]) and annot.undump(c[0]).has_mods())

    # string return types, text-exact against serialize (C01's model) mapped over the model's pieces
    def str_impl(c):
        a = annot.undump(c[0])
        return '~'.join(annot.esc(x) for x in digestion._return_digested_sequences(a, c[1], 'str'))

    def strspan_impl(c):
        a = annot.undump(c[0])
        return '~'.join(f'{show_span(sp)}={annot.esc(x)}' for x, sp in digestion._return_digested_sequences(a, c[1], 'str-span'))

    spl = lambda c: ";".join(show_span(s) for s in c[1])   # noqa
    chk.correspond('strings', DRV, pcs, lambda c: f'strings\t{c[0]}\t{spl(c)}', str_impl,
                   nontrivial_fn=lambda c, im: bool(c[1]) and annot.undump(c[0]).has_mods())
    chk.correspond('strspans', DRV, pcs, lambda c: f'strspans\t{c[0]}\t{spl(c)}', strspan_impl,
                   nontrivial_fn=lambda c, im: bool(c[1]) and annot.undump(c[0]).has_mods())
    gen_pcs = []
    for c in gens + dig[::3]:
        _a, _sp = outputs(c, 'span')
        gen_pcs.append((c[1], [tuple(x) for x in _sp]))
    chk.correspond('strings', DRV, gen_pcs, lambda c: f'strings\t{c[0]}\t{spl(c)}', str_impl,
                   nontrivial_fn=lambda c, im: bool(c[1]) and annot.undump(c[0]).has_mods())

    # slices: every 0 <= i <= j <= n of short proteins, inplace False/True
    sl = []
    for c in dig[:: (6 if tier == 'quick' else 12)]:
        n = len(annot.undump(c[1])._sequence)
        if n <= (10 if tier == 'quick' else 40):
            for i in range(n + 1):
                for j in range(i, n + 1):
                    sl.append((c[1], i, j, (i + j) % 2 == 1))

    for c in dig[::9]:
        n = len(annot.undump(c[1])._sequence)
        sl.append((c[1], None, rng.randint(0, n), False))
        sl.append((c[1], rng.randint(0, n), None, True))

    def sl_impl(c):
        return annot.dump(cc.apply(annot.undump(c[0]), 'slice', c[1], c[2], inplace=c[3]))

    chk.correspond('slice', DRV, sl, lambda c: f'slice\t{c[0]}\t{opt(c[1])}\t{opt(c[2])}\t{int(c[3])}', sl_impl,
                   compare=lambda im, m: im == annot.canon_dump(m), nontrivial_fn=lambda c, im: c[1] is not None and c[2] is not None and c[1] < c[2] and '|N|N|N|N|N|N|N|N|None|N' not in im)

    cover.__exit__()
    unc = {k: v for k, v in cover.report().items() if v}
    chk.notes.append('reach: lines of the modelled functions not executed by the correspondence inputs (the other return-type '
                     'branches of the dispatcher are executed by the oracle): ' + (json.dumps(unc) if unc else 'none'))

    # ---------------------------------------------------------------- digest of annotations that have a history
    lin = []
    for idx, c in enumerate(dig[:: (2 if tier == 'quick' else 1)]):
        a = annot.undump(c[1])
        if len(a._sequence) < 3 or cc.out_of_range_keys(a):
            continue
        forced = [None, ['sort', 'rev'], ['sort', 'slice'], ['discard', 'shift'], ['shuf', 'sort'], ['sort', 'shift', 'sort']][idx % 6]
        st = [x for x in gen_chain(rng, a, forced) if x[0] != 'strip'][:3]
        if st:
            lin.append(('lineage', c[1], st, c[2], rng.randint(0, 2), rng.random() < 0.3))

    def lin_line(c):
        x = fresh_of(lineage_object(c))
        return (f'digest\t{annot.dump(x, sort_internal=False)}\t{ilist(sites_of(x, c[3]))}\t{c[4]}\tNone\tNone\t{int(c[5])}\t1')

    chk.correspond('digest(lineage)', DRV, lin, lin_line, lambda c: show_pieces(lineage_digest(lineage_object(c), c)),
                   compare=lambda im, m: im == canon_reply(m), nontrivial_fn=lambda c, im: im.count('~') >= 1)

    # ---------------------------------------------------------------- oracle
    def in_domain(c):
        """remove intervals straddled by a cut that the case uses"""
        a = annot.undump(c[1])
        if not a._intervals:
            return c
        _, spans = outputs(c, 'span')
        unstraddle(a, {x for sp in spans for x in (sp[0], sp[1])})
        return (c[0], annot.dump(a, sort_internal=False)) + tuple(c[2:])

    wide = chk.broken() or tier == 'thorough'
    osel = dig + gens if wide else (dig[::2] + gens[::3])
    ocases = [in_domain(c) for c in osel] + [c for c in osel[::4]]      # a few with straddling intervals too
    if chk.broken():
        # disagreeing inputs first
        first = []
        for dis in chk.disagreements:
            f = dis['line'].split('\t')
            for c in dig + gens:
                if c[1] == f[1]:
                    first.append(c)
                    break
        ocases = first + ocases

    def o_nontrivial(c):
        a = annot.undump(c[1])
        return a.has_mods() and len(a._sequence) >= 4

    cc.ranked_oracle(chk, 'pieces', ocases, o_pieces, classify, key_fn=repr, nontrivial_fn=o_nontrivial)

    cc.ranked_oracle(chk, 'lineage', lin, o_lineage, classify, key_fn=repr, nontrivial_fn=lambda c: True)

    share = []
    for idx, c in enumerate(dig if wide else dig[::4]):
        rt = ('annotation', 'annotation-span')[idx % 2]
        share.append(('sharing', c[1], ['digest', list(c[2]), c[3], c[4], rt]))
    for idx, c in enumerate(gens if wide else gens[::4]):
        rt = ('annotation-span', 'annotation')[idx % 2]
        share.append(('sharing', c[1], ['gen', c[2], c[3], c[4], rt]))
    for idx, c in enumerate(pcs[::3]):
        if c[1]:
            share.append(('sharing', c[0], ['dispatch', [list(x) for x in c[1]], ('annotation', 'annotation-span')[idx % 2]]))
    chk.oracle('sharing', share, o_sharing, nontrivial_fn=lambda c: annot.undump(c[1]).has_mods(), key_fn=repr)

    # mass: zero missed cleavages, complete digestion, no length bounds
    mcases = []
    for c in (dig if wide else dig[::2]):
        c0 = in_domain(('digest', c[1], c[2], 0, False, None, None, True))
        a0, sp0 = outputs(c0, 'span')
        if a0._charge is not None or a0._charge_adducts is not None or a0._unknown_mods is not None:
            chk.count('mass: protein with charge/unknown-position mods (outside the quantifier, skipped)')
        elif not is_partition(sp0, len(a0._sequence)):
            chk.count('mass: spans are not a partition (non-specific shortcut, skipped)')
        else:
            chk.count('mass: %s pieces' % ('1' if len(sp0) == 1 else '2-4' if len(sp0) <= 4 else '5+'))
            mcases.append(c0)
    cc.ranked_oracle(chk, 'mass', mcases, o_mass, classify, key_fn=repr, nontrivial_fn=o_nontrivial)

    if tier == 'thorough':
        chk.leanchecker(['PeptVerif.Model.Reorder', 'PeptVerif.Model.C07Strings', 'PeptVerif.Lemmas.Reorder', 'PeptVerif.Lemmas.ReorderCanon',
                         'PeptVerif.Props.C07', 'PeptVerif.Props.C07Canon', 'PeptVerif.Model.C07Gen', 'PeptVerif.Props.C07Ext', 'PeptVerif.Generated.ReorderPy', 'PeptVerif.Props.C11Gen'])
    return chk.finish(classify)


def replay(chk, obj):
    name = obj.get('oracle', '').replace('corpus:', '')
    if name not in ORACLES:
        print(json.dumps(obj, indent=1))
        return 0
    c = tuple(tuple(x) if isinstance(x, list) else x for x in obj['case'])
    r = ORACLES[name](c)
    print(f'{PID} replay {name}: {"holds" if r is None else "FAILS: " + r}')
    return 0 if r is None else 1
