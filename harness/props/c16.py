"""C16 - subsequence search and coverage find every occurrence."""
import copy
import glob
import itertools
import json
import os
from collections import Counter
from fractions import Fraction

from .. import core
from .. import annot
from . import c17_reach

PID = 'C16'
DRV = 'drv_c16'

REGISTRY = {
    'id': 'C16',
    'text': 'Mechanical tie for the pure pieces of coverage / percent_coverage: harness/translate_covcore.py reads the CURRENT '
            'sequence_funcs.py with ast and emits Generated/CoverageCorePy.lean (the two slice assignments and the initial array of '
            'coverage; the literal accumulate flag, zero guard and quotient of percent_coverage); Props/C16Gen proves them equal to the '
            'hand model and restates coverage_iff, the accumulate count and the [0,1] bound for the generated definitions; a piece outside '
            'the subset is reported as untranslated and stays tied by correspondence. Lean theorems about the executable model of find_indices / is_subsequence / find_subsequence_indices / coverage / '
            'percent_coverage: an offset is returned iff the residues occur there and slice-and-compare accepts it, offsets are '
            'strictly increasing (all overlapping occurrences present), with ignore_mods the result is plain substring search, '
            'coverage marks position j iff an occurrence contains it and with accumulate counts them, percent coverage is the '
            'marked fraction in [0,1], unordered containment iff multiset inclusion. The model is tied to /repo by exhaustive '
            'correspondence over all targets of length 0..7 (quick) / 0..9 (thorough) on {A,K} x all queries of length 1..4 and '
            'random modified targets up to length 40 with queries cut from them or perturbed; the implementation is also checked '
            'against an independent Python reference (substring scan, per-residue modification multisets)',
    'note': 'trusted: Lean kernel, axioms propext/Classical.choice/Quot.sound, the correspondence harness, the subset reader '
            'translate_covcore.py (output committed and diffable; the loops of coverage and everything in the search stay hand-modelled); regex.finditer with a '
            'literal pattern is modelled as a naive scan (compared directly with regex on every enumerated pair); slice and == are '
            'the shared models of C11/C20; the unordered test is modelled end to end (condense_static_mods of C12, split of C11, '
            'residues counted modulo ==) and proved equal to multiset inclusion of modified residues',
    'technique': 'Lean 4 proof about executable model + differential correspondence',
}

POOL = [1, 'Oxidation', 15.995, 'Phospho']


def _pt():
    import peptacular as pt
    from peptacular.proforma.proforma_parser import ProFormaAnnotation
    from peptacular.proforma.proforma_dataclasses import Mod, Interval
    return pt, ProFormaAnnotation, Mod, Interval


def ilist(l):
    return ','.join(str(x) for x in l)


# ----------------------------------------------------------------------------- independent reference

def mkey(mods):
    """multiset of (val, mult) of a mod list; None stays None"""
    if mods is None:
        return None
    return Counter((m.val, m.mult) for m in mods)


def brute_substring(t, q):
    return [i for i in range(len(t) - len(q) + 1) if t[i:i + len(q)] == q]


def ref_decidable(t, q, i):
    """is the modification comparison at offset i independent of how a partly covered interval is cut?"""
    L = len(q._sequence)
    for iv in (t._intervals or []):
        inside = i <= iv.start and iv.end <= i + L
        outside = iv.end <= i or iv.start >= i + L
        if not (inside or outside):
            return False
    return True


def ref_match(t, q, i):
    """query q occurs in target t at offset i with equal modifications (independent reading; no slice, no ==)"""
    ts, qs = t._sequence, q._sequence
    L, n = len(qs), len(ts)
    if i + L > n or ts[i:i + L] != qs:
        return False
    ti, qi = t._internal_mods or {}, q._internal_mods or {}
    for k in range(L):
        if mkey(ti.get(i + k)) != mkey(qi.get(k)):
            return False
    if any(k < 0 or k >= L for k in qi):
        return False
    if mkey(t._nterm_mods if i == 0 else None) != mkey(q._nterm_mods):
        return False
    if mkey(t._cterm_mods if i + L == n else None) != mkey(q._cterm_mods):
        return False
    for f in ('_labile_mods', '_unknown_mods', '_static_mods', '_isotope_mods', '_charge_adducts'):
        if mkey(getattr(t, f)) != mkey(getattr(q, f)):
            return False
    if t._charge != q._charge:
        return False
    tiv = [(iv.start - i, iv.end - i, bool(iv.ambiguous), None if iv.mods is None else frozenset(mkey(iv.mods).items()))
           for iv in (t._intervals or []) if i <= iv.start and iv.end <= i + L]
    qiv = [(iv.start, iv.end, bool(iv.ambiguous), None if iv.mods is None else frozenset(mkey(iv.mods).items()))
           for iv in (q._intervals or [])]
    if Counter(tiv) != Counter(qiv):
        return False
    return True


def ref_find(t, q, ignore):
    ts, qs = t._sequence, q._sequence
    if not ts or not qs:
        return []
    if ignore:
        return brute_substring(ts, qs)
    return [i for i in brute_substring(ts, qs) if ref_match(t, q, i)]


def residue_multiset(a):
    """multiset of modified residues of an annotation that carries residue modifications only"""
    im = a._internal_mods or {}
    return Counter((aa, frozenset((mkey(im.get(k)) or Counter()).items())) for k, aa in enumerate(a._sequence))


def _conv(text):
    for f in (int, float):
        try:
            return f(text)
        except ValueError:
            pass
    return text


def ref_static_rules(a):
    """independent reading of the static rules '[m1][m2]^k@T1,T2': {target: [(val, mult), ...]}"""
    import re as _re
    out = {}
    for rule in (a._static_mods or []):
        text = str(rule.val)
        body, _, targets = text.rpartition('@')
        mods = [(_conv(v), int(k) if k else 1) for v, k in _re.findall(r'\[([^\]]*)\](?:\^(\d+))?', body)]
        for t in targets.split(','):
            out.setdefault(t, []).extend(mods)
    return out


def ref_residue_keys(a):
    """the modified residues of an annotation without intervals, read independently of condense_static_mods / split / ==:
    residue letter, the multiset of its own and static modifications, terminal modifications on the end residues, the
    global modifications every piece carries (labile ones stay with the first residue)"""
    def bag(pairs):
        return None if pairs is None else frozenset(Counter(pairs).items())

    def pairs(mods):
        return None if mods is None else [(m.val, m.mult) for m in mods]

    rules = ref_static_rules(a)
    n = len(a._sequence)
    nterm, cterm = pairs(a._nterm_mods), pairs(a._cterm_mods)
    if 'N-Term' in rules:
        nterm = (nterm or []) + rules['N-Term']
    if 'C-Term' in rules:
        cterm = (cterm or []) + rules['C-Term']
    glob = (bag(pairs(a._unknown_mods)), bag(pairs(a._isotope_mods)), bag(pairs(a._charge_adducts)), a._charge)
    keys = []
    for k, aa in enumerate(a._sequence):
        own = pairs((a._internal_mods or {}).get(k))
        if aa in rules:
            own = (own or []) + rules[aa]
        lab = bag(pairs(a._labile_mods)) if (k == 0 and a._labile_mods) else None
        keys.append((aa, bag(own), bag(nterm) if k == 0 else None, bag(cterm) if k == n - 1 else None, lab) + glob)
    return Counter(keys)


# ----------------------------------------------------------------------------- generators

def cut(t, i, j):
    """the piece [i, j) of t built by hand (no slice): residue mods, the terminal mods it touches, globals, inner intervals"""
    _, PA, Mod, Interval = _pt()
    n = len(t._sequence)
    q = PA(_sequence=t._sequence[i:j])
    d = {k - i: copy.deepcopy(v) for k, v in (t._internal_mods or {}).items() if i <= k < j}
    if d:
        q._internal_mods = d
    if i == 0:
        q._nterm_mods = copy.deepcopy(t._nterm_mods)
    if j == n:
        q._cterm_mods = copy.deepcopy(t._cterm_mods)
    for f in ('_labile_mods', '_unknown_mods', '_static_mods', '_isotope_mods', '_charge_adducts', '_charge'):
        setattr(q, f, copy.deepcopy(getattr(t, f)))
    ivs = [Interval(iv.start - i, iv.end - i, iv.ambiguous, copy.deepcopy(iv.mods)) for iv in (t._intervals or [])
           if i <= iv.start and iv.end <= j]
    if ivs:
        q._intervals = ivs
    return q


def perturb(rng, q):
    _, PA, Mod, Interval = _pt()
    q = copy.deepcopy(q)
    L = len(q._sequence)
    k = rng.choice(['dropmod', 'addmod', 'letter', 'nterm', 'cterm', 'global', 'reorder', 'mult', 'strip', 'none'])
    d = q._internal_mods
    if k == 'dropmod' and d:
        key = rng.choice(list(d))
        d[key].pop()
        if not d[key]:
            del d[key]
        if not d:
            q._internal_mods = None
    elif k == 'addmod' and L:
        d = q._internal_mods = d or {}
        d.setdefault(rng.randrange(L), []).append(Mod(rng.choice(POOL), 1))
    elif k == 'letter' and L:
        p = rng.randrange(L)
        q._sequence = q._sequence[:p] + rng.choice('AK') + q._sequence[p + 1:]
    elif k == 'nterm':
        q._nterm_mods = None if q._nterm_mods else [Mod(rng.choice(POOL), 1)]
    elif k == 'cterm':
        q._cterm_mods = None if q._cterm_mods else [Mod(rng.choice(POOL), 1)]
    elif k == 'global':
        f = rng.choice(['_labile_mods', '_unknown_mods', '_isotope_mods', '_charge'])
        if f == '_charge':
            q._charge = None if q._charge else 2
        else:
            setattr(q, f, None if getattr(q, f) else [Mod('13C' if f == '_isotope_mods' else rng.choice(POOL), 1)])
    elif k == 'reorder' and d:
        for v in d.values():
            v.reverse()
    elif k == 'mult' and d:
        key = rng.choice(list(d))
        d[key][0] = Mod(d[key][0].val, d[key][0].mult + 1)
    elif k == 'strip':
        q = PA(_sequence=q._sequence)
    return q


def gen_target(rng, max_len=40):
    kinds = rng.choice([{'internal'}, {'internal', 'nterm', 'cterm'}, None, {'internal', 'nterm', 'cterm', 'intervals'},
                        {'internal', 'labile', 'isotope', 'static', 'unknown', 'charge', 'adducts'}])
    res = rng.choice(['AK', 'AK', 'A', 'ACK'])
    n = rng.choice([rng.randint(1, 8), rng.randint(1, max_len)])
    return annot.gen_annotation(rng, n, n, residues=res, p=rng.choice([0.15, 0.35, 0.6]), kinds=kinds,
                                value_pool=rng.choice([POOL, POOL[:1], POOL[:2]]), max_mods=2, mult_p=0.1)


def gen_query(rng, t):
    n = len(t._sequence)
    L = rng.randint(1, min(n, rng.choice([1, 2, 3, 4, 6])))
    i = rng.randint(0, n - L)
    q = cut(t, i, i + L)
    if rng.random() < 0.45:
        q = perturb(rng, q)
    return q


def run(chk):
    pt, PA, Mod, Interval = _pt()
    import regex
    from peptacular.sequence import sequence_funcs as sf
    tier = chk.tier
    rng = chk.rng
    # sequence_funcs.py -> Generated/CoverageCorePy.lean + Props/C16Gen.lean (equalities with the hand model), regenerated on change
    from .. import translate_covcore
    translate_covcore.translate(chk)
    chk.lean_build(['PeptVerif.Props.C16', 'PeptVerif.Props.C16Ext', 'PeptVerif.Props.C16Gen'], DRV)
    chk.trusted += [
        'harness/translate_covcore.py: the reading of `A[a:b] = [x + c for x in A[a:b]]`, `A[a:b] = [c] * n`, `[c] * sequence_length(..)`, '
        '`len`, `sum`, `==`, `/` and the literal accumulate flag into List.take/drop/map/replicate/sum over Nat and a Rat quotient',
        'modelled (Model/Search.lean): ProFormaAnnotation.is_subsequence / find_indices, find_subsequence_indices, '
        'is_subsequence (ordered; unordered = _count_residue_keys on the pieces of condense_static_mods().split(), keys compared '
        'as == does), coverage, percent_coverage; slice, split and __eq__ are Model/Reorder.lean and Model/AnnotEq.lean, '
        'condense_static_mods / count_residues Model/StaticMods.lean (C12)',
        'not modelled: sequence_to_annotation (parsing, C01/C09), the hashing of the residue keys (Counter lookup is modelled as '
        'counting modulo ==), the regex engine (literal patterns only: compared with the scan model on every enumerated pair)',
        'reading: a partly covered interval has no agreed meaning for "the modifications on that stretch"; such offsets are '
        'compared model-vs-implementation only, not against the independent reference',
    ]
    nmax = 7 if tier == 'quick' else 9
    chk.exhaustive = True
    chk.rule = (f'exhaustive: all targets of length 0..{nmax} over {{A,K}} x all queries of length 1..4 (plus the empty query), '
                'ignore_mods and accumulate both ways; random modified targets (alphabets A, AK, ACK, length <= 40, every '
                'modification kind) with queries cut from them by hand and perturbed (mod dropped/added/reordered, residue '
                'changed, terminal/global mod toggled, stripped); non-trivial = at least one occurrence found; distinct = '
                'distinct protocol line')
    reach = c17_reach.LineCoverage(
        [PA.is_subsequence, PA.find_indices, PA.count_residues,
         sf.find_subsequence_indices, sf.is_subsequence, sf._count_residue_keys, sf.coverage, sf.percent_coverage,
         sf.count_residues], tool='verif-c16')   # slice / strip / split / __eq__ are measured by their owners (C11, C20)
    reach.start()
    replay_corpus(chk)

    targets = [''.join(t) for k in range(0, nmax + 1) for t in itertools.product('AK', repeat=k)]
    queries = [''.join(t) for k in range(1, 5) for t in itertools.product('AK', repeat=k)]
    dumps = {s: annot.dump(PA(_sequence=s)) for s in targets + queries + ['']}

    # ---------------------------------------------------------------- (a) the regex scan itself
    occ_cases = [(q, t) for t in targets for q in queries + ['']]
    chk.correspond('regex_finditer_overlapped', DRV, occ_cases,
                   lambda c: f'occ\t{annot.esc(c[0])}\t{annot.esc(c[1])}',
                   lambda c: ilist(m.start() for m in regex.finditer(c[0], c[1], overlapped=True)),
                   nontrivial_fn=lambda c, im: bool(im))

    # ---------------------------------------------------------------- (b) exhaustive plain strings
    ex_cases = [(t, q, ign) for t in targets for q in queries + [''] for ign in (False, True)]
    for c in ex_cases:
        chk.count(f'exhaustive_target_len={len(c[0])}')
    chk.correspond('find_subsequence_indices_exhaustive', DRV, ex_cases,
                   lambda c: f'fsi\t{dumps[c[0]]}\t{dumps[c[1]]}\t{int(c[2])}',
                   lambda c: ilist(pt.find_subsequence_indices(c[0], c[1], ignore_mods=c[2])),
                   nontrivial_fn=lambda c, im: bool(im))
    cov_ex = []
    for t in targets:
        for q in queries:
            cov_ex.append((t, [q], rng.random() < 0.5, rng.random() < 0.5))
        for _ in range(4):
            cov_ex.append((t, rng.sample(queries, rng.randint(0, 3)), rng.random() < 0.5, rng.random() < 0.5))

    def cov_line(c):
        return f'cov\t{dumps[c[0]]}\t{int(c[2])}\t{int(c[3])}\t' + '~'.join(dumps[q] for q in c[1])

    chk.correspond('coverage_exhaustive', DRV, cov_ex, cov_line,
                   lambda c: ilist(pt.coverage(c[0], list(c[1]), accumulate=c[2], ignore_mods=c[3])),
                   nontrivial_fn=lambda c, im: '1' in im or '2' in im)

    def pct_cmp(im, m):
        try:
            a, b = m.split('/')
            return float(im) == int(a) / int(b)
        except ValueError:
            return im == m

    chk.correspond('percent_coverage_exhaustive', DRV, cov_ex[:: 3],
                   lambda c: f'pct\t{dumps[c[0]]}\t{int(c[3])}\t' + '~'.join(dumps[q] for q in c[1]),
                   lambda c: repr(float(pt.percent_coverage(c[0], list(c[1]), ignore_mods=c[3]))),
                   compare=pct_cmp, nontrivial_fn=lambda c, im: float(im) > 0)

    # ---------------------------------------------------------------- (c) random modified targets
    nrand = 1200 if tier == 'quick' else 10000
    mod_cases = []
    for _ in range(nrand):
        t = gen_target(rng)
        qs = [gen_query(rng, t) for _ in range(rng.randint(1, 3))]
        mod_cases.append((t, qs, rng.random() < 0.5, rng.random() < 0.3))
        chk.count('modified_target_len=%d' % (len(t._sequence) // 10 * 10))

    def A(a):
        return copy.deepcopy(a)

    chk.correspond('find_indices_method', DRV, mod_cases,
                   lambda c: f'find\t{annot.dump(c[1][0])}\t{annot.dump(c[0])}',
                   lambda c: ilist(A(c[1][0]).find_indices(A(c[0]))), nontrivial_fn=lambda c, im: bool(im))
    chk.correspond('is_subsequence_method', DRV, mod_cases,
                   lambda c: f'issub\t{annot.dump(c[1][0])}\t{annot.dump(c[0])}',
                   lambda c: str(A(c[1][0]).is_subsequence(A(c[0]))), nontrivial_fn=lambda c, im: im == 'True')
    chk.correspond('find_subsequence_indices_modified', DRV, mod_cases,
                   lambda c: f'fsi\t{annot.dump(c[0])}\t{annot.dump(c[1][0])}\t{int(c[3])}',
                   lambda c: ilist(pt.find_subsequence_indices(A(c[0]), A(c[1][0]), ignore_mods=c[3])),
                   nontrivial_fn=lambda c, im: bool(im))
    chk.correspond('is_subsequence_ordered', DRV, mod_cases,
                   lambda c: f'issubf\t{annot.dump(c[1][0])}\t{annot.dump(c[0])}',
                   lambda c: str(pt.is_subsequence(A(c[1][0]), A(c[0]), order=True)), nontrivial_fn=lambda c, im: im == 'True')
    chk.correspond('coverage_modified', DRV, mod_cases,
                   lambda c: f'cov\t{annot.dump(c[0])}\t{int(c[2])}\t{int(c[3])}\t' + '~'.join(annot.dump(q) for q in c[1]),
                   lambda c: ilist(pt.coverage(A(c[0]), [A(q) for q in c[1]], accumulate=c[2], ignore_mods=c[3])),
                   nontrivial_fn=lambda c, im: '1' in im or '2' in im)

    def unord_line(c):
        ks = sf.count_residues(A(c[1][0]))
        kt = sf.count_residues(A(c[0]))
        return ('unord\t' + ','.join(annot.esc(k) for k in ks.elements()) + '\t' + ','.join(annot.esc(k) for k in kt.elements()))

    def text_keyed(c):
        ks = sf.count_residues(A(c[1][0]))
        kt = sf.count_residues(A(c[0]))
        return str(all(ks[k] <= kt[k] for k in ks))

    # the abstract test on the keys that count_residues produces (what is_subsequence did before 92a74e5)
    unord_cases = [c for c in mod_cases if not c[0]._static_mods and not c[1][0]._static_mods]
    chk.correspond('count_residues_keys_contained', DRV, unord_cases, unord_line, text_keyed,
                   nontrivial_fn=lambda c, im: im == 'True')

    # the real function, annotations in, answer out: condense_static_mods -> split -> key by == -> Counter
    def exc(e):
        return 'ERR:' + type(e).__name__

    def unordf_impl(c):
        try:
            return str(pt.is_subsequence(A(c[1]), A(c[0]), order=False))
        except (ValueError, TypeError, KeyError) as e:
            return exc(e)

    uf_cases = []
    for c in mod_cases:
        for q in c[1]:
            uf_cases.append((c[0], q))
    for _ in range(nrand // 2):
        t = annot.gen_annotation(rng, 1, 10, residues=rng.choice(['AK', 'ACKMST']), p=0.5, value_pool=POOL[:3], max_mods=3, mult_p=0.1)
        n = len(t._sequence)
        idx = rng.sample(range(n), rng.randint(1, n))
        q = copy.deepcopy(t)
        q._sequence = ''.join(t._sequence[k] for k in idx)
        q._internal_mods = {j: copy.deepcopy(t._internal_mods[k]) for j, k in enumerate(idx)
                            if t._internal_mods and k in t._internal_mods} or None
        q._intervals = None
        if 0 not in idx[:1]:
            q._nterm_mods = None
        if n - 1 not in idx[-1:]:
            q._cterm_mods = None
        for v in (q._internal_mods or {}).values():
            rng.shuffle(v)
        if rng.random() < 0.3:
            q = perturb(rng, q)
        uf_cases.append((t, q))
    lit = chk.driver(DRV, ['literal\t' + annot.dump(c[0]) for c in uf_cases])
    lit2 = chk.driver(DRV, ['literal\t' + annot.dump(c[1]) for c in uf_cases])
    uf_cases = [c for c, a, b in zip(uf_cases, lit, lit2) if a == '1' and b == '1']
    chk.correspond('is_subsequence_unordered', DRV, uf_cases,
                   lambda c: f'unordf\t{annot.dump(c[1])}\t{annot.dump(c[0])}', unordf_impl,
                   nontrivial_fn=lambda c, im: im == 'True')

    # ---------------------------------------------------------------- oracles: the property on the real code
    big = chk.broken()
    chk.oracle('substring_exhaustive', ex_cases if big or tier == 'thorough' else ex_cases[:: 2],
               lambda c: prop_plain(pt, c), nontrivial_fn=lambda c: len(c[0]) >= len(c[1]) > 0, key_fn=repr)
    chk.oracle('coverage_exhaustive', cov_ex if big or tier == 'thorough' else cov_ex[:: 2],
               lambda c: prop_cov_plain(pt, c), nontrivial_fn=lambda c: bool(c[1]) and bool(c[0]), key_fn=repr)
    ocases = []
    for _ in range(nrand * (3 if big else 1)):
        t = gen_target(rng)
        qs = [gen_query(rng, t) for _ in range(rng.randint(1, 3))]
        ocases.append({'t': annot.dump(t, False), 'qs': [annot.dump(q, False) for q in qs], 'acc': rng.random() < 0.5,
                       'ign': rng.random() < 0.3})
    chk.oracle('modified_search_and_coverage', ocases, lambda c: prop_modified(pt, c),
               nontrivial_fn=lambda c: True, key_fn=lambda c: json.dumps(c, sort_keys=True))
    ucases = []
    for _ in range(nrand):
        t = annot.gen_annotation(rng, 1, 12, residues='AK', p=0.5, kinds={'internal'}, value_pool=POOL[:3], max_mods=2, mult_p=0.0)
        if rng.random() < 0.6:
            n = len(t._sequence)
            idx = rng.sample(range(n), rng.randint(1, n))
            q = PA(_sequence=''.join(t._sequence[k] for k in idx))
            d = {j: copy.deepcopy(t._internal_mods[k]) for j, k in enumerate(idx) if t._internal_mods and k in t._internal_mods}
            if d:
                q._internal_mods = d
            if rng.random() < 0.4:
                q = perturb(rng, q)
                for f in ('_nterm_mods', '_cterm_mods', '_labile_mods', '_unknown_mods', '_isotope_mods', '_charge'):
                    setattr(q, f, None)          # the reference multiset reads residue modifications only
        else:
            q = annot.gen_annotation(rng, 1, 4, residues='AK', p=0.5, kinds={'internal'}, value_pool=POOL[:3], max_mods=2, mult_p=0.0)
        ucases.append({'t': annot.dump(t, False), 'q': annot.dump(q, False)})
    chk.oracle('unordered_containment', ucases, lambda c: prop_unordered(pt, c), nontrivial_fn=lambda c: True,
               key_fn=lambda c: json.dumps(c, sort_keys=True))

    gcases = []
    allk = ['internal', 'nterm', 'cterm', 'labile', 'static', 'isotope', 'unknown', 'charge', 'adducts']
    for _ in range(nrand):
        kinds = set(rng.sample(allk, rng.randint(1, 5))) | {'internal'}
        t = annot.gen_annotation(rng, 1, 10, residues=rng.choice(['AK', 'ACKMST']), p=0.45, kinds=kinds,
                                 value_pool=POOL[:3], max_mods=2, mult_p=0.1, intervals=False)
        n = len(t._sequence)
        r = rng.random()
        if r < 0.4:
            q = cut(t, 0, n)
            idx = sorted(rng.sample(range(n), rng.randint(1, n)))
            if rng.random() < 0.5:
                idx = [0] + [k for k in idx if k not in (0, n - 1)] + ([n - 1] if n > 1 else [])
            q._sequence = ''.join(t._sequence[k] for k in idx)
            q._internal_mods = {j: copy.deepcopy(t._internal_mods[k]) for j, k in enumerate(idx)
                                if t._internal_mods and k in t._internal_mods} or None
            if idx[0] != 0:
                q._nterm_mods = None
            if idx[-1] != n - 1:
                q._cterm_mods = None
            if rng.random() < 0.35:
                q = perturb(rng, q)
        elif r < 0.8:
            q = gen_query(rng, t)
        else:
            q = annot.gen_annotation(rng, 1, 3, residues='AK', p=0.4, kinds=kinds, value_pool=POOL[:3], max_mods=2,
                                     mult_p=0.1, intervals=False)
        gcases.append({'t': annot.dump(t, False), 'q': annot.dump(q, False)})
    chk.oracle('unordered_containment_general', gcases, lambda c: prop_unordered_general(pt, c),
               nontrivial_fn=lambda c: True, key_fn=lambda c: json.dumps(c, sort_keys=True))

    # call SEQUENCES on shared inputs (state leaking between calls), then the earliest calls of this run once more
    sessions = [gen_session(rng) for _ in range(max(300, nrand // 3))]
    chk.oracle('call_sessions', sessions, lambda c: prop_session(pt, c), nontrivial_fn=lambda c: True,
               key_fn=lambda c: json.dumps(c, sort_keys=True))
    sel_plain = (ex_cases if big or tier == 'thorough' else ex_cases[:: 2])
    sel_cov = (cov_ex if big or tier == 'thorough' else cov_ex[:: 2])
    for name, cs, fn in (('substring_exhaustive', sel_plain[:150], lambda c: prop_plain(pt, c)),
                         ('coverage_exhaustive', sel_cov[:150], lambda c: prop_cov_plain(pt, c)),
                         ('modified_search_and_coverage', ocases[:80], lambda c: prop_modified(pt, c)),
                         ('unordered_containment_general', gcases[:80], lambda c: prop_unordered_general(pt, c)),
                         ('call_sessions', sessions[:60], lambda c: prop_session(pt, c))):
        chk.oracle('reissued_' + name, cs, fn, nontrivial_fn=lambda c: True,
                   key_fn=lambda c: json.dumps(c, sort_keys=True, default=str))
    shrink_sessions(chk)

    c17_reach.record(chk, reach)
    if tier == 'thorough':
        chk.leanchecker(['PeptVerif.Props.C16', 'PeptVerif.Props.C16Ext', 'PeptVerif.Props.C16Gen', 'PeptVerif.Generated.CoverageCorePy',
                         'PeptVerif.Lemmas.Search', 'PeptVerif.Model.Search'])
    return chk.finish(classify)


# ----------------------------------------------------------------------------- property evaluators

def prop_plain(pt, c):
    t, q, ign = c
    got = pt.find_subsequence_indices(t, q, ignore_mods=ign)
    exp = brute_substring(t, q) if t and q else []
    if list(got) != exp:
        return f'find_subsequence_indices({t!r}, {q!r}, ignore_mods={ign}) = {list(got)}, occurrences are {exp}'
    if q and t:
        if pt.is_subsequence(q, t) != bool(exp):
            return f'is_subsequence({q!r}, {t!r}) = {pt.is_subsequence(q, t)} but occurrences are {exp}'
        cq, ct = Counter(q), Counter(t)
        want = all(cq[k] <= ct[k] for k in cq)
        if pt.is_subsequence(q, t, order=False) != want:
            return f'is_subsequence({q!r}, {t!r}, order=False) != {want} (residue counts {dict(cq)} vs {dict(ct)})'
        if pt.count_residues(t) != ct:
            return f'count_residues({t!r}) = {dict(pt.count_residues(t))}'
    return None


def expected_cov(n, occs, acc):
    cov = [0] * n
    for i, L in occs:
        for j in range(i, i + L):
            cov[j] = cov[j] + 1 if acc else 1
    return cov


def prop_cov_plain(pt, c):
    t, qs, acc, ign = c
    occs = [(i, len(q)) for q in qs for i in (brute_substring(t, q) if t and q else [])]
    exp = expected_cov(len(t), occs, acc)
    got = pt.coverage(t, list(qs), accumulate=acc, ignore_mods=ign)
    if list(got) != exp:
        return f'coverage({t!r}, {qs!r}, accumulate={acc}) = {list(got)}, occurrences (offset, length) {occs} give {exp}'
    pc = pt.percent_coverage(t, list(qs), ignore_mods=ign)
    marked = sum(1 for x in expected_cov(len(t), occs, False) if x)
    want = marked / len(t) if t else 0
    if pc != want or not (0 <= pc <= 1):
        return f'percent_coverage({t!r}, {qs!r}) = {pc!r}, marked fraction is {want!r}'
    return None


def prop_modified(pt, c):
    t = annot.undump(c['t'])
    qs = [annot.undump(q) for q in c['qs']]
    n = len(t._sequence)
    occs = []
    decidable = True
    for q in qs:
        cand = brute_substring(t._sequence, q._sequence)
        if not c['ign'] and not all(ref_decidable(t, q, i) for i in cand):
            decidable = False
            continue
        exp = ref_find(t, q, c['ign'])
        got = list(pt.find_subsequence_indices(copy.deepcopy(t), copy.deepcopy(q), ignore_mods=c['ign']))
        if got != exp:
            return (f'find_subsequence_indices({t.serialize()!r}, {q.serialize()!r}, ignore_mods={c["ign"]}) = {got}, '
                    f'offsets with equal residues and modifications are {exp}')
        if not c['ign']:
            if pt.is_subsequence(copy.deepcopy(q), copy.deepcopy(t)) != bool(exp):
                return f'is_subsequence({q.serialize()!r}, {t.serialize()!r}) != {bool(exp)}'
            if list(copy.deepcopy(q).find_indices(copy.deepcopy(t))) != exp:
                return f'find_indices method differs from {exp}'
            if copy.deepcopy(q).is_subsequence(copy.deepcopy(t)) != bool(exp):
                return (f'ProFormaAnnotation.is_subsequence: {q.serialize()!r} in {t.serialize()!r} = {not bool(exp)}, '
                        f'offsets with equal residues and modifications are {exp}')
        occs += [(i, len(q._sequence)) for i in exp]
        # ordered containment implies unordered containment (labile mods sit on the first piece only and a cut interval
        # has no agreed reading: both excluded)
        if (not c['ign'] and exp and not t._labile_mods and not q._labile_mods and not t._intervals and not q._intervals
                and not t._static_mods and not q._static_mods):
            if not pt.is_subsequence(copy.deepcopy(q), copy.deepcopy(t), order=False):
                return (f'is_subsequence({q.serialize()!r}, {t.serialize()!r}) is True with order=True (offsets {exp}) '
                        f'but False with order=False')
    if decidable:
        exp = expected_cov(n, occs, c['acc'])
        got = list(pt.coverage(copy.deepcopy(t), [copy.deepcopy(q) for q in qs], accumulate=c['acc'], ignore_mods=c['ign']))
        if got != exp:
            return f'coverage = {got}, occurrences (offset, length) {occs} give {exp}'
        pc = pt.percent_coverage(copy.deepcopy(t), [copy.deepcopy(q) for q in qs], ignore_mods=c['ign'])
        marked = sum(1 for x in expected_cov(n, occs, False) if x)
        if pc != (marked / n if n else 0) or not (0 <= pc <= 1):
            return f'percent_coverage = {pc!r}, marked fraction is {marked}/{n}'
    return None


def prop_unordered(pt, c):
    import random
    t, q = annot.undump(c['t']), annot.undump(c['q'])
    q2 = copy.deepcopy(q)
    r = random.Random(len(c['t']) + len(c['q']))
    for v in (q2._internal_mods or {}).values():
        r.shuffle(v)
    if pt.is_subsequence(copy.deepcopy(q2), copy.deepcopy(t), order=False) != pt.is_subsequence(copy.deepcopy(q), copy.deepcopy(t), order=False):
        return (f'is_subsequence(order=False) changes when the modifications of a residue are written in another order: '
                f'{q.serialize()!r} vs {q2.serialize()!r} in {t.serialize()!r}')
    mt, mq = residue_multiset(t), residue_multiset(q)
    exp = all(mq[k] <= mt[k] for k in mq)
    got = pt.is_subsequence(copy.deepcopy(q), copy.deepcopy(t), order=False)
    if got != exp:
        return (f'is_subsequence({q.serialize()!r}, {t.serialize()!r}, order=False) = {got}, multiset inclusion of modified '
                f'residues is {exp}')
    return None


def gen_session(rng):
    """a SEQUENCE of calls on the same target / queries (objects and strings reused, flags toggled, results mutated)"""
    kinds = rng.choice([{'internal'}, {'internal', 'nterm', 'cterm'}, {'internal', 'nterm', 'cterm', 'isotope', 'unknown', 'charge'}])
    t = annot.gen_annotation(rng, 1, rng.choice([6, 14, 30]), residues=rng.choice(['AK', 'A', 'ACK']), p=rng.choice([0.0, 0.2, 0.5]),
                             kinds=kinds, value_pool=POOL[:2], max_mods=2, mult_p=0.1, intervals=False)
    qs = [gen_query(rng, t) for _ in range(rng.randint(1, 3))]
    ops = []
    for _ in range(rng.randint(4, 9)):
        k = rng.choice(['cov', 'cov', 'pct', 'find', 'find', 'issub', 'unord', 'mutate'])
        ops.append([k, rng.randrange(len(qs)), rng.random() < 0.5, rng.random() < 0.4])
    return {'t': annot.dump(t, False), 'qs': [annot.dump(q, False) for q in qs], 'ops': ops, 'strings': rng.random() < 0.3}


def prop_session(pt, c):
    """every call against the reference computed from that call's own arguments; the argument objects are reused across
    the calls and returned lists are overwritten before the next call"""
    t = annot.undump(c['t'])
    qs = [annot.undump(q) for q in c['qs']]
    if c.get('strings'):
        t, qs = t.serialize(), [q.serialize() for q in qs]
    T = annot.undump(c['t'])
    Q = [annot.undump(q) for q in c['qs']]
    n = len(T._sequence)
    last = None
    for k, (op, qi, acc, ign) in enumerate(c['ops']):
        q, Qq = qs[qi], Q[qi]
        where = f'call {k + 1} of {len(c["ops"])} ({op}, query {qi}, accumulate={acc}, ignore_mods={ign}) on {c["t"]!r} / {c["qs"]!r}: '
        if op == 'mutate':
            if isinstance(last, list):
                for j in range(len(last)):
                    last[j] = 97
                last.append(98)
            continue
        if op == 'cov':
            occs = [(i, len(x._sequence)) for x in Q for i in ref_find(T, x, ign)]
            exp = expected_cov(n, occs, acc)
            last = pt.coverage(t, qs, accumulate=acc, ignore_mods=ign)
            if list(last) != exp:
                return where + f'coverage = {list(last)}, occurrences (offset, length) {occs} give {exp}'
        elif op == 'pct':
            occs = [(i, len(x._sequence)) for x in Q for i in ref_find(T, x, ign)]
            marked = sum(1 for x in expected_cov(n, occs, False) if x)
            got = pt.percent_coverage(t, qs, ignore_mods=ign)
            if got != (marked / n if n else 0):
                return where + f'percent_coverage = {got!r}, marked fraction is {marked}/{n}'
        elif op == 'find':
            exp = ref_find(T, Qq, ign)
            last = pt.find_subsequence_indices(t, q, ignore_mods=ign)
            if list(last) != exp:
                return where + f'find_subsequence_indices = {list(last)}, offsets with equal residues and modifications are {exp}'
        elif op == 'issub':
            exp = bool(ref_find(T, Qq, False))
            if pt.is_subsequence(q, t, order=True) != exp:
                return where + f'is_subsequence(order=True) != {exp}'
        elif op == 'unord':
            kt, kq = ref_residue_keys(T), ref_residue_keys(Qq)
            exp = all(kq[x] <= kt[x] for x in kq)
            if pt.is_subsequence(q, t, order=False) != exp:
                return where + f'is_subsequence(order=False) != {exp}'
    return None


def confirm_fresh(obj):
    """re-evaluate a failing case in a fresh interpreter: description or None"""
    import subprocess
    import sys
    code = ('import json,sys; from harness.props import c16; '
            'print(json.dumps(c16.eval_failure(json.load(sys.stdin))))')
    try:
        p = subprocess.run([sys.executable, '-W', 'ignore', '-c', code], input=json.dumps(obj), capture_output=True, text=True,
                           cwd=core.VERIF, timeout=120)
        return json.loads(p.stdout.strip().split('\n')[-1])
    except Exception as e:  # noqa
        return f'fresh-interpreter replay not available: {type(e).__name__}'


def shrink_sessions(chk):
    for f in chk.failures:
        if f['oracle'] != 'call_sessions':
            continue
        c = f['case']
        if confirm_fresh({'oracle': 'call_sessions', 'case': c}) is None:
            f['detail'] += ' [not reproduced in a fresh interpreter: depends on calls made earlier in this run]'
            continue
        ops = list(c['ops'])
        i = tries = 0
        while i < len(ops) and len(ops) > 1 and tries < 10:
            cand = dict(c, ops=ops[:i] + ops[i + 1:])
            tries += 1
            if confirm_fresh({'oracle': 'call_sessions', 'case': cand}) is not None:
                ops = cand['ops']
            else:
                i += 1
        c = dict(c, ops=ops)
        f['case'] = c
        f['detail'] = str(confirm_fresh({'oracle': 'call_sessions', 'case': c}))[:2000] + ' [reproduced in a fresh interpreter]'


def prop_unordered_general(pt, c):
    t, q = annot.undump(c['t']), annot.undump(c['q'])
    kt, kq = ref_residue_keys(t), ref_residue_keys(q)
    exp = all(kq[k] <= kt[k] for k in kq)
    got = pt.is_subsequence(copy.deepcopy(q), copy.deepcopy(t), order=False)
    if got != exp:
        return (f'is_subsequence({q.serialize()!r}, {t.serialize()!r}, order=False) = {got}, multiset inclusion of modified '
                f'residues (static rules applied, terminal mods on the end residues) is {exp}')
    return None


# ----------------------------------------------------------------------------- corpus / replay / classification

def eval_failure(obj):
    import peptacular as pt
    o, c = obj['oracle'], obj['case']
    try:
        if o == 'corpus':
            return eval_failure(c)
        if o == 'substring_exhaustive':
            return prop_plain(pt, c)
        if o == 'coverage_exhaustive':
            return prop_cov_plain(pt, c)
        if o == 'modified_search_and_coverage':
            return prop_modified(pt, c)
        if o == 'unordered_containment':
            return prop_unordered(pt, c)
        if o == 'unordered_containment_general':
            return prop_unordered_general(pt, c)
        if o == 'call_sessions':
            return prop_session(pt, c)
        if o.startswith('reissued_'):
            return eval_failure({'oracle': o[len('reissued_'):], 'case': c})
    except Exception as e:  # noqa
        return f'unexpected {type(e).__name__}: {e}'
    return 'unknown oracle ' + str(o)


def replay_corpus(chk):
    n = 0
    for path in sorted(glob.glob(os.path.join(core.VERIF, 'corpus', PID, '*.jsonl'))):
        objs = [json.loads(l) for l in open(path) if l.strip()]
        chk.oracle('corpus', objs, eval_failure, key_fn=lambda o: json.dumps(o, sort_keys=True))
        n += len(objs)
    chk.count('corpus_cases', n)


def replay(chk, obj):
    if obj.get('kind') != 'oracle':
        print(json.dumps(obj, indent=1))
        return 0
    r = eval_failure(obj)
    print('replay', obj['oracle'], '->', 'property holds now' if r is None else 'FAILS: ' + r)
    return 0 if r is None else 1


def classify(f):
    """no known finding is open for C16 (KF-C16-overlapping-occurrences and KF-C16-unordered-mod-order are repaired)"""
    return None
