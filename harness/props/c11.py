"""C11 - reordering and cutting a peptide moves modifications with their residues."""
import copy
import glob as _glob
import json
import os
from collections import Counter

from .. import annot, core
from .. import c11_common as cc

PID = 'C11'
DRV = 'drv_c11'

REGISTRY = {
    'id': 'C11',
    'text': 'Lean theorems about a hand-written model of ProFormaAnnotation.slice/reverse/shift/shuffle/sort_residues/split: '
            'residues (with their modifications) are reversed / rotated / permuted / stably sorted / extracted, globals and termini '
            'stay or swap, reverse is an involution, shift by a multiple of the length is the identity, shift k then -k is the identity and '
            'shifted intervals cover the rotated residues when no interval wraps around, '
            'reversed intervals cover the mirrored residues, slice composes, split pieces concatenate to the peptide, every '
            'additive weight (mass) is invariant; slices (cuts not inside an interval), reversed, shifted (no interval wrapping), shuffled '
            'and sorted canonical annotations re-parse to themselves (C01 parse_serialize, modulo dict order / {} which == ignores). '
            'Mechanical tie for the index arithmetic: harness/translate_reorder.py reads the CURRENT proforma_parser.py with ast and emits '
            'Generated/ReorderPy.lean for 13 fragments of slice / reverse / shift / split (key re-indexing with its range test, interval keep/drop '
            'test and clipping, the guards of _nterm_mods/_cterm_mods = None in both branches, n-1-k, [n-e,n-s) with the swap, the rotation bounds, '
            '(k-n%len)%len, the shifted interval ends, the slice bounds and pop_labile guard of split); Props/C11Gen.lean proves each equal to the '
            'hand model and transfers slice / reverse / cover theorems to the formulas read off the source. '
            'The rest of the model is tied to /repo by differential correspondence over generated '
            'annotations (length 0..25, all modification kinds, intervals at start/middle/end/adjacent, every shift in [-2n,2n], '
            'all 0<=i<=j<=n, inplace False/True, and random chains of 2..5 editors applied to one object lineage, compared after every '
            'step with the model and with the same step on a fresh object of the same value) and every clause is also evaluated '
            'directly on the implementation',
    'note': 'trusted: Lean kernel, axioms propext/Classical.choice/Quot.sound, the subset reader harness/translate_reorder.py (its output '
            'Generated/ReorderPy.lean is small and committed; fragments outside its subset are listed as untranslated:<name> and have no '
            'theorem), the correspondence harness and the wire codec, '
            'random.shuffle (its permutation is read from the implementation and fed to the model), the parser/serializer and '
            'mass() are used as black boxes by the oracle (re-parse and mass clauses). Known finding: an interval that wraps '
            'around after a shift cannot be represented and is replaced by another one (KF-C11-shift-interval-wraparound)',
    'technique': 'Lean 4 proof about executable model + differential correspondence',
}

GLOBAL_KEYS = ('isotope', 'static', 'labile', 'unknown', 'charge', 'adducts')


def _pt():
    import peptacular as pt
    return pt


def opt(x):
    return 'None' if x is None else str(x)


# ------------------------------------------------------------------------------------------------ protocol lines / impl

def line_of(c):
    op = c[0]
    if op == 'slice':
        return f'slice\t{c[1]}\t{opt(c[2])}\t{opt(c[3])}\t{int(c[4])}'
    if op == 'reverse':
        return f'reverse\t{c[1]}\t{int(c[2])}'
    if op == 'shift':
        return f'shift\t{c[1]}\t{c[2]}'
    if op == 'shuffle':
        return f'shuffle\t{c[1]}\t{",".join(map(str, c[4]))}'
    if op == 'sort':
        return f'sort\t{c[1]}'
    if op == 'split':
        return f'split\t{c[1]}'
    raise KeyError(op)


def impl_of(c):
    """the implementation on the same case; canonical reply"""
    op = c[0]
    a = annot.undump(c[1])
    try:
        if op == 'slice':
            r = cc.apply(a, 'slice', c[2], c[3], inplace=c[4])
        elif op == 'reverse':
            r = cc.apply(a, 'reverse', inplace=c[3], swap_terms=c[2])
        elif op == 'shift':
            r = cc.apply(a, 'shift', c[2], inplace=c[3])
        elif op == 'shuffle':
            r = cc.apply(a, 'shuffle', c[2], inplace=c[3])
        elif op == 'sort':
            r = cc.apply(a, 'sort_residues', inplace=c[2])
        elif op == 'split':
            return '~'.join(annot.dump(p) for p in copy.deepcopy(a).split())
        else:
            raise KeyError(op)
    except (ZeroDivisionError, ValueError, KeyError) as e:
        return 'ERR:' + type(e).__name__
    return annot.dump(r)


def canon_reply(m):
    return '~'.join(annot.canon_dump(x) for x in m.split('~'))


# ------------------------------------------------------------------------------------------------ oracles

def o_reverse(c):
    pt = _pt()
    _, d, swap = c[:3]
    a = annot.undump(d)
    n = len(a._sequence)
    r = a.reverse(swap_terms=swap)
    ri = cc.apply(a, 'reverse', inplace=True, swap_terms=swap)
    if cc.norm_dump(r) != cc.norm_dump(ri):
        return f'inplace=True gives {annot.dump(ri)} but inplace=False gives {annot.dump(r)}'
    if annot.dump(a, sort_internal=False) != d:
        return 'reverse changed its argument'
    if cc.res(r) != cc.res(a)[::-1]:
        return f'residues with their mods are not reversed: {cc.res(r)} vs {cc.res(a)[::-1]}'
    if cc.glob(r) != cc.glob(a):
        return f'global annotations changed: {cc.glob(r)} vs {cc.glob(a)}'
    t = cc.term(a)
    if cc.term(r) != ((t[1], t[0]) if swap else t):
        return f'terminal mods {cc.term(r)} (swap_terms={swap}) from {t}'
    exp = sorted((n - e, n - s, amb, m) for s, e, amb, m in cc.ivs(a))
    if sorted(cc.ivs(r)) != exp:
        return f'intervals do not cover the mirrored residues: got {sorted(cc.ivs(r))}, expected {exp}'
    rr = r.reverse(swap_terms=swap)
    if cc.norm_dump(rr) != cc.norm_dump(a) or not (rr == a):
        return f'reverse twice is not the identity: {annot.dump(rr)}'
    if not cc.same_mass(cc.mass_of(a), cc.mass_of(r)):
        return f'mass changed: {cc.mass_of(a)} -> {cc.mass_of(r)}'
    if cc.in_reparse_domain(a):
        if pt.reverse(a.serialize(), swap_terms=swap) != r.serialize():
            return 'peptacular.reverse(str) differs from the annotation method'
        if not cc.roundtrips(r):
            return f'reversed annotation does not re-parse: {r.serialize()!r}'
    return None


def o_shift(c):
    pt = _pt()
    _, d, k = c[:3]
    a = annot.undump(d)
    n = len(a._sequence)
    r = a.shift(k)
    ri = cc.apply(a, 'shift', k, inplace=True)
    if cc.norm_dump(r) != cc.norm_dump(ri):
        return f'inplace=True gives {annot.dump(ri)} but inplace=False gives {annot.dump(r)}'
    if annot.dump(a, sort_internal=False) != d:
        return 'shift changed its argument'
    e = k % n
    ra = cc.res(a)
    if cc.res(r) != ra[e:] + ra[:e]:
        return f'residues with their mods are not rotated by {e}: {cc.res(r)}'
    if cc.glob(r) != cc.glob(a) or cc.term(r) != cc.term(a):
        return 'global or terminal annotations changed'
    # intervals that do not wrap around after the rotation cover the rotated residues, with their mods and flag
    exp = Counter((s - e if e <= s else s - e + n, t - e if e <= s else t - e + n, amb, m)
                  for s, t, amb, m in cc.ivs(a) if 0 <= s < t <= n and not (s < e < t))
    if exp - Counter(cc.ivs(r)):
        return (f'shift by {k}: interval(s) {sorted((exp - Counter(cc.ivs(r))).elements())} expected (rotated, not wrapping), '
                f'got {cc.ivs(r)} from {cc.ivs(a)}')
    back = r.shift(-k)
    if cc.res(back) != ra or cc.glob(back) != cc.glob(a) or cc.term(back) != cc.term(a):
        return f'shift {k} then {-k} is not the identity on residues/globals/termini'
    if not cc.same_mass(cc.mass_of(a), cc.mass_of(r)):
        return f'mass changed: {cc.mass_of(a)} -> {cc.mass_of(r)}'
    if cc.in_reparse_domain(a):
        if pt.shift(a.serialize(), k) != r.serialize():
            return 'peptacular.shift(str) differs from the annotation method'
        if not wrapping(a, k) and not cc.roundtrips(r):
            return f'shifted annotation (no interval wraps) does not re-parse: {r.serialize()!r}'
    return None


def wrapping(a, k):
    """intervals of `a` that have the rotation point of shift(k) strictly inside"""
    n = len(a._sequence)
    e = k % n
    return [iv for iv in (a._intervals or []) if iv.start < e < iv.end]


def o_shift_identity(c):
    """shift k then -k, and shift by a multiple of the length, as identities on the whole annotation (intervals included)"""
    _, d, k = c[:3]
    a = annot.undump(d)
    n = len(a._sequence)
    r = a.shift(k)
    back = r.shift(-k)
    odd = cc.is_odd(a)   # the library == tells [] from None; shift normalises [] to None
    if k % n == 0 and (cc.norm_dump(r) != cc.norm_dump(a) or not (odd or r == a)):
        return f'shift by {k} (a multiple of the length {n}) gives intervals {cc.ivs(r)} instead of {cc.ivs(a)}'
    if cc.norm_dump(back) != cc.norm_dump(a) or not (odd or back == a):
        return f'shift-wraparound: shift {k} then {-k} gives intervals {cc.ivs(back)} instead of {cc.ivs(a)}'
    return None


def o_shuffle(c):
    pt = _pt()
    _, d, seed = c[:3]
    a = annot.undump(d)
    n = len(a._sequence)
    r = a.shuffle(seed)
    if annot.dump(r) != annot.dump(a.shuffle(seed)):
        return 'same seed, different result'
    ri = cc.apply(a, 'shuffle', seed, inplace=True)
    if cc.norm_dump(r) != cc.norm_dump(ri):
        return f'inplace=True gives {annot.dump(ri)} but inplace=False gives {annot.dump(r)}'
    if annot.dump(a, sort_internal=False) != d:
        return 'shuffle changed its argument'
    perm = cc.read_perm(a, seed)
    if sorted(perm) != list(range(n)):
        return f'positions {perm} are not a permutation'
    ra = cc.res(a)
    if cc.res(r) != [ra[p] for p in perm]:
        return f'residues do not keep their mods under the permutation {perm}: {cc.res(r)}'
    if sorted(cc.res(r)) != sorted(ra):
        return 'multiset of modified residues changed'
    if cc.glob(r) != cc.glob(a) or cc.term(r) != cc.term(a):
        return 'global or terminal annotations changed'
    if not cc.same_mass(cc.mass_of(a), cc.mass_of(r)):
        return f'mass changed: {cc.mass_of(a)} -> {cc.mass_of(r)}'
    if cc.in_reparse_domain(a):
        if pt.shuffle(a.serialize(), seed) != r.serialize():
            return 'peptacular.shuffle(str) differs from the annotation method'
        if not cc.roundtrips(r):
            return f'shuffled annotation does not re-parse: {r.serialize()!r}'
    return None


def o_sort(c):
    pt = _pt()
    _, d = c[:2]
    a = annot.undump(d)
    r = a.sort_residues()
    ri = cc.apply(a, 'sort_residues', inplace=True)
    if cc.norm_dump(r) != cc.norm_dump(ri):
        return f'inplace=True gives {annot.dump(ri)} but inplace=False gives {annot.dump(r)}'
    if annot.dump(a, sort_internal=False) != d:
        return 'sort_residues changed its argument'
    exp = sorted(cc.res(a), key=lambda x: x[0])
    if cc.res(r) != exp:
        return f'not the stable sort of the modified residues: {cc.res(r)} vs {exp}'
    if cc.glob(r) != cc.glob(a) or cc.term(r) != cc.term(a):
        return 'global or terminal annotations changed'
    if not cc.same_mass(cc.mass_of(a), cc.mass_of(r)):
        return f'mass changed: {cc.mass_of(a)} -> {cc.mass_of(r)}'
    if cc.in_reparse_domain(a):
        if pt.sort(a.serialize()) != r.serialize():
            return 'peptacular.sort(str) differs from the annotation method'
        if not cc.roundtrips(r):
            return f'sorted annotation does not re-parse: {r.serialize()!r}'
    return None


def check_slice(a, d, i, j, r, globals_idx=(0, 1, 2, 3, 4, 5)):
    """the slice clauses that C11 and C07 share; `r` = a.slice(i, j); globals_idx = which global annotations must be kept
    (isotope, static, labile, unknown, charge, adducts)"""
    n = len(a._sequence)
    if cc.res(r) != cc.res(a)[i:j]:
        return f'residues/mods of slice [{i},{j}) are {cc.res(r)} instead of {cc.res(a)[i:j]}'
    if cc.out_of_range_keys(r):
        return f'slice carries residue mods outside its range: {cc.out_of_range_keys(r)}'
    if [cc.glob(r)[x] for x in globals_idx] != [cc.glob(a)[x] for x in globals_idx]:
        return f'global annotations changed: {cc.glob(r)} vs {cc.glob(a)}'
    t = cc.term(a)
    expt = (t[0] if i == 0 else 'N', t[1] if j == n else 'N')
    if cc.term(r) != expt:
        return f'terminal mods of slice [{i},{j}) of length-{n} peptide are {cc.term(r)}, expected {expt}'
    src = cc.ivs(a)
    contained = Counter((s - i, e - i, amb, m) for s, e, amb, m in src if s < e and i <= s and e <= j)
    straddle = sum(1 for s, e, amb, m in src if s < e and not (i <= s and e <= j) and not (e <= i or s >= j))
    got = Counter(cc.ivs(r))
    if contained - got:
        return f'fully contained interval(s) lost: {sorted((contained - got).elements())}'
    extra = got - contained
    if sum(extra.values()) > straddle:
        return f'slice [{i},{j}) keeps interval(s) that do not intersect it: {sorted(extra.elements())} from {src}'
    return None


def o_slice(c):
    pt = _pt()
    from peptacular.proforma.proforma_parser import parse
    _, d, i, j = c[:4]
    a = annot.undump(d)
    n = len(a._sequence)
    r = a.slice(i, j)
    ri = cc.apply(a, 'slice', i, j, inplace=True)
    if cc.norm_dump(r) != cc.norm_dump(ri):
        return f'inplace=True gives {annot.dump(ri)} but inplace=False gives {annot.dump(r)}'
    if annot.dump(a, sort_internal=False) != d:
        return 'slice changed its argument'
    m = check_slice(a, d, i, j, r)
    if m:
        return m
    ok = cc.cut_ok(a, i) and cc.cut_ok(a, j)
    # composition
    L = j - i
    pairs = [(k, l) for k in range(L + 1) for l in range(k, L + 1)]
    if len(pairs) > 12:
        pairs = pairs[::max(1, len(pairs) // 12)]
    for k, l in pairs:
        if ok and cc.cut_ok(a, i + k) and cc.cut_ok(a, i + l):
            x = r.slice(k, l)
            y = a.slice(i + k, i + l)
            if cc.norm_dump(x) != cc.norm_dump(y):
                return f'slice[{i},{j}) then [{k},{l}) = {annot.dump(x)} but slice[{i + k},{i + l}) = {annot.dump(y)}'
    if ok and i < j and cc.in_reparse_domain(a):
        s = r.serialize()
        try:
            back = parse(s)
        except Exception as e:  # noqa
            return f'slice [{i},{j}) serialises to {s!r}, which does not parse: {type(e).__name__}'
        if not (back == r) or back.serialize() != s:
            return f'slice [{i},{j}) serialises to {s!r}, which parses to a different annotation'
        if pt.span_to_sequence(a.serialize(), (i, j, 0)) != s:
            return 'peptacular.span_to_sequence(str) differs from the annotation method'
    return None


def o_split(c):
    pt = _pt()
    _, d = c[:2]
    a = annot.undump(d)
    n = len(a._sequence)
    ps = list(copy.deepcopy(a).split())
    if len(ps) != n or any(len(p._sequence) != 1 for p in ps):
        return f'{len(ps)} pieces for {n} residues'
    cat = [x for p in ps for x in cc.res(p)]
    if cat != cc.res(a):
        return f'concatenated pieces {cat} differ from the peptide {cc.res(a)}'
    lab = annot.show_opt_mods(a._labile_mods or None)
    for idx, p in enumerate(ps):
        g = cc.glob(p)
        ga = cc.glob(a)
        if (g[0], g[1]) != (ga[0], ga[1]):
            return f'piece {idx} lost the global isotope/static rules'
        if annot.show_opt_mods(p._labile_mods or None) != (lab if idx == 0 else 'N'):
            return f'labile mods on piece {idx}: {g[2]}'
        t = cc.term(a)
        expt = (t[0] if idx == 0 else 'N', t[1] if idx == n - 1 else 'N')
        if cc.term(p) != expt:
            return f'terminal mods of piece {idx}: {cc.term(p)} expected {expt}'
    if cc.in_reparse_domain(a):
        ss = [p.serialize() for p in ps]
        if pt.split(a.serialize()) != ss:
            return 'peptacular.split(str) differs from the annotation method'
        cnt = pt.count_residues(a.serialize())   # documented: static rules are condensed onto the residues first
        if sum(cnt.values()) != n or (a._static_mods is None and cnt != Counter(ss)):
            return f'count_residues {dict(cnt)} is not the multiset of split pieces {ss}'
    return None


CORR_OPS = ('reverse', 'shift', 'shuffle', 'sort', 'slice', 'split')
# ------------------------------------------------------------------------------------------------ chains on one object lineage

CHAIN_OPS = ('rev', 'shift', 'shuf', 'sort', 'slice', 'strip', 'condense', 'copy', 'split', 'discard')


def _call(x, st, inplace):
    op = st[0]
    if op == 'rev':
        return x.reverse(inplace=inplace, swap_terms=st[1])
    if op == 'shift':
        return x.shift(st[1], inplace=inplace)
    if op == 'shuf':
        return x.shuffle(st[1], inplace=inplace)
    if op == 'sort':
        return x.sort_residues(inplace=inplace)
    if op == 'slice':
        return x.slice(st[1], st[2], inplace=inplace)
    if op == 'strip':
        return x.strip(inplace=inplace)
    if op == 'condense':
        return x.condense_static_mods(inplace=inplace)
    raise KeyError(op)


def apply_step(x, st):
    """one step on an object lineage: in-place steps keep the object, the others continue with the returned object;
    `discard` calls a non-in-place editor and throws the result away (the object must be unaffected)"""
    op = st[0]
    if op == 'copy':
        return x.copy()
    if op == 'split':
        list(x.split())
        return x
    if op == 'discard':
        _call(x, st[1], False)
        return x
    inplace = bool(st[-1])
    r = _call(x, st, inplace)
    if inplace:
        if r is not None:
            raise AssertionError(f'{op}(inplace=True) returned {r!r}')
        return x
    return r


def fresh_of(x):
    return annot.undump(annot.dump(x, sort_internal=False))


def gen_chain(rng, a, forced=None):
    """2..5 steps, generated along a fresh lineage so that every step is applicable"""
    steps = []
    cur = fresh_of(a)
    want = rng.randint(2, 5)
    tries = 0
    while len(steps) < want and tries < 30:
        tries += 1
        n = len(cur._sequence)
        if forced and len(steps) < len(forced):
            op = forced[len(steps)]
        else:
            op = rng.choice(['rev', 'shift', 'shuf', 'sort', 'sort', 'slice', 'strip', 'condense', 'copy', 'split', 'discard'])
        ip = rng.random() < 0.45

        def mk(op):
            if op == 'rev':
                return ['rev', rng.random() < 0.3, ip]
            if op == 'shift':
                return ['shift', rng.randint(-2 * n, 2 * n), ip]
            if op == 'shuf':
                return ['shuf', rng.randint(0, 10 ** 6), ip]
            if op == 'sort':
                return ['sort', ip]
            if op == 'slice':
                i = rng.randint(0, n - 1)
                return ['slice', i, rng.randint(i + 1, n), ip]
            if op == 'strip':
                return ['strip', ip]
            if op == 'condense':
                return ['condense', ip]
            return [op]

        if op == 'discard':
            inner = mk(rng.choice(['rev', 'shift', 'shuf', 'sort', 'slice']))
            inner[-1] = False
            st = ['discard', inner]
        else:
            st = mk(op)
        if op == 'strip' and rng.random() < 0.7:
            continue                                   # keep most chains modified
        try:
            nxt = apply_step(fresh_of(cur), st)
        except Exception:  # noqa
            continue
        steps.append(st)
        cur = fresh_of(nxt)
    return steps


def chain_line(c):
    """protocol line: the model's composition of the same chain (shuffle permutations and the result of steps outside the
    model are read along a fresh lineage)"""
    _, d, steps = c
    cur = annot.undump(d)
    out = []
    for st in steps:
        op = st[0]
        n = len(cur._sequence)
        nxt = apply_step(fresh_of(cur), st)
        if op == 'rev':
            out.append(f'rev {int(st[1])}')
        elif op == 'shift':
            out.append(f'shift {st[1]}')
        elif op == 'shuf':
            out.append('shuf ' + ','.join(map(str, cc.read_perm(cur, st[1]))))
        elif op == 'sort':
            out.append('sort')
        elif op == 'slice':
            out.append(f'slice {st[1]} {st[2]}')
        elif op == 'strip':
            out.append('strip')
        elif op == 'condense':
            out.append('set ' + annot.dump(nxt, sort_internal=False))
        else:
            out.append(op)
        cur = fresh_of(nxt)
    return 'chain\t' + d + '\t' + '\t'.join(out)


def chain_impl(c):
    """the stateful lineage: states after every step"""
    _, d, steps = c
    x = annot.undump(d)
    out = []
    for st in steps:
        try:
            x = apply_step(x, st)
        except (ZeroDivisionError, ValueError, KeyError, IndexError) as e:
            out.append('ERR:' + type(e).__name__)
            break
        out.append(annot.dump(x))
    return '~'.join(out)


def o_chain(c):
    """after every step the object that has a history must equal the same step applied to a fresh object with the same
    value (rebuilt from its field dump, and - in the re-parse domain - from its ProForma string)"""
    from peptacular.proforma.proforma_parser import parse
    _, d, steps = c
    x = annot.undump(d)
    for idx, st in enumerate(steps):
        prev = fresh_of(x)
        prev_s = None
        if cc.in_reparse_domain(prev):
            prev_s = prev.serialize()
        try:
            fr = apply_step(fresh_of(prev), st)
            ferr = None
        except Exception as e:  # noqa
            fr, ferr = None, type(e).__name__
        try:
            x = apply_step(x, st)
            xerr = None
        except Exception as e:  # noqa
            xerr = type(e).__name__
        where = f'step {idx + 1} {st} of chain {steps} on {d}'
        if ferr or xerr:
            if ferr != xerr:
                return f'{where}: object with history raises {xerr}, fresh object raises {ferr}'
            return None
        if annot.dump(x) != annot.dump(fr):
            return (f'{where}: the object with history gives {x.serialize()!r} [{annot.dump(x)}], the same step on a fresh '
                    f'object of the same value gives {fr.serialize()!r} [{annot.dump(fr)}]')
        if st[0] == 'split':
            p1 = [annot.dump(p) for p in x.split()]
            p2 = [annot.dump(p) for p in fresh_of(prev).split()]
            if p1 != p2:
                return f'{where}: split pieces differ between the object with history and a fresh object'
        if prev_s is not None:
            try:
                fr2 = apply_step(parse(prev_s), st)
            except Exception as e:  # noqa
                return f'{where}: raises {type(e).__name__} on the re-parsed value {prev_s!r} only'
            if cc.norm_dump(fr2) != cc.norm_dump(x):
                return (f'{where}: the object with history gives {x.serialize()!r}, the same step on parse({prev_s!r}) gives '
                        f'{fr2.serialize()!r}')
    return None


def producer_of(spec):
    """spec -> function(source annotation) -> list of result annotations (all non-in-place)"""
    op = spec[0]
    if op == 'slice':
        return lambda a: [a.slice(i, j) for i, j in spec[1]]
    if op == 'split':
        return lambda a: list(a.split())
    if op == 'reverse':
        return lambda a: [a.reverse(swap_terms=spec[1])]
    if op == 'shift':
        return lambda a: [a.shift(spec[1])]
    if op == 'shuffle':
        return lambda a: [a.shuffle(spec[1])]
    if op == 'sort':
        return lambda a: [a.sort_residues()]
    if op == 'copy':
        return lambda a: [a.copy()]
    if op == 'condense':
        return lambda a: [a.condense_static_mods(inplace=False)]
    raise KeyError(op)


def o_sharing(c):
    """results must not share mutable state with their source, with each other or with later calls"""
    _, d, spec = c
    return cc.sharing_failure(d, producer_of(spec), f'{spec}')


ORACLES = {'sharing': o_sharing, 'chain': o_chain, 'reverse': o_reverse, 'shift': o_shift, 'shift_identity': o_shift_identity, 'shuffle': o_shuffle, 'sort': o_sort, 'slice': o_slice, 'split': o_split}


# ------------------------------------------------------------------------------------------------ corpus

def corpus_cases():
    out = []
    for p in sorted(_glob.glob(os.path.join(core.VERIF, 'corpus', PID, '*.jsonl'))):
        for ln in open(p):
            ln = ln.strip()
            if ln and not ln.startswith('#'):
                o = json.loads(ln)
                out.append((o['oracle'], tuple(o['case'])))
    return out


# ------------------------------------------------------------------------------------------------ run

def build_cases(chk, anns, tier, corr):
    """cases per op for a list of annotations; `corr` = include inplace variants and odd bounds (correspondence)"""
    rng = chk.rng
    cases = {k: [] for k in CORR_OPS}
    for a in anns:
        d = annot.dump(a, sort_internal=False)
        n = len(a._sequence)
        inps = (False, True) if corr else (False,)
        for swap in (False, True):
            for ip in inps:
                cases['reverse'].append(('reverse', d, swap, ip))
        for ip in inps:
            cases['sort'].append(('sort', d, ip))
        cases['split'].append(('split', d))
        # shifts: every amount in [-2n, 2n]
        ks = list(range(-2 * n, 2 * n + 1))
        if tier == 'quick' and n > 5:
            ks = sorted(set(rng.sample(ks, 8) + [0, n, -n, 1, -1, 2 * n, -2 * n, n - 1]))
        for k in ks:
            cases['shift'].append(('shift', d, k, corr and rng.random() < 0.5))
        if corr and rng.random() < 0.1:
            cases['shift'].append(('shift', d, rng.choice([10 ** 6 + 3, -10 ** 6 - 7, 3 * n + 1]), False))
        for _ in range(2 if tier == 'quick' else 4):
            seed = rng.randint(0, 10 ** 6)
            perm = cc.read_perm(a, seed) if n > 0 else []
            cases['shuffle'].append(('shuffle', d, seed, corr and rng.random() < 0.5, perm))
        pairs = [(i, j) for i in range(n + 1) for j in range(i, n + 1)]
        if tier == 'quick' and n > 6:
            cuts = sorted({x for iv in (a._intervals or []) for x in (iv.start, iv.end, iv.start + 1, iv.end - 1)
                           if 0 <= x <= n} | {0, n})
            sel = set(rng.sample(pairs, 10))
            for _ in range(8):
                i, j = sorted((rng.choice(cuts), rng.choice(cuts)))
                sel.add((i, j))
            pairs = sorted(sel)
        for i, j in pairs:
            cases['slice'].append(('slice', d, i, j, corr and rng.random() < 0.5))
        if corr:
            for _ in range(3):
                i = rng.choice([None, -1, -n, -n - 2, n + 3, 0, rng.randint(-3, n + 3)])
                j = rng.choice([None, -1, -n, n + 3, n, rng.randint(-3, n + 3)])
                cases['slice'].append(('slice', d, i, j, rng.random() < 0.5))
    return cases


def run(chk):
    tier = chk.tier
    rng = chk.rng
    from .. import translate_reorder
    gen_done, gen_unt = translate_reorder.translate(chk)
    chk.lean_build(['PeptVerif.Props.C11', 'PeptVerif.Props.C11Canon', 'PeptVerif.Props.C11Gen', 'PeptVerif.Props.C11Ext'], DRV)
    chk.trusted += [
        'harness/translate_reorder.py: the reading of the Python subset (int + - %, comparisons, and/or/not, max/min, len(self.sequence), '
        'interval attributes, deepcopy = identity, `x is not None` on typed ints = true, lets, tuple swap, if / if-else / continue, the two '
        'terminal statements) into Lean; translated on this run: ' + ', '.join(gen_done) +
        ('; NOT translated: ' + ', '.join(f'{k} ({v})' for k, v in gen_unt.items()) if gen_unt else ''),
        'modelled (Model/Reorder.lean): ProFormaAnnotation.slice, reverse, shift, shuffle, sort_residues, split, has_mods, the '
        'dict/list updates they perform; not modelled: copy.deepcopy (identity on values), random.shuffle (its permutation is '
        'read from the implementation through a tagged twin annotation), parse/serialize and mass (black boxes in the oracle), '
        'the str wrappers of sequence_funcs.py (checked by the oracle against the annotation methods)',
    ]
    chk.rule = ('annotations from harness/annot.py:gen_annotation (all mod kinds, length 1..25, plus length 0 and falsy containers for the '
                'correspondence) with intervals placed at start/middle/end/adjacent/single/whole; ops: reverse x swap_terms x inplace, '
                'sort x inplace, split, shift for every k in [-2n,2n] (quick: all for n<=5, else 8 sampled + {0,+-1,+-n,+-2n,n-1}), '
                'shuffle with seeds (permutation read from the implementation), slice for all 0<=i<=j<=n (quick: all for n<=6, else '
                'sampled + interval boundaries) plus None/negative/out-of-range bounds; non-trivial = annotation has at least one '
                'residue, terminal or interval modification; distinct = distinct protocol line')

    # ---------------------------------------------------------------- corpus first (oracle on the implementation)
    for name, case in corpus_cases():
        chk.oracle('corpus:' + name, [case], ORACLES[name])

    # ---------------------------------------------------------------- annotations
    N = 260 if tier == 'quick' else 600
    anns = []
    for idx in range(N):
        if idx < 26 * 3:
            ln = idx % 26
            a, pat = cc.gen(rng, ln, ln, odd=0.05)
        else:
            a, pat = cc.gen(rng, 1, 25 if idx % 3 else 9, odd=0.05)
        anns.append(a)
        chk.count('len=%d' % len(a._sequence))
        if pat:
            chk.count('intervals:' + pat)
        for k in ('labile', 'static', 'isotope', 'unknown', 'nterm', 'cterm', 'internal', 'charge'):
            if getattr(a, '_%s_mods' % k if k != 'charge' else '_charge') is not None:
                chk.count('has:' + k)
        if not a.has_mods():
            chk.count('unmodified')
    # ill-formed: residue mods outside the sequence (KeyError paths of shuffle/sort, key collisions in shift)
    from peptacular.proforma.proforma_dataclasses import Mod
    ill = []
    for _ in range(20 if tier == 'quick' else 200):
        a, _p = cc.gen(rng, 1, 8, p_iv=0.2)
        n = len(a._sequence)
        a._internal_mods = dict(a._internal_mods or {})
        for _k in range(rng.randint(1, 2)):
            a._internal_mods[rng.choice([-1, n, n + 1, -n, 2 * n, rng.randint(0, n - 1) + n])] = [Mod(rng.choice(annot.NAMED), 1)]
        if rng.random() < 0.4:
            from peptacular.proforma.proforma_dataclasses import Interval
            hi = rng.randint(1, n)
            a._intervals = (a._intervals or []) + [Interval(hi, rng.randint(0, hi - 1), False, [Mod(1, 1)])]   # start > end
        ill.append(a)
        chk.count('ill-formed (mods outside the sequence / interval with start > end)')

    def nontrivial(c, im):
        f = c[1].split('|')
        return f[5] != 'N' or f[6] != 'N' or f[7] not in ('N', 'D') or f[8] not in ('N', 'V')

    cases = build_cases(chk, anns, tier, corr=True)
    illc = build_cases(chk, ill, 'quick', corr=True)
    from peptacular.proforma.proforma_parser import ProFormaAnnotation as PA
    cover = cc.LineCover([PA.slice, PA.shift, PA.shuffle, PA.reverse, PA.split, PA.sort_residues, PA.has_mods])
    with cover:
        for op in CORR_OPS:
            chk.correspond(op, DRV, cases[op] + illc[op], line_of, impl_of,
                           compare=lambda im, m: im == canon_reply(m), nontrivial_fn=nontrivial)
    unc = {k: v for k, v in cover.report().items() if v}
    chk.notes.append('reach: lines of the modelled functions not executed by the correspondence inputs: '
                     + (json.dumps(unc) if unc else 'none'))
    # ---------------------------------------------------------------- chains of editors on one object lineage
    nch = 500 if tier == 'quick' else 3000
    patterns = [None, None, None, ['sort', 'rev', 'sort'], ['sort', 'shift', 'sort'], ['sort', 'shuf', 'sort'],
                ['sort', 'slice', 'sort'], ['discard', 'rev', 'sort'], ['shuf', 'sort', 'shuf'], ['slice', 'rev', 'slice'],
                ['rev', 'split', 'rev'], ['condense', 'sort', 'rev'], ['shift', 'copy', 'shift']]
    chains = []
    base = [a for a in anns if len(a._sequence) >= 2 and not cc.out_of_range_keys(a)]
    for idx in range(nch):
        a = base[idx % len(base)]
        st = gen_chain(rng, a, patterns[idx % len(patterns)])
        if len(st) >= 2:
            chains.append(('chain', annot.dump(a, sort_internal=False), st))
            for s_ in st:
                chk.count('chain step:' + (s_[0] if s_[0] != 'discard' else 'discard ' + s_[1][0]))
    with cover:
        chk.correspond('chain', DRV, chains, chain_line, chain_impl, compare=lambda im, m: im == canon_reply(m),
                       nontrivial_fn=nontrivial)
    cc.ranked_oracle(chk, 'chain', chains, o_chain, classify, key_fn=repr, nontrivial_fn=lambda c: nontrivial(c, None))

    # ---------------------------------------------------------------- results must not share mutable state
    share = []
    for a in (anns if tier == 'thorough' else anns[::2]):
        n = len(a._sequence)
        if n < 1 or cc.out_of_range_keys(a):
            continue
        d = annot.dump(a, sort_internal=False)
        pairs = [(0, n), (0, max(1, n // 2)), (n // 2, n)] + [tuple(sorted((rng.randint(0, n), rng.randint(0, n)))) for _ in range(2)]
        for spec in (['slice', [list(p) for p in pairs]], ['split'], ['reverse', rng.random() < 0.5], ['shift', rng.randint(-n, n)],
                     ['shuffle', rng.randint(0, 999)], ['sort'], ['copy']):
            share.append(('sharing', d, spec))
        if a._static_mods is not None and cc.mass_of(a)[0] == 'ok':
            share.append(('sharing', d, ['condense']))
    chk.oracle('sharing', share, o_sharing, nontrivial_fn=lambda c: nontrivial(c, None), key_fn=repr)

    if tier == 'thorough':
        chk.exhaustive = True   # i,j and shift amounts are enumerated completely for every generated annotation

    # ---------------------------------------------------------------- oracle: the property on the implementation
    wide = chk.broken() or tier == 'thorough'
    oanns = [a for a in anns if len(a._sequence) >= 1]
    if not wide:
        oanns = oanns[::2]
    ocases = build_cases(chk, oanns, tier, corr=False)
    if chk.broken():
        # the disagreeing inputs first
        for dis in chk.disagreements:
            f = dis['line'].split('\t')
            try:
                if f[0] == 'slice' and f[2] != 'None' and f[3] != 'None':
                    ocases['slice'].insert(0, ('slice', f[1], int(f[2]), int(f[3])))
                elif f[0] == 'reverse':
                    ocases['reverse'].insert(0, ('reverse', f[1], f[2] == '1'))
                elif f[0] == 'shift':
                    ocases['shift'].insert(0, ('shift', f[1], int(f[2])))
                elif f[0] in ('sort', 'split'):
                    ocases[f[0]].insert(0, (f[0], f[1]))
            except Exception:  # noqa
                pass

    def o_nontrivial(c):
        return nontrivial(c, None)

    for op in CORR_OPS:
        sel = [c for c in ocases[op] if len(annot.undump(c[1])._sequence) >= 1] if chk.broken() else ocases[op]
        chk.oracle(op, sel, ORACLES[op], nontrivial_fn=o_nontrivial, key_fn=lambda c: repr(c[:4]))
    # whole-annotation identities of shift: evaluated beforehand so that a failure outside the known finding is listed first
    # (the harness keeps the first few failures of an oracle only)
    sid = {}
    for c in ocases['shift']:
        try:
            sid[c[:3]] = o_shift_identity(c)
        except Exception as e:  # noqa
            sid[c[:3]] = f'unexpected {type(e).__name__}: {e}'

    def rank(c):
        r = sid[c[:3]]
        if r is None:
            return 2
        return 1 if classify({'oracle': 'shift_identity', 'case': list(c), 'detail': r}) else 0

    chk.oracle('shift_identity', sorted(ocases['shift'], key=rank), lambda c: sid[c[:3]], nontrivial_fn=o_nontrivial,
               key_fn=lambda c: repr(c[:4]))

    if tier == 'thorough':
        chk.leanchecker(['PeptVerif.Model.Reorder', 'PeptVerif.Lemmas.Reorder', 'PeptVerif.Lemmas.ReorderCanon', 'PeptVerif.Props.C11',
                         'PeptVerif.Props.C11Canon', 'PeptVerif.Generated.ReorderPy', 'PeptVerif.Props.C11Gen',
                         'PeptVerif.Lemmas.ReorderExt', 'PeptVerif.Props.C11Ext'])
    return chk.finish(classify)


def classify(f):
    """KF-C11-shift-interval-wraparound: only failures of the shift k / -k identity on annotations in which some interval has
    the rotation point strictly inside, and that disappear when exactly those wrapping intervals are removed"""
    if f['oracle'] in ('shift_identity', 'corpus:shift_identity') and str(f['detail']).startswith('shift-wraparound:'):
        c = f['case']
        a = annot.undump(c[1])
        w = wrapping(a, c[2])
        if w:
            a._intervals = [iv for iv in a._intervals if not any(iv is x for x in w)] or None
            if o_shift_identity(('shift', annot.dump(a, sort_internal=False), c[2])) is None:
                return 'KF-C11-shift-interval-wraparound'
    return None


def replay(chk, obj):
    """re-run the oracle of a replay file on the current implementation"""
    name = obj.get('oracle', '').replace('corpus:', '')
    if name not in ORACLES:
        print(json.dumps(obj, indent=1))
        return 0
    r = ORACLES[name](tuple(obj['case']))
    print(f'{PID} replay {name} {obj["case"]!r}: {"holds" if r is None else "FAILS: " + r}')
    return 0 if r is None else 1
