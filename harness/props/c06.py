"""C06 - digestion returns exactly the spans the rules define."""
import itertools

from .. import core

PID = 'C06'
DRV = 'drv_c06'

REGISTRY = {
    'id': 'C06',
    'text': 'Mechanical tie for spans.py: harness/translate_spans.py reads the CURRENT source with ast and emits Generated/SpansPy.lean '
            '(build_non_enzymatic_spans, build_left_semi_spans, build_right_semi_spans, build_enzymatic_spans, build_semi_spans, '
            'build_spans); Props/C06Gen proves each equal to the hand model (GenSpans.f = Spans.f), so the theorems below hold for the '
            'definitions read off the source; hand-modelled only (tied by correspondence): _grouped_left/right_semi_span_builder '
            '(loop with break and look-ahead), digest, sequential_digest, the regex matcher; a function outside the translator subset '
            'is reported as untranslated and falls back to correspondence. '
            'Lean theorems (all n, all site lists incl. unsorted/duplicated, all mc, min/max length or None; no size bound): '
            'mem_/nodup_ for build_non_enzymatic/left_semi/right_semi/enzymatic spans; shortcut_iff_nonSpecific; '
            'mem_buildSpans (build_spans returns exactly the specified set: non-specific, enzymatic and semi-specific case incl. the '
            'grouped semi builders with their sort/groupby/next-shorter-parent de-duplication), nodup_buildSpans, value_is_inside, '
            'mem_/sorted_/nodup_digestSpans (partial digestion adds (0,n,0)); domain hypotheses 0<=n, sites in [0,n], min_len>=1 shown '
            'necessary by decide-proved witnesses; protease regex table theorems (Props/C06Regex); sequential_eq_simultaneous(_text): '
            'for every text and every list of zero-missed-cleavage, non-semi, complete configs with look-around rules, '
            'sequential_digest (sites recomputed on each piece, re-basing, min_len at every stage, max_len at the end) returns the '
            'same span set as the simultaneous digest unless a stage or the union hits the non-specific shortcut (decidable '
            'hypotheses; the union case is the known finding), and then without duplicates. The hand-written models of '
            'spans.py/digest/sequential_digest and of the regex subset are tied to /repo by correspondence (build_spans exhaustive '
            'n<=5 quick, n<=7 thorough; sequential_digest on exact output lists incl. partial/semi/mc>0 configs) and the '
            'implementation is compared with the Lean set specification through the driver; a call-sequence stage (shared '
            'annotation / reused EnzymeConfig objects, one parameter changed between consecutive calls, returned objects edited, '
            'interleaved generators) checks that no state leaks between calls',
    'note': 'trusted: Lean kernel, axioms propext/Classical.choice/Quot.sound, the spans.py subset reader translate_spans.py (its output is '
            'small and diffable), the correspondence harness, regex->sites (outside the '
            'model, compared with an independent reading of each named rule)',
    'technique': 'Lean 4 proof about executable model + differential correspondence',
}


def _pt():
    import peptacular as pt
    from peptacular import spans, digestion
    return pt, spans, digestion


def show_spans(sp):
    return ';'.join(f'{a}:{b}:{c}' for a, b, c in sp)


def show_sorted(sp):
    return show_spans(sorted(sp))


def sort_reply(r):
    if not r or r in ('bad-op',):
        return r
    return ';'.join(':'.join(map(str, t)) for t in sorted(tuple(int(x) for x in s.split(':')) for s in r.split(';')))


def opt(x):
    return 'None' if x is None else str(x)


def ilist(l):
    return ','.join(str(x) for x in l)


ALPHA = 'KRPDEA'
# rules the independent Python reading below knows (a protease added upstream is still covered by the Lean table obligation)
REF_RULES = {'arg-c', 'asp-n', 'chymotrypsin', 'chymotrypsin/P', 'promega-chymotrypsin-high-specificity',
             'promega-chymotrypsin-low-specificity', 'glu-c', 'lys-c', 'lys-n', 'proteinase k', 'trypsin', 'trypsin/P',
             'proalanase', 'elastase', 'pepsin', 'thermolysin', 'proalanase-low-specificity', 'non-specific', 'no-cleave'}


def run(chk):
    pt, spans, digestion = _pt()
    from peptacular.constants import PROTEASES
    tier = chk.tier
    rng = chk.rng
    from .. import translate_proteases
    prot_table, unmodelled = translate_proteases.translate(chk)
    # spans.py -> Generated/SpansPy.lean + Props/C06Gen.lean (equality theorems with the hand model), regenerated on change
    from .. import translate_spans
    gen_done, gen_unt = translate_spans.translate(chk)
    chk.lean_build(['PeptVerif.Props.C06', 'PeptVerif.Props.C06Regex', 'PeptVerif.Props.C06Seq', 'PeptVerif.Props.C06Gen'], DRV)
    if tier == 'thorough':
        chk.leanchecker(['PeptVerif.Props.C06', 'PeptVerif.Lemmas.SpansDigest', 'PeptVerif.Lemmas.SpansNodup',
                         'PeptVerif.Lemmas.SpansSemi', 'PeptVerif.Lemmas.SpansEnz', 'PeptVerif.Lemmas.SpansGroup',
                         'PeptVerif.Lemmas.SpansSort', 'PeptVerif.Lemmas.SpansBasic', 'PeptVerif.Lemmas.Spans',
                         'PeptVerif.Spec.Spans', 'PeptVerif.Model.Spans',
                         'PeptVerif.Props.C06Seq', 'PeptVerif.Lemmas.SpansSeqText', 'PeptVerif.Lemmas.SpansSeq',
                         'PeptVerif.Spec.SeqDigest', 'PeptVerif.Model.SeqDigest',
                         'PeptVerif.Props.C06Gen', 'PeptVerif.Lemmas.SpansGen', 'PeptVerif.Generated.SpansPy'])
    if chk.lean_problems:
        # name the table entries that differ from the hand-typed reference (witness for proteases_match_reference)
        try:
            diff = chk.driver(DRV, ['protease_table_diff'])[0]
            if diff:
                chk.notes.append('protease table entries differing from Spec.referenceTable: ' + diff)
                chk.lean_problems.append('Generated.proteases differs from Spec.referenceTable at: ' + diff)
        except core.InfraError:
            pass
    chk.trusted += [
        'harness/translate_spans.py: the reading of the Python subset (defaults, + - min max, range, enumerate, slices, sorted(set), '
        'generator expressions, yield) into Lean combinators; translated: %s; hand-modelled: _grouped_left/right_semi_span_builder%s'
        % (', '.join(gen_done), ''.join(', ' + k for k in gen_unt)),
        'regex -> cleavage sites is outside the Lean model: sites computed by the implementation are fed to the model; '
        'named proteases are compared with an independent Python reading of each rule',
        'modelled: spans.py builders, build_spans, digest and sequential_digest at span level (return_type span, unmodified sequences); '
        'not modelled: _return_digested_sequences (checked as projection by the oracle), modifications on digested annotations (C07)',
    ]

    # ---------------------------------------------------------------- (a) build_spans, exhaustive
    nmax = 5 if tier == 'quick' else 7

    def bs_cases():
        for n in range(0, nmax + 1):
            bounds = [None] + list(range(1, n + 2))
            for bits in range(1 << (n + 1)):
                sites = [i for i in range(n + 1) if bits >> i & 1]
                for mc in range(0, 5):
                    for lo in bounds:
                        for hi in bounds:
                            for semi in (False, True):
                                yield (n, sites, mc, lo, hi, semi)

    def bs_line(c):
        n, sites, mc, lo, hi, semi = c
        return f'build_spans\t{n}\t{ilist(sites)}\t{mc}\t{opt(lo)}\t{opt(hi)}\t{int(semi)}'

    def bs_impl(c):
        n, sites, mc, lo, hi, semi = c
        return show_sorted(spans.build_spans(n, sites, mc, lo, hi, semi))

    cases = list(bs_cases())
    # unsorted / duplicated site lists as well
    extra = []
    for _ in range(2000 if tier == 'quick' else 40000):
        n = rng.randint(0, 14)
        k = rng.randint(0, n + 2)
        sites = [rng.randint(0, n) for _ in range(k)]
        if rng.random() < 0.1:
            sites = list(range(n + 1))
            rng.shuffle(sites)
        extra.append((n, sites, rng.randint(0, 4), rng.choice([None] + list(range(1, 13))),
                      rng.choice([None] + list(range(1, 13))), rng.random() < 0.5))
    chk.correspond('build_spans', DRV, cases + extra, bs_line, bs_impl,
                   compare=lambda im, m: im == sort_reply(m),
                   nontrivial_fn=lambda c, im: im.count(';') >= 1)
    chk.exhaustive = True
    chk.rule = (f'build_spans: exhaustive over n<=%d x all site subsets x mc 0..4 x min/max in None,1..n+1 x semi, plus random '
                'unsorted/duplicated site lists n<=14; builders on all small spans; digest end-to-end over strings on {K,R,P,D,E,A}; '
                'non-trivial = at least two spans returned / non-empty output; distinct = distinct protocol line') % nmax

    # ---------------------------------------------------------------- (b) the building blocks
    blk = []
    for s in range(0, 3):
        for e in range(s, s + 7):
            for v in (0, 2):
                for lo in [None, 0, 1, 2, 3, 5, 7]:
                    for hi in [None, 0, 1, 2, 3, 5, 7]:
                        blk.append((s, e, v, lo, hi))
    for op, fn in (('nonenz', spans.build_non_enzymatic_spans), ('left', spans.build_left_semi_spans),
                   ('right', spans.build_right_semi_spans)):
        chk.correspond(op, DRV, blk,
                       lambda c, op=op: f'{op}\t{c[0]}:{c[1]}:{c[2]}\t{opt(c[3])}\t{opt(c[4])}',
                       lambda c, fn=fn: show_spans(fn((c[0], c[1], c[2]), c[3], c[4])),
                       nontrivial_fn=lambda c, im: bool(im))
    enz = []
    for n in range(0, 7):
        for bits in range(1 << (n + 1)):
            sites = [i for i in range(n + 1) if bits >> i & 1]
            for mc in (0, 1, 2, 4):
                for lo, hi in ((None, None), (1, 3), (2, None), (None, 2), (3, 3)):
                    enz.append((n, sites, mc, lo, hi))
    chk.correspond('enz', DRV, enz,
                   lambda c: f'enz\t{c[0]}\t{ilist(c[1])}\t{c[2]}\t{opt(c[3])}\t{opt(c[4])}',
                   lambda c: show_spans(spans.build_enzymatic_spans(c[0], c[1], c[2], c[3], c[4])),
                   nontrivial_fn=lambda c, im: ';' in im)
    grp = []
    for (n, sites, mc, lo, hi) in enz[::3]:
        sp = list(spans.build_enzymatic_spans(n, sites, mc, lo, None))
        for hi2 in (None, 2, 4):
            grp.append((sp, lo, hi2))
    for op, fn in (('gleft', spans._grouped_left_semi_span_builder), ('gright', spans._grouped_right_semi_span_builder),
                   ('semi', spans.build_semi_spans)):
        chk.correspond(op, DRV, grp,
                       lambda c, op=op: f'{op}\t{show_spans(c[0])}\t{opt(c[1])}\t{opt(c[2])}',
                       lambda c, fn=fn: show_spans(fn(list(c[0]), c[1], c[2])),
                       nontrivial_fn=lambda c, im: bool(im))

    # ---------------------------------------------------------------- (c) digest end to end
    rules = [r for r in PROTEASES.keys() if r in REF_RULES] + ['(?<=K)(?=A)', '([KR])', '(D)(?=E)', 'K', '[DE]']
    dig = []
    L = 4 if tier == 'quick' else 6
    strings = [''.join(t) for k in range(0, L + 1) for t in itertools.product(ALPHA, repeat=k)]
    if tier == 'quick':
        strings = [s for s in strings if len(s) <= 3] + rng.sample([s for s in strings if len(s) == 4], 300)
    for s in strings:
        for _ in range(2):
            k = rng.choice([1, 1, 2, 3])
            rs = rng.sample(rules, k)
            dig.append((s, rs, rng.randint(0, 4), rng.random() < 0.5, rng.choice([None] + list(range(1, 13))),
                        rng.choice([None] + list(range(1, 13))), rng.random() < 0.7))
    AA = 'ACDEFGHIKLMNPQRSTVWY'
    for _ in range(300 if tier == 'quick' else 6000):
        s = ''.join(rng.choice(AA) for _ in range(rng.randint(0, 60)))
        rs = rng.sample(rules, rng.choice([1, 1, 2, 3]))
        dig.append((s, rs, rng.randint(0, 4), rng.random() < 0.5, rng.choice([None] + list(range(1, 13))),
                    rng.choice([None] + list(range(1, 13))), rng.random() < 0.7))

    def sites_of(s, rs):
        out = []
        for r in rs:
            out += list(digestion.get_cleavage_sites(s, r))
        return out

    def dig_line(c):
        s, rs, mc, semi, lo, hi, comp = c
        return f'digest\t{len(s)}\t{ilist(sites_of(s, rs))}\t{mc}\t{opt(lo)}\t{opt(hi)}\t{int(semi)}\t{int(comp)}'

    def dig_impl(c):
        s, rs, mc, semi, lo, hi, comp = c
        return show_spans(digestion.digest(s, rs, mc, semi, lo, hi, comp, 'span', True))

    chk.correspond('digest', DRV, dig, dig_line, dig_impl, nontrivial_fn=lambda c, im: ';' in im)

    # ---------------------------------------------------------------- (d) regex subset model: rule -> sites
    def pat_wire(rx):
        k = {'behind': 'b', 'ahead': 'a', 'aheadNot': 'n', 'notAhead': 'x', 'consume': 'c'}
        return ';'.join(f'{k[a]}:{"".join(c)}' for a, c in translate_proteases.parse_regex(rx))

    user_rx = ['(?<=K)(?=A)', '([KR])', '(D)(?=E)', 'K', '[DE]', '(?=[DE])', '(?<=[KR])(?!P)', '(?<=P)(?=[^P])', '(K)(?!P)']
    rstrings = [''.join(t) for k in range(0, (5 if tier == 'quick' else 6) + 1) for t in itertools.product(ALPHA, repeat=k)]
    rstrings = rstrings[::3] if tier == 'quick' else rstrings[::2]
    rcases = [('sites_named', nm, s) for s in rstrings for nm in prot_table if nm not in unmodelled]
    rcases += [('sites_pattern', rx, s) for s in rstrings[::2] for rx in user_rx]
    for _ in range(300 if tier == 'quick' else 5000):
        s = ''.join(rng.choice(AA) for _ in range(rng.randint(0, 60)))
        rcases.append(('sites_named', rng.choice(list(prot_table)), s))
        rcases.append(('sites_pattern', rng.choice(user_rx), s))
    if tier == 'quick':
        rcases = rcases[::2]
    chk.correspond('regex_sites', DRV, rcases,
                   lambda c: f'{c[0]}\t{c[1] if c[0] == "sites_named" else pat_wire(c[1])}\t{c[2]}',
                   lambda c: ilist(digestion.get_cleavage_sites(c[2], c[1])),
                   nontrivial_fn=lambda c, im: bool(im))

    # ---------------------------------------------------------------- (e) sequential_digest vs its Lean model (text level)
    # nothing is excluded: inputs on which a stage or the union hits build_spans' shortcut must agree too
    seq_rules = [nm for nm in prot_table if nm not in unmodelled] + user_rx

    def rule_wire(r):
        return pat_wire(prot_table[r]) if r in prot_table else pat_wire(r)

    def gen_cfgs(plain):
        k = rng.choice([1, 2, 2, 3])
        cfgs = []
        for _ in range(k):
            rs = tuple(rng.sample(seq_rules, rng.choice([1, 1, 1, 2])))
            if plain:
                cfgs.append((rs, 0, False, True))
            else:
                cfgs.append((rs, rng.randint(0, 2), rng.random() < 0.3, rng.random() < 0.6))
        return tuple(cfgs)

    sq = []
    sq_strings = [''.join(t) for k in range(0, (4 if tier == 'quick' else 5) + 1) for t in itertools.product(ALPHA, repeat=k)]
    if tier == 'quick':
        sq_strings = sq_strings[::2]
    for s in sq_strings:
        sq.append((s, gen_cfgs(True), rng.choice([None, 1, 2, 3]), rng.choice([None, 2, 4, 12])))
        if rng.random() < 0.5:
            sq.append((s, gen_cfgs(False), rng.choice([None, 1, 2, 3]), rng.choice([None, 2, 4, 12])))
    for _ in range(300 if tier == 'quick' else 10000):
        s = ''.join(rng.choice(AA + 'KRPDE') for _ in range(rng.randint(0, 40)))
        sq.append((s, gen_cfgs(rng.random() < 0.6), rng.choice([None, 1, 2, 3, 6]), rng.choice([None, 4, 12, 30])))
    # the known-finding witness and its neighbours, always
    sq += [('K', ((('lys-c',), 0, False, True), (('lys-n',), 0, False, True)), None, None),
           ('KKK', ((('lys-c',), 0, False, True), (('lys-n',), 0, False, True)), None, None),
           ('XXXKXXXDXXX'.replace('X', 'A'), ((('([KR])',), 0, False, False), (('[DE]',), 0, False, False)), None, None)]

    def sq_line(c):
        s, cfgs, lo, hi = c
        w = '|'.join('&'.join(rule_wire(r) for r in rs) + f'@{mc}@{int(semi)}@{int(comp)}' for rs, mc, semi, comp in cfgs)
        return f'seq\t{s}\t{w}\t{opt(lo)}\t{opt(hi)}'

    def sq_impl(c):
        s, cfgs, lo, hi = c
        ec = [digestion.EnzymeConfig(list(rs), mc, semi, comp) for rs, mc, semi, comp in cfgs]
        return show_spans(digestion.sequential_digest(s, ec, lo, hi, 'span'))

    chk.correspond('sequential_digest', DRV, sq, sq_line, sq_impl, nontrivial_fn=lambda c, im: ';' in im)

    # ---------------------------------------------------------------- oracle: implementation vs Lean spec set
    budget = 1 if not chk.broken() else 4
    orc = cases[::7 if tier == 'quick' else 3] if budget == 1 else cases
    spec_lines = [f'spec\t{c[0]}\t{ilist(c[1])}\t{c[2]}\t{opt(c[3])}\t{opt(c[4])}\t{int(c[5])}' for c in orc]
    spec_out = chk.driver(DRV, spec_lines)
    spec_map = dict(zip(map(repr, orc), spec_out))

    def o_spec(c):
        n, sites, mc, lo, hi, semi = c
        got = list(spans.build_spans(n, sites, mc, lo, hi, semi))
        if len(set(got)) != len(got):
            return f'duplicate spans: {got}'
        g = show_sorted(got)
        if g != spec_map[repr(c)]:
            return f'implementation {g} != specification {spec_map[repr(c)]}'
        return None

    chk.oracle('build_spans_vs_spec', orc, o_spec, nontrivial_fn=lambda c: len(c[1]) >= 1 and c[0] >= 2)

    # named protease rules against an independent reading
    def ref_sites(s, rule):
        n = len(s)
        after = {'arg-c': 'R', 'chymotrypsin/P': 'FWYL', 'promega-chymotrypsin-high-specificity': 'YFW',
                 'promega-chymotrypsin-low-specificity': 'YFWLM', 'glu-c': 'E', 'lys-c': 'K',
                 'proteinase k': 'AEFILTVWY', 'trypsin/P': 'KR', 'proalanase': 'PA', 'elastase': 'AGSVLI',
                 'pepsin': 'FLWY', 'thermolysin': 'LFIAVM', 'proalanase-low-specificity': 'PASG'}
        before = {'asp-n': 'D', 'lys-n': 'K'}
        if rule in after:
            return [i for i in range(1, n + 1) if s[i - 1] in after[rule]]
        if rule in before:
            return [i for i in range(0, n) if s[i] in before[rule]]
        if rule == 'trypsin':
            return [i for i in range(1, n) if s[i - 1] in 'KR' and s[i] != 'P']
        if rule == 'chymotrypsin':
            return [i for i in range(1, n + 1) if s[i - 1] in 'FWYL' and (i == n or s[i] != 'P')]
        if rule == 'non-specific':
            return list(range(n + 1))
        if rule == 'no-cleave':
            return []
        if rule == '(?<=K)(?=A)':
            return [i for i in range(1, n) if s[i - 1] == 'K' and s[i] == 'A']
        if rule == '([KR])':
            return [i + 1 for i in range(n) if s[i] in 'KR']
        if rule == '(D)(?=E)':
            return [i + 1 for i in range(n - 1) if s[i] == 'D' and s[i + 1] == 'E']
        if rule == 'K':
            return [i + 1 for i in range(n) if s[i] == 'K']
        if rule == '[DE]':
            return [i + 1 for i in range(n) if s[i] in 'DE']
        raise KeyError(rule)

    site_cases = [(s, r) for s in strings[:: (3 if tier == 'quick' else 1)] for r in rules]
    site_cases += [(''.join(rng.choice(AA + 'KRPKRP') for _ in range(rng.randint(0, 60))), rng.choice(rules))
                   for _ in range(500 if tier == 'quick' else 20000)]

    def o_sites(c):
        s, r = c
        got = list(digestion.get_cleavage_sites(s, r))
        exp = ref_sites(s, r)
        return None if got == exp else f'sites {got} != reference {exp}'

    chk.oracle('cleavage_sites_vs_rule', site_cases, o_sites, nontrivial_fn=lambda c: len(c[0]) >= 2)

    # digest end to end against the spec, return types, sort_output, partial digestion, sequential
    def digest_spec_line(c):
        s, rs, mc, semi, lo, hi, comp = c
        sites = []
        for r in rs:
            sites += ref_sites(s, r)
        return f'spec\t{len(s)}\t{ilist(sites)}\t{mc}\t{opt(lo)}\t{opt(hi)}\t{int(semi)}'

    dsel = dig if chk.broken() else dig[:: (4 if tier == 'quick' else 2)]
    # one driver process for all cases (a process per case dominated the thorough tier's wall time)
    dspec = dict(zip(map(repr, dsel), chk.driver(DRV, [digest_spec_line(c) for c in dsel])))

    def o_digest(c):
        s, rs, mc, semi, lo, hi, comp = c
        n = len(s)
        exp = set(tuple(int(x) for x in t.split(':')) for t in dspec[repr(c)].split(';') if t)
        if not comp:
            exp.add((0, n, 0))
        exp = sorted(exp)
        got = list(digestion.digest(s, rs, mc, semi, lo, hi, comp, 'span', True))
        if got != exp:
            return f'digest spans {got} != specification {exp}'
        uns = list(digestion.digest(s, rs, mc, semi, lo, hi, comp, 'span', False))
        if sorted(uns) != exp:
            return f'unsorted output differs as a multiset: {sorted(uns)} vs {exp}'
        strs = list(digestion.digest(s, rs, mc, semi, lo, hi, comp, 'str', True))
        if strs != [s[a:b] for a, b, _ in exp]:
            return f'str return type {strs} is not the projection of spans {exp}'
        ss = list(digestion.digest(s, rs, mc, semi, lo, hi, comp, 'str-span', True))
        if ss != [(s[a:b], (a, b, v)) for a, b, v in exp]:
            return 'str-span return type is not the projection of spans'
        an = list(digestion.digest(s, rs, mc, semi, lo, hi, comp, 'annotation', True))
        if [a.serialize() for a in an] != strs:
            return 'annotation return type is not the projection of spans'
        asp = list(digestion.digest(s, rs, mc, semi, lo, hi, comp, 'annotation-span', True))
        if [(a.serialize(), sp) for a, sp in asp] != ss:
            return 'annotation-span return type is not the projection of spans'
        cfg = digestion.EnzymeConfig(list(rs), mc, semi, comp)
        if list(digestion.digest_from_config(s, cfg, lo, hi, 'span', True)) != exp:
            return 'digest_from_config differs from digest'
        return None

    chk.oracle('digest_vs_spec', dsel, o_digest, nontrivial_fn=lambda c: len(c[0]) >= 3,
               key_fn=lambda c: repr(c))

    def o_seq(c):
        s, rs, lo, hi = c
        cfgs = [digestion.EnzymeConfig([r], 0, False, True) for r in rs]
        seq = sorted(set(digestion.sequential_digest(s, cfgs, lo, hi, 'span')))
        sim = sorted(set(digestion.digest(s, list(rs), 0, False, lo, hi, True, 'span', True)))
        if seq != sim:
            return f'sequential {seq} != simultaneous {sim}'
        return None

    enz_rules = [r for r in rules if r not in ('non-specific',)]
    seq_cases = []
    for s in strings[:: (5 if tier == 'quick' else 1)]:
        k = rng.choice([1, 2, 2, 3])
        seq_cases.append((s, tuple(rng.sample(enz_rules, k)), rng.choice([None, 1, 2, 3]), rng.choice([None, 2, 4, 12])))
    chk.oracle('sequential_vs_simultaneous', seq_cases, o_seq, nontrivial_fn=lambda c: len(c[0]) >= 3)

    # the theorem sequential_eq_simultaneous_text on the real code: whenever its (decidable) hypotheses hold for an input -
    # evaluated by the Lean predicates through the driver - sequential and simultaneous digest must return the same span set
    # and the sequential one no duplicates; conversely a difference must come with a false hypothesis
    plain = [c for c in sq if all(mc == 0 and not semi and comp for _, mc, semi, comp in c[1])]
    hyp_lines = ['seq_hyp\t%s\t%s' % (c[0], '|'.join('&'.join(rule_wire(r) for r in rs) + f'@{mc}@{int(semi)}@{int(comp)}'
                                                    for rs, mc, semi, comp in c[1])) for c in plain]
    hyp_map = dict(zip(map(repr, plain), chk.driver(DRV, hyp_lines)))

    def o_thm(c):
        s, cfgs, lo, hi = c
        hyp = hyp_map[repr(c)]
        if hyp in ('bad-op', ''):
            return f'driver could not evaluate the hypotheses: {hyp!r}'
        ok = hyp == '1 1 1 1'
        chk.count('seq_theorem_hypotheses_hold' if ok else 'seq_theorem_hypotheses_fail:' + hyp)
        ec = [digestion.EnzymeConfig(list(rs), 0, False, True) for rs, _, _, _ in cfgs]
        seq = list(digestion.sequential_digest(s, ec, lo, hi, 'span'))
        sim = list(digestion.digest(s, [r for rs, _, _, _ in cfgs for r in rs], 0, False, lo, hi, True, 'span', True))
        if ok:
            if len(set(seq)) != len(seq):
                return f'hypotheses of sequential_eq_simultaneous_text hold but sequential has duplicates: {seq}'
            if sorted(seq) != sim:
                return f'hypotheses of sequential_eq_simultaneous_text hold but sequential {sorted(seq)} != simultaneous {sim}'
        return None

    chk.oracle('sequential_theorem_instances', plain, o_thm, nontrivial_fn=lambda c: len(c[0]) >= 3 and len(c[1]) >= 2)

    # ---------------------------------------------------------------- (g) call SEQUENCES: state leaking between calls
    # the same protein - as str and as ONE shared annotation object - digested repeatedly while one parameter changes between
    # consecutive calls (A, A', A: both orders), reused EnzymeConfig objects, interleaved generators; every answer is compared
    # with the Lean spec / model for THAT call's own arguments; returned lists and annotations are edited before the next
    # call; the earliest calls are re-issued at the end
    RT = ['span', 'str', 'annotation', 'str-span', 'annotation-span']
    cs_rules = [nm for nm in prot_table if nm not in unmodelled] + user_rx

    def gen_callseq(prot):
        def rnd_rules():
            return rng.sample(cs_rules, rng.choice([1, 1, 2, 3]))
        bounds_ = [None, 1, 2, 3, 5, 8]
        base = {'rules': rnd_rules(), 'mc': rng.randint(0, 3), 'semi': rng.random() < 0.5, 'lo': rng.choice(bounds_),
                'hi': rng.choice(bounds_), 'comp': rng.random() < 0.6, 'rtype': rng.choice(RT), 'sort': rng.random() < 0.6}
        cfgs = [(rng.sample(cs_rules, rng.choice([1, 1, 2])), rng.randint(0, 2), rng.random() < 0.4, rng.random() < 0.6)
                for _ in range(3)]
        form = lambda: rng.choice(['str', 'annot'])

        def dig(p):
            return ('digest', form(), list(p['rules']), p['mc'], p['semi'], p['lo'], p['hi'], p['comp'], p['rtype'], p['sort'])

        def variant(k):
            q = dict(base)
            if k == 'rules':
                q['rules'] = rnd_rules()
            elif k == 'mc':
                q['mc'] = (base['mc'] + rng.randint(1, 2)) % 5
            elif k in ('semi', 'comp', 'sort'):
                q[k] = not base[k]
            elif k in ('lo', 'hi'):
                q[k] = rng.choice([b for b in bounds_ if b != base[k]])
            else:
                q['rtype'] = rng.choice([r for r in RT if r != base['rtype']])
            return q

        calls = []
        keys = ['rules', 'mc', 'semi', 'lo', 'hi', 'comp', 'rtype', 'sort']
        rng.shuffle(keys)
        for k in keys:
            calls += [dig(base), dig(variant(k)), dig(base)]
            x = rng.random()
            if x < 0.35:
                r1, r2 = rng.sample(cs_rules, 2)
                calls += [('sites', form(), r1), ('sites', form(), r2), ('sites', form(), r1)]
            elif x < 0.55:
                i = rng.randrange(3)
                calls += [('cfg', form(), i, rng.choice(bounds_), rng.choice(bounds_), rng.choice(RT), rng.random() < 0.5),
                          ('cfg', form(), (i + 1) % 3, base['lo'], base['hi'], base['rtype'], True),
                          ('cfg', form(), i, base['lo'], base['hi'], rng.choice(RT), True)]
            elif x < 0.75:
                ids = rng.sample(range(3), rng.choice([1, 2, 3]))
                calls += [('seqd', form(), ids, rng.choice(bounds_), rng.choice(bounds_)),
                          ('seqd', form(), list(reversed(ids)), base['lo'], base['hi'])]
            else:
                calls.append(('inter', form(), rng.choice(bounds_), rng.choice(bounds_), rng.choice(bounds_), rng.choice(bounds_)))
        calls += calls[:3]
        return (prot, cfgs, calls)

    cs_prots = [''.join(t) for k in (0, 1, 2, 3) for t in itertools.product('KRPD', repeat=k)][:: (3 if tier == 'quick' else 1)]
    cs_prots += [''.join(rng.choice(AA + 'KRPDE') for _ in range(rng.randint(4, 30))) for _ in range(60 if tier == 'quick' else 600)]
    callseqs = [gen_callseq(p) for p in cs_prots]

    # ---- expected answers, from the Lean side, in two driver batches
    def site_line(r, text):
        return f'sites_named\t{r}\t{text}' if r in prot_table else f'sites_pattern\t{pat_wire(r)}\t{text}'

    l1 = {}
    for prot, cfgs, calls in callseqs:
        n = len(prot)
        for c in calls:
            if c[0] == 'digest':
                for r in c[2]:
                    l1[site_line(r, prot)] = None
            elif c[0] == 'sites':
                l1[site_line(c[2], prot)] = None
            elif c[0] == 'cfg':
                for r in cfgs[c[2]][0]:
                    l1[site_line(r, prot)] = None
            elif c[0] == 'seqd':
                w = '|'.join('&'.join(rule_wire(r) for r in cfgs[i][0]) + f'@{cfgs[i][1]}@{int(cfgs[i][2])}@{int(cfgs[i][3])}'
                             for i in c[2])
                l1[f'seq\t{prot}\t{w}\t{opt(c[3])}\t{opt(c[4])}'] = None
            else:
                l1[f'left\t0:{n}:0\t{opt(c[2])}\t{opt(c[3])}'] = None
                l1[f'right\t0:{n}:0\t{opt(c[2])}\t{opt(c[3])}'] = None
                l1[f'nonenz\t0:{n}:0\t{opt(c[4])}\t{opt(c[5])}'] = None
    k1 = list(l1)
    l1 = dict(zip(k1, chk.driver(DRV, k1)))

    def spec_line_for(prot, rules, mc, semi, lo, hi):
        sites = []
        for r in rules:
            sites += [x for x in l1[site_line(r, prot)].split(',') if x]
        return f'spec\t{len(prot)}\t{",".join(sites)}\t{mc}\t{opt(lo)}\t{opt(hi)}\t{int(semi)}'

    l2 = {}
    for prot, cfgs, calls in callseqs:
        for c in calls:
            if c[0] == 'digest':
                l2[spec_line_for(prot, c[2], c[3], c[4], c[5], c[6])] = None
            elif c[0] == 'cfg':
                rs, mc, semi, comp = cfgs[c[2]]
                l2[spec_line_for(prot, rs, mc, semi, c[3], c[4])] = None
    k2 = list(l2)
    l2 = dict(zip(k2, chk.driver(DRV, k2)))

    def parse_spans(t):
        return [tuple(int(x) for x in u.split(':')) for u in t.split(';') if u]

    def canon(res, rtype):
        """result of a digest-like call -> comparable list; annotations are serialised"""
        raw = res
        res = list(res)
        if rtype == 'annotation':
            return [a.serialize() for a in res], [raw] + res
        if rtype == 'annotation-span':
            return [(a.serialize(), sp) for a, sp in res], [raw] + [a for a, _ in res]
        return res, [raw]

    def proj(prot, spans_, rtype):
        if rtype == 'span':
            return list(spans_)
        if rtype in ('str', 'annotation'):
            return [prot[a:b] for a, b, _ in spans_]
        return [(prot[a:b], (a, b, v)) for a, b, v in spans_]

    def scribble(raw, annots):
        # edit what was handed out: a later call must not see it
        # annots[0] is the object the function itself returned (a generator today; a list if one is ever handed out)
        for a in annots[1:4]:
            try:
                a.add_nterm_mods('Acetyl')
                a.add_internal_mod(0, 'Oxidation')
            except Exception:  # noqa
                pass
        for obj in (annots[0], raw):
            try:
                obj.append(('ZZZ', (9, 9, 9)))
                obj.reverse()
            except Exception:  # noqa
                pass

    def o_callseq(case):
        prot, cfgs, calls = case
        n = len(prot)
        A = digestion.sequence_to_annotation(prot)
        C = [digestion.EnzymeConfig(list(rs), mc, semi, comp) for rs, mc, semi, comp in cfgs]
        for idx, c in enumerate(calls):
            seq_arg = prot if c[1] == 'str' else A
            where = f'call #{idx} {c!r} (after {calls[max(0, idx - 2):idx]!r})'
            if c[0] == 'digest':
                _, _, rules, mc, semi, lo, hi, comp, rtype, srt = c
                rl = list(rules)
                got, annots = canon(digestion.digest(seq_arg, rl, mc, semi, lo, hi, comp, rtype, srt), rtype)
                exp = set(parse_spans(l2[spec_line_for(prot, rules, mc, semi, lo, hi)]))
                if not comp:
                    exp.add((0, n, 0))
                exp = proj(prot, sorted(exp), rtype)
                if (got if srt else sorted(got)) != (exp if srt else sorted(exp)):
                    return f'{where}: got {got} expected {exp}'
                if rl != list(rules):
                    return f'{where}: the rule list argument was modified: {rl}'
                scribble(got, annots)
                rl.append('trypsin')
            elif c[0] == 'sites':
                raw_sites = digestion.get_cleavage_sites(seq_arg, c[2])
                got = list(raw_sites)
                exp = [int(x) for x in l1[site_line(c[2], prot)].split(',') if x]
                if got != exp:
                    return f'{where}: got {got} expected {exp}'
                if hasattr(raw_sites, 'append'):
                    raw_sites.append(-1)
            elif c[0] == 'cfg':
                _, _, i, lo, hi, rtype, srt = c
                rs, mc, semi, comp = cfgs[i]
                got, annots = canon(digestion.digest_from_config(seq_arg, C[i], lo, hi, rtype, srt), rtype)
                exp = set(parse_spans(l2[spec_line_for(prot, rs, mc, semi, lo, hi)]))
                if not comp:
                    exp.add((0, n, 0))
                exp = proj(prot, sorted(exp), rtype)
                if (got if srt else sorted(got)) != (exp if srt else sorted(exp)):
                    return f'{where}: got {got} expected {exp}'
                scribble(got, annots)
            elif c[0] == 'seqd':
                _, _, ids, lo, hi = c
                w = '|'.join('&'.join(rule_wire(r) for r in cfgs[i][0]) + f'@{cfgs[i][1]}@{int(cfgs[i][2])}@{int(cfgs[i][3])}'
                             for i in ids)
                raw_seq = digestion.sequential_digest(seq_arg, [C[i] for i in ids], lo, hi, 'span')
                got = list(raw_seq)
                exp = parse_spans(l1[f'seq\t{prot}\t{w}\t{opt(lo)}\t{opt(hi)}'])
                if got != exp:
                    return f'{where}: got {got} expected {exp}'
                if hasattr(raw_seq, 'clear'):
                    raw_seq.clear()
            else:
                _, _, lo, hi, lo2, hi2 = c
                gens = [digestion.get_left_semi_enzymatic_sequences(seq_arg, lo, hi, 'span'),
                        digestion.get_semi_enzymatic_sequences(seq_arg, lo, hi, 'span'),
                        digestion.get_non_enzymatic_sequences(seq_arg, lo2, hi2, 'span'),
                        digestion.get_right_semi_enzymatic_sequences(seq_arg, lo, hi, 'span'),
                        spans.build_spans(n, [1, 1, n], 1, lo, hi, True),
                        spans.build_spans(n, [1, 1, n], 1, lo, hi, False)]
                outs = [[] for _ in gens]
                live = list(range(len(gens)))
                while live:      # round robin: the generators are advanced interleaved
                    for j in list(live):
                        try:
                            outs[j].append(next(gens[j]))
                        except StopIteration:
                            live.remove(j)
                le = parse_spans(l1[f'left\t0:{n}:0\t{opt(lo)}\t{opt(hi)}'])
                ri = parse_spans(l1[f'right\t0:{n}:0\t{opt(lo)}\t{opt(hi)}'])
                ne = parse_spans(l1[f'nonenz\t0:{n}:0\t{opt(lo2)}\t{opt(hi2)}'])
                for nm_, g_, e_ in (('left', outs[0], le), ('semi', outs[1], le + ri), ('nonenz', outs[2], ne), ('right', outs[3], ri)):
                    if g_ != e_:
                        return f'{where}: interleaved {nm_} generator gave {g_} expected {e_}'
                if sorted(outs[4]) != sorted(set(spans.build_spans(n, [1, n], 1, lo, hi, True))) or \
                        outs[5] != list(spans.build_spans(n, [1, n], 1, lo, hi, False)):
                    return f'{where}: interleaved build_spans generators differ from fresh ones'
            if A.serialize() != prot:
                return f'{where}: the shared annotation argument was modified: {A.serialize()!r}'
            for i, (rs, mc, semi, comp) in enumerate(cfgs):
                if (list(C[i].regex), C[i].missed_cleavages, C[i].semi_enzymatic, C[i].complete_digestion) != (list(rs), mc, semi, comp):
                    return f'{where}: the reused EnzymeConfig #{i} was modified'
        return None

    chk.oracle('call_sequences', callseqs, o_callseq, nontrivial_fn=lambda c: len(c[0]) >= 3)
    chk.count('call_sequence_calls', sum(len(c[2]) for c in callseqs))

    return chk.finish(classify)


def classify(f):
    if f['oracle'] == 'sequential_vs_simultaneous':
        s, rs, lo, hi = f['case']
        # every position 0..n is a cleavage site of the union of rules: build_spans takes its non-specific shortcut
        from peptacular import digestion
        sites = set()
        for r in rs:
            sites |= set(digestion.get_cleavage_sites(s, r))
        if len(sites) == len(s) + 1:
            return 'KF-C06-nonspecific-shortcut'
    return None
